(* C04 wire_bound - "a request is put on the wire at most 1+retries times per session key".
   This file: the trace invariant WI and its preservation by every function of Model/Handler.v.

   History H = all outputs emitted so far (H0 = outputs of the earlier steps, outs s = outputs of the
   current step).  [wcnt x k H] = number of datagrams in H whose message is a ciphertext of a request
   with id x under key k (message packets and handshake packets).  The invariant relates, for every
   stored request, the number of datagrams already emitted that carry the SAME (id, key) pair as its
   stored packet to its transmission counter; it does not need the nonce map and the request lists to
   agree (no freshness of nonces is assumed).  Ghost state: G = the keys installed in a session so far
   (as in HandlerB_Trace*.v); z = the request ids not yet handed to the handler; ex = the requests
   taken out of the active requests by the function under consideration ("in hand"). *)
From Coq Require Import List Arith NArith Bool Lia.
From Discv5V Require Import Model.Handler Proofs.HandlerInv Proofs.HandlerA_Ledger.
From Discv5V Require Import Proofs.HandlerB_Base Proofs.HandlerB_Frame Proofs.HandlerB_Session
  Proofs.HandlerB_Step Proofs.HandlerB_Trace Proofs.HandlerB_Trace2 Proofs.HandlerB_Trace3.
Import ListNotations.

(* ------------------------------------------------------------------------------------------ *)
(* datagrams that carry a request under a key *)

Definition b2n (b : bool) : nat := if b then 1 else 0.

(* the (request id, key) pair of a packet whose message is the ciphertext of a request *)
Definition creq (p : packet) : option (N * key) :=
  match p with
  | PMsg _ _ _ (CEnc k _ (MReq rid _) _) => Some (rid, k)
  | PHs _ _ _ _ _ _ _ (CEnc k _ (MReq rid _) _) => Some (rid, k)
  | _ => None
  end.
Definition carries (x : N) (k : key) (p : packet) : bool :=
  match creq p with Some (y, k') => N.eqb y x && key_eqb k' k | None => false end.
Definition wbit (x : N) (k : key) (o : output) : nat :=
  match o with OWire _ p => b2n (carries x k p) | OEvent _ => 0 end.
Fixpoint wcnt (x : N) (k : key) (l : list output) : nat :=
  match l with [] => 0 | o :: t => wbit x k o + wcnt x k t end.

Lemma carries_iff x k p : carries x k p = true <-> creq p = Some (x, k).
Proof.
  unfold carries. destruct (creq p) as [[y k']|]; [|split; discriminate].
  rewrite andb_true_iff, N.eqb_eq, key_eqb_eq. split.
  - intros [-> ->]. reflexivity.
  - intros H. inversion H. auto.
Qed.
Lemma carries_none x k p : creq p = None -> carries x k p = false.
Proof. unfold carries. intros ->. reflexivity. Qed.
Lemma carries_some x k p y k' : creq p = Some (y, k') -> carries x k p = true -> y = x /\ k' = k.
Proof. intros E H. apply carries_iff in H. rewrite E in H. inversion H. auto. Qed.
Lemma carries_self p y k' : creq p = Some (y, k') -> carries y k' p = true.
Proof. intros E. apply carries_iff. exact E. Qed.

Lemma wcnt_app x k l1 l2 : wcnt x k (l1 ++ l2) = wcnt x k l1 + wcnt x k l2.
Proof. induction l1 as [|o t IH]; cbn [wcnt app]; [reflexivity|]. rewrite IH. lia. Qed.
Lemma wcnt_snoc x k l o : wcnt x k (l ++ [o]) = wcnt x k l + wbit x k o.
Proof. rewrite wcnt_app. cbn [wcnt]. lia. Qed.
Lemma wcnt_filter x k l :
  wcnt x k l = length (filter (fun o => match o with OWire _ p => carries x k p | OEvent _ => false end) l).
Proof.
  induction l as [|o t IH]; cbn [wcnt filter]; [reflexivity|]. rewrite IH.
  destruct o as [e|d p]; cbn [wbit]; [reflexivity|]. destruct (carries x k p); reflexivity.
Qed.

(* ------------------------------------------------------------------------------------------ *)
(* counting stored requests *)

Fixpoint cntb {A} (p : A -> bool) (l : list A) : nat :=
  match l with [] => 0 | a :: t => b2n (p a) + cntb p t end.
Lemma cntb_app {A} (p : A -> bool) l1 l2 : cntb p (l1 ++ l2) = cntb p l1 + cntb p l2.
Proof. induction l1 as [|a t IH]; cbn [cntb app]; [reflexivity|]. rewrite IH. lia. Qed.
Lemma cntb_in {A} (p : A -> bool) l a : In a l -> p a = true -> 1 <= cntb p l.
Proof.
  induction l as [|b t IH]; cbn [In cntb]; [tauto|]. intros [->|H] Hp.
  - rewrite Hp. cbn. lia.
  - specialize (IH H Hp). lia.
Qed.
Lemma cntb_pos {A} (p : A -> bool) l : 1 <= cntb p l -> exists a, In a l /\ p a = true.
Proof.
  induction l as [|b t IH]; cbn [cntb]; [lia|]. destruct (p b) eqn:E.
  - intros _. exists b. split; [left; reflexivity|exact E].
  - cbn [b2n]. intros H. destruct (IH H) as (a & H1 & H2). exists a. split; [right; exact H1|exact H2].
Qed.
Lemma remove_first_cntb {A} (p q : A -> bool) l r l' :
  remove_first q l = Some (r, l') -> cntb p l = b2n (p r) + cntb p l'.
Proof.
  revert r l'. induction l as [|a t IH]; cbn [remove_first]; intros r l' H; [discriminate|].
  destruct (q a).
  - inversion H; subst. reflexivity.
  - destruct (remove_first q t) as [[y t']|]; [|discriminate]. inversion H; subst.
    cbn [cntb]. rewrite (IH _ _ eq_refl). lia.
Qed.

Definition hold (x : N) (k : key) (l : list rcall) : nat := cntb (fun r => carries x k (rc_pkt r)) l.
Definition holdA (x : N) (k : key) (act : list (naddr * list rcall)) : nat := asum (hold x k) act.

Definition AllR (P : rcall -> Prop) (act : list (naddr * list rcall)) : Prop :=
  forall na l r, In (na, l) act -> In r l -> P r.

Lemma AllR_get P act na l : AllR P act -> alist_get na act = Some l -> forall r, In r l -> P r.
Proof. intros H G r Hr. apply alist_get_In in G. exact (H _ _ _ G Hr). Qed.
Lemma AllR_mono (P Q : rcall -> Prop) act : (forall r, P r -> Q r) -> AllR P act -> AllR Q act.
Proof. intros HPQ H na l r H1 H2. apply HPQ. exact (H _ _ _ H1 H2). Qed.
Lemma AllR_set P act na l' : AllR P act -> (forall r, In r l' -> P r) -> AllR P (alist_set na l' act).
Proof.
  intros H Hl na0 l r H1 H2. apply In_alist_set in H1. destruct H1 as [H1|H1].
  - inversion H1; subst. auto.
  - exact (H _ _ _ H1 H2).
Qed.
Lemma AllR_remove P act na : AllR P act -> AllR P (alist_remove na act).
Proof. intros H na0 l r H1 H2. apply In_alist_remove in H1. exact (H _ _ _ H1 H2). Qed.
Lemma AllR_put P act na l' : AllR P act -> (forall r, In r l' -> P r) -> AllR P (put_list na l' act).
Proof. intros H Hl. unfold put_list. destruct l'; [apply AllR_remove; exact H|apply AllR_set; assumption]. Qed.
Lemma AllR_app_new P act na r : AllR P act -> P r -> AllR P (act ++ [(na, [r])]).
Proof.
  intros H Hr na0 l r0 H1 H2. apply in_app_or in H1. destruct H1 as [H1|[H1|[]]].
  - exact (H _ _ _ H1 H2).
  - inversion H1; subst. destruct H2 as [<-|[]]. exact Hr.
Qed.

Lemma holdA_in x k act na l r :
  In (na, l) act -> In r l -> carries x k (rc_pkt r) = true -> 1 <= holdA x k act.
Proof.
  unfold holdA. induction act as [|[na0 l0] t IH]; cbn [In asum]; [tauto|]. intros [H|H] Hr Hc.
  - inversion H; subst. pose proof (cntb_in (fun r => carries x k (rc_pkt r)) l r Hr Hc). unfold hold. lia.
  - specialize (IH H Hr Hc). lia.
Qed.
Lemma holdA_pos x k act :
  1 <= holdA x k act -> exists na l r, In (na, l) act /\ In r l /\ carries x k (rc_pkt r) = true.
Proof.
  unfold holdA. induction act as [|[na0 l0] t IH]; cbn [asum]; [lia|]. intros H.
  destruct (hold x k l0) eqn:E.
  - destruct IH as (na & l & r & H1 & H2 & H3); [lia|]. exists na, l, r. split; [right; exact H1|auto].
  - destruct (cntb_pos (fun r => carries x k (rc_pkt r)) l0) as (r & H1 & H2); [unfold hold in E; lia|].
    exists na0, l0, r. split; [left; reflexivity|auto].
Qed.

(* what ActiveRequests::insert does to the request lists *)
Definition ins_act (na : naddr) (r : rcall) (act : list (naddr * list rcall)) : list (naddr * list rcall) :=
  match alist_get na act with
  | Some cur => alist_set na (cur ++ [r]) act
  | None => act ++ [(na, [r])]
  end.
Lemma active_ar_insert c h na r now : active (ar_insert c h na r now) = ins_act na r (active h).
Proof. unfold ar_insert, ins_act. cbn [set_active active]. destruct (alist_get na (active h)); reflexivity. Qed.

Lemma AllR_ins P act na r : AllR P act -> P r -> AllR P (ins_act na r act).
Proof.
  intros H Hr. unfold ins_act. destruct (alist_get na act) as [cur|] eqn:E.
  - apply AllR_set; [exact H|]. intros r0 H0. apply in_app_or in H0. destruct H0 as [H0|[<-|[]]]; [|exact Hr].
    exact (AllR_get _ _ _ _ H E _ H0).
  - apply AllR_app_new; assumption.
Qed.
Lemma asum_ins (w : list rcall -> nat) (w1 : rcall -> nat) act na r :
  (forall l, w (l ++ [r]) = w l + w1 r) -> w [r] = w1 r ->
  asum w (ins_act na r act) = asum w act + w1 r.
Proof.
  intros Happ Hone. unfold ins_act. destruct (alist_get na act) as [cur|] eqn:E.
  - pose proof (asum_set w _ _ _ (cur ++ [r]) E) as X. rewrite Happ in X. lia.
  - rewrite asum_app. cbn [asum]. rewrite Hone. lia.
Qed.
Lemma holdA_ins x k act na r : holdA x k (ins_act na r act) = holdA x k act + b2n (carries x k (rc_pkt r)).
Proof.
  unfold holdA. apply (asum_ins (hold x k) (fun r => b2n (carries x k (rc_pkt r)))).
  - intros l. unfold hold. rewrite cntb_app. cbn [cntb]. lia.
  - unfold hold. cbn [cntb]. lia.
Qed.
Lemma occ_act_ins x act na r : occ_act x (ins_act na r act) = occ_act x act + eqn (rc_rid r) x.
Proof.
  unfold occ_act. apply (asum_ins (cntf rc_rid x) (fun r => eqn (rc_rid r) x)).
  - intros l. rewrite cntf_app. cbn [cntf]. lia.
  - cbn [cntf]. lia.
Qed.

Lemma asum_put_gen (w : list rcall -> nat) act na l l' : alist_get na act = Some l -> w [] = 0 ->
  asum w (put_list na l' act) + w l = asum w act + w l'.
Proof.
  intros G H0. unfold put_list. destruct l' as [|r l'].
  - rewrite <- (asum_remove w _ _ _ G). lia.
  - apply asum_set. exact G.
Qed.

(* ------------------------------------------------------------------------------------------ *)
(* the invariant, on the components of the state *)

Definition Mx (c : config) : nat := N.to_nat (N.max 1 (cfg_retries c)).

(* a stored request: its transmission counter is in range; if its stored packet carries a request
   under a key, that (id, key) pair has been on the wire, at most [counter] times *)
Definition ROK (c : config) (H : list output) (r : rcall) : Prop :=
  (1 <= rc_retries r)%N /\ (rc_retries r <= N.max 1 (cfg_retries c))%N /\
  forall x k, creq (rc_pkt r) = Some (x, k) -> 1 <= wcnt x k H /\ wcnt x k H <= N.to_nat (rc_retries r).

Record WIP (c : config) (G : list key) (H : list output) (z : N -> nat) (ex : list rcall)
  (act : list (naddr * list rcall)) (pend : list (naddr * list preq)) (sess : list (naddr * session)) : Prop := {
  W_Rx : forall r, In r ex -> ROK c H r;
  W_Ra : AllR (ROK c H) act;
  (* at most one stored request holds a packet with a given (id, key) pair *)
  W_H : forall x k, holdA x k act + hold x k ex <= 1;
  (* the bound *)
  W_B : forall x k, wcnt x k H <= Mx c;
  (* an id that has been on the wire is not queued and will not be handed over again *)
  W_C : forall x k, 1 <= wcnt x k H -> occ_pend x pend + z x = 0;
  (* a key that has carried a request has been installed *)
  W_K : forall x k, 1 <= wcnt x k H -> In k G;
  (* request ids are unique *)
  W_U : forall x, occ_act x act + occ_pend x pend + cntf rc_rid x ex + z x <= 1;
  W_G : forall na se k, In (na, se) sess -> In k (sess_keys se) -> In k G
}.

Lemma hold_in x k l r : In r l -> carries x k (rc_pkt r) = true -> 1 <= hold x k l.
Proof. intros H1 H2. unfold hold. exact (cntb_in (fun r => carries x k (rc_pkt r)) l r H1 H2). Qed.
Lemma hold_pos x k l : 1 <= hold x k l -> exists r, In r l /\ carries x k (rc_pkt r) = true.
Proof. intros H. exact (cntb_pos (fun r => carries x k (rc_pkt r)) l H). Qed.

Section WIPFacts.
Variables (c : config) (G : list key) (H : list output) (z : N -> nat) (ex : list rcall)
  (act : list (naddr * list rcall)) (pend : list (naddr * list preq)) (sess : list (naddr * session)).
Hypothesis W : WIP c G H z ex act pend sess.

(* a pair held by a stored request has been on the wire *)
Lemma holder_sent x k : 1 <= holdA x k act + hold x k ex -> 1 <= wcnt x k H.
Proof.
  intros Hh. destruct (holdA x k act) eqn:E.
  - destruct (hold_pos x k ex) as (r & H1 & H2); [lia|].
    apply carries_iff in H2. destruct (W_Rx _ _ _ _ _ _ _ _ W r H1) as (_ & _ & X). apply (X _ _ H2).
  - destruct (holdA_pos x k act) as (na & l & r & H1 & H2 & H3); [lia|].
    apply carries_iff in H3. destruct (W_Ra _ _ _ _ _ _ _ _ W _ _ _ H1 H2) as (_ & _ & X). apply (X _ _ H3).
Qed.
Lemma unsent_unheld x k : wcnt x k H = 0 -> holdA x k act = 0 /\ hold x k ex = 0.
Proof.
  intros H0. destruct (Nat.eq_dec (holdA x k act + hold x k ex) 0) as [E|E]; [lia|].
  assert (X : 1 <= wcnt x k H) by (apply holder_sent; lia). lia.
Qed.
End WIPFacts.

(* ------------------------------------------------------------------------------------------ *)
(* monotonicity / regrouping *)

Lemma WIP_z c G H z z' ex act pend sess :
  (forall x, z' x <= z x) -> WIP c G H z ex act pend sess -> WIP c G H z' ex act pend sess.
Proof.
  intros Hz [A1 A2 A3 A4 A5 A6 A7 A8]. split; auto.
  - intros x k Hx. specialize (A5 x k Hx). specialize (Hz x). lia.
  - intros x. specialize (A7 x). specialize (Hz x). lia.
Qed.
Lemma WIP_G c G G' H z ex act pend sess :
  incl G G' -> WIP c G H z ex act pend sess -> WIP c G' H z ex act pend sess.
Proof.
  intros Hi [A1 A2 A3 A4 A5 A6 A7 A8]. split; auto.
  - intros x k Hx. apply Hi. eauto.
  - intros na se k H1 H2. apply Hi. eauto.
Qed.
Lemma WIP_sess c G H z ex act pend sess sess' :
  (forall na se' k, In (na, se') sess' -> In k (sess_keys se') -> In k G) ->
  WIP c G H z ex act pend sess -> WIP c G H z ex act pend sess'.
Proof. intros Hs [A1 A2 A3 A4 A5 A6 A7 A8]. split; auto. Qed.

(* an in-hand request is dropped (it has been failed) *)
Lemma WIP_drop c G H z r ex act pend sess :
  WIP c G H z (r :: ex) act pend sess -> WIP c G H z ex act pend sess.
Proof.
  intros [A1 A2 A3 A4 A5 A6 A7 A8]. split; auto.
  - intros r0 H0. apply A1. right. exact H0.
  - intros x k. specialize (A3 x k). unfold hold in *. cbn [cntb] in A3. lia.
  - intros x. specialize (A7 x). cbn [cntf] in A7. lia.
Qed.
Lemma WIP_drop_all c G H z l ex act pend sess :
  WIP c G H z (l ++ ex) act pend sess -> WIP c G H z ex act pend sess.
Proof. induction l as [|r t IH]; cbn [app]; [auto|]. intros W. apply IH. eapply WIP_drop. exact W. Qed.

(* a request is taken out of the request lists *)
Lemma WIP_take c G H z ex act pend sess na l q r l' :
  alist_get na act = Some l -> remove_first q l = Some (r, l') ->
  WIP c G H z ex act pend sess -> WIP c G H z (r :: ex) (put_list na l' act) pend sess.
Proof.
  intros Hg Hr [A1 A2 A3 A4 A5 A6 A7 A8].
  destruct (remove_first_spec _ _ _ _ Hr) as (_ & _ & Hin & Hsub & _).
  pose proof (AllR_get _ _ _ _ A2 Hg) as Hl.
  split; auto.
  - intros r0 [<-|H0]; [apply Hl; exact Hin|apply A1; exact H0].
  - apply AllR_put; [exact A2|]. intros r0 H0. apply Hl. apply Hsub. exact H0.
  - intros x k. specialize (A3 x k). unfold holdA in *.
    pose proof (asum_put_gen (hold x k) act na l l' Hg eq_refl) as X.
    unfold hold in *. rewrite (remove_first_cntb _ _ _ _ _ Hr) in X. cbn [cntb]. lia.
  - intros x. specialize (A7 x). unfold occ_act in *.
    pose proof (asum_put x act na l l' Hg) as X. rewrite (remove_first_cntf rc_rid x _ _ _ _ Hr) in X.
    cbn [cntf]. lia.
Qed.

(* all requests of a node address are taken out *)
Lemma WIP_take_all c G H z ex act pend sess na l :
  alist_get na act = Some l ->
  WIP c G H z ex act pend sess -> WIP c G H z (l ++ ex) (alist_remove na act) pend sess.
Proof.
  intros Hg [A1 A2 A3 A4 A5 A6 A7 A8]. pose proof (AllR_get _ _ _ _ A2 Hg) as Hl.
  split; auto.
  - intros r0 H0. apply in_app_or in H0. destruct H0 as [H0|H0]; [apply Hl; exact H0|apply A1; exact H0].
  - apply AllR_remove. exact A2.
  - intros x k. specialize (A3 x k). unfold holdA in *.
    pose proof (asum_remove (hold x k) act na l Hg) as X. unfold hold in *. rewrite cntb_app. lia.
  - intros x. specialize (A7 x). unfold occ_act in *.
    pose proof (asum_remove (cntf rc_rid x) act na l Hg) as X. rewrite cntf_app. lia.
Qed.

(* the in-hand request is stored again *)
Lemma WIP_insert c G H z r ex act pend sess na :
  WIP c G H z (r :: ex) act pend sess -> WIP c G H z ex (ins_act na r act) pend sess.
Proof.
  intros [A1 A2 A3 A4 A5 A6 A7 A8]. split; auto.
  - intros r0 H0. apply A1. right. exact H0.
  - apply AllR_ins; [exact A2|]. apply A1. left. reflexivity.
  - intros x k. specialize (A3 x k). rewrite holdA_ins. unfold hold in *. cbn [cntb] in A3. lia.
  - intros x. specialize (A7 x). rewrite occ_act_ins. cbn [cntf] in A7. lia.
Qed.

(* fields the invariant does not look at may change *)
Definition req_sim (r r' : rcall) : Prop :=
  rc_pkt r' = rc_pkt r /\ rc_rid r' = rc_rid r /\ rc_retries r' = rc_retries r.
Lemma WIP_sim c G H z r r' ex act pend sess :
  req_sim r r' -> WIP c G H z (r :: ex) act pend sess -> WIP c G H z (r' :: ex) act pend sess.
Proof.
  intros (E1 & E2 & E3) [A1 A2 A3 A4 A5 A6 A7 A8]. split; auto.
  - intros r0 [<-|H0]; [|apply A1; right; exact H0].
    destruct (A1 r (or_introl eq_refl)) as (B1 & B2 & B3). unfold ROK. rewrite E1, E3. auto.
  - intros x k. specialize (A3 x k). unfold hold in *. cbn [cntb] in *. rewrite E1. exact A3.
  - intros x. specialize (A7 x). cbn [cntf] in *. rewrite E2. exact A7.
Qed.

(* ------------------------------------------------------------------------------------------ *)
(* the history grows *)

(* an output that carries no request *)
Lemma ROK_snoc_none c H o r : (forall x k, wbit x k o = 0) -> ROK c H r -> ROK c (H ++ [o]) r.
Proof.
  intros Ho (B1 & B2 & B3). split; [exact B1|split; [exact B2|]]. intros x k E.
  rewrite wcnt_snoc, Ho. destruct (B3 x k E). lia.
Qed.
Lemma WIP_out_none c G H z ex act pend sess o :
  (forall x k, wbit x k o = 0) ->
  WIP c G H z ex act pend sess -> WIP c G (H ++ [o]) z ex act pend sess.
Proof.
  intros Ho [A1 A2 A3 A4 A5 A6 A7 A8]. split; auto.
  - intros r H0. apply ROK_snoc_none; auto.
  - eapply AllR_mono; [|exact A2]. intros r. apply ROK_snoc_none. exact Ho.
  - intros x k. rewrite wcnt_snoc, Ho. specialize (A4 x k). lia.
  - intros x k. rewrite wcnt_snoc, Ho. intros Hx. apply (A5 x k). lia.
  - intros x k. rewrite wcnt_snoc, Ho. intros Hx. apply (A6 x k). lia.
Qed.

Lemma wbit_wire x k d p : wbit x k (OWire d p) = b2n (carries x k p).
Proof. reflexivity. Qed.
Lemma wbit_none x k d p : creq p = None -> wbit x k (OWire d p) = 0.
Proof. intros E. cbn [wbit]. rewrite carries_none by exact E. reflexivity. Qed.

(* a datagram carrying the pair (x0, k0): requests whose packet carries another pair are not affected *)
Lemma ROK_snoc_other c H d p x0 k0 r :
  creq p = Some (x0, k0) -> carries x0 k0 (rc_pkt r) = false -> ROK c H r -> ROK c (H ++ [OWire d p]) r.
Proof.
  intros Ep Hn (B1 & B2 & B3). split; [exact B1|split; [exact B2|]]. intros x k E.
  rewrite wcnt_snoc, wbit_wire. destruct (B3 x k E) as [C1 C2].
  destruct (carries x k p) eqn:Ec; cbn [b2n]; [|lia].
  destruct (carries_some _ _ _ _ _ Ep Ec) as [-> ->].
  apply carries_iff in E. congruence.
Qed.

(* the timeout handler re-sends the stored packet of the in-hand request and increments its counter *)
Definition bump_retries (r : rcall) : rcall :=
  {| rc_contact := rc_contact r; rc_pkt := rc_pkt r; rc_ext := rc_ext r; rc_rid := rc_rid r;
     rc_body := rc_body r; rc_hs_sent := rc_hs_sent r; rc_retries := rc_retries r + 1;
     rc_remaining := rc_remaining r; rc_init := rc_init r |}.

Lemma WIP_resend c G H z r ex act pend sess d :
  (rc_retries r < cfg_retries c)%N ->
  WIP c G H z (r :: ex) act pend sess ->
  WIP c G (H ++ [OWire d (rc_pkt r)]) z (bump_retries r :: ex) act pend sess.
Proof.
  intros Hlt W. pose proof W as [A1 A2 A3 A4 A5 A6 A7 A8].
  destruct (A1 r (or_introl eq_refl)) as (B1 & B2 & B3).
  destruct (creq (rc_pkt r)) as [[x0 k0]|] eqn:Ep.
  - (* the packet carries (x0, k0) *)
    destruct (B3 x0 k0 eq_refl) as [C1 C2].
    assert (Hself : carries x0 k0 (rc_pkt r) = true) by (apply carries_self; exact Ep).
    assert (Hoth_ex : forall r0, In r0 ex -> carries x0 k0 (rc_pkt r0) = false).
    { intros r0 H0. destruct (carries x0 k0 (rc_pkt r0)) eqn:E0; [|reflexivity].
      pose proof (hold_in x0 k0 ex r0 H0 E0). specialize (A3 x0 k0). unfold hold in *. cbn [cntb] in A3.
      rewrite Hself in A3. cbn [b2n] in A3. lia. }
    assert (Hoth_act : forall na l r0, In (na, l) act -> In r0 l -> carries x0 k0 (rc_pkt r0) = false).
    { intros na l r0 H1 H2. destruct (carries x0 k0 (rc_pkt r0)) eqn:E0; [|reflexivity].
      pose proof (holdA_in x0 k0 act na l r0 H1 H2 E0). specialize (A3 x0 k0). unfold hold in *. cbn [cntb] in A3.
      rewrite Hself in A3. cbn [b2n] in A3. lia. }
    split.
    + intros r0 [<-|H0].
      * split; [cbn [bump_retries rc_retries]; lia|split; [cbn [bump_retries rc_retries]; lia|]].
        cbn [bump_retries rc_pkt rc_retries]. intros x k E. rewrite Ep in E. inversion E; subst.
        rewrite wcnt_snoc, wbit_wire, Hself. cbn [b2n]. lia.
      * eapply ROK_snoc_other; [exact Ep|apply Hoth_ex; exact H0|apply A1; right; exact H0].
    + intros na l r0 H1 H2. eapply ROK_snoc_other; [exact Ep|eapply Hoth_act; eauto|eapply A2; eauto].
    + intros x k. specialize (A3 x k). unfold hold in *. cbn [cntb bump_retries rc_pkt] in *. exact A3.
    + intros x k. rewrite wcnt_snoc, wbit_wire. specialize (A4 x k).
      destruct (carries x k (rc_pkt r)) eqn:Ec; cbn [b2n]; [|lia].
      destruct (carries_some _ _ _ _ _ Ep Ec) as [-> ->]. unfold Mx. lia.
    + intros x k. rewrite wcnt_snoc, wbit_wire. intros Hx.
      destruct (carries x k (rc_pkt r)) eqn:Ec; cbn [b2n] in Hx; [|apply (A5 x k); lia].
      destruct (carries_some _ _ _ _ _ Ep Ec) as [-> ->]. apply (A5 x k). exact C1.
    + intros x k. rewrite wcnt_snoc, wbit_wire. intros Hx.
      destruct (carries x k (rc_pkt r)) eqn:Ec; cbn [b2n] in Hx; [|apply (A6 x k); lia].
      destruct (carries_some _ _ _ _ _ Ep Ec) as [-> ->]. apply (A6 x k). exact C1.
    + intros x. specialize (A7 x). cbn [cntf bump_retries rc_rid] in *. exact A7.
    + exact A8.
  - (* a random packet *)
    assert (Ho : forall x k, wbit x k (OWire d (rc_pkt r)) = 0) by (intros; apply wbit_none; exact Ep).
    apply (WIP_out_none _ _ _ _ _ _ _ _ _ Ho) in W. destruct W as [A1' A2' A3' A4' A5' A6' A7' A8'].
    split; [|exact A2'| |exact A4'|exact A5'|exact A6'| |exact A8'].
    + intros r0 [<-|H0]; [|apply A1'; right; exact H0].
      split; [cbn [bump_retries rc_retries]; lia|split; [cbn [bump_retries rc_retries]; lia|]].
      cbn [bump_retries rc_pkt]. intros x k E. congruence.
    + intros x k. specialize (A3' x k). unfold hold in *. cbn [cntb bump_retries rc_pkt] in *. exact A3'.
    + intros x. specialize (A7' x). cbn [cntf bump_retries rc_rid] in *. exact A7'.
Qed.

(* a new request r with id rid (not handed over before) is sent for the first time: its packet is
   random, or carries (rid, k) for an installed key k *)
Lemma WIP_first_send c G H z rid r ex act pend sess d :
  rc_rid r = rid -> rc_retries r = 1%N ->
  (creq (rc_pkt r) = None \/ exists k, creq (rc_pkt r) = Some (rid, k) /\ In k G) ->
  WIP c G H (fun x => z x + eqn rid x) ex act pend sess ->
  WIP c G (H ++ [OWire d (rc_pkt r)]) z (r :: ex) act pend sess.
Proof.
  intros Erid Eret Hp W.
  assert (Hfresh : forall k, wcnt rid k H = 0).
  { intros k. destruct (wcnt rid k H) eqn:E; [reflexivity|].
    pose proof (W_C _ _ _ _ _ _ _ _ W rid k) as X. cbv beta in X. rewrite eqn_refl in X. lia. }
  assert (Hu : forall x, occ_act x act + occ_pend x pend + cntf rc_rid x ex + z x + eqn rid x <= 1).
  { intros x. pose proof (W_U _ _ _ _ _ _ _ _ W x) as X. cbv beta in X. lia. }
  assert (Hret : (1 <= rc_retries r)%N /\ (rc_retries r <= N.max 1 (cfg_retries c))%N) by (rewrite Eret; lia).
  destruct Hp as [Ep|(k0 & Ep & Hk0)].
  - assert (Ho : forall x k, wbit x k (OWire d (rc_pkt r)) = 0) by (intros; apply wbit_none; exact Ep).
    apply (WIP_out_none _ _ _ _ _ _ _ _ _ Ho) in W. destruct W as [A1 A2 A3 A4 A5 A6 A7 A8].
    split; [|exact A2| |exact A4| |exact A6| |exact A8].
    + intros r0 [<-|H0]; [|apply A1; exact H0]. split; [apply Hret|split; [apply Hret|]]. intros x k E. congruence.
    + intros x k. specialize (A3 x k). unfold hold in *. cbn [cntb]. rewrite carries_none by exact Ep. cbn [b2n]. lia.
    + intros x k Hx. specialize (A5 x k Hx). lia.
    + intros x. specialize (Hu x). cbn [cntf]. rewrite Erid. lia.
  - destruct (unsent_unheld _ _ _ _ _ _ _ _ W rid k0 (Hfresh k0)) as [Hh1 Hh2].
    destruct W as [A1 A2 A3 A4 A5 A6 A7 A8].
    assert (Hself : carries rid k0 (rc_pkt r) = true) by (apply carries_self; exact Ep).
    assert (Hoth_ex : forall r0, In r0 ex -> carries rid k0 (rc_pkt r0) = false).
    { intros r0 H0. destruct (carries rid k0 (rc_pkt r0)) eqn:E0; [|reflexivity].
      pose proof (hold_in rid k0 ex r0 H0 E0). lia. }
    assert (Hoth_act : forall na l r0, In (na, l) act -> In r0 l -> carries rid k0 (rc_pkt r0) = false).
    { intros na l r0 H1 H2. destruct (carries rid k0 (rc_pkt r0)) eqn:E0; [|reflexivity].
      pose proof (holdA_in rid k0 act na l r0 H1 H2 E0). lia. }
    split.
    + intros r0 [<-|H0].
      * split; [apply Hret|split; [apply Hret|]]. intros x k E. rewrite Ep in E. inversion E; subst.
        rewrite wcnt_snoc, wbit_wire, Hself, Hfresh, Eret. cbn. lia.
      * eapply ROK_snoc_other; [exact Ep|apply Hoth_ex; exact H0|apply A1; exact H0].
    + intros na l r0 H1 H2. eapply ROK_snoc_other; [exact Ep|eapply Hoth_act; eauto|eapply A2; eauto].
    + intros x k. specialize (A3 x k). unfold hold in *. cbn [cntb].
      destruct (carries x k (rc_pkt r)) eqn:Ec; cbn [b2n]; [|lia].
      destruct (carries_some _ _ _ _ _ Ep Ec) as [-> ->]. unfold hold in Hh2. lia.
    + intros x k. rewrite wcnt_snoc, wbit_wire. specialize (A4 x k).
      destruct (carries x k (rc_pkt r)) eqn:Ec; cbn [b2n]; [|lia].
      destruct (carries_some _ _ _ _ _ Ep Ec) as [-> ->]. rewrite Hfresh. unfold Mx. lia.
    + intros x k. rewrite wcnt_snoc, wbit_wire. intros Hx.
      destruct (carries x k (rc_pkt r)) eqn:Ec; cbn [b2n] in Hx.
      * destruct (carries_some _ _ _ _ _ Ep Ec) as [-> ->]. specialize (Hu x). rewrite eqn_refl in Hu.
        unfold occ_pend in *. lia.
      * assert (Hx' : 1 <= wcnt x k H) by lia. specialize (A5 x k Hx'). lia.
    + intros x k. rewrite wcnt_snoc, wbit_wire. intros Hx.
      destruct (carries x k (rc_pkt r)) eqn:Ec; cbn [b2n] in Hx; [|apply (A6 x k); lia].
      destruct (carries_some _ _ _ _ _ Ep Ec) as [-> ->]. exact Hk0.
    + intros x. specialize (Hu x). cbn [cntf]. rewrite Erid. lia.
    + exact A8.
Qed.

(* ids move between the pending queues and the ids not yet handed over: only the sum matters *)
Lemma WIP_pend c G H z z' ex act pend pend' sess :
  (forall x, occ_pend x pend' + z' x = occ_pend x pend + z x) ->
  WIP c G H z ex act pend sess -> WIP c G H z' ex act pend' sess.
Proof.
  intros Hz [A1 A2 A3 A4 A5 A6 A7 A8]. split; auto.
  - intros x k Hx. specialize (A5 x k Hx). specialize (Hz x). lia.
  - intros x. specialize (A7 x). specialize (Hz x). lia.
Qed.

(* a datagram with a pair (x0, k0) that has never been on the wire; the request lists may at the
   same time replace the packet of stored requests by the new packet *)
Definition set_pkt (r : rcall) (p : packet) : rcall :=
  {| rc_contact := rc_contact r; rc_pkt := p; rc_ext := rc_ext r; rc_rid := rc_rid r;
     rc_body := rc_body r; rc_hs_sent := rc_hs_sent r; rc_retries := rc_retries r;
     rc_remaining := rc_remaining r; rc_init := rc_init r |}.

Lemma WIP_wire_fresh c G H z ex act act' pend sess d p x0 k0 :
  creq p = Some (x0, k0) -> wcnt x0 k0 H = 0 -> In k0 G -> occ_pend x0 pend + z x0 = 0 ->
  (forall na l r', In (na, l) act' -> In r' l ->
     (exists na0 l0, In (na0, l0) act /\ In r' l0) \/
     (exists na0 l0 r0, In (na0, l0) act /\ In r0 l0 /\ r' = set_pkt r0 p)) ->
  (forall x k, holdA x k act' <= holdA x k act + b2n (carries x k p)) ->
  (forall x, occ_act x act' = occ_act x act) ->
  WIP c G H z ex act pend sess -> WIP c G (H ++ [OWire d p]) z ex act' pend sess.
Proof.
  intros Ep Hf Hk Hc Hin Hh Ho W.
  destruct (unsent_unheld _ _ _ _ _ _ _ _ W x0 k0 Hf) as [Hh1 Hh2].
  destruct W as [A1 A2 A3 A4 A5 A6 A7 A8].
  assert (Hoth_ex : forall r0, In r0 ex -> carries x0 k0 (rc_pkt r0) = false).
  { intros r0 H0. destruct (carries x0 k0 (rc_pkt r0)) eqn:E0; [|reflexivity].
    pose proof (hold_in x0 k0 ex r0 H0 E0). lia. }
  assert (Hoth_act : forall na l r0, In (na, l) act -> In r0 l -> carries x0 k0 (rc_pkt r0) = false).
  { intros na l r0 H1 H2. destruct (carries x0 k0 (rc_pkt r0)) eqn:E0; [|reflexivity].
    pose proof (holdA_in x0 k0 act na l r0 H1 H2 E0). lia. }
  split.
  - intros r0 H0. eapply ROK_snoc_other; [exact Ep|apply Hoth_ex; exact H0|apply A1; exact H0].
  - intros na l r' H1 H2. destruct (Hin _ _ _ H1 H2) as [(na0 & l0 & I1 & I2)|(na0 & l0 & r0 & I1 & I2 & ->)].
    + eapply ROK_snoc_other; [exact Ep|eapply Hoth_act; eauto|eapply A2; eauto].
    + destruct (A2 _ _ _ I1 I2) as (B1 & B2 & _). split; [exact B1|split; [exact B2|]].
      cbn [set_pkt rc_pkt rc_retries]. intros x k E. rewrite Ep in E. inversion E; subst.
      rewrite wcnt_snoc, wbit_wire, (carries_self _ _ _ Ep), Hf. cbn [b2n]. lia.
  - intros x k. specialize (A3 x k). specialize (Hh x k).
    destruct (carries x k p) eqn:Ec; cbn [b2n] in Hh; [|lia].
    destruct (carries_some _ _ _ _ _ Ep Ec) as [-> ->]. lia.
  - intros x k. rewrite wcnt_snoc, wbit_wire. specialize (A4 x k).
    destruct (carries x k p) eqn:Ec; cbn [b2n]; [|lia].
    destruct (carries_some _ _ _ _ _ Ep Ec) as [-> ->]. rewrite Hf. unfold Mx. lia.
  - intros x k. rewrite wcnt_snoc, wbit_wire. intros Hx.
    destruct (carries x k p) eqn:Ec; cbn [b2n] in Hx; [|apply (A5 x k); lia].
    destruct (carries_some _ _ _ _ _ Ep Ec) as [-> ->]. exact Hc.
  - intros x k. rewrite wcnt_snoc, wbit_wire. intros Hx.
    destruct (carries x k p) eqn:Ec; cbn [b2n] in Hx; [|apply (A6 x k); lia].
    destruct (carries_some _ _ _ _ _ Ep Ec) as [-> ->]. exact Hk.
  - intros x. rewrite Ho. apply A7.
  - exact A8.
Qed.

(* the in-hand request gets a handshake packet under a key that has carried nothing yet *)
Lemma WIP_hshake c G H z r r' ex act pend sess d ke :
  rc_rid r' = rc_rid r -> rc_retries r' = rc_retries r ->
  creq (rc_pkt r') = Some (rc_rid r, ke) -> (forall x, wcnt x ke H = 0) -> In ke G ->
  WIP c G H z (r :: ex) act pend sess ->
  WIP c G (H ++ [OWire d (rc_pkt r')]) z (r' :: ex) act pend sess.
Proof.
  intros Erid Eret Ep Hf Hk W.
  pose proof (W_U _ _ _ _ _ _ _ _ W) as Hu.
  destruct (W_Rx _ _ _ _ _ _ _ _ W r (or_introl eq_refl)) as (B1 & B2 & _).
  assert (Hc : occ_pend (rc_rid r) pend + z (rc_rid r) = 0).
  { specialize (Hu (rc_rid r)). cbn [cntf] in Hu. rewrite eqn_refl in Hu. lia. }
  apply WIP_drop in W.
  assert (W' : WIP c G (H ++ [OWire d (rc_pkt r')]) z ex act pend sess).
  { eapply (WIP_wire_fresh c G H z ex act act); [exact Ep|apply Hf|exact Hk|exact Hc| | | |exact W].
    - intros na l r0 H1 H2. left. eauto.
    - intros x k. lia.
    - reflexivity. }
  destruct (unsent_unheld _ _ _ _ _ _ _ _ W (rc_rid r) ke (Hf _)) as [Hh1 Hh2].
  destruct W' as [A1 A2 A3 A4 A5 A6 A7 A8]. destruct W as [_ _ A3o _ _ _ _ _].
  split; auto.
  - intros r0 [<-|H0]; [|apply A1; exact H0]. split; [rewrite Eret; exact B1|split; [rewrite Eret; exact B2|]].
    intros x k E. rewrite Ep in E. inversion E; subst.
    rewrite wcnt_snoc, wbit_wire, (carries_self _ _ _ Ep), Hf, Eret. cbn [b2n]. lia.
  - intros x k. specialize (A3o x k). unfold hold in *. cbn [cntb].
    destruct (carries x k (rc_pkt r')) eqn:Ec; cbn [b2n]; [|lia].
    destruct (carries_some _ _ _ _ _ Ep Ec) as [E1 E2]. subst x k. lia.
  - intros x. specialize (Hu x). cbn [cntf] in *. rewrite Erid. exact Hu.
Qed.

(* the local fixpoint of ar_update_packet: where the requests of the new list come from *)
Lemma upd_pkt_in old p l done r' :
  In r' (upd_pkt old p l done) -> In r' l \/ exists r0, In r0 l /\ r' = set_pkt r0 p.
Proof.
  revert done. induction l as [|r t IH]; intros done; cbn [upd_pkt]; [tauto|].
  destruct (negb done && nonce_eqb (rc_nonce r) old); intros [<-|H0].
  - right. exists r. split; [left; reflexivity|reflexivity].
  - destruct (IH _ H0) as [H1|(r0 & H1 & H2)]; [left; right; exact H1|right; exists r0; split; [right; exact H1|exact H2]].
  - left. left. reflexivity.
  - destruct (IH _ H0) as [H1|(r0 & H1 & H2)]; [left; right; exact H1|right; exists r0; split; [right; exact H1|exact H2]].
Qed.
Lemma upd_pkt_hold x k old p l done :
  hold x k (upd_pkt old p l done) <= hold x k l + (if done then 0 else b2n (carries x k p)).
Proof.
  unfold hold. revert done. induction l as [|r t IH]; intros done; cbn [upd_pkt cntb]; [lia|].
  destruct (negb done && nonce_eqb (rc_nonce r) old) eqn:E; cbn [cntb rc_pkt].
  - destruct done; [discriminate|]. specialize (IH true). cbn in IH. lia.
  - specialize (IH done). lia.
Qed.

Lemma WIP_update c G H z ex pend sess d p x0 k0 cfg h old now :
  creq p = Some (x0, k0) -> wcnt x0 k0 H = 0 -> In k0 G -> occ_pend x0 pend + z x0 = 0 ->
  WIP c G H z ex (active h) pend sess ->
  WIP c G (H ++ [OWire d p]) z ex (active (ar_update_packet cfg h old p now)) pend sess.
Proof.
  intros Ep Hf Hk Hc W. rewrite ar_update_packet_eq.
  assert (Hsame : WIP c G (H ++ [OWire d p]) z ex (active h) pend sess).
  { eapply (WIP_wire_fresh c G H z ex (active h) (active h)); [exact Ep|exact Hf|exact Hk|exact Hc| | | |exact W].
    - intros na l r0 H1 H2. left. eauto.
    - intros x k. lia.
    - reflexivity. }
  destruct (nmap_get old (nmap h)) as [na|]; [|exact Hsame]. cbv zeta.
  destruct (alist_get na (active h)) as [l|] eqn:Eg; [|exact Hsame]. cbn [set_active active].
  eapply (WIP_wire_fresh c G H z ex (active h)); [exact Ep|exact Hf|exact Hk|exact Hc| | | |exact W].
  - intros na0 l0 r' H1 H2. apply In_alist_set in H1. destruct H1 as [H1|H1].
    + inversion H1; subst. apply alist_get_In in Eg.
      destruct (upd_pkt_in _ _ _ _ _ H2) as [H3|(r0 & H3 & ->)]; [left; eauto|right; eauto 6].
    + left. eauto.
  - intros x k. unfold holdA. pose proof (asum_set (hold x k) _ _ _ (upd_pkt old p l false) Eg) as X.
    pose proof (upd_pkt_hold x k old p l false) as Y. cbv iota in Y. lia.
  - intros x. unfold occ_act. pose proof (asum_set (cntf rc_rid x) _ _ _ (upd_pkt old p l false) Eg) as X.
    rewrite upd_pkt_cntf in X. lia.
Qed.

(* ------------------------------------------------------------------------------------------ *)
(* the invariant on the step monad: history before the step ++ outputs so far *)

Definition WI (c : config) (G : list key) (H0 : list output) (z : N -> nat) (ex : list rcall) (s : st) : Prop :=
  WIP c G (H0 ++ outs s) z ex (active (hs s)) (pending (hs s)) (sessions (hs s)).

Lemma WI_z c G H0 z z' ex s : (forall x, z' x <= z x) -> WI c G H0 z ex s -> WI c G H0 z' ex s.
Proof. intros Hz. apply WIP_z. exact Hz. Qed.
Lemma WI_G c G G' H0 z ex s : incl G G' -> WI c G H0 z ex s -> WI c G' H0 z ex s.
Proof. intros Hi. apply WIP_G. exact Hi. Qed.
Lemma WI_drop c G H0 z r ex s : WI c G H0 z (r :: ex) s -> WI c G H0 z ex s.
Proof. apply WIP_drop. Qed.
Lemma WI_dr c G H0 z ex s d : WI c G H0 z ex s -> WI c G H0 z ex {| hs := hs s; dr := d; outs := outs s |}.
Proof. intros W. exact W. Qed.

(* state changes that leave the request lists and the queues alone and create no session key *)
Lemma WI_frame c G H0 z ex s h :
  active h = active (hs s) -> pending h = pending (hs s) -> SessD (hs s) h ->
  WI c G H0 z ex s -> WI c G H0 z ex (with_hs s h).
Proof.
  intros E1 E2 HD W. unfold WI in *. cbn [with_hs hs outs]. rewrite E1, E2.
  eapply WIP_sess; [|exact W]. intros na se' k Hin Hk.
  destruct (HD _ _ Hin) as (se & H1 & H2 & _). eapply (W_G _ _ _ _ _ _ _ _ W); [exact H1|]. apply H2. exact Hk.
Qed.
Lemma WI_frame_same c G H0 z ex s h :
  active h = active (hs s) -> pending h = pending (hs s) -> sessions h = sessions (hs s) ->
  WI c G H0 z ex s -> WI c G H0 z ex (with_hs s h).
Proof. intros E1 E2 E3. apply WI_frame; [exact E1|exact E2|apply SessD_same; exact E3]. Qed.

Lemma WI_add_expected c G H0 z ex s a : WI c G H0 z ex s -> WI c G H0 z ex (add_expected s a).
Proof. intros W. unfold add_expected. apply WI_frame_same; auto. Qed.
Lemma WI_remove_expected c G H0 z ex s a : WI c G H0 z ex s -> WI c G H0 z ex (remove_expected s a).
Proof. intros W. unfold remove_expected. apply WI_frame_same; auto. Qed.

Lemma hist_emit (H0 : list output) s o : H0 ++ outs (emit s o) = (H0 ++ outs s) ++ [o].
Proof. cbn [emit outs]. apply app_assoc. Qed.

Lemma WI_emit_event c G H0 z ex s e : WI c G H0 z ex s -> WI c G H0 z ex (emit s (OEvent e)).
Proof. intros W. unfold WI. rewrite hist_emit. cbn [emit hs]. apply WIP_out_none; [reflexivity|exact W]. Qed.
Lemma WI_send_none c G H0 z ex s na p : creq p = None -> WI c G H0 z ex s -> WI c G H0 z ex (send s na p).
Proof.
  intros Ep W. unfold WI, send. rewrite hist_emit. cbn [emit hs].
  apply WIP_out_none; [intros; apply wbit_none; exact Ep|exact W].
Qed.

Lemma pending_sess_get c h na : pending (fst (sess_get c h na)) = pending h.
Proof. apply (sess_get_frame c h na). Qed.
Lemma active_sess_get' c h na : active (fst (sess_get c h na)) = active h.
Proof. apply (sess_get_frame c h na). Qed.

(* the invariant does not look at the clock of the environment *)
Lemma WI_clock c t G H0 z ex s : WI (with_clock c t) G H0 z ex s <-> WI c G H0 z ex s.
Proof. split; intros [A1 A2 A3 A4 A5 A6 A7 A8]; split; assumption. Qed.

(* the configuration [c'] whose clock the session cache reads need not be the one of the invariant *)
Lemma WI_sess_get c' c G H0 z ex s na :
  WI c G H0 z ex s -> WI c G H0 z ex (with_hs s (fst (sess_get c' (hs s) na))).
Proof.
  intros W. apply WI_frame; [apply active_sess_get'|apply pending_sess_get| |exact W].
  destruct (QH_sess_get c' (hs s) na) as (_ & HD & _). exact HD.
Qed.

Lemma WI_is_awaiting c' c G H0 z ex s na :
  WI c G H0 z ex s -> WI c G H0 z ex (fst (is_awaiting_session c' s na)).
Proof.
  intros W. unfold is_awaiting_session. pose proof (WI_sess_get c' c G H0 z ex s na W) as X.
  destruct (sess_get c' (hs s) na) as [h se]. cbn [fst] in X. destruct se; exact X.
Qed.

(* Handler::remove_expired_sessions: sessions disappear, one event *)
Lemma WI_remove_expired c' c G H0 z ex s : WI c G H0 z ex s -> WI c G H0 z ex (remove_expired_sessions c' s).
Proof.
  intros W. rewrite remove_expired_sessions_eq. destruct (fst (drop_expired c' (sessions (hs s)))) as [|k ks]; [exact W|].
  apply WI_emit_event. apply WI_frame; [reflexivity|reflexivity| |exact W].
  destruct (QH_drop_expired c' (hs s)) as (_ & HD & _). exact HD.
Qed.
Lemma remove_expired_wcnt c s x k H0 :
  wcnt x k (H0 ++ outs (remove_expired_sessions c s)) = wcnt x k (H0 ++ outs s).
Proof.
  destruct (remove_expired_sessions_outs c s) as [l [E F]].
  rewrite remove_expired_sessions_eq in *. destruct (fst (drop_expired c (sessions (hs s)))) as [|k0 ks]; [reflexivity|].
  cbn [emit outs with_hs]. rewrite app_assoc, wcnt_snoc. cbn [wbit]. lia.
Qed.
Lemma remove_expired_active c s : active (hs (remove_expired_sessions c s)) = active (hs s).
Proof. apply (remove_expired_sessions_frame c s). Qed.

(* sess_put of a descendant of the session found by sess_get *)
Lemma WI_sess_put c G H0 z ex s na se se' :
  In (na, se) (sessions (hs s)) -> sess_desc se se' ->
  WI c G H0 z ex s -> WI c G H0 z ex (with_hs s (sess_put (hs s) na se')).
Proof.
  intros Hin Hd W. apply WI_frame; [reflexivity|reflexivity| |exact W].
  destruct (QH_sess_put (hs s) na se se' Hin Hd) as (_ & HD & _). exact HD.
Qed.

Lemma WI_insert c G H0 z r ex s cfg na now :
  WI c G H0 z (r :: ex) s -> WI c G H0 z ex (with_hs s (ar_insert cfg (hs s) na r now)).
Proof.
  intros W. unfold WI in *. cbn [with_hs hs outs]. rewrite active_ar_insert.
  change (pending (ar_insert cfg (hs s) na r now)) with (pending (hs s)).
  change (sessions (ar_insert cfg (hs s) na r now)) with (sessions (hs s)).
  apply WIP_insert. exact W.
Qed.

Lemma WI_first_send c G H0 z rid r ex s na :
  rc_rid r = rid -> rc_retries r = 1%N ->
  (creq (rc_pkt r) = None \/ exists k, creq (rc_pkt r) = Some (rid, k) /\ In k G) ->
  WI c G H0 (fun x => z x + eqn rid x) ex s -> WI c G H0 z (r :: ex) (send s na (rc_pkt r)).
Proof.
  intros E1 E2 Hp W. unfold WI, send. rewrite hist_emit. cbn [emit hs].
  eapply WIP_first_send; eauto.
Qed.

Lemma occ_pend_push x h na q :
  occ_pend x (pending (push_pending h na q)) = occ_pend x (pending h) + eqn (pq_rid q) x.
Proof.
  pose proof (occ_push_pending x h na q) as X. unfold occ in X.
  assert (E : active (push_pending h na q) = active h).
  { unfold push_pending. destruct (alist_get na (pending h)); reflexivity. }
  rewrite E in X. lia.
Qed.
Lemma sessions_push_pending' h na q : sessions (push_pending h na q) = sessions h.
Proof. unfold push_pending. destruct (alist_get na (pending h)); reflexivity. Qed.
Lemma active_push_pending' h na q : active (push_pending h na q) = active h.
Proof. unfold push_pending. destruct (alist_get na (pending h)); reflexivity. Qed.

Lemma WI_push_pending c G H0 z ex s na q :
  WI c G H0 (fun x => z x + eqn (pq_rid q) x) ex s -> WI c G H0 z ex (with_hs s (push_pending (hs s) na q)).
Proof.
  intros W. unfold WI in *. cbn [with_hs hs outs]. rewrite active_push_pending', sessions_push_pending'.
  eapply WIP_pend; [|exact W]. intros x. cbv beta. rewrite occ_pend_push. lia.
Qed.

(* Handler::send_request: the id [rid] is handed over *)
Lemma WI_send_request c G H0 z ex s ct ext rid body now :
  WI c G H0 (fun x => z x + eqn rid x) ex s -> WI c G H0 z ex (fst (send_request c s ct ext rid body now)).
Proof.
  intros W. unfold send_request.
  destruct (existsb (N.eqb (c_addr ct)) (cfg_listen c)).
  { cbn [fst]. eapply WI_z; [|exact W]. intros x. cbv beta. lia. }
  set (na := c_naddr ct).
  assert (Ha : WI c G H0 (fun x => z x + eqn rid x) ex
                 (fst (if has_challenge (hs s) na then (s, true) else is_awaiting_session c s na))).
  { destruct (has_challenge (hs s) na); [exact W|apply (WI_is_awaiting c); exact W]. }
  destruct (if has_challenge (hs s) na then (s, true) else is_awaiting_session c s na) as [s1 awaiting].
  cbn [fst] in Ha. destruct awaiting; cbn [fst].
  - apply (WI_push_pending c G H0 z ex s1 na {| pq_contact := ct; pq_ext := ext; pq_rid := rid; pq_body := body |}).
    exact Ha.
  - pose proof (WI_sess_get c c G H0 _ ex s1 na Ha) as Hg. pose proof (sess_get_got c (hs s1) na) as Hgot.
    destruct (sess_get c (hs s1) na) as [h2 se]. cbn [fst snd] in Hg, Hgot.
    destruct se as [se|].
    + rewrite encrypt_message_eq. cbn [fst snd].
      match goal with |- WI _ _ _ _ _ (with_hs (send ?s4 _ ?p) (ar_insert _ _ _ ?call _)) =>
        change p with (rc_pkt call) end.
      apply WI_insert. apply (WI_first_send c G H0 z rid); [reflexivity|reflexivity| |].
      * right. exists (s_enc se). split; [reflexivity|].
        eapply (W_G _ _ _ _ _ _ _ _ Hg); [apply Hgot; reflexivity|]. left. reflexivity.
      * apply WI_add_expected.
        apply (WI_sess_put c G H0 _ ex {| hs := h2; dr := snd (pop_pk (dr s1)); outs := outs s1 |} na se (bump se)).
        -- apply Hgot. reflexivity.
        -- apply bump_desc.
        -- exact Hg.
    + destruct (pop_pk (dr (with_hs s1 h2))) as [[[[cn r] aad] e0] d'] eqn:Ep. cbn [fst snd].
      match goal with |- WI _ _ _ _ _ (with_hs (send ?s4 _ ?p) (ar_insert _ _ _ ?call _)) =>
        change p with (rc_pkt call) end.
      apply WI_insert. apply (WI_first_send c G H0 z rid); [reflexivity|reflexivity|left; reflexivity|].
      apply WI_add_expected. exact Hg.
Qed.

Lemma occ_pend_remove x pend na l :
  alist_get na pend = Some l -> occ_pend x (alist_remove na pend) + cntf pq_rid x l = occ_pend x pend.
Proof. intros Hg. unfold occ_pend. exact (asum_remove (cntf pq_rid x) pend na l Hg). Qed.

(* the queue of a node address is taken out: its ids count as not yet handed over *)
Lemma WI_take_pending c G H0 z ex s na l :
  alist_get na (pending (hs s)) = Some l -> WI c G H0 z ex s ->
  WI c G H0 (fun x => z x + cntf pq_rid x l) ex (with_hs s (set_pending (hs s) (alist_remove na (pending (hs s))))).
Proof.
  intros Hg W. unfold WI in *. cbn [with_hs hs outs set_pending active pending sessions].
  eapply WIP_pend; [|exact W]. intros x. cbv beta. pose proof (occ_pend_remove x _ _ _ Hg). lia.
Qed.

Lemma WI_send_pending_fold c G H0 ex now l : forall z s0,
  WI c G H0 (fun x => z x + cntf pq_rid x l) ex s0 ->
  WI c G H0 z ex
    (fold_left (fun s q =>
      let (s', ok) := send_request c s (pq_contact q) (pq_ext q) (pq_rid q) (pq_body q) now in
      if ok then s'
      else if pq_ext q then emit s' (OEvent (HRequestFailed (pq_rid q) ERR_SELF_REQUEST)) else s') l s0).
Proof.
  induction l as [|q t IH]; intros z s0 W; cbn [fold_left].
  - eapply WI_z; [|exact W]. intros x. cbv beta. cbn [cntf]. lia.
  - apply IH.
    pose proof (WI_send_request c G H0 (fun x => z x + cntf pq_rid x t) ex s0 (pq_contact q) (pq_ext q) (pq_rid q)
                  (pq_body q) now) as X.
    destruct (send_request c s0 (pq_contact q) (pq_ext q) (pq_rid q) (pq_body q) now) as [s' ok]. cbn [fst] in X.
    assert (Y : WI c G H0 (fun x => z x + cntf pq_rid x t) ex s').
    { apply X. eapply WI_z; [|exact W]. intros x. cbv beta. cbn [cntf]. lia. }
    destruct ok; [exact Y|]. destruct (pq_ext q); [apply WI_emit_event; exact Y|exact Y].
Qed.

Lemma WI_send_pending_requests c G H0 z ex s na now :
  WI c G H0 z ex s -> WI c G H0 z ex (send_pending_requests c s na now).
Proof.
  intros W. unfold send_pending_requests. destruct (alist_get na (pending (hs s))) as [l|] eqn:Hg; [|exact W].
  apply WI_send_pending_fold. apply WI_take_pending; assumption.
Qed.

Lemma WI_fold_events {B} c G H0 z ex (b : B -> bool) (e : B -> hout) (l : list B) : forall s,
  WI c G H0 z ex s -> WI c G H0 z ex (fold_left (fun s q => if b q then emit s (OEvent (e q)) else s) l s).
Proof.
  induction l as [|q t IH]; intros s W; cbn [fold_left]; [exact W|]. apply IH.
  destruct (b q); [apply WI_emit_event; exact W|exact W].
Qed.

Lemma WI_take_all c G H0 z ex s na h3 reqs :
  ar_remove_requests (hs s) na = (h3, reqs) -> WI c G H0 z ex s -> WI c G H0 z (reqs ++ ex) (with_hs s h3).
Proof.
  intros E W. unfold ar_remove_requests in E. destruct (alist_get na (active (hs s))) as [l|] eqn:Hg.
  - inversion E; subst. unfold WI in *. cbn [with_hs hs outs set_active active pending sessions].
    apply WIP_take_all; assumption.
  - inversion E; subst. cbn [app]. exact W.
Qed.

Lemma WI_drop_all c G H0 z l ex s : WI c G H0 z (l ++ ex) s -> WI c G H0 z ex s.
Proof. apply WIP_drop_all. Qed.

(* Handler::fail_session *)
Lemma WI_fail_session c G H0 z ex s na err rm :
  WI c G H0 z ex s -> WI c G H0 z ex (fail_session c s na err rm).
Proof.
  intros W. unfold fail_session.
  set (s1 := if rm then let s0 := remove_expired_sessions c s in with_hs s0 (sess_remove (hs s0) na) else s).
  assert (W1 : WI c G H0 z ex s1).
  { unfold s1. destruct rm; [|exact W]. cbv zeta.
    apply WI_frame; [reflexivity|reflexivity| |apply WI_remove_expired; exact W].
    destruct (QH_sess_remove (hs (remove_expired_sessions c s)) na) as (_ & HD & _). exact HD. }
  clearbody s1.
  set (s2 := match alist_get na (pending (hs s1)) with Some l => _ | None => s1 end).
  assert (W2 : WI c G H0 z ex s2).
  { unfold s2. destruct (alist_get na (pending (hs s1))) as [l|] eqn:Hg; [|exact W1].
    apply (WI_fold_events c G H0 z ex pq_ext (fun q => HRequestFailed (pq_rid q) err)).
    eapply WI_z; [|apply WI_take_pending; [exact Hg|exact W1]]. intros x. cbv beta. lia. }
  clearbody s2.
  destruct (ar_remove_requests (hs s2) na) as [h3 reqs] eqn:E.
  pose proof (WI_drop_all _ _ _ _ _ _ _ (WI_take_all c G H0 z ex s2 na h3 reqs E W2)) as W3.
  clear E. revert W3. generalize (with_hs s2 h3). induction reqs as [|r t IH]; intros s0 W0; cbn [fold_left]; [exact W0|].
  apply IH. apply WI_remove_expected. destruct (rc_ext r); [apply WI_emit_event; exact W0|exact W0].
Qed.

(* Handler::fail_request: the in-hand request is reported and forgotten *)
Lemma WI_fail_request c G H0 z r ex s err rm :
  WI c G H0 z (r :: ex) s -> WI c G H0 z ex (fail_request c s r err rm).
Proof.
  intros W. unfold fail_request. apply WI_fail_session. apply WI_drop in W.
  destruct (rc_ext r); [apply WI_emit_event; exact W|exact W].
Qed.

Lemma WI_resend c G H0 z r ex s na :
  (rc_retries r < cfg_retries c)%N ->
  WI c G H0 z (r :: ex) s -> WI c G H0 z (bump_retries r :: ex) (send s na (rc_pkt r)).
Proof.
  intros Hlt W. unfold WI, send. rewrite hist_emit. cbn [emit hs]. apply WIP_resend; assumption.
Qed.

(* Handler::handle_request_timeout *)
Lemma WI_handle_request_timeout c G H0 z r ex s na now :
  WI c G H0 z (r :: ex) s -> WI c G H0 z ex (handle_request_timeout c s na r now).
Proof.
  intros W. unfold handle_request_timeout. destruct (N.leb (cfg_retries c) (rc_retries r)) eqn:E.
  - apply WI_fail_request. apply WI_remove_expected. exact W.
  - apply N.leb_gt in E. apply (WI_insert c G H0 z (bump_retries r)). apply WI_resend; assumption.
Qed.

(* Handler::send_response: a response carries no request *)
Lemma WI_send_response c G H0 z ex s na rid rb :
  WI c G H0 z ex s -> WI c G H0 z ex (send_response c s na rid rb).
Proof.
  intros W. unfold send_response.
  pose proof (WI_sess_get c c G H0 z ex s na W) as Hg. pose proof (sess_get_got c (hs s) na) as Hgot.
  destruct (sess_get c (hs s) na) as [h1 se]. cbn [fst snd] in Hg, Hgot.
  destruct se as [se|]; [|exact Hg].
  rewrite encrypt_message_eq. apply WI_send_none; [reflexivity|].
  apply (WI_sess_put c G H0 z ex {| hs := h1; dr := snd (pop_pk (dr s)); outs := outs s |} na se (bump se)).
  - apply Hgot. reflexivity.
  - apply bump_desc.
  - exact Hg.
Qed.

(* Handler::send_challenge *)
Lemma WI_send_challenge c G H0 z ex s na n known now :
  WI c G H0 z ex s -> WI c G H0 z ex (send_challenge c s na n known now).
Proof.
  intros W. unfold send_challenge. destruct (has_challenge (hs s) na); [exact W|].
  destruct (pop_pk (dr s)) as [[[[idn x2] cd] x4] d'].
  apply WI_frame_same; [reflexivity|reflexivity|reflexivity|].
  apply WI_send_none; [reflexivity|]. apply WI_add_expected. exact W.
Qed.

Lemma WI_take_request c G H0 z ex s na rid h1 r :
  ar_remove_request (hs s) na rid = (h1, Some r) -> WI c G H0 z ex s -> WI c G H0 z (r :: ex) (with_hs s h1).
Proof.
  intros E W. unfold ar_remove_request in E.
  destruct (alist_get na (active (hs s))) as [l|] eqn:Hg; [|discriminate].
  destruct (remove_first (fun r0 => N.eqb (rc_rid r0) rid) l) as [[r0 l']|] eqn:R; [|discriminate].
  inversion E; subst. unfold WI in *. cbn [with_hs hs outs set_active active pending sessions].
  eapply WIP_take; eauto.
Qed.

Lemma WI_sim c G H0 z r r' ex s : req_sim r r' -> WI c G H0 z (r :: ex) s -> WI c G H0 z (r' :: ex) s.
Proof. intros Hs. apply WIP_sim. exact Hs. Qed.

(* Handler::handle_response *)
Lemma WI_handle_response c G H0 z ex s na rid rb now :
  WI c G H0 z ex s -> WI c G H0 z ex (handle_response c s na rid rb now).
Proof.
  intros W. unfold handle_response.
  destruct (ar_remove_request (hs s) na rid) as [h1 found] eqn:E.
  destruct found as [r|]; [|exact W].
  pose proof (WI_take_request c G H0 z ex s na rid h1 r E W) as W1.
  assert (R : forall rem ev, WI c G H0 z ex (emit (with_hs (with_hs s h1)
             (ar_insert c (hs (with_hs s h1)) na
                {| rc_contact := rc_contact r; rc_pkt := rc_pkt r; rc_ext := rc_ext r; rc_rid := rc_rid r;
                   rc_body := rc_body r; rc_hs_sent := rc_hs_sent r; rc_retries := rc_retries r;
                   rc_remaining := rem; rc_init := rc_init r |} now)) (OEvent ev))).
  { intros rem ev. apply WI_emit_event. apply WI_insert. eapply WI_sim; [|exact W1]. repeat split. }
  assert (F : forall ev, WI c G H0 z ex (emit (remove_expected (with_hs s h1) (snd na)) (OEvent ev))).
  { intros ev. apply WI_emit_event. apply WI_remove_expected. eapply WI_drop. exact W1. }
  cbv zeta. destruct rb as [total recs|tag]; [|apply F].
  destruct (N.ltb 1 total); [|apply F].
  destruct (rc_remaining r) as [rem|]; [|apply R].
  destruct (negb (N.eqb (rem - 1) 0)); [apply R|apply F].
Qed.

(* ------------------------------------------------------------------------------------------ *)
(* re-keying: replay_active_requests, new_session *)

Lemma pending_ar_update_packet c h old p now : pending (ar_update_packet c h old p now) = pending h.
Proof.
  rewrite ar_update_packet_eq. destruct (nmap_get old (nmap h)); [|reflexivity]. cbv zeta.
  destruct (alist_get n (active h)); reflexivity.
Qed.
Lemma sessions_ar_update_packet c h old p now : sessions (ar_update_packet c h old p now) = sessions h.
Proof.
  rewrite ar_update_packet_eq. destruct (nmap_get old (nmap h)); [|reflexivity]. cbv zeta.
  destruct (alist_get n (active h)); reflexivity.
Qed.

Lemma WI_update c G H0 z ex s cfg old p now na x0 k0 :
  creq p = Some (x0, k0) -> wcnt x0 k0 (H0 ++ outs s) = 0 -> In k0 G ->
  occ_pend x0 (pending (hs s)) + z x0 = 0 ->
  WI c G H0 z ex s ->
  WI c G H0 z ex (send (with_hs s (ar_update_packet cfg (hs s) old p now)) na p).
Proof.
  intros Ep Hf Hk Hc W. unfold WI, send. rewrite hist_emit. cbn [emit with_hs hs outs].
  rewrite pending_ar_update_packet, sessions_ar_update_packet.
  eapply WIP_update; eauto.
Qed.

Lemma replay_fold1_W c na reqs : forall s se pk,
  let g := (fun (acc : st * session * list (nonce * packet)) r =>
        let '(s, se, pk) := acc in
        let '(s', se', p) := encrypt_message c s na se (MReq (rc_rid r) (rc_body r)) in
        (s', se', pk ++ [(rc_nonce r, p)])) in
  let res := fold_left g reqs (s, se, pk) in
  hs (fst (fst res)) = hs s /\ outs (fst (fst res)) = outs s /\
  incl (sess_keys (snd (fst res))) (sess_keys se) /\
  exists pk', snd res = pk ++ pk' /\
    map (fun x => creq (snd x)) pk' = map (fun r => Some (rc_rid r, s_enc se)) reqs.
Proof.
  induction reqs as [| r reqs IH]; intros s se pk; cbn zeta; cbn [fold_left].
  - cbn [fst snd]. split; [reflexivity|split; [reflexivity|split; [apply incl_refl|]]].
    exists []. rewrite app_nil_r. split; reflexivity.
  - rewrite encrypt_message_eq.
    specialize (IH {| hs := hs s; dr := snd (pop_pk (dr s)); outs := outs s |} (bump se)
      (pk ++ [(rc_nonce r, PMsg (cfg_local c) ((s_counter se + 1)%N, pk_r (dr s)) (pk_aad (dr s))
         (CEnc (s_enc se) ((s_counter se + 1)%N, pk_r (dr s)) (MReq (rc_rid r) (rc_body r)) (pk_aad (dr s))))])).
    cbn zeta in IH. destruct IH as (E1 & E2 & E3 & pk' & E4 & E5). cbn [hs outs] in E1, E2.
    split; [exact E1|split; [exact E2|split; [exact E3|]]].
    eexists. split; [rewrite E4, <- app_assoc; reflexivity|].
    cbn [map app snd creq]. rewrite E5. reflexivity.
Qed.

Lemma replay_fold2_W c G H0 z ex na now k : forall pkts xs s,
  map (fun x => creq (snd x)) pkts = map (fun xi => Some (xi, k)) xs ->
  NoDup xs -> In k G ->
  (forall xi, In xi xs -> wcnt xi k (H0 ++ outs s) = 0 /\ occ_pend xi (pending (hs s)) + z xi = 0) ->
  WI c G H0 z ex s ->
  WI c G H0 z ex
    (fold_left (fun s (x : nonce * packet) =>
       let s' := with_hs s (ar_update_packet c (hs s) (fst x) (snd x) now) in send s' na (snd x)) pkts s).
Proof.
  induction pkts as [|x t IH]; intros xs s Hm Hn Hk Hx W; cbn [fold_left]; [exact W|].
  destruct xs as [|xi xt]; [discriminate|]. cbn [map] in Hm. injection Hm as Hm1 Hm2.
  inversion Hn as [|? ? Hn1 Hn2]; subst. destruct (Hx xi (or_introl eq_refl)) as [Hf Hc].
  cbv zeta. apply (IH xt); [exact Hm2|exact Hn2|exact Hk| |].
  - intros xj Hj. destruct (Hx xj (or_intror Hj)) as [Hf' Hc'].
    unfold send. rewrite hist_emit. cbn [emit with_hs hs outs]. rewrite pending_ar_update_packet.
    split; [|exact Hc']. rewrite wcnt_snoc, wbit_wire, Hf'.
    destruct (carries xj k (snd x)) eqn:Ec; [|reflexivity].
    destruct (carries_some _ _ _ _ _ Hm1 Ec) as [E _]. subst xj. contradiction.
  - eapply WI_update; eauto.
Qed.

Lemma asum_get_le {A} (w : A -> nat) l na v : alist_get na l = Some v -> w v <= asum w l.
Proof.
  induction l as [|[k0 v0] t IH]; cbn [alist_get asum]; [discriminate|].
  destruct (naddr_eqb na k0); intros E.
  - inversion E; subst. lia.
  - specialize (IH E). lia.
Qed.
Lemma cntf_in {A} (f : A -> N) l a : In a l -> 1 <= cntf f (f a) l.
Proof.
  induction l as [|b t IH]; cbn [In cntf]; [tauto|]. intros [->|H].
  - rewrite eqn_refl. lia.
  - specialize (IH H). lia.
Qed.
Lemma cntf_nodup {A} (f : A -> N) l : (forall x, cntf f x l <= 1) -> NoDup (map f l).
Proof.
  intros H. apply (NoDup_count_occ N.eq_dec). intros x. rewrite <- cntf_count_occ. apply H.
Qed.

Definition skipf (skip : option nonce) (r : rcall) : bool :=
  match skip with Some n => negb (nonce_eqb (rc_nonce r) n) | None => true end.

(* Handler::replay_active_requests: the key of the session has carried none of the requests that
   are replayed *)
Lemma WI_replay c G H0 z ex s na skip now :
  WI c G H0 z ex s ->
  (forall se l r, alist_get na (sessions (hs s)) = Some se -> alist_get na (active (hs s)) = Some l ->
     In r l -> skipf skip r = true -> wcnt (rc_rid r) (s_enc se) (H0 ++ outs s) = 0) ->
  WI c G H0 z ex (replay_active_requests c s na skip now).
Proof.
  intros W Hpre. unfold replay_active_requests.
  pose proof (WI_sess_get c c G H0 z ex s na W) as Hg. pose proof (sess_get_got c (hs s) na) as Hgot.
  pose proof (sess_get_stored c (hs s) na) as Hsnd. pose proof (active_sess_get' c (hs s) na) as Hact.
  pose proof (pending_sess_get c (hs s) na) as Hpend.
  destruct (sess_get c (hs s) na) as [h1 se]. cbn [fst snd] in Hg, Hgot, Hsnd, Hact, Hpend.
  destruct se as [se0|]; [|exact Hg].
  set (l := match alist_get na (active h1) with Some l => l | None => [] end).
  set (reqs := filter _ l).
  assert (Hreqs : reqs = filter (skipf skip) l) by reflexivity.
  pose proof (replay_fold1_W c na reqs (with_hs s h1) se0 []) as Hf. cbn zeta in Hf.
  destruct (fold_left _ reqs (with_hs s h1, se0, [])) as [[s2 se2] pkts]. cbn [fst snd] in Hf.
  destruct Hf as (E1 & E2 & E3 & pk' & E4 & E5). cbn [hs with_hs outs app] in E1, E2, E4. subst pkts.
  assert (Hk : forall k, In k (sess_keys se0) -> In k G).
  { intros k Hk. eapply (W_G _ _ _ _ _ _ _ _ Hg); [apply Hgot; reflexivity|exact Hk]. }
  assert (W2 : WI c G H0 z ex (with_hs s2 (sess_put (hs s2) na se2))).
  { unfold WI in *. cbn [with_hs hs outs sess_put set_sessions active pending sessions] in *.
    rewrite E1, E2. eapply WIP_sess; [|exact Hg].
    intros na0 se' k Hin Hk'. apply In_alist_set in Hin. destruct Hin as [Hin|Hin].
    - inversion Hin; subst. apply Hk. apply E3. exact Hk'.
    - eapply (W_G _ _ _ _ _ _ _ _ Hg); eauto. }
  assert (Hl : forall r, In r reqs -> In r l /\ skipf skip r = true).
  { intros r Hr. rewrite Hreqs in Hr. apply filter_In in Hr. exact Hr. }
  assert (Hocc : forall r, In r l -> 1 <= occ_act (rc_rid r) (active (hs s))).
  { intros r Hr. unfold l in Hr. rewrite Hact in Hr.
    destruct (alist_get na (active (hs s))) as [l0|] eqn:El; [|destruct Hr].
    pose proof (asum_get_le (cntf rc_rid (rc_rid r)) _ _ _ El) as X. pose proof (cntf_in rc_rid l0 r Hr).
    unfold occ_act. lia. }
  apply (replay_fold2_W c G H0 z ex na now (s_enc se0) pk' (map rc_rid reqs)).
  - rewrite map_map. exact E5.
  - rewrite Hreqs. apply cntf_nodup. intros x.
    pose proof (cntf_filter_le rc_rid (skipf skip) x l) as X.
    assert (Y : cntf rc_rid x l <= 1).
    { unfold l. rewrite Hact. destruct (alist_get na (active (hs s))) as [l0|] eqn:El; [|cbn; lia].
      pose proof (asum_get_le (cntf rc_rid x) _ _ _ El) as Y. pose proof (W_U _ _ _ _ _ _ _ _ W x) as U.
      unfold occ_act in U. lia. }
    lia.
  - apply Hk. left. reflexivity.
  - intros xi Hxi. apply in_map_iff in Hxi. destruct Hxi as (r & <- & Hr). destruct (Hl r Hr) as [Hr1 Hr2].
    cbn [with_hs hs outs sess_put set_sessions pending]. rewrite E1, E2, Hpend. split.
    + unfold l in Hr1. rewrite Hact in Hr1. destruct (alist_get na (active (hs s))) as [l0|] eqn:El; [|destruct Hr1].
      destruct (Hsnd _ eq_refl) as (s00 & Es & _ & ->). rewrite touch_enc. apply (Hpre s00 l0 r); auto.
    + pose proof (Hocc r Hr1). pose proof (W_U _ _ _ _ _ _ _ _ W (rc_rid r)) as U. lia.
  - exact W2.
Qed.

Lemma alist_get_set_same {A} (k : naddr) (v : A) l : alist_get k (alist_set k v l) = Some v.
Proof.
  induction l as [|[k0 v0] t IH]; cbn [alist_set alist_get].
  - rewrite HandlerB_Base.naddr_eqb_refl. reflexivity.
  - destruct (naddr_eqb k k0) eqn:E; cbn [alist_get].
    + rewrite HandlerB_Base.naddr_eqb_refl. reflexivity.
    + rewrite E. exact IH.
Qed.

(* Handler::new_session: the keys of the new session are installed keys; its encryption key has
   carried none of the requests that will be replayed *)
Lemma WI_new_session c G H0 z ex s na se skip now :
  WI c G H0 z ex s -> (forall k, In k (sess_keys se) -> In k G) ->
  (forall l r, alist_get na (active (hs s)) = Some l -> In r l -> skipf skip r = true ->
     wcnt (rc_rid r) (s_enc se) (H0 ++ outs s) = 0) ->
  WI c G H0 z ex (new_session c s na se skip now).
Proof.
  intros W Hse Hpre. unfold new_session.
  apply (WI_remove_expired c) in W.
  assert (Hpre' : forall l r, alist_get na (active (hs (remove_expired_sessions c s))) = Some l -> In r l ->
            skipf skip r = true -> wcnt (rc_rid r) (s_enc se) (H0 ++ outs (remove_expired_sessions c s)) = 0).
  { intros l r. rewrite remove_expired_active, remove_expired_wcnt. apply Hpre. }
  clear Hpre. revert W Hpre'. generalize (remove_expired_sessions c s). clear s. intros s W Hpre.
  pose proof (WI_sess_get c c G H0 z ex s na W) as Hg. pose proof (sess_get_got c (hs s) na) as Hgot.
  pose proof (active_sess_get' c (hs s) na) as Hact.
  destruct (sess_get c (hs s) na) as [h1 cur]. cbn [fst snd] in Hg, Hgot, Hact.
  destruct cur as [cs|].
  - set (cs' := {| s_enc := s_enc se; s_dec := s_dec se; s_old := Some (s_enc cs, s_dec cs);
                  s_await := s_await se; s_counter := s_counter cs; s_used := s_used cs |}).
    assert (W1 : WI c G H0 z ex (with_hs s (sess_put h1 na cs'))).
    { unfold WI in *. cbn [with_hs hs outs sess_put set_sessions active pending sessions] in *.
      eapply WIP_sess; [|exact Hg].
      intros na0 se' k Hin Hk'. apply In_alist_set in Hin. destruct Hin as [Hin|Hin].
      - inversion Hin; subst. unfold sess_keys in Hk'. cbn in Hk'.
        destruct Hk' as [<-|[<-|[<-|[<-|[]]]]].
        + apply Hse. left. reflexivity.
        + apply Hse. right. left. reflexivity.
        + eapply (W_G _ _ _ _ _ _ _ _ Hg); [apply Hgot; reflexivity|left; reflexivity].
        + eapply (W_G _ _ _ _ _ _ _ _ Hg); [apply Hgot; reflexivity|right; left; reflexivity].
      - eapply (W_G _ _ _ _ _ _ _ _ Hg); eauto. }
    assert (W2 : WI c G H0 z ex (replay_active_requests c (with_hs s (sess_put h1 na cs')) na skip now)).
    { apply WI_replay; [exact W1|]. cbn [with_hs hs outs sess_put set_sessions active sessions].
      intros se0 l r Hs Hl Hr Hsk. rewrite alist_get_set_same in Hs. inversion Hs; subst se0. cbn [cs' s_enc].
      rewrite Hact in Hl. eapply Hpre; eauto. }
    destruct (fix_d2a c); [apply WI_send_pending_requests; exact W2|exact W2].
  - apply WI_send_pending_requests.
    unfold WI in *. cbn [with_hs hs outs sess_insert set_sessions active pending sessions] in *.
    eapply WIP_sess; [|exact Hg].
    intros na0 se' k Hin Hk'.
    assert (Hin' : In (na0, se') (alist_remove na (sessions h1) ++ [(na, touch se (cfg_clock c))])).
    { destruct (Nat.ltb _ _); [apply tl_In|]; exact Hin. }
    apply in_app_or in Hin'. destruct Hin' as [Hin'|[Hin'|[]]].
    + apply In_alist_remove in Hin'. eapply (W_G _ _ _ _ _ _ _ _ Hg); eauto.
    + inversion Hin'; subst. apply Hse. exact Hk'.
Qed.

(* ------------------------------------------------------------------------------------------ *)
(* inbound packets *)

(* sess_put of a session all of whose keys are installed keys *)
Lemma WI_sess_put_keys c G H0 z ex s na se' :
  (forall k, In k (sess_keys se') -> In k G) ->
  WI c G H0 z ex s -> WI c G H0 z ex (with_hs s (sess_put (hs s) na se')).
Proof.
  intros Hk W. unfold WI in *. cbn [with_hs hs outs sess_put set_sessions active pending sessions].
  eapply WIP_sess; [|exact W]. intros na0 se0 k Hin Hk'. apply In_alist_set in Hin. destruct Hin as [Hin|Hin].
  - inversion Hin; subst. apply Hk. exact Hk'.
  - eapply (W_G _ _ _ _ _ _ _ _ W); eauto.
Qed.

(* Handler::handle_message *)
Lemma WI_handle_message c G H0 z ex s na n aad ct now :
  WI c G H0 z ex s -> WI c G H0 z ex (handle_message c s na n aad ct now).
Proof.
  intros W. unfold handle_message.
  pose proof (WI_sess_get c c G H0 z ex s na W) as Hg. pose proof (sess_get_got c (hs s) na) as Hgot.
  destruct (sess_get c (hs s) na) as [h1 se]. cbn [fst snd] in Hg, Hgot.
  destruct se as [se|]; [|apply WI_emit_event; exact Hg].
  pose proof (decrypt_message_desc se n aad ct) as Hd.
  destruct (decrypt_message se n aad ct) as [se' m]. cbn [fst] in Hd.
  assert (Hk : forall k, In k (sess_keys se') -> In k G).
  { intros k Hk. destruct Hd as [Hd _]. eapply (W_G _ _ _ _ _ _ _ _ Hg); [apply Hgot; reflexivity|apply Hd; exact Hk]. }
  set (s2 := with_hs (with_hs s h1) (sess_put (hs (with_hs s h1)) na se')).
  assert (W2 : WI c G H0 z ex s2).
  { unfold s2. apply WI_sess_put_keys; [exact Hk|exact Hg]. }
  clearbody s2.
  destruct m as [[rid body|rid rb|j]|].
  - apply WI_emit_event. exact W2.
  - assert (HR : WI c G H0 z ex (handle_response c s2 na rid rb now)) by (apply WI_handle_response; exact W2).
    destruct (s_await se') as [arid|]; [|exact HR].
    destruct (N.eqb rid arid); [|exact HR].
    match goal with |- context [fail_session c ?x na ERR_INVALID_REMOTE_ENR true] => set (s3 := x) end.
    assert (W3 : WI c G H0 z ex s3).
    { unfold s3.
      assert (W3 : WI c G H0 z ex (with_hs s2 (sess_put (hs s2) na
                   {| s_enc := s_enc se'; s_dec := s_dec se'; s_old := s_old se'; s_await := None;
                      s_counter := s_counter se'; s_used := s_used se' |}))).
      { apply WI_sess_put_keys; [|exact W2]. intros k Hk'. apply Hk. exact Hk'. }
      destruct (fix_d2b c); [|exact W3].
      match goal with |- context [ar_remove_request ?h na rid] =>
        destruct (ar_remove_request h na rid) as [h4 found] eqn:E end.
      destruct found as [r|]; [|exact W3].
      apply WI_remove_expected. eapply WI_drop. eapply WI_take_request; [exact E|exact W3]. }
    clearbody s3.
    destruct rb as [total recs|tag]; [|apply WI_fail_session; exact W3].
    destruct (rev recs) as [|e t]; [apply WI_fail_session; exact W3|].
    destruct (verify_enr e na); [apply WI_emit_event; exact W3|].
    apply WI_fail_session. apply WI_emit_event. exact W3.
  - exact W2.
  - match goal with |- context [has_challenge (hs ?x) na] => assert (W3 : WI c G H0 z ex x) end.
    { apply WI_fail_session. exact W2. }
    destruct (has_challenge _ na); [exact W3|apply WI_emit_event; exact W3].
Qed.

Lemma WI_G_nil c G H0 z ex s : WI c G H0 z ex s -> WI c (G ++ []) H0 z ex s.
Proof. rewrite app_nil_r. auto. Qed.

(* a key that has not been installed has carried nothing *)
Lemma WI_unused c G H0 z ex s k : WI c G H0 z ex s -> ~ In k G -> forall x, wcnt x k (H0 ++ outs s) = 0.
Proof.
  intros W Hk x. destruct (wcnt x k (H0 ++ outs s)) eqn:E; [reflexivity|].
  exfalso. apply Hk. apply (W_K _ _ _ _ _ _ _ _ W x k). lia.
Qed.

(* Handler::handle_auth_message *)
Lemma WI_handle_auth_message c G H0 z ex s na n aad sg eph eph_ok rec ct now :
  WI c G H0 z ex s ->
  let ik := match chall_get na (challenges (hs s)) with
            | Some ch => match establish c (fst na) ch sg eph eph_ok rec with EstOk se _ => sess_keys se | _ => [] end
            | None => []
            end in
  (forall k, In k ik -> ~ In k G) ->
  WI c (G ++ ik) H0 z ex (handle_auth_message c s na n aad sg eph eph_ok rec ct now).
Proof.
  intros W. cbn zeta. unfold handle_auth_message.
  destruct (chall_get na (challenges (hs s))) as [ch|]; [|intros _; apply WI_G_nil; exact W].
  set (s1 := with_hs s (set_challenges (hs s) (chall_remove na (challenges (hs s))))).
  assert (W1 : WI c G H0 z ex s1) by (unfold s1; apply WI_frame_same; auto).
  clearbody s1.
  destruct (establish c (fst na) ch sg eph eph_ok rec) as [se e| |]; intros HF.
  - apply WI_handle_message.
    set (s3 := if verify_enr e na then _ else _).
    assert (W3 : WI c G H0 z ex s3).
    { unfold s3. destruct (verify_enr e na); apply WI_emit_event; apply WI_remove_expected; exact W1. }
    clearbody s3. apply WI_new_session.
    + eapply WI_G; [|exact W3]. apply incl_appl, incl_refl.
    + intros k Hk. apply in_or_app. right. exact Hk.
    + intros l r _ _ _. apply (WI_unused c G H0 z ex s3); [exact W3|]. apply HF. left. reflexivity.
  - apply WI_G_nil. apply WI_frame_same; auto.
  - apply WI_G_nil. apply WI_fail_session. destruct (fix_d6 c); [apply WI_remove_expected|]; exact W1.
Qed.

(* ------------------------------------------------------------------------------------------ *)
(* what send_request sends and stores *)

Lemma alist_get_set_other {A} (k k' : naddr) (v : A) l :
  naddr_eqb k' k = false -> alist_get k' (alist_set k v l) = alist_get k' l.
Proof.
  intros E. induction l as [|[k0 v0] t IH]; cbn [alist_set alist_get].
  - rewrite E. reflexivity.
  - destruct (naddr_eqb k k0) eqn:E0; cbn [alist_get].
    + apply naddr_eqb_eq in E0. subst k0. rewrite E. reflexivity.
    + destruct (naddr_eqb k' k0); [reflexivity|exact IH].
Qed.
Lemma alist_get_app_new {A} (k k' : naddr) (v : A) l :
  alist_get k' (l ++ [(k, v)]) = match alist_get k' l with Some x => Some x | None => if naddr_eqb k' k then Some v else None end.
Proof.
  induction l as [|[k0 v0] t IH]; cbn [app alist_get]; [reflexivity|].
  destruct (naddr_eqb k' k0); [reflexivity|exact IH].
Qed.

Lemma ins_act_get na na' r' act l r0 :
  alist_get na (ins_act na' r' act) = Some l -> In r0 l ->
  r0 = r' \/ exists l0, alist_get na act = Some l0 /\ In r0 l0.
Proof.
  unfold ins_act. destruct (alist_get na' act) as [cur|] eqn:E.
  - destruct (naddr_eqb na na') eqn:E1.
    + apply naddr_eqb_eq in E1. subst na'. rewrite alist_get_set_same. intros H; inversion H; subst.
      intros Hin. apply in_app_or in Hin. destruct Hin as [Hin|[<-|[]]]; [right; eauto|left; reflexivity].
    + rewrite alist_get_set_other by exact E1. intros H Hin. right. eauto.
  - rewrite alist_get_app_new. destruct (alist_get na act) as [l0|] eqn:E2.
    + intros H; inversion H; subst. intros Hin. right. eauto.
    + destruct (naddr_eqb na na'); [|discriminate]. intros H; inversion H; subst.
      intros [<-|[]]. left. reflexivity.
Qed.

(* the sessions after an access to the cache: each one was there before, possibly stamped *)
Definition sess_from (h h' : hstate) : Prop :=
  forall na se, In (na, se) (sessions h') -> exists se0, In (na, se0) (sessions h) /\ s_enc se = s_enc se0.
Lemma sess_from_get c h na : sess_from h (fst (sess_get c h na)).
Proof.
  intros na0 se Hin. destruct (sess_get_In c h na _ Hin) as [H1|(s0 & E & _ & H1)].
  - exists se. auto.
  - inversion H1; subst. exists s0. split; [apply alist_get_In; exact E|reflexivity].
Qed.

Lemma is_awaiting_effect c s na :
  outs (fst (is_awaiting_session c s na)) = outs s /\ active (hs (fst (is_awaiting_session c s na))) = active (hs s) /\
  dr (fst (is_awaiting_session c s na)) = dr s /\
  sess_from (hs s) (hs (fst (is_awaiting_session c s na))).
Proof.
  unfold is_awaiting_session. pose proof (sess_from_get c (hs s) na) as H1. pose proof (active_sess_get' c (hs s) na) as H2.
  destruct (sess_get c (hs s) na) as [h se]. cbn [fst] in *. destruct se; cbn [fst with_hs hs outs dr]; auto.
Qed.

(* no datagram under a key that is not the encryption key of the session with the contact *)
Lemma send_request_wire c s ct ext rid body now kf :
  (forall se, In (c_naddr ct, se) (sessions (hs s)) -> s_enc se <> kf) ->
  forall x, wcnt x kf (outs (fst (send_request c s ct ext rid body now))) = wcnt x kf (outs s).
Proof.
  intros Hk x. unfold send_request.
  destruct (existsb (N.eqb (c_addr ct)) (cfg_listen c)); [reflexivity|].
  set (na := c_naddr ct) in *.
  assert (Ha : let s1 := fst (if has_challenge (hs s) na then (s, true) else is_awaiting_session c s na) in
               outs s1 = outs s /\ sess_from (hs s) (hs s1)).
  { cbv zeta. destruct (has_challenge (hs s) na); [split; [reflexivity|intros ? ? ?; eauto]|].
    destruct (is_awaiting_effect c s na) as (A & _ & _ & B). auto. }
  destruct (if has_challenge (hs s) na then (s, true) else is_awaiting_session c s na) as [s1 awaiting].
  cbn [fst] in Ha. cbv zeta in Ha. destruct Ha as [Ho Hs]. destruct awaiting; cbn [fst].
  - cbn [with_hs outs]. rewrite Ho. reflexivity.
  - pose proof (sess_get_got c (hs s1) na) as Hgot. pose proof (sess_from_get c (hs s1) na) as Hin.
    destruct (sess_get c (hs s1) na) as [h2 se]. cbn [fst snd] in Hgot, Hin.
    destruct se as [se|].
    + rewrite encrypt_message_eq. cbn [fst snd with_hs send emit add_expected outs hs].
      rewrite wcnt_snoc, Ho, wbit_wire.
      destruct (carries x kf _) eqn:Ec; [|cbn; lia].
      apply carries_iff in Ec. cbn [creq] in Ec. inversion Ec. exfalso.
      destruct (Hin _ _ (Hgot _ eq_refl)) as (se1 & I1 & E1). destruct (Hs _ _ I1) as (se2 & I2 & E2).
      apply (Hk se2); [exact I2|]. congruence.
    + destruct (pop_pk (dr (with_hs s1 h2))) as [[[[cn r] aad] e0] d'].
      cbn [fst snd with_hs send emit add_expected outs hs].
      rewrite wcnt_snoc, Ho, wbit_none by reflexivity. lia.
Qed.

(* the requests stored afterwards were stored before, or have the new id *)
Lemma send_request_active c s ct ext rid body now na l r0 :
  alist_get na (active (hs (fst (send_request c s ct ext rid body now)))) = Some l -> In r0 l ->
  rc_rid r0 = rid \/ exists l0, alist_get na (active (hs s)) = Some l0 /\ In r0 l0.
Proof.
  unfold send_request.
  destruct (existsb (N.eqb (c_addr ct)) (cfg_listen c)); [cbn [fst]; intros; right; eauto|].
  set (na' := c_naddr ct) in *.
  assert (Ha : active (hs (fst (if has_challenge (hs s) na' then (s, true) else is_awaiting_session c s na'))) = active (hs s)).
  { destruct (has_challenge (hs s) na'); [reflexivity|]. destruct (is_awaiting_effect c s na') as (_ & A & _). exact A. }
  destruct (if has_challenge (hs s) na' then (s, true) else is_awaiting_session c s na') as [s1 awaiting].
  cbn [fst] in Ha. destruct awaiting; cbn [fst].
  - cbn [with_hs hs]. rewrite active_push_pending', Ha. intros; right; eauto.
  - pose proof (active_sess_get' c (hs s1) na') as Hact.
    destruct (sess_get c (hs s1) na') as [h2 se]. cbn [fst] in Hact.
    destruct se as [se|].
    + rewrite encrypt_message_eq. cbn [fst snd with_hs send emit add_expected outs hs].
      rewrite active_ar_insert. cbn [active sess_put set_sessions]. rewrite Hact, Ha. intros H1 H2.
      destruct (ins_act_get _ _ _ _ _ _ H1 H2) as [->|X]; [left; reflexivity|right; exact X].
    + destruct (pop_pk (dr (with_hs s1 h2))) as [[[[cn r] aad] e0] d'].
      cbn [fst snd with_hs send emit add_expected outs hs].
      rewrite active_ar_insert. cbn [active]. rewrite Hact, Ha. intros H1 H2.
      destruct (ins_act_get _ _ _ _ _ _ H1 H2) as [->|X]; [left; reflexivity|right; exact X].
Qed.

(* (an unused lemma "send_request loses no session" stood here; with session expiry it is false: the
   access to the cache removes an expired session of the contact) *)

(* ------------------------------------------------------------------------------------------ *)
(* Handler::handle_challenge *)

Lemma WIP_put_same c G H z ex act pend sess na l :
  alist_get na act = Some l -> WIP c G H z ex act pend sess -> WIP c G H z ex (put_list na l act) pend sess.
Proof.
  intros Hg [A1 A2 A3 A4 A5 A6 A7 A8]. split; auto.
  - apply AllR_put; [exact A2|]. apply (AllR_get _ _ _ _ A2 Hg).
  - intros x k. specialize (A3 x k). unfold holdA in *.
    pose proof (asum_put_gen (hold x k) act na l l Hg eq_refl). lia.
  - intros x. specialize (A7 x). unfold occ_act in *. pose proof (asum_put x act na l l Hg). lia.
Qed.

Lemma WI_take_by_nonce c G H0 z ex s n h1 found :
  ar_remove_by_nonce (hs s) n = (h1, found) -> WI c G H0 z ex s ->
  match found with
  | Some (na, r) => WI c G H0 z (r :: ex) (with_hs s h1)
  | None => WI c G H0 z ex (with_hs s h1)
  end.
Proof.
  intros E W. unfold ar_remove_by_nonce in E.
  destruct (nmap_get n (nmap (hs s))) as [na|]; [|inversion E; subst; exact W].
  destruct (alist_get na (active (hs s))) as [l|] eqn:Hg.
  2:{ inversion E; subst. apply WI_frame_same; auto. }
  destruct (remove_first (fun r => nonce_eqb (rc_nonce r) n) l) as [[r l']|] eqn:R; inversion E; subst.
  - unfold WI in *. cbn [with_hs hs outs set_active active pending sessions]. eapply WIP_take; eauto.
  - unfold WI in *. cbn [with_hs hs outs set_active active pending sessions]. apply WIP_put_same; assumption.
Qed.

Lemma WI_hshake c G H0 z r r' ex s na ke :
  rc_rid r' = rc_rid r -> rc_retries r' = rc_retries r ->
  creq (rc_pkt r') = Some (rc_rid r, ke) -> (forall x, wcnt x ke (H0 ++ outs s) = 0) -> In ke G ->
  WI c G H0 z (r :: ex) s -> WI c G H0 z (r' :: ex) (send s na (rc_pkt r')).
Proof.
  intros E1 E2 Ep Hf Hk W. unfold WI, send. rewrite hist_emit. cbn [emit hs].
  eapply WIP_hshake; eauto.
Qed.

Lemma occ_act_stored x act na l r0 : alist_get na act = Some l -> In r0 l -> rc_rid r0 = x -> 1 <= occ_act x act.
Proof.
  intros Hg Hin <-. pose proof (asum_get_le (cntf rc_rid (rc_rid r0)) _ _ _ Hg). pose proof (cntf_in rc_rid l r0 Hin).
  unfold occ_act. lia.
Qed.

Lemma WI_handle_challenge c G H0 z ex s src n seq cd now :
  WI c G H0 (fun x => z x + eqn (next_irid (dr s)) x) ex s ->
  (forall k, In k (hc_keys c s src n cd) -> ~ In k G) ->
  WI c (G ++ hc_keys c s src n cd) H0 z ex (handle_challenge c s src n seq cd now).
Proof.
  intros W. set (z1 := fun x => z x + eqn (next_irid (dr s)) x) in *.
  assert (Wz : forall G' ex' s', WI c G' H0 z1 ex' s' -> WI c G' H0 z ex' s').
  { intros G' ex' s' X. eapply WI_z; [|exact X]. intros x. unfold z1. lia. }
  unfold handle_challenge, hc_keys.
  destruct (nmap_get n (nmap (hs s))) as [na0|]; [|intros _; apply WI_G_nil; apply Wz; exact W].
  pose proof (WI_take_by_nonce c G H0 z1 ex s n) as Ht.
  destruct (ar_remove_by_nonce (hs s) n) as [h1 found]. specialize (Ht h1 found eq_refl W). cbn [fst snd].
  destruct found as [[na r]|]; [|intros _; apply WI_G_nil; apply Wz; exact Ht].
  destruct (negb (N.eqb (snd na) src)).
  { intros _. apply WI_G_nil. apply Wz. apply (WI_insert c G H0 z1 r ex (with_hs s h1) c na now). exact Ht. }
  destruct (rc_hs_sent r || c_ed (rc_contact r)).
  { intros _. apply WI_G_nil. apply Wz. apply WI_fail_request.
    destruct (fix_d6 c); [apply WI_remove_expected|]; exact Ht. }
  cbn zeta. set (ct := rc_contact r).
  change (dr (with_hs s h1)) with (dr s).
  pose proof (pop_pk_rid (dr s)) as Hrid.
  destruct (pop_pk (dr s)) as [[[[cn rr] aad] eph] d']. cbn [fst snd] in Hrid |- *.
  intros HF.
  set (ke := mk_key eph (c_id ct) cd (cfg_local c) (c_id ct) false) in *.
  set (kd := mk_key eph (c_id ct) cd (cfg_local c) (c_id ct) true) in *.
  set (hn := (cn, rr)).
  set (auth := PHs (cfg_local c) hn aad (Sig (cfg_local c) cd eph (c_id ct)) eph true
                 (if N.ltb seq (e_seq (cfg_enr c)) then Some (cfg_enr c) else None)
                 (CEnc ke hn (MReq (rc_rid r) (rc_body r)) aad)).
  set (na' := c_naddr ct).
  set (s2 := {| hs := hs (with_hs s h1); dr := d'; outs := outs (with_hs s h1) |}).
  assert (W2 : WI c G H0 z1 (r :: ex) s2) by exact Ht.
  assert (Hke : ~ In ke G) by (apply HF; left; reflexivity).
  assert (Hun : forall x, wcnt x ke (H0 ++ outs s2) = 0) by (apply (WI_unused c G H0 z1 (r :: ex) s2 ke W2 Hke)).
  assert (HG' : incl G (G ++ [ke; kd])) by (apply incl_appl, incl_refl).
  assert (Hke' : In ke (G ++ [ke; kd])) by (apply in_or_app; right; left; reflexivity).
  (* the state after re-inserting the request with the handshake packet and sending it *)
  assert (H4 : forall r', rc_pkt r' = auth -> rc_rid r' = rc_rid r -> rc_retries r' = rc_retries r ->
            let s4 := send (with_hs s2 (ar_insert c (hs s2) na' r' now)) na' auth in
            WI c (G ++ [ke; kd]) H0 z1 ex s4 /\
            (forall x, wcnt x ke (H0 ++ outs s4) = b2n (carries x ke auth)) /\
            (forall l r0, alist_get na' (active (hs s4)) = Some l -> In r0 l -> skipf (Some hn) r0 = true ->
               rc_rid r0 <> rc_rid r)).
  { intros r' Ep Er Et. cbv zeta. split; [|split].
    - change (send (with_hs s2 (ar_insert c (hs s2) na' r' now)) na' auth)
        with (with_hs (send s2 na' auth) (ar_insert c (hs (send s2 na' auth)) na' r' now)).
      apply WI_insert. rewrite <- Ep. apply (WI_hshake c _ H0 z1 r r' ex s2 na' ke); auto.
      + rewrite Ep. reflexivity.
      + eapply WI_G; [exact HG'|exact W2].
    - intros x. cbn [send emit with_hs outs]. rewrite app_assoc, wcnt_snoc, wbit_wire, Hun. reflexivity.
    - cbn [send emit with_hs hs]. rewrite active_ar_insert. intros l r0 Hl Hr0 Hsk Heq.
      destruct (ins_act_get _ _ _ _ _ _ Hl Hr0) as [->|(l0 & Hl0 & Hin0)].
      + unfold skipf, rc_nonce in Hsk. rewrite Ep in Hsk. cbn [auth pkt_nonce] in Hsk.
        rewrite HandlerB_Base.nonce_eqb_refl in Hsk. discriminate.
      + pose proof (occ_act_stored _ _ _ _ _ Hl0 Hin0 Heq) as X.
        pose proof (W_U _ _ _ _ _ _ _ _ W2 (rc_rid r)) as U. cbn [cntf] in U. rewrite eqn_refl in U.
        lia. }
  destruct (c_enr ct) as [e|].
  - match goal with |- context [ar_insert c _ na' ?r' now] => destruct (H4 r' eq_refl eq_refl eq_refl) as (A & B & C) end.
    cbv zeta in A, B, C. apply WI_new_session.
    + apply WI_emit_event. apply Wz. exact A.
    + intros k Hk. apply in_or_app. right. exact Hk.
    + cbn [s_enc]. intros l r0 Hl Hr0 Hsk. cbn [emit hs] in Hl. rewrite hist_emit, wcnt_snoc. cbn [wbit].
      rewrite B. destruct (carries (rc_rid r0) ke auth) eqn:Ec; [|reflexivity].
      apply carries_iff in Ec. cbn [auth creq] in Ec. inversion Ec as [Ec']. exfalso.
      exact (C l r0 Hl Hr0 Hsk (eq_sym Ec')).
  - match goal with |- context [ar_insert c _ na' ?r' now] => destruct (H4 r' eq_refl eq_refl eq_refl) as (A & B & C);
      set (rr' := r') in * end.
    cbv zeta in A, B, C.
    set (s4 := send (with_hs s2 (ar_insert c (hs s2) na' rr' now)) na' auth) in *.
    pose proof (pop_rid_fst (dr s4)) as Hi.
    destruct (pop_rid (dr s4)) as [irid d'']. cbn [fst] in Hi.
    assert (Ei : irid = next_irid (dr s)).
    { rewrite Hi. unfold next_irid. cbn [s4 send emit with_hs dr s2]. rewrite Hrid. reflexivity. }
    set (s5 := {| hs := hs s4; dr := d''; outs := outs s4 |}).
    pose proof (WI_send_request c (G ++ [ke; kd]) H0 z ex s5 ct false irid 0%N now) as W6.
    pose proof (send_request_wire c s5 ct false irid 0%N now ke) as Hw.
    pose proof (send_request_active c s5 ct false irid 0%N now na') as Ha.
    destruct (send_request c s5 ct false irid 0%N now) as [s6 ok]. cbn [fst] in W6, Hw, Ha.
    apply WI_new_session.
    + apply W6. rewrite Ei. exact A.
    + intros k Hk. apply in_or_app. right. exact Hk.
    + cbn [s_enc]. intros l r0 Hl Hr0 Hsk. rewrite wcnt_app, Hw.
      * change (outs s5) with (outs s4). rewrite <- wcnt_app, B.
        destruct (carries (rc_rid r0) ke auth) eqn:Ec; [|reflexivity].
        apply carries_iff in Ec. cbn [auth creq] in Ec. inversion Ec as [Ec']. exfalso.
        destruct (Ha l r0 Hl Hr0) as [Hx|(l0 & Hl0 & Hin0)].
        -- pose proof (W_U _ _ _ _ _ _ _ _ W2 (rc_rid r)) as U. cbn [cntf] in U. rewrite eqn_refl in U.
           unfold z1 in U. rewrite <- Ei in U. replace (rc_rid r) with irid in U by congruence.
           rewrite eqn_refl in U. lia.
        -- exact (C l0 r0 Hl0 Hin0 Hsk (eq_sym Ec')).
      * intros se Hin Hse. apply Hke. rewrite <- Hse.
        eapply (W_G _ _ _ _ _ _ _ _ W2); [exact Hin|left; reflexivity].
Qed.

(* ------------------------------------------------------------------------------------------ *)
(* timers *)

Lemma WI_fire_request c G H0 z ex s n na now :
  WI c G H0 z ex s -> WI c G H0 z ex (fire_request c s n na now).
Proof.
  intros W. unfold fire_request.
  assert (W0 : WI c G H0 z ex (with_hs s (set_active (hs s) (active (hs s)) (nmap_remove n (nmap (hs s)))))).
  { apply WI_frame_same; auto. }
  destruct (alist_get na (active (hs s))) as [l|] eqn:Hg; [|exact W0].
  destruct (remove_first (fun r => nonce_eqb (rc_nonce r) n) l) as [[r l']|] eqn:R; [|exact W0].
  apply WI_handle_request_timeout.
  unfold WI in *. cbn [with_hs hs outs set_active active pending sessions]. eapply WIP_take; eauto.
Qed.

Lemma WI_fire_challenge c G H0 z ex s na now :
  WI c G H0 z ex s -> WI c G H0 z ex (fire_challenge c s na now).
Proof.
  intros W. unfold fire_challenge. apply WI_send_pending_requests. apply WI_remove_expected.
  apply WI_frame_same; auto.
Qed.

Lemma WI_fire_group c G H0 z ex g : forall s d ft,
  WI c G H0 z ex s -> WI c G H0 z ex (fire_group c s g d ft).
Proof.
  unfold fire_group. induction g as [|x t IH]; intros s d ft W; cbn [fold_left]; [exact W|].
  apply IH. destruct (nmap_deadline (fst x) (nmap (hs s))) as [d'|]; [|exact W].
  destruct (N.eqb d' d); [apply WI_fire_request; exact W|exact W].
Qed.

Lemma WI_fire_due c G H0 z ex now fuel : forall s,
  WI c G H0 z ex s -> WI c G H0 z ex (fire_due c s now fuel).
Proof.
  induction fuel as [|f IH]; intros s W; cbn [fire_due]; [exact W|].
  assert (FR : forall d, WI c G H0 z ex (match group_of d (nmap (hs s)) with
      | _ :: _ :: _ =>
        let (rev_order, d') := pop_rev (dr s) in
        fire_group (with_clock c (fire_time c d now)) {| hs := hs s; dr := d'; outs := outs s |}
          (if rev_order then rev (group_of d (nmap (hs s))) else group_of d (nmap (hs s))) d (fire_time c d now)
      | _ => fire_group (with_clock c (fire_time c d now)) s (group_of d (nmap (hs s))) d (fire_time c d now)
      end)).
  { intros d. destruct (group_of d (nmap (hs s))) as [|x [|y g]];
      try (apply (WI_clock c (fire_time c d now)); apply WI_fire_group; apply WI_clock; exact W).
    destruct (pop_rev (dr s)) as [ro d']. apply (WI_clock c (fire_time c d now)). apply WI_fire_group.
    apply WI_clock. exact W. }
  assert (FC : forall cna cd, WI c G H0 z ex
            (fire_challenge (with_clock c (fire_time c cd now)) s cna (fire_time c cd now))).
  { intros cna cd. apply (WI_clock c (fire_time c cd now)). apply WI_fire_challenge. apply WI_clock. exact W. }
  destruct (min_deadline_nmap (nmap (hs s)) None) as [[[rn ra] rd]|];
  destruct (min_deadline_ch (challenges (hs s)) None) as [[[cna cc] cd]|].
  - destruct (N.ltb rd now && (negb (N.ltb cd now) || N.leb rd cd)); [apply IH; apply FR|].
    destruct (N.ltb cd now); [apply IH; apply FC|exact W].
  - destruct (N.ltb rd now); [apply IH; apply FR|exact W].
  - destruct (N.ltb cd now); [apply IH; apply FC|exact W].
  - exact W.
Qed.

(* ------------------------------------------------------------------------------------------ *)
(* the step and the run *)

Lemma WI_dispatch c G H0 z s0 e now d :
  d_rid (dr s0) = d_rid d ->
  WI c G H0 (fun x => z x + cnt x (new_ids e d)) [] s0 ->
  (forall k, In k (installed_keys c s0 e) -> ~ In k G) ->
  WI c (G ++ installed_keys c s0 e) H0 z [] (dispatch c s0 e now).
Proof.
  intros Hd W HF.
  assert (Wz : WI c G H0 z [] s0).
  { eapply WI_z; [|exact W]. intros x. cbv beta. lia. }
  destruct e as [ct rid body|na rid rb|na n known|from p|]; cbn [dispatch installed_keys] in *.
  - apply WI_G_nil. pose proof (WI_send_request c G H0 z [] s0 ct true rid body now) as X.
    destruct (send_request c s0 ct true rid body now) as [s1 ok]. cbn [fst] in X.
    assert (Y : WI c G H0 z [] s1).
    { apply X. eapply WI_z; [|exact W]. intros x. cbv beta. cbn [new_ids]. rewrite cnt_single. lia. }
    destruct ok; [exact Y|apply WI_emit_event; exact Y].
  - apply WI_G_nil. apply WI_send_response. exact Wz.
  - apply WI_G_nil. apply WI_send_challenge. exact Wz.
  - destruct p as [src n aad ct|n idn seq cd|src n aad sg eph eph_ok rec ct].
    + apply WI_G_nil. apply WI_handle_message. exact Wz.
    + apply WI_handle_challenge; [|exact HF].
      eapply WI_z; [|exact W]. intros x. cbv beta. cbn [new_ids]. rewrite cnt_single.
      unfold next_irid. rewrite Hd. lia.
    + apply (WI_handle_auth_message c G H0 z [] s0 (src, from)); assumption.
  - apply WI_G_nil. exact Wz.
Qed.

Local Transparent tick.
Lemma tick_WI c G H0 z h now d :
  WI c G H0 z [] {| hs := h; dr := d; outs := [] |} -> WI c G H0 z [] (tick c h now d).
Proof. intros W. unfold tick. apply (WI_clock c now). apply WI_fire_due. apply WI_clock. exact W. Qed.
Lemma tick_d_rid c h now d : d_rid (dr (tick c h now d)) = d_rid d.
Proof.
  unfold tick. destruct (fire_due_live (with_clock c now) now TICK_FUEL {| hs := h; dr := d; outs := [] |}) as [X _].
  exact X.
Qed.
Global Opaque tick.

(* the invariant between steps *)
Definition WS (c : config) (G : list key) (hist : list output) (z : N -> nat) (h : hstate) : Prop :=
  WIP c G hist z [] (active h) (pending h) (sessions h).

Lemma WS_step c h e now d hist G z :
  WS c G hist (fun x => z x + cnt x (new_ids e d)) h ->
  let ik := installed_keys c (tick c h now d) e in
  (forall k, In k ik -> ~ In k G) ->
  WS c (G ++ ik) (hist ++ snd (step c h e now d)) z (fst (step c h e now d)).
Proof.
  intros W ik HF. rewrite step_eq. cbn [fst snd].
  assert (W0 : WI c G hist (fun x => z x + cnt x (new_ids e d)) [] (tick c h now d)).
  { apply tick_WI. unfold WI. cbn [hs outs]. rewrite app_nil_r. exact W. }
  apply (WI_clock c now).
  apply (WI_dispatch (with_clock c now) G hist z (tick c h now d) e now d (tick_d_rid c h now d)); [|exact HF].
  apply WI_clock. exact W0.
Qed.

Lemma WS_run c evs : forall h hist G z,
  WS c G hist (fun x => z x + cnt x (run_new_ids evs)) h -> fresh_installs c h G evs ->
  exists G', WS c G' (hist ++ concat (snd (run c h evs))) z (fst (run c h evs)).
Proof.
  induction evs as [|[[e now] d] rest IH]; intros h hist G z W HF.
  - exists G. cbn [run fst snd concat]. rewrite app_nil_r. eapply WIP_z; [|exact W]. intros x. cbv beta. lia.
  - cbn [fresh_installs] in HF. destruct HF as [HF1 HF2].
    assert (W' : WS c G hist (fun x => (z x + cnt x (run_new_ids rest)) + cnt x (new_ids e d)) h).
    { eapply WIP_z; [|exact W]. intros x. cbv beta. rewrite run_new_ids_cons, cnt_app. lia. }
    pose proof (WS_step c h e now d hist G _ W' HF1) as H1. cbn zeta in H1.
    destruct (IH _ _ _ _ H1 HF2) as [G' H2]. exists G'.
    rewrite run_snd_cons, HandlerB_Nonce.run_fst_cons. cbn [concat]. rewrite app_assoc. exact H2.
Qed.

Lemma WS_init c ids : NoDup ids -> WS c [] [] (fun x => cnt x ids) init_state.
Proof.
  intros Hn. split; cbn.
  - intros r [].
  - intros na l r [].
  - intros x k. lia.
  - intros x k. unfold Mx. lia.
  - intros x k Hx. lia.
  - intros x k Hx. lia.
  - intros x. unfold cnt. rewrite (NoDup_count_occ N.eq_dec) in Hn. specialize (Hn x). lia.
  - intros na se k [].
Qed.

(* wire_bound *)
Theorem wire_bound_run c evs x k :
  NoDup (run_new_ids evs) -> fresh_installs c init_state [] evs ->
  wcnt x k (concat (snd (run c init_state evs))) <= N.to_nat (N.max 1 (cfg_retries c)).
Proof.
  intros Hn HF.
  assert (W0 : WS c [] [] (fun y => (fun _ => 0) y + cnt y (run_new_ids evs)) init_state).
  { eapply WIP_z; [|apply WS_init; exact Hn]. intros y. cbv beta. lia. }
  destruct (WS_run c evs init_state [] [] (fun _ => 0) W0 HF) as [G' W].
  exact (W_B _ _ _ _ _ _ _ _ W x k).
Qed.
