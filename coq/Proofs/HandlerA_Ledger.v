(* C04 (at most one outcome) - conservation of request ids in the handler model.
   For every request id x the quantity
       live x s := #(requests with id x stored in active or pending) + #(events about x emitted)
   never increases inside a step, except by the ids the step introduces (the id of an EvRequest,
   the internal id drawn for the FINDNODE[0] of an ENR-less contact), and except for the one
   non-final NODES response that handle_response reports while keeping the request (which is the
   last output of its step).  One lemma per model function, then the step, then runs. *)
From Coq Require Import List Arith NArith Bool Lia.
From Discv5V Require Import Model.Handler Proofs.HandlerInv.
Import ListNotations.

(* ------------------------------------------------------------------------------------------ *)
(* weighted sums over association lists *)

Section Asum.
Context {A : Type} (w : A -> nat).
Fixpoint asum (l : list (naddr * A)) : nat :=
  match l with [] => 0 | (_, v) :: t => w v + asum t end.
Lemma asum_app : forall l1 l2, asum (l1 ++ l2) = asum l1 + asum l2.
Proof. induction l1 as [|[k v] t IH]; intros l2; cbn [asum app]; [reflexivity|]. rewrite IH. lia. Qed.
Lemma asum_set : forall l k v v', alist_get k l = Some v -> asum (alist_set k v' l) + w v = asum l + w v'.
Proof.
  induction l as [|[k0 v0] t IH]; cbn [alist_get alist_set]; intros k v v' H; [discriminate|].
  destruct (naddr_eqb k k0); cbn [asum].
  - inversion H; subst. lia.
  - specialize (IH _ _ v' H). lia.
Qed.
Lemma asum_remove : forall l k v, alist_get k l = Some v -> asum (alist_remove k l) + w v = asum l.
Proof.
  induction l as [|[k0 v0] t IH]; cbn [alist_get alist_remove]; intros k v H; [discriminate|].
  destruct (naddr_eqb k k0); cbn [asum].
  - inversion H; subst. lia.
  - specialize (IH _ _ H). lia.
Qed.
End Asum.

Definition eqn (a b : N) : nat := if N.eqb a b then 1 else 0.

Fixpoint cntf {A} (f : A -> N) (x : N) (l : list A) : nat :=
  match l with [] => 0 | a :: t => eqn (f a) x + cntf f x t end.
Lemma cntf_app : forall {A} (f : A -> N) x l1 l2, cntf f x (l1 ++ l2) = cntf f x l1 + cntf f x l2.
Proof. intros A f x. induction l1 as [|a t IH]; intros l2; cbn [cntf app]; [reflexivity|]. rewrite IH. lia. Qed.

Lemma remove_first_cntf : forall {A} (f : A -> N) x (p : A -> bool) l r l',
  remove_first p l = Some (r, l') -> cntf f x l = eqn (f r) x + cntf f x l'.
Proof.
  intros A f x p. induction l as [|a t IH]; cbn [remove_first]; intros r l' H; [discriminate|].
  destruct (p a).
  - inversion H; subst. reflexivity.
  - destruct (remove_first p t) as [[y t']|]; [|discriminate]. inversion H; subst.
    cbn [cntf]. rewrite (IH _ _ eq_refl). lia.
Qed.

(* ------------------------------------------------------------------------------------------ *)
(* request ids held by the handler; events about a request id *)

Definition occ_act (x : N) (act : list (naddr * list rcall)) : nat := asum (cntf rc_rid x) act.
Definition occ_pend (x : N) (p : list (naddr * list preq)) : nat := asum (cntf pq_rid x) p.
(* number of requests with id x that the handler holds (sent and unanswered, or queued) *)
Definition occ (x : N) (h : hstate) : nat := occ_act x (active h) + occ_pend x (pending h).

Definition act_rids (act : list (naddr * list rcall)) : list N := flat_map (fun e => map rc_rid (snd e)) act.
Definition pend_rids (p : list (naddr * list preq)) : list N := flat_map (fun e => map pq_rid (snd e)) p.
Definition all_rids (h : hstate) : list N := act_rids (active h) ++ pend_rids (pending h).
Definition ext_rids (h : hstate) : list N :=
  flat_map (fun e => map rc_rid (filter rc_ext (snd e))) (active h)
  ++ flat_map (fun e => map pq_rid (filter pq_ext (snd e))) (pending h).

Lemma cntf_count_occ : forall {A} (f : A -> N) x l, cntf f x l = count_occ N.eq_dec (map f l) x.
Proof.
  intros A f x. induction l as [|a t IH]; cbn [cntf map count_occ]; [reflexivity|].
  unfold eqn. destruct (N.eq_dec (f a) x) as [E|E].
  - apply N.eqb_eq in E. rewrite E, IH. reflexivity.
  - apply N.eqb_neq in E. rewrite E, IH. reflexivity.
Qed.

Lemma asum_flat_map : forall {A B} (f : B -> N) (g : A -> list B) x (l : list (naddr * A)),
  asum (fun v => cntf f x (g v)) l = count_occ N.eq_dec (flat_map (fun e => map f (g (snd e))) l) x.
Proof.
  intros A B f g x. induction l as [|[k v] t IH]; cbn [asum flat_map snd]; [reflexivity|].
  rewrite count_occ_app, IH, cntf_count_occ. reflexivity.
Qed.

Lemma occ_all_rids : forall x h, occ x h = count_occ N.eq_dec (all_rids h) x.
Proof.
  intros x h. unfold occ, occ_act, occ_pend, all_rids, act_rids, pend_rids. rewrite count_occ_app.
  rewrite (asum_flat_map rc_rid (fun l => l)), (asum_flat_map pq_rid (fun l => l)). reflexivity.
Qed.

Lemma cntf_filter_le : forall {A} (f : A -> N) (p : A -> bool) x l, cntf f x (filter p l) <= cntf f x l.
Proof.
  intros A f p x. induction l as [|a t IH]; cbn [filter cntf]; [lia|].
  destruct (p a); cbn [cntf]; lia.
Qed.
Lemma asum_le : forall {A} (w1 w2 : A -> nat) (l : list (naddr * A)),
  (forall v, w1 v <= w2 v) -> asum w1 l <= asum w2 l.
Proof.
  intros A w1 w2 l H. induction l as [|[k v] t IH]; cbn [asum]; [lia|]. specialize (H v). lia.
Qed.

Lemma ext_rids_le : forall x h, count_occ N.eq_dec (ext_rids h) x <= occ x h.
Proof.
  intros x h. unfold ext_rids, occ, occ_act, occ_pend. rewrite count_occ_app.
  rewrite <- (asum_flat_map rc_rid (fun l => filter rc_ext l)), <- (asum_flat_map pq_rid (fun l => filter pq_ext l)).
  pose proof (asum_le (fun v => cntf rc_rid x (filter rc_ext v)) (cntf rc_rid x) (active h)
                (fun v => cntf_filter_le rc_rid rc_ext x v)).
  pose proof (asum_le (fun v => cntf pq_rid x (filter pq_ext v)) (cntf pq_rid x) (pending h)
                (fun v => cntf_filter_le pq_rid pq_ext x v)).
  lia.
Qed.

(* the request id an output event is about *)
Definition about (o : output) : option N :=
  match o with
  | OEvent (HRequestFailed rid _) => Some rid
  | OEvent (HResponse _ rid _) => Some rid
  | _ => None
  end.
Fixpoint men (x : N) (l : list output) : nat :=
  match l with
  | [] => 0
  | o :: t => match about o with Some y => eqn y x | None => 0 end + men x t
  end.
Lemma men_app : forall x l1 l2, men x (l1 ++ l2) = men x l1 + men x l2.
Proof. intros x. induction l1 as [|o t IH]; intros l2; cbn [men app]; [reflexivity|]. rewrite IH. lia. Qed.

Definition live (x : N) (s : st) : nat := occ x (hs s) + men x (outs s).

Lemma live_emit : forall x s o,
  live x (emit s o) = live x s + match about o with Some y => eqn y x | None => 0 end.
Proof. intros x s o. unfold live. cbn [emit hs outs]. rewrite men_app. cbn [men]. lia. Qed.
Lemma live_send : forall x s na p, live x (send s na p) = live x s.
Proof. intros x s na p. unfold send. rewrite live_emit. cbn [about]. lia. Qed.

(* frame *)
Definition same_ap (h' h : hstate) : Prop := active h' = active h /\ pending h' = pending h.
Lemma occ_same : forall x h' h, same_ap h' h -> occ x h' = occ x h.
Proof. intros x h' h [H1 H2]. unfold occ. rewrite H1, H2. reflexivity. Qed.
Lemma same_ap_refl : forall h, same_ap h h.
Proof. split; reflexivity. Qed.
Lemma same_ap_trans : forall h1 h2 h3, same_ap h1 h2 -> same_ap h2 h3 -> same_ap h1 h3.
Proof. intros h1 h2 h3 [A1 A2] [B1 B2]. split; congruence. Qed.
Lemma sess_get_ap : forall c h na, same_ap (fst (sess_get c h na)) h.
Proof. intros c h na. destruct (sess_get_frame c h na) as (A & _ & B & _). split; assumption. Qed.
Lemma remove_expired_sessions_ap : forall c s, same_ap (hs (remove_expired_sessions c s)) (hs s).
Proof. intros c s. destruct (remove_expired_sessions_frame c s) as (A & _ & B & _). split; assumption. Qed.
Lemma sess_put_ap : forall h na se, same_ap (sess_put h na se) h.
Proof. split; reflexivity. Qed.
Lemma sess_insert_ap : forall c h na se, same_ap (sess_insert c h na se) h.
Proof. split; reflexivity. Qed.
Lemma sess_remove_ap : forall h na, same_ap (sess_remove h na) h.
Proof. split; reflexivity. Qed.

Lemma live_with_hs : forall x s h, same_ap h (hs s) -> live x (with_hs s h) = live x s.
Proof. intros x s h H. unfold live. cbn [with_hs hs outs]. rewrite (occ_same x _ _ H). reflexivity. Qed.

Lemma encrypt_message_st : forall c s na se m,
  hs (fst (fst (encrypt_message c s na se m))) = hs s /\ outs (fst (fst (encrypt_message c s na se m))) = outs s
  /\ d_rid (dr (fst (fst (encrypt_message c s na se m)))) = d_rid (dr s).
Proof.
  intros c s na se m. unfold encrypt_message, pop_pk.
  destruct (d_pk (dr s)) as [|[[[x1 x2] x3] x4] r]; cbn; auto.
Qed.

Lemma is_awaiting_session_st : forall c s na,
  same_ap (hs (fst (is_awaiting_session c s na))) (hs s) /\ outs (fst (is_awaiting_session c s na)) = outs s
  /\ dr (fst (is_awaiting_session c s na)) = dr s.
Proof.
  intros c s na. unfold is_awaiting_session. pose proof (sess_get_ap c (hs s) na) as H.
  destruct (sess_get c (hs s) na) as [h se]. cbn [fst] in H. destruct se; cbn [fst with_hs hs outs dr]; auto.
Qed.

(* effect of the ActiveRequests operations on occ *)
Lemma occ_ar_insert : forall x c h na r now, occ x (ar_insert c h na r now) = occ x h + eqn (rc_rid r) x.
Proof.
  intros x c h na r now. unfold occ, ar_insert. cbn [set_active active pending]. unfold occ_act.
  destruct (alist_get na (active h)) as [l|] eqn:G.
  - pose proof (asum_set (cntf rc_rid x) _ _ _ (l ++ [r]) G) as E. rewrite cntf_app in E. cbn [cntf] in E. lia.
  - rewrite asum_app. cbn [asum cntf]. lia.
Qed.

Lemma occ_push_pending : forall x h na q, occ x (push_pending h na q) = occ x h + eqn (pq_rid q) x.
Proof.
  intros x h na q. unfold occ, push_pending. unfold occ_pend.
  destruct (alist_get na (pending h)) as [l|] eqn:G; cbn [set_pending active pending].
  - pose proof (asum_set (cntf pq_rid x) _ _ _ (l ++ [q]) G) as E. rewrite cntf_app in E. cbn [cntf] in E. lia.
  - rewrite asum_app. cbn [asum cntf]. lia.
Qed.

Lemma asum_put : forall x act na l l', alist_get na act = Some l ->
  asum (cntf rc_rid x) (put_list na l' act) + cntf rc_rid x l = asum (cntf rc_rid x) act + cntf rc_rid x l'.
Proof.
  intros x act na l l' G. unfold put_list. destruct l' as [|r l'].
  - rewrite <- (asum_remove (cntf rc_rid x) _ _ _ G). cbn [cntf]. lia.
  - apply asum_set. exact G.
Qed.

Lemma occ_remove_pending : forall x h na l, alist_get na (pending h) = Some l ->
  occ x (set_pending h (alist_remove na (pending h))) + cntf pq_rid x l = occ x h.
Proof.
  intros x h na l G. unfold occ. cbn [set_pending active pending]. unfold occ_pend.
  pose proof (asum_remove (cntf pq_rid x) _ _ _ G). lia.
Qed.

Lemma occ_ar_remove_request : forall x h na rid h' r,
  ar_remove_request h na rid = (h', Some r) -> occ x h' + eqn (rc_rid r) x = occ x h.
Proof.
  intros x h na rid h' r E. unfold ar_remove_request in E.
  destruct (alist_get na (active h)) as [l|] eqn:G; [|discriminate].
  destruct (remove_first (fun r0 => N.eqb (rc_rid r0) rid) l) as [[r0 l']|] eqn:R; [|discriminate].
  inversion E; subst. unfold occ. cbn [set_active active pending]. unfold occ_act.
  pose proof (asum_put x _ _ _ l' G) as X. rewrite (remove_first_cntf rc_rid x _ _ _ _ R) in X. lia.
Qed.

Lemma occ_ar_remove_requests : forall x h na h' reqs,
  ar_remove_requests h na = (h', reqs) -> occ x h' + cntf rc_rid x reqs = occ x h.
Proof.
  intros x h na h' reqs E. unfold ar_remove_requests in E.
  destruct (alist_get na (active h)) as [l|] eqn:G; inversion E; subst.
  - unfold occ. cbn [set_active active pending]. unfold occ_act.
    pose proof (asum_remove (cntf rc_rid x) _ _ _ G). lia.
  - cbn [cntf]. lia.
Qed.

Lemma occ_ar_remove_by_nonce : forall x h n h' found,
  ar_remove_by_nonce h n = (h', found) ->
  occ x h' + match found with Some (_, r) => eqn (rc_rid r) x | None => 0 end = occ x h.
Proof.
  intros x h n h' found E. unfold ar_remove_by_nonce in E.
  destruct (nmap_get n (nmap h)) as [na|]; [|inversion E; subst; lia].
  destruct (alist_get na (active h)) as [l|] eqn:G; [|inversion E; subst; unfold occ; cbn [set_active active pending]; lia].
  destruct (remove_first (fun r => nonce_eqb (rc_nonce r) n) l) as [[r l']|] eqn:R; inversion E; subst;
    unfold occ; cbn [set_active active pending]; unfold occ_act.
  - pose proof (asum_put x _ _ _ l' G) as X. rewrite (remove_first_cntf rc_rid x _ _ _ _ R) in X. lia.
  - pose proof (asum_put x _ _ _ l G) as X. lia.
Qed.

Lemma upd_pkt_cntf : forall x old p l done, cntf rc_rid x (upd_pkt old p l done) = cntf rc_rid x l.
Proof.
  intros x old p. induction l as [|r t IH]; intros done; cbn [upd_pkt cntf]; [reflexivity|].
  destruct (negb done && nonce_eqb (rc_nonce r) old); cbn [cntf rc_rid]; rewrite IH; reflexivity.
Qed.
Lemma occ_ar_update_packet : forall x c h old p now, occ x (ar_update_packet c h old p now) = occ x h.
Proof.
  intros x c h old p now. rewrite ar_update_packet_eq.
  destruct (nmap_get old (nmap h)) as [na|]; [|reflexivity]. cbv zeta.
  destruct (alist_get na (active h)) as [l|] eqn:G; [|reflexivity].
  unfold occ. cbn [set_active active pending]. unfold occ_act.
  pose proof (asum_set (cntf rc_rid x) _ _ _ (upd_pkt old p l false) G) as X. rewrite upd_pkt_cntf in X. lia.
Qed.

(* ------------------------------------------------------------------------------------------ *)
(* [Le s s']: from s to s' no request id gained a holder or an event; the stream of internal
   request ids was not touched.  [LeX y s s']: the same, after the id y was handed over. *)

Definition LeX (y : N -> nat) (s s' : st) : Prop :=
  d_rid (dr s') = d_rid (dr s) /\ forall x, live x s' <= live x s + y x.
Definition Le (s s' : st) : Prop := LeX (fun _ => 0) s s'.

Lemma Le_intro : forall s s', d_rid (dr s') = d_rid (dr s) -> (forall x, live x s' <= live x s) -> Le s s'.
Proof. intros s s' H1 H2. split; [exact H1|]. intros x. specialize (H2 x). lia. Qed.
Lemma Le_live : forall s s' x, Le s s' -> live x s' <= live x s.
Proof. intros s s' x [_ H]. specialize (H x). lia. Qed.
Lemma Le_refl : forall s, Le s s.
Proof. intros s. apply Le_intro; auto. Qed.
Lemma LeX_trans : forall y s1 s2 s3, LeX y s1 s2 -> Le s2 s3 -> LeX y s1 s3.
Proof.
  intros y s1 s2 s3 [A1 A2] [B1 B2]. split; [congruence|]. intros x. specialize (A2 x). specialize (B2 x). lia.
Qed.
Lemma Le_LeX_trans : forall y s1 s2 s3, Le s1 s2 -> LeX y s2 s3 -> LeX y s1 s3.
Proof.
  intros y s1 s2 s3 [A1 A2] [B1 B2]. split; [congruence|]. intros x. specialize (A2 x). specialize (B2 x). lia.
Qed.
Lemma Le_trans : forall s1 s2 s3, Le s1 s2 -> Le s2 s3 -> Le s1 s3.
Proof. intros s1 s2 s3. apply LeX_trans. Qed.

Lemma Le_with_hs : forall s h, same_ap h (hs s) -> Le s (with_hs s h).
Proof. intros s h H. apply Le_intro; [reflexivity|]. intros x. rewrite live_with_hs by assumption. lia. Qed.
Lemma Le_send : forall s na p, Le s (send s na p).
Proof. intros s na p. apply Le_intro; [reflexivity|]. intros x. rewrite live_send. lia. Qed.
Lemma Le_emit_other : forall s o, about o = None -> Le s (emit s o).
Proof. intros s o H. apply Le_intro; [reflexivity|]. intros x. rewrite live_emit, H. lia. Qed.
Lemma LeX_emit : forall s o y, about o = Some y -> LeX (eqn y) s (emit s o).
Proof. intros s o y H. split; [reflexivity|]. intros x. rewrite live_emit, H. lia. Qed.

Lemma Le_add_expected : forall s a, Le s (add_expected s a).
Proof. intros s a. unfold add_expected. apply Le_with_hs. split; reflexivity. Qed.
Lemma Le_remove_expected : forall s a, Le s (remove_expected s a).
Proof. intros s a. unfold remove_expected. apply Le_with_hs. split; reflexivity. Qed.

Lemma Le_of_same : forall s s', same_ap (hs s') (hs s) -> outs s' = outs s -> d_rid (dr s') = d_rid (dr s) -> Le s s'.
Proof.
  intros s s' H1 H2 H3. apply Le_intro; [exact H3|]. intros x. unfold live. rewrite (occ_same x _ _ H1), H2. lia.
Qed.
Lemma Le_remove_expired_sessions : forall c s, Le s (remove_expired_sessions c s).
Proof.
  intros c s. apply Le_intro; [rewrite remove_expired_sessions_dr; reflexivity|]. intros x. unfold live.
  rewrite (occ_same x _ _ (remove_expired_sessions_ap c s)).
  destruct (remove_expired_sessions_outs c s) as [E|[ks E]]; rewrite E; [lia|].
  rewrite men_app. cbn [men about]. lia.
Qed.
Lemma LeX_ar_insert : forall c s na r now, LeX (eqn (rc_rid r)) s (with_hs s (ar_insert c (hs s) na r now)).
Proof.
  intros c s na r now. split; [reflexivity|]. intros x. unfold live. cbn [with_hs hs outs].
  rewrite occ_ar_insert. lia.
Qed.
Lemma LeX_push_pending : forall s na q, LeX (eqn (pq_rid q)) s (with_hs s (push_pending (hs s) na q)).
Proof.
  intros s na q. split; [reflexivity|]. intros x. unfold live. cbn [with_hs hs outs].
  rewrite occ_push_pending. lia.
Qed.

Lemma send_request_live : forall c s ct ext rid body now,
  LeX (fun x => if snd (send_request c s ct ext rid body now) then eqn rid x else 0)
      s (fst (send_request c s ct ext rid body now)).
Proof.
  intros c s ct ext rid body now. unfold send_request.
  destruct (existsb (N.eqb (c_addr ct)) (cfg_listen c)); [apply Le_refl|].
  assert (H1 : Le s (fst (if has_challenge (hs s) (c_naddr ct) then (s, true)
                          else is_awaiting_session c s (c_naddr ct)))).
  { destruct (has_challenge (hs s) (c_naddr ct)); [apply Le_refl|].
    destruct (is_awaiting_session_st c s (c_naddr ct)) as (A & B & C). apply Le_of_same; congruence. }
  destruct (if has_challenge (hs s) (c_naddr ct) then (s, true) else is_awaiting_session c s (c_naddr ct))
    as [s1 aw]. cbn [fst] in H1.
  destruct aw; cbn [fst snd].
  - eapply Le_LeX_trans; [exact H1|].
    apply (LeX_push_pending s1 (c_naddr ct) {| pq_contact := ct; pq_ext := ext; pq_rid := rid; pq_body := body |}).
  - pose proof (sess_get_ap c (hs s1) (c_naddr ct)) as H4.
    destruct (sess_get c (hs s1) (c_naddr ct)) as [h2 se]. cbn [fst] in H4.
    assert (H2 : Le s (with_hs s1 h2)) by (eapply Le_trans; [exact H1|apply Le_with_hs; exact H4]).
    destruct se as [se|].
    + pose proof (encrypt_message_st c (with_hs s1 h2) (c_naddr ct) se (MReq rid body)) as H5.
      destruct (encrypt_message c (with_hs s1 h2) (c_naddr ct) se (MReq rid body)) as [[s3 se'] p].
      cbn [fst snd] in *. destruct H5 as (H5 & H6 & H7).
      eapply Le_LeX_trans; [|apply (LeX_ar_insert c _ (c_naddr ct)
         {| rc_contact := ct; rc_pkt := p; rc_ext := ext; rc_rid := rid; rc_body := body; rc_hs_sent := false;
            rc_retries := 1; rc_remaining := None; rc_init := false |})].
      eapply Le_trans; [|apply Le_send]. eapply Le_trans; [|apply Le_add_expected].
      eapply Le_trans; [|apply Le_with_hs; apply sess_put_ap].
      eapply Le_trans; [exact H2|]. apply Le_of_same; [rewrite H5; apply same_ap_refl|exact H6|exact H7].
    + assert (H5 : Le (with_hs s1 h2) {| hs := hs (with_hs s1 h2); dr := snd (pop_pk (dr (with_hs s1 h2)));
                                         outs := outs (with_hs s1 h2) |}).
      { apply Le_of_same; [apply same_ap_refl|reflexivity|]. cbn [dr]. unfold pop_pk.
        destruct (d_pk (dr (with_hs s1 h2))) as [|q t]; reflexivity. }
      destruct (pop_pk (dr (with_hs s1 h2))) as [[[[cn r] aad] x4] d']. cbn [fst snd] in *.
      eapply Le_LeX_trans; [|apply (LeX_ar_insert c _ (c_naddr ct)
         {| rc_contact := ct; rc_pkt := PMsg (cfg_local c) (cn, r) aad (CJunk aad); rc_ext := ext; rc_rid := rid;
            rc_body := body; rc_hs_sent := false; rc_retries := 1; rc_remaining := None; rc_init := true |})].
      eapply Le_trans; [|apply Le_send]. eapply Le_trans; [|apply Le_add_expected].
      eapply Le_trans; [exact H2|exact H5].
Qed.

Lemma LeX_comp : forall y1 y2 s1 s2 s3, LeX y1 s1 s2 -> LeX y2 s2 s3 -> LeX (fun x => y1 x + y2 x) s1 s3.
Proof.
  intros y1 y2 s1 s2 s3 [A1 A2] [B1 B2]. split; [congruence|]. intros x. specialize (A2 x). specialize (B2 x). lia.
Qed.
Lemma LeX_weaken : forall (y y' : N -> nat) s1 s2, (forall x, y x <= y' x) -> LeX y s1 s2 -> LeX y' s1 s2.
Proof. intros y y' s1 s2 H [A1 A2]. split; [exact A1|]. intros x. specialize (A2 x). specialize (H x). lia. Qed.
Lemma Le_LeX : forall y s1 s2, Le s1 s2 -> LeX y s1 s2.
Proof. intros y s1 s2. apply LeX_weaken. intros x. lia. Qed.

Lemma send_pending_fold_live : forall c now l s0,
  LeX (fun x => cntf pq_rid x l) s0
    (fold_left (fun s q =>
      let (s', ok) := send_request c s (pq_contact q) (pq_ext q) (pq_rid q) (pq_body q) now in
      if ok then s'
      else if pq_ext q then emit s' (OEvent (HRequestFailed (pq_rid q) ERR_SELF_REQUEST)) else s') l s0).
Proof.
  intros c now. induction l as [|q t IH]; intros s0; cbn [fold_left cntf]; [apply Le_refl|].
  eapply LeX_comp; [|apply IH].
  pose proof (send_request_live c s0 (pq_contact q) (pq_ext q) (pq_rid q) (pq_body q) now) as X.
  destruct (send_request c s0 (pq_contact q) (pq_ext q) (pq_rid q) (pq_body q) now) as [s' ok].
  cbn [fst snd] in X. destruct ok; [exact X|].
  destruct (pq_ext q).
  - eapply Le_LeX_trans; [exact X|]. apply LeX_emit. reflexivity.
  - apply Le_LeX. exact X.
Qed.

Lemma send_pending_requests_live : forall c s na now, Le s (send_pending_requests c s na now).
Proof.
  intros c s na now. unfold send_pending_requests.
  destruct (alist_get na (pending (hs s))) as [l|] eqn:G; [|apply Le_refl].
  pose proof (send_pending_fold_live c now l (with_hs s (set_pending (hs s) (alist_remove na (pending (hs s))))))
    as [X1 X2].
  apply Le_intro; [exact X1|]. intros x. specialize (X2 x).
  pose proof (occ_remove_pending x (hs s) na l G) as Y.
  unfold live in *. cbn [with_hs hs outs] in X2. lia.
Qed.

Lemma fail_pending_fold_live : forall err l s0,
  LeX (fun x => cntf pq_rid x l) s0
    (fold_left (fun s q => if pq_ext q then emit s (OEvent (HRequestFailed (pq_rid q) err)) else s) l s0).
Proof.
  intros err. induction l as [|q t IH]; intros s0; cbn [fold_left cntf]; [apply Le_refl|].
  eapply LeX_comp; [|apply IH]. destruct (pq_ext q); [apply LeX_emit; reflexivity|apply Le_LeX, Le_refl].
Qed.

Lemma fail_active_fold_live : forall err a l s0,
  LeX (fun x => cntf rc_rid x l) s0
    (fold_left (fun s r =>
      let s' := if rc_ext r then emit s (OEvent (HRequestFailed (rc_rid r) err)) else s in
      remove_expected s' a) l s0).
Proof.
  intros err a. induction l as [|r t IH]; intros s0; cbn [fold_left cntf]; [apply Le_refl|].
  eapply LeX_comp; [|apply IH]. eapply LeX_trans; [|apply Le_remove_expected].
  destruct (rc_ext r); [apply LeX_emit; reflexivity|apply Le_LeX, Le_refl].
Qed.

Lemma fail_session_live : forall c s na err rm, Le s (fail_session c s na err rm).
Proof.
  intros c s na err rm. unfold fail_session.
  set (s1 := if rm then let s0 := remove_expired_sessions c s in with_hs s0 (sess_remove (hs s0) na) else s).
  assert (H1 : Le s s1).
  { subst s1. destruct rm; [|apply Le_refl]. cbv zeta.
    eapply Le_trans; [apply Le_remove_expired_sessions|apply Le_with_hs, sess_remove_ap]. }
  clearbody s1.
  set (s2 := match alist_get na (pending (hs s1)) with Some l => _ | None => s1 end).
  assert (H2 : Le s1 s2).
  { subst s2. destruct (alist_get na (pending (hs s1))) as [l|] eqn:G; [|apply Le_refl].
    pose proof (fail_pending_fold_live err l (with_hs s1 (set_pending (hs s1) (alist_remove na (pending (hs s1))))))
      as [X1 X2].
    apply Le_intro; [exact X1|]. intros x. specialize (X2 x).
    pose proof (occ_remove_pending x (hs s1) na l G) as Y.
    unfold live in *. cbn [with_hs hs outs] in X2. lia. }
  clearbody s2. eapply Le_trans; [exact H1|]. eapply Le_trans; [exact H2|].
  destruct (ar_remove_requests (hs s2) na) as [h3 reqs] eqn:E.
  pose proof (fail_active_fold_live err (snd na) reqs (with_hs s2 h3)) as [X1 X2].
  apply Le_intro; [exact X1|]. intros x. specialize (X2 x).
  pose proof (occ_ar_remove_requests x _ _ _ _ E) as Y.
  unfold live in *. cbn [with_hs hs outs] in X2. lia.
Qed.

Lemma fail_request_live : forall c s r err rm, LeX (eqn (rc_rid r)) s (fail_request c s r err rm).
Proof.
  intros c s r err rm. unfold fail_request. eapply LeX_trans; [|apply fail_session_live].
  destruct (rc_ext r); [apply LeX_emit; reflexivity|apply Le_LeX, Le_refl].
Qed.

Lemma replay_active_requests_live : forall c s na skip now, Le s (replay_active_requests c s na skip now).
Proof.
  intros c s na skip now. unfold replay_active_requests.
  pose proof (sess_get_ap c (hs s) na) as H1.
  destruct (sess_get c (hs s) na) as [h1 se]. cbn [fst] in H1. destruct se as [se0|]; [|apply Le_with_hs; exact H1].
  match goal with |- context [fold_left ?f ?l (with_hs s h1, se0, [])] =>
    assert (X : Le s (fst (fst (fold_left f l (with_hs s h1, se0, []))))) end.
  { apply (fold_left_inv (fun acc : st * session * list (nonce * packet) => Le s (fst (fst acc)))).
    - intros [[s' se'] pk] r _ Ha. cbn [fst] in Ha.
      pose proof (encrypt_message_st c s' na se' (MReq (rc_rid r) (rc_body r))) as Y.
      destruct (encrypt_message c s' na se' (MReq (rc_rid r) (rc_body r))) as [[s'' se''] p].
      cbn [fst] in *. destruct Y as (Y1 & Y2 & Y3). eapply Le_trans; [exact Ha|].
      apply Le_of_same; [rewrite Y1; apply same_ap_refl|exact Y2|exact Y3].
    - cbn [fst]. apply Le_with_hs. exact H1. }
  match goal with |- context [fold_left ?f ?l (with_hs s h1, se0, [])] =>
    destruct (fold_left f l (with_hs s h1, se0, [])) as [[s2 se2] pkts] end.
  cbn [fst] in X.
  apply (fold_left_inv (fun s' => Le s s')).
  - intros s' x _ Hs'. eapply Le_trans; [exact Hs'|]. eapply Le_trans; [|apply Le_send].
    apply Le_intro; [reflexivity|]. intros y. unfold live. cbn [with_hs hs outs]. rewrite occ_ar_update_packet. lia.
  - eapply Le_trans; [exact X|]. apply Le_with_hs, sess_put_ap.
Qed.

Lemma new_session_live : forall c s na se skip now, Le s (new_session c s na se skip now).
Proof.
  intros c s na se skip now. unfold new_session.
  eapply Le_trans; [apply (Le_remove_expired_sessions c)|]. generalize (remove_expired_sessions c s). clear s. intros s.
  pose proof (sess_get_ap c (hs s) na) as H1.
  destruct (sess_get c (hs s) na) as [h1 cur]. cbn [fst] in H1.
  destruct cur as [cs|].
  - match goal with |- context [replay_active_requests c ?s1 na skip now] =>
      assert (X : Le s (replay_active_requests c s1 na skip now)) end.
    { eapply Le_trans; [|apply replay_active_requests_live]. apply Le_with_hs.
      eapply same_ap_trans; [apply sess_put_ap|exact H1]. }
    destruct (fix_d2a c); [|exact X]. eapply Le_trans; [exact X|apply send_pending_requests_live].
  - eapply Le_trans; [|apply send_pending_requests_live]. apply Le_with_hs.
    eapply same_ap_trans; [apply sess_insert_ap|exact H1].
Qed.

Lemma handle_request_timeout_live : forall c s na r now,
  LeX (eqn (rc_rid r)) s (handle_request_timeout c s na r now).
Proof.
  intros c s na r now. unfold handle_request_timeout.
  destruct (N.leb (cfg_retries c) (rc_retries r)).
  - eapply Le_LeX_trans; [apply Le_remove_expected|apply fail_request_live].
  - eapply Le_LeX_trans; [apply Le_send|].
    apply (LeX_ar_insert c (send s na (rc_pkt r)) na
      {| rc_contact := rc_contact r; rc_pkt := rc_pkt r; rc_ext := rc_ext r; rc_rid := rc_rid r;
         rc_body := rc_body r; rc_hs_sent := rc_hs_sent r; rc_retries := rc_retries r + 1;
         rc_remaining := rc_remaining r; rc_init := rc_init r |}).
Qed.

Lemma send_response_live : forall c s na rid rb, Le s (send_response c s na rid rb).
Proof.
  intros c s na rid rb. unfold send_response.
  pose proof (sess_get_ap c (hs s) na) as H1.
  destruct (sess_get c (hs s) na) as [h1 se]. cbn [fst] in H1. destruct se as [se|]; [|apply Le_with_hs; exact H1].
  pose proof (encrypt_message_st c (with_hs s h1) na se (MResp rid rb)) as Y.
  destruct (encrypt_message c (with_hs s h1) na se (MResp rid rb)) as [[s2 se'] p].
  cbn [fst] in Y. destruct Y as (Y1 & Y2 & Y3).
  eapply Le_trans; [|apply Le_send]. eapply Le_trans; [|apply Le_with_hs, sess_put_ap].
  eapply Le_trans; [apply Le_with_hs; exact H1|].
  apply Le_of_same; [rewrite Y1; apply same_ap_refl|exact Y2|exact Y3].
Qed.

Lemma send_challenge_live : forall c s na n known now, Le s (send_challenge c s na n known now).
Proof.
  intros c s na n known now. unfold send_challenge.
  destruct (has_challenge (hs s) na); [apply Le_refl|].
  assert (H5 : Le s {| hs := hs s; dr := snd (pop_pk (dr s)); outs := outs s |}).
  { apply Le_of_same; [apply same_ap_refl|reflexivity|]. cbn [dr]. unfold pop_pk.
    destruct (d_pk (dr s)) as [|q t]; reflexivity. }
  destruct (pop_pk (dr s)) as [[[[idn x2] cd] x4] d']. cbn [snd] in H5.
  eapply Le_trans; [exact H5|]. eapply Le_trans; [apply Le_add_expected|]. eapply Le_trans; [apply Le_send|].
  apply Le_with_hs. split; reflexivity.
Qed.

(* ------------------------------------------------------------------------------------------ *)
(* functions that may end with a response *)

Definition nonfinal (rb : rbody) : Prop := exists total recs, rb = RNodes total recs /\ (1 < total)%N.

(* [Resp B s']: either every id is bounded by B, or the last output is a non-final NODES response
   for a request that is still held, and everything before it is bounded by B *)
Definition Resp (B : N -> nat) (s' : st) : Prop :=
  (forall x, live x s' <= B x)
  \/ exists o0 na rid rb, outs s' = o0 ++ [OEvent (HResponse na rid rb)] /\ 1 <= occ rid (hs s') /\ nonfinal rb
       /\ forall x, occ x (hs s') + men x o0 <= B x.

Lemma Resp_weaken : forall (B B' : N -> nat) s', (forall x, B x <= B' x) -> Resp B s' -> Resp B' s'.
Proof.
  intros B B' s' H [A|(o0 & na & rid & rb & A1 & A2 & A3 & A4)].
  - left. intros x. specialize (A x). specialize (H x). lia.
  - right. exists o0, na, rid, rb. repeat split; auto. intros x. specialize (A4 x). specialize (H x). lia.
Qed.
Lemma Resp_of_Le : forall s s', Le s s' -> Resp (fun x => live x s) s'.
Proof. intros s s' H. left. intros x. apply Le_live. exact H. Qed.
Lemma Resp_after_Le : forall s s1 s', Le s s1 -> Resp (fun x => live x s1) s' -> Resp (fun x => live x s) s'.
Proof. intros s s1 s' H. apply Resp_weaken. intros x. apply Le_live. exact H. Qed.

Lemma ar_remove_request_rid : forall h na rid h' r, ar_remove_request h na rid = (h', Some r) -> rc_rid r = rid.
Proof.
  intros h na rid h' r E. unfold ar_remove_request in E.
  destruct (alist_get na (active h)) as [l|]; [|discriminate].
  destruct (remove_first (fun r0 => N.eqb (rc_rid r0) rid) l) as [[r0 l']|] eqn:R; [|discriminate].
  inversion E; subst. apply remove_first_spec in R. destruct R as (R & _). apply N.eqb_eq. exact R.
Qed.

Lemma eqn_refl : forall a, eqn a a = 1.
Proof. intros a. unfold eqn. rewrite N.eqb_refl. reflexivity. Qed.

Lemma handle_response_live : forall c s na rid rb now,
  Resp (fun x => live x s) (handle_response c s na rid rb now).
Proof.
  intros c s na rid rb now. unfold handle_response.
  destruct (ar_remove_request (hs s) na rid) as [h1 found] eqn:E.
  destruct found as [r|]; [|left; intros x; lia].
  pose proof (ar_remove_request_rid _ _ _ _ _ E) as Hrid.
  assert (Hocc : forall x, occ x h1 + eqn rid x = occ x (hs s)).
  { intros x. rewrite <- Hrid. apply (occ_ar_remove_request x _ _ _ _ _ E). }
  assert (R : forall rem, nonfinal rb -> Resp (fun x => live x s) (emit (with_hs (with_hs s h1)
             (ar_insert c (hs (with_hs s h1)) na
                {| rc_contact := rc_contact r; rc_pkt := rc_pkt r; rc_ext := rc_ext r; rc_rid := rc_rid r;
                   rc_body := rc_body r; rc_hs_sent := rc_hs_sent r; rc_retries := rc_retries r;
                   rc_remaining := rem; rc_init := rc_init r |} now)) (OEvent (HResponse na rid rb)))).
  { intros rem NF. right. exists (outs s), na, rid, rb. cbn [emit with_hs hs outs].
    split; [reflexivity|]. split; [|split; [exact NF|]].
    - rewrite occ_ar_insert. cbn [rc_rid]. rewrite Hrid, eqn_refl. lia.
    - intros x. rewrite occ_ar_insert. cbn [rc_rid]. rewrite Hrid. unfold live. specialize (Hocc x). lia. }
  assert (F : Resp (fun x => live x s) (emit (remove_expected (with_hs s h1) (snd na)) (OEvent (HResponse na rid rb)))).
  { left. intros x. rewrite live_emit. cbn [about]. unfold live.
    cbn [remove_expected with_hs hs outs]. specialize (Hocc x).
    change (occ x {| active := active h1; nmap := nmap h1; pending := pending h1; challenges := challenges h1;
                     sessions := sessions h1; expected := exp_remove (snd na) (expected h1) |}) with (occ x h1).
    lia. }
  cbv zeta. destruct rb as [total recs|tag]; [|apply F].
  destruct (N.ltb 1 total) eqn:Et; [|apply F].
  assert (NF : nonfinal (RNodes total recs)). { exists total, recs. split; [reflexivity|]. apply N.ltb_lt. exact Et. }
  destruct (rc_remaining r) as [rem|]; [|apply R; exact NF].
  destruct (negb (N.eqb (rem - 1) 0)); [apply R; exact NF|apply F].
Qed.

Lemma handle_message_live : forall c s na n aad ct now,
  Resp (fun x => live x s) (handle_message c s na n aad ct now).
Proof.
  intros c s na n aad ct now. unfold handle_message.
  pose proof (sess_get_ap c (hs s) na) as H1.
  destruct (sess_get c (hs s) na) as [h1 se]. cbn [fst] in H1.
  destruct se as [se|].
  2:{ apply Resp_of_Le. eapply Le_trans; [apply Le_with_hs; exact H1|]. apply Le_emit_other; reflexivity. }
  destruct (decrypt_message se n aad ct) as [se' m].
  set (s2 := with_hs (with_hs s h1) (sess_put (hs (with_hs s h1)) na se')).
  assert (H2 : Le s s2).
  { subst s2. eapply Le_trans; [apply Le_with_hs; exact H1|]. apply Le_with_hs, sess_put_ap. }
  clearbody s2.
  destruct m as [[rid body|rid rb|j]|].
  - apply Resp_of_Le. eapply Le_trans; [exact H2|]. apply Le_emit_other. reflexivity.
  - assert (HR : Resp (fun x => live x s) (handle_response c s2 na rid rb now)).
    { eapply Resp_after_Le; [exact H2|apply handle_response_live]. }
    destruct (s_await se') as [arid|]; [|exact HR].
    destruct (N.eqb rid arid); [|exact HR].
    match goal with |- context [fail_session c ?x na ERR_INVALID_REMOTE_ENR true] => set (s3 := x) end.
    assert (H3 : Le s s3).
    { subst s3. eapply Le_trans; [exact H2|].
      match goal with |- Le s2 (if fix_d2b c then ?a else ?b) => assert (H3 : Le s2 b) end.
      { apply Le_with_hs, sess_put_ap. }
      destruct (fix_d2b c); [|exact H3].
      match goal with |- context [ar_remove_request ?h na rid] =>
        destruct (ar_remove_request h na rid) as [h4 found] eqn:E end.
      destruct found as [r|]; [|exact H3].
      eapply Le_trans; [exact H3|]. eapply Le_trans; [|apply Le_remove_expected].
      apply Le_intro; [reflexivity|]. intros x. unfold live. cbn [with_hs hs outs].
      pose proof (occ_ar_remove_request x _ _ _ _ _ E). cbn [with_hs hs] in *. lia. }
    clearbody s3.
    assert (HF : Resp (fun x => live x s) (fail_session c s3 na ERR_INVALID_REMOTE_ENR true)).
    { apply Resp_of_Le. eapply Le_trans; [exact H3|apply fail_session_live]. }
    destruct rb as [total recs|tag]; [|exact HF].
    destruct (rev recs) as [|e t]; [exact HF|].
    destruct (verify_enr e na).
    + apply Resp_of_Le. eapply Le_trans; [exact H3|]. apply Le_emit_other. reflexivity.
    + apply Resp_of_Le. eapply Le_trans; [exact H3|]. eapply Le_trans; [|apply fail_session_live].
      apply Le_emit_other. reflexivity.
  - apply Resp_of_Le. exact H2.
  - match goal with |- context [has_challenge (hs ?x) na] => assert (H3 : Le s x) end.
    { eapply Le_trans; [exact H2|apply fail_session_live]. }
    destruct (has_challenge _ na); apply Resp_of_Le; [exact H3|].
    eapply Le_trans; [exact H3|]. apply Le_emit_other. reflexivity.
Qed.

Lemma handle_auth_message_live : forall c s na n aad sg eph eph_ok rec ct now,
  Resp (fun x => live x s) (handle_auth_message c s na n aad sg eph eph_ok rec ct now).
Proof.
  intros c s na n aad sg eph eph_ok rec ct now. unfold handle_auth_message.
  destruct (chall_get na (challenges (hs s))) as [ch|]; [|apply Resp_of_Le, Le_refl].
  assert (H1 : Le s (with_hs s (set_challenges (hs s) (chall_remove na (challenges (hs s)))))).
  { apply Le_with_hs. split; reflexivity. }
  set (s1 := with_hs s (set_challenges (hs s) (chall_remove na (challenges (hs s))))) in *. clearbody s1.
  destruct (establish c (fst na) ch sg eph eph_ok rec) as [se e| |].
  - eapply Resp_after_Le; [|apply handle_message_live].
    eapply Le_trans; [|apply new_session_live].
    eapply Le_trans; [exact H1|]. eapply Le_trans; [apply Le_remove_expected|].
    destruct (verify_enr e na); apply Le_emit_other; reflexivity.
  - apply Resp_of_Le. eapply Le_trans; [exact H1|]. apply Le_with_hs. split; reflexivity.
  - apply Resp_of_Le. eapply Le_trans; [exact H1|]. eapply Le_trans; [|apply fail_session_live].
    destruct (fix_d6 c); [apply Le_remove_expected|apply Le_refl].
Qed.

Lemma pop_rid_fst : forall d, fst (pop_rid d) = hd 0%N (d_rid d).
Proof. intros d. unfold pop_rid. destruct (d_rid d); reflexivity. Qed.
Lemma pop_pk_rid : forall d, d_rid (snd (pop_pk d)) = d_rid d.
Proof. intros d. unfold pop_pk. destruct (d_pk d); reflexivity. Qed.

(* the internal request id that a step may consume *)
Definition next_irid (d : draws) : N := hd 0%N (d_rid d).

Lemma handle_challenge_live : forall c s src n seq cd now x,
  live x (handle_challenge c s src n seq cd now) <= live x s + eqn (next_irid (dr s)) x.
Proof.
  intros c s src n seq cd now x. unfold handle_challenge.
  destruct (nmap_get n (nmap (hs s))) as [na0|]; [|lia].
  destruct (ar_remove_by_nonce (hs s) n) as [h1 found] eqn:E.
  pose proof (occ_ar_remove_by_nonce x _ _ _ _ E) as H1.
  destruct found as [[na r]|]; [|unfold live; cbn [with_hs hs outs]; lia].
  destruct (negb (N.eqb (snd na) src)).
  { unfold live. cbn [with_hs hs outs]. rewrite occ_ar_insert. lia. }
  assert (L1 : live x (with_hs s h1) + eqn (rc_rid r) x = live x s).
  { unfold live. cbn [with_hs hs outs]. lia. }
  destruct (rc_hs_sent r || c_ed (rc_contact r)).
  { match goal with |- context [fail_request c ?s2 r _ _] =>
      assert (L2 : Le (with_hs s h1) s2) by (destruct (fix_d6 c); [apply Le_remove_expected|apply Le_refl]);
      pose proof (fail_request_live c s2 r ERR_INVALID_REMOTE_PACKET true) as [_ L3] end.
    specialize (L3 x). pose proof (Le_live _ _ x L2). lia. }
  pose proof (pop_pk_rid (dr (with_hs s h1))) as Hd.
  destruct (pop_pk (dr (with_hs s h1))) as [[[[cn rr] aad] eph] d']. cbn [snd] in Hd. cbn [with_hs dr] in Hd.
  set (s2 := {| hs := hs (with_hs s h1); dr := d'; outs := outs (with_hs s h1) |}).
  assert (L2 : live x s2 = live x (with_hs s h1)) by reflexivity.
  destruct (c_enr (rc_contact r)) as [e|].
  - match goal with |- context [new_session c ?s5 ?na' ?se ?sk now] =>
      pose proof (Le_live _ _ x (new_session_live c s5 na' se sk now)) as L3 end.
    etransitivity; [exact L3|]. rewrite live_emit, live_send. cbn [about].
    match goal with |- context [ar_insert c (hs s2) ?na' ?r' now] =>
      pose proof (LeX_ar_insert c s2 na' r' now) as [_ L4] end.
    specialize (L4 x). cbn [rc_rid] in L4. lia.
  - match goal with |- context [ar_insert c (hs s2) ?na' ?r' now] =>
      pose proof (LeX_ar_insert c s2 na' r' now) as [_ L4];
      set (s3 := with_hs s2 (ar_insert c (hs s2) na' r' now)) in * end.
    specialize (L4 x). cbn [rc_rid] in L4.
    assert (Hd3 : d_rid (dr (send s3 (c_naddr (rc_contact r))
       (PHs (cfg_local c) (cn, rr) aad (Sig (cfg_local c) cd eph (c_id (rc_contact r))) eph true
          (if N.ltb seq (e_seq (cfg_enr c)) then Some (cfg_enr c) else None)
          (CEnc (mk_key eph (c_id (rc_contact r)) cd (cfg_local c) (c_id (rc_contact r)) false) (cn, rr)
             (MReq (rc_rid r) (rc_body r)) aad)))) = d_rid (dr s)).
    { cbn [send emit dr]. subst s3 s2. cbn [with_hs dr]. exact Hd. }
    match goal with |- context [pop_rid (dr ?t4)] =>
      pose proof (pop_rid_fst (dr t4)) as Hi; set (s4 := t4) in *;
      destruct (pop_rid (dr s4)) as [irid d''] end.
    cbn [fst] in Hi. rewrite Hd3 in Hi.
    match goal with |- context [send_request c ?t5 ?ct false irid 0%N now] =>
      pose proof (send_request_live c t5 ct false irid 0%N now) as [_ L5]; set (s5 := t5) in *;
      destruct (send_request c s5 ct false irid 0%N now) as [s6 ok] end.
    cbn [fst snd] in L5. specialize (L5 x).
    match goal with |- context [new_session c s6 ?na' ?se ?sk now] =>
      pose proof (Le_live _ _ x (new_session_live c s6 na' se sk now)) as L3 end.
    etransitivity; [exact L3|].
    assert (L6 : live x s5 = live x s3). { subst s5 s4. unfold live. cbn [hs outs send emit]. rewrite men_app. cbn [men about]. lia. }
    unfold next_irid. rewrite <- Hi.
    assert (L7 : (if ok then eqn irid x else 0) <= eqn irid x) by (destruct ok; lia).
    lia.
Qed.

Lemma fire_request_live : forall c s n na now, Le s (fire_request c s n na now).
Proof.
  intros c s n na now. unfold fire_request.
  assert (H0 : Le s (with_hs s (set_active (hs s) (active (hs s)) (nmap_remove n (nmap (hs s)))))).
  { apply Le_with_hs. split; reflexivity. }
  destruct (alist_get na (active (hs s))) as [l|] eqn:G; [|exact H0].
  destruct (remove_first (fun r => nonce_eqb (rc_nonce r) n) l) as [[r l']|] eqn:R; [|exact H0].
  match goal with |- Le s (handle_request_timeout c ?s1 na r now) =>
    pose proof (handle_request_timeout_live c s1 na r now) as [X1 X2] end.
  apply Le_intro; [exact X1|]. intros x. specialize (X2 x).
  unfold live in *. cbn [with_hs hs outs] in X2. unfold occ in X2. cbn [set_active active pending] in X2.
  unfold occ. unfold occ_act in *.
  pose proof (asum_put x _ _ _ l' G) as Y. rewrite (remove_first_cntf rc_rid x _ _ _ _ R) in Y. lia.
Qed.

Lemma fire_challenge_live : forall c s na now, Le s (fire_challenge c s na now).
Proof.
  intros c s na now. unfold fire_challenge. eapply Le_trans; [|apply send_pending_requests_live].
  eapply Le_trans; [|apply Le_remove_expected]. apply Le_with_hs. split; reflexivity.
Qed.

Lemma fire_group_live : forall c g s d ft, Le s (fire_group c s g d ft).
Proof.
  intros c g s d ft. unfold fire_group. apply (fold_left_inv (fun s' => Le s s')); [|apply Le_refl].
  intros s' x _ Hs'. destruct (nmap_deadline (fst x) (nmap (hs s'))) as [d'|]; [|exact Hs'].
  destruct (N.eqb d' d); [|exact Hs']. eapply Le_trans; [exact Hs'|apply fire_request_live].
Qed.

Lemma fire_due_live : forall c now fuel s, Le s (fire_due c s now fuel).
Proof.
  intros c now. induction fuel as [|f IH]; intros s; cbn [fire_due]; [apply Le_refl|].
  assert (FR : forall d, Le s (match group_of d (nmap (hs s)) with
      | _ :: _ :: _ =>
        let (rev_order, d') := pop_rev (dr s) in
        fire_group (with_clock c (fire_time c d now)) {| hs := hs s; dr := d'; outs := outs s |}
          (if rev_order then rev (group_of d (nmap (hs s))) else group_of d (nmap (hs s))) d (fire_time c d now)
      | _ => fire_group (with_clock c (fire_time c d now)) s (group_of d (nmap (hs s))) d (fire_time c d now)
      end)).
  { intros d. destruct (group_of d (nmap (hs s))) as [|x [|y g]]; try apply fire_group_live.
    assert (X : Le s {| hs := hs s; dr := snd (pop_rev (dr s)); outs := outs s |}).
    { apply Le_of_same; [apply same_ap_refl|reflexivity|]. cbn [dr]. unfold pop_rev.
      destruct (d_rev (dr s)); reflexivity. }
    destruct (pop_rev (dr s)) as [ro d']. cbn [snd] in X. eapply Le_trans; [exact X|apply fire_group_live]. }
  destruct (min_deadline_nmap (nmap (hs s)) None) as [[[rn ra] rd]|];
  destruct (min_deadline_ch (challenges (hs s)) None) as [[[cna cc] cd]|].
  - destruct (N.ltb rd now && (negb (N.ltb cd now) || N.leb rd cd)).
    + eapply Le_trans; [apply FR|apply IH].
    + destruct (N.ltb cd now); [|apply Le_refl]. eapply Le_trans; [apply fire_challenge_live|apply IH].
  - destruct (N.ltb rd now); [|apply Le_refl]. eapply Le_trans; [apply FR|apply IH].
  - destruct (N.ltb cd now); [|apply Le_refl]. eapply Le_trans; [apply fire_challenge_live|apply IH].
  - apply Le_refl.
Qed.

(* ------------------------------------------------------------------------------------------ *)
(* the step *)

(* the request ids a step introduces *)
Definition new_ids (e : event) (d : draws) : list N :=
  match e with
  | EvRequest _ rid _ => [rid]
  | EvInbound _ (PWho _ _ _ _) => [next_irid d]
  | _ => []
  end.
Definition cnt (x : N) (l : list N) : nat := count_occ N.eq_dec l x.

Lemma cnt_single : forall x y, cnt x [y] = eqn y x.
Proof.
  intros x y. unfold cnt, eqn. cbn [count_occ]. destruct (N.eq_dec y x) as [E|E].
  - apply N.eqb_eq in E. rewrite E. reflexivity.
  - apply N.eqb_neq in E. rewrite E. reflexivity.
Qed.

Definition StepShape (B : N -> nat) (h' : hstate) (o : list output) : Prop :=
  (forall x, occ x h' + men x o <= B x)
  \/ exists o0 na rid rb, o = o0 ++ [OEvent (HResponse na rid rb)] /\ 1 <= occ rid h' /\ nonfinal rb
       /\ forall x, occ x h' + men x o0 <= B x.

Lemma step_event_conservation : forall c h d s0 e now,
  Le {| hs := h; dr := d; outs := [] |} s0 ->
  StepShape (fun x => occ x h + cnt x (new_ids e d)) (hs (step_event c s0 e now)) (outs (step_event c s0 e now)).
Proof.
  intros c h d s0 e now H0.
  assert (L0 : forall x, live x s0 <= occ x h).
  { intros x. pose proof (Le_live _ _ x H0) as X. unfold live in X at 2. cbn [hs outs men] in X. lia. }
  destruct H0 as [D0 _]. cbn [dr] in D0.
  assert (Fin : forall s' e', (forall x, live x s' <= occ x h + cnt x (new_ids e' d)) ->
            StepShape (fun x => occ x h + cnt x (new_ids e' d)) (hs s') (outs s')).
  { intros s' e' H. left. exact H. }
  assert (FinR : forall s' e', Resp (fun x => live x s0) s' ->
            StepShape (fun x => occ x h + cnt x (new_ids e' d)) (hs s') (outs s')).
  { intros s' e' [H|(o0 & na & rid & rb & A1 & A2 & A3 & A4)].
    - left. intros x. specialize (H x). specialize (L0 x). cbv beta. unfold live in H, L0. lia.
    - right. exists o0, na, rid, rb. repeat split; auto. intros x. specialize (A4 x). specialize (L0 x).
      cbv beta in A4. unfold live in A4, L0. lia. }
  destruct e as [ct rid body|na rid rb|na n known|from p|]; cbn [step_event].
  - apply Fin. intros x. cbn [new_ids]. rewrite cnt_single.
    pose proof (send_request_live c s0 ct true rid body now) as [_ X]. specialize (X x).
    destruct (send_request c s0 ct true rid body now) as [s1 ok]. cbn [fst snd] in X. specialize (L0 x).
    destruct ok; [lia|]. rewrite live_emit. cbn [about]. lia.
  - apply Fin. intros x. pose proof (Le_live _ _ x (send_response_live c s0 na rid rb)). specialize (L0 x). lia.
  - apply Fin. intros x. pose proof (Le_live _ _ x (send_challenge_live c s0 na n known now)). specialize (L0 x). lia.
  - destruct p.
    + apply FinR. apply handle_message_live.
    + apply Fin. intros x. cbn [new_ids]. rewrite cnt_single.
      pose proof (handle_challenge_live c s0 from n seq cd now x) as X. unfold next_irid in *. rewrite D0 in X.
      specialize (L0 x). lia.
    + apply FinR. apply handle_auth_message_live.
  - apply Fin. intros x. specialize (L0 x). lia.
Qed.

Theorem step_conservation : forall c h e now d,
  StepShape (fun x => occ x h + cnt x (new_ids e d)) (fst (step c h e now d)) (snd (step c h e now d)).
Proof.
  intros c h e now d. rewrite step_unfold. cbn [fst snd]. apply step_event_conservation. apply fire_due_live.
Qed.

(* ------------------------------------------------------------------------------------------ *)
(* terminal events.  A failure report is terminal.  A response is the last one of its request
   exactly if the handler no longer holds the request after the step that reported it (every
   HResponse is the last output of its step): handle_response either re-inserts the request and
   waits for more NODES packets, or returns its exemption and forgets it.  [nonterminal_is_partial]
   below ties this to the content: a non-terminal response is a NODES response announcing more
   than one packet. *)

Definition is_terminal (h' : hstate) (o : output) : bool :=
  match o with
  | OEvent (HRequestFailed _ _) => true
  | OEvent (HResponse _ rid _) => Nat.eqb (occ rid h') 0
  | _ => false
  end.
(* the events of a step about request ids, in order: (request id, terminal?) *)
Definition tagged (h' : hstate) (o : list output) : list (N * bool) :=
  flat_map (fun e => match about e with Some x => [(x, is_terminal h' e)] | None => [] end) o.

Fixpoint run_tagged (c : config) (h : hstate) (evs : list (event * N * draws)) : list (N * bool) :=
  match evs with
  | [] => []
  | (e, now, d) :: rest =>
    tagged (fst (step c h e now d)) (snd (step c h e now d)) ++ run_tagged c (fst (step c h e now d)) rest
  end.
Definition run_new_ids (evs : list (event * N * draws)) : list N :=
  flat_map (fun x => new_ids (fst (fst x)) (snd x)) evs.

Lemma tagged_app : forall h' o1 o2, tagged h' (o1 ++ o2) = tagged h' o1 ++ tagged h' o2.
Proof. intros. unfold tagged. apply flat_map_app. Qed.

Lemma cnt_app : forall x l1 l2, cnt x (l1 ++ l2) = cnt x l1 + cnt x l2.
Proof. intros. unfold cnt. apply count_occ_app. Qed.
Lemma cnt_cons : forall x y l, cnt x (y :: l) = eqn y x + cnt x l.
Proof. intros x y l. change (y :: l) with ([y] ++ l). rewrite cnt_app, cnt_single. reflexivity. Qed.
Lemma cnt_pos_in : forall x l, 1 <= cnt x l <-> In x l.
Proof. intros x l. unfold cnt. rewrite (count_occ_In N.eq_dec). lia. Qed.
Lemma cnt_zero_notin : forall x l, cnt x l = 0 <-> ~ In x l.
Proof. intros x l. unfold cnt. symmetry. apply count_occ_not_In. Qed.

Lemma men_tagged : forall h' x o, cnt x (map fst (tagged h' o)) = men x o.
Proof.
  intros h' x. induction o as [|e t IH]; cbn [tagged flat_map men]; [reflexivity|].
  fold (tagged h' t). rewrite map_app, cnt_app, IH. destruct (about e) as [y|]; cbn [map fst].
  - rewrite cnt_single. reflexivity.
  - reflexivity.
Qed.

Lemma tagged_in_men : forall h' x b o, In (x, b) (tagged h' o) -> 1 <= men x o.
Proof.
  intros h' x b o H. rewrite <- (men_tagged h'). apply cnt_pos_in. apply (in_map fst) in H. exact H.
Qed.

Section StepFacts.
(* for any bound B, state h' and outputs o of the shape established by [step_conservation] *)
Variables (B : N -> nat) (h' : hstate) (o : list output).
Hypothesis SC : StepShape B h' o.

Lemma step_occ_le : forall x, occ x h' <= B x.
Proof.
  intros x. destruct SC as [A|(o0 & na & rid & rb & _ & _ & _ & A)];
    specialize (A x); lia.
Qed.

Lemma step_mention_live : forall x b, In (x, b) (tagged h' o) -> 1 <= B x.
Proof.
  intros x b H. destruct SC as [A|(o0 & na & rid & rb & A1 & A2 & A3 & A)].
  - apply tagged_in_men in H. specialize (A x). lia.
  - rewrite A1, tagged_app in H. apply in_app_or in H. destruct H as [H|H].
    + apply tagged_in_men in H. specialize (A x). lia.
    + cbn [tagged flat_map about app] in H. destruct H as [H|[]]. inversion H; subst. specialize (A x). lia.
Qed.

Hypothesis uniq : forall x, B x <= 1.

Lemma step_shape_tagged :
  (forall x, occ x h' + cnt x (map fst (tagged h' o)) <= B x)
  \/ exists l0 rid, tagged h' o = l0 ++ [(rid, false)] /\ 1 <= occ rid h' /\
       forall x, occ x h' + cnt x (map fst l0) <= B x.
Proof.
  destruct SC as [A|(o0 & na & rid & rb & A1 & A2 & A3 & A)].
  - left. intros x. rewrite men_tagged. apply A.
  - right. exists (tagged h' o0), rid. rewrite A1, tagged_app. split; [|split; [exact A2|]].
    + f_equal. cbn [tagged flat_map about app is_terminal]. destruct (occ rid h') eqn:E; [lia|reflexivity].
    + intros x. rewrite men_tagged. apply A.
Qed.

Lemma step_terminal_dead : forall x, In (x, true) (tagged h' o) -> occ x h' = 0.
Proof.
  intros x H. destruct step_shape_tagged as [A|(l0 & rid & A1 & A2 & A)].
  - specialize (A x). specialize (uniq x). apply (in_map fst) in H. apply cnt_pos_in in H. cbn [fst] in H. lia.
  - rewrite A1 in H. apply in_app_or in H. destruct H as [H|[H|[]]]; [|discriminate].
    specialize (A x). specialize (uniq x). apply (in_map fst) in H. apply cnt_pos_in in H. cbn [fst] in H. lia.
Qed.

Lemma step_nothing_after_terminal : forall x l1 l2, tagged h' o = l1 ++ (x, true) :: l2 -> ~ In x (map fst l2).
Proof.
  intros x l1 l2 H. apply cnt_zero_notin. destruct step_shape_tagged as [A|(l0 & rid & A1 & A2 & A)].
  - specialize (A x). specialize (uniq x). rewrite H, map_app, cnt_app in A. cbn [map fst] in A.
    rewrite cnt_cons, eqn_refl in A. lia.
  - rewrite A1 in H.
    assert (X : exists l2', l2 = l2' ++ [(rid, false)] /\ l0 = l1 ++ (x, true) :: l2').
    { destruct (@exists_last _ l2) as (l2' & y & Hy).
      - intros ->. apply app_inj_tail in H. destruct H as [_ H]. discriminate.
      - subst l2. exists l2'. change (l1 ++ (x, true) :: l2' ++ [y]) with (l1 ++ ((x, true) :: l2') ++ [y]) in H.
        rewrite app_assoc in H. apply app_inj_tail in H. destruct H as [H1 H2]. subst. auto. }
    destruct X as (l2' & -> & ->). specialize (A x). specialize (uniq x).
    rewrite map_app, cnt_app in A. cbn [map fst] in A. rewrite cnt_cons, eqn_refl in A.
    rewrite map_app, cnt_app. cbn [map fst]. rewrite cnt_single.
    unfold eqn. destruct (N.eqb rid x) eqn:E; [|lia]. apply N.eqb_eq in E. subst rid. lia.
Qed.

Lemma step_nonterminal_is_partial : forall na x rb,
  In (OEvent (HResponse na x rb)) o -> occ x h' <> 0 -> nonfinal rb.
Proof.
  intros na x rb H Hocc. destruct SC as [A|(o0 & na' & rid & rb' & A1 & A2 & A3 & A)].
  - exfalso. specialize (A x). specialize (uniq x).
    assert (1 <= men x o).
    { apply in_split in H. destruct H as (p1 & p2 & ->). rewrite men_app. cbn [men about]. rewrite eqn_refl. lia. }
    lia.
  - rewrite A1 in H. apply in_app_or in H. destruct H as [H|[H|[]]].
    + exfalso. specialize (A x). specialize (uniq x).
      assert (1 <= men x o0).
      { apply in_split in H. destruct H as (p1 & p2 & ->). rewrite men_app. cbn [men about]. rewrite eqn_refl. lia. }
      lia.
    + inversion H; subst. exact A3.
Qed.
End StepFacts.

(* ------------------------------------------------------------------------------------------ *)
(* runs *)

(* the ids held in h and the ids the events will introduce are pairwise distinct *)
Definition Uniq (h : hstate) (ids : list N) : Prop := forall x, occ x h + cnt x ids <= 1.

Lemma run_new_ids_cons : forall e now d rest, run_new_ids ((e, now, d) :: rest) = new_ids e d ++ run_new_ids rest.
Proof. reflexivity. Qed.

Lemma run_cons_fst : forall c h e now d rest,
  fst (run c h ((e, now, d) :: rest)) = fst (run c (fst (step c h e now d)) rest).
Proof.
  intros c h e now d rest. cbn [run]. destruct (step c h e now d) as [h1 o]. cbn [fst].
  destruct (run c h1 rest) as [h2 os]. reflexivity.
Qed.

Lemma Uniq_step : forall c h e now d rest, Uniq h (run_new_ids ((e, now, d) :: rest)) ->
  Uniq (fst (step c h e now d)) (run_new_ids rest) /\ (forall x, occ x h + cnt x (new_ids e d) <= 1).
Proof.
  intros c h e now d rest U. split; intros x; specialize (U x); rewrite run_new_ids_cons, cnt_app in U.
  - pose proof (step_occ_le _ _ _ (step_conservation c h e now d) x). cbv beta in *. lia.
  - lia.
Qed.

Lemma run_occ_le : forall c evs h x, occ x (fst (run c h evs)) <= occ x h + cnt x (run_new_ids evs).
Proof.
  intros c. induction evs as [|[[e now] d] rest IH]; intros h x.
  - cbn [run fst run_new_ids flat_map]. unfold cnt. cbn [count_occ]. lia.
  - rewrite run_cons_fst, run_new_ids_cons, cnt_app. specialize (IH (fst (step c h e now d)) x).
    pose proof (step_occ_le _ _ _ (step_conservation c h e now d) x). cbv beta in *. lia.
Qed.

(* an id that is neither held nor introduced later is never mentioned *)
Lemma run_silent : forall c evs h x, occ x h = 0 -> ~ In x (run_new_ids evs) -> ~ In x (map fst (run_tagged c h evs)).
Proof.
  intros c. induction evs as [|[[e now] d] rest IH]; intros h x H0 Hn; cbn [run_tagged map]; [tauto|].
  rewrite run_new_ids_cons, in_app_iff in Hn. apply cnt_zero_notin. rewrite map_app, cnt_app.
  assert (Hn1 : cnt x (new_ids e d) = 0) by (apply cnt_zero_notin; tauto).
  assert (A : cnt x (map fst (tagged (fst (step c h e now d)) (snd (step c h e now d)))) = 0).
  { apply cnt_zero_notin. intros Hin. apply in_map_iff in Hin. destruct Hin as [[y b] [E Hin]]. cbn [fst] in E. subst y.
    pose proof (step_mention_live _ _ _ (step_conservation c h e now d) x b Hin). cbv beta in *. lia. }
  assert (A2 : cnt x (map fst (run_tagged c (fst (step c h e now d)) rest)) = 0).
  { apply cnt_zero_notin. apply IH; [|tauto].
    pose proof (step_occ_le _ _ _ (step_conservation c h e now d) x). cbv beta in *. lia. }
  lia.
Qed.

Lemma app_eq_mid : forall {A} (a b l1 l2 : list A) (y : A), a ++ b = l1 ++ y :: l2 ->
  (exists l2', a = l1 ++ y :: l2' /\ l2 = l2' ++ b) \/ (exists l1', l1 = a ++ l1' /\ b = l1' ++ y :: l2).
Proof.
  intros A. induction a as [|z a IH]; intros b l1 l2 y H.
  - right. exists l1. auto.
  - destruct l1 as [|w l1]; cbn [app] in H; inversion H; subst.
    + left. exists a. auto.
    + destruct (IH _ _ _ _ H2) as [(l2' & E1 & E2)|(l1' & E1 & E2)].
      * left. exists l2'. subst. auto.
      * right. exists l1'. subst. auto.
Qed.

(* nothing about a request id follows its terminal event *)
Theorem run_nothing_after_terminal : forall c evs h x l1 l2,
  Uniq h (run_new_ids evs) -> run_tagged c h evs = l1 ++ (x, true) :: l2 -> ~ In x (map fst l2).
Proof.
  intros c. induction evs as [|[[e now] d] rest IH]; intros h x l1 l2 U H; cbn [run_tagged] in H.
  - destruct l1; discriminate.
  - destruct (Uniq_step c h e now d rest U) as [U1 U2].
    apply app_eq_mid in H. destruct H as [(l2' & E1 & E2)|(l1' & E1 & E2)].
    + subst l2. rewrite map_app, in_app_iff. intros [Hin|Hin].
      * revert Hin. eapply step_nothing_after_terminal; [apply step_conservation|exact U2|exact E1].
      * revert Hin. apply run_silent.
        -- eapply step_terminal_dead; [apply step_conservation|exact U2|]. rewrite E1. apply in_elt.
        -- assert (Hm : In (x, true) (tagged (fst (step c h e now d)) (snd (step c h e now d)))) by (rewrite E1; apply in_elt).
           pose proof (step_mention_live _ _ _ (step_conservation c h e now d) x true Hm) as X. cbv beta in X.
           specialize (U x). rewrite run_new_ids_cons, cnt_app in U. apply cnt_zero_notin. lia.
    + eapply IH; [exact U1|exact E2].
Qed.

Fixpoint tcount (x : N) (l : list (N * bool)) : nat :=
  match l with
  | [] => 0
  | (y, b) :: t => (if b then eqn y x else 0) + tcount x t
  end.

Lemma tcount_le_mentions : forall x l, tcount x l <= cnt x (map fst l).
Proof.
  intros x. induction l as [|[y b] t IH]; cbn [tcount map fst]; [lia|]. rewrite cnt_cons. destruct b; lia.
Qed.

Lemma tcount_at_most_one : forall x l,
  (forall l1 l2, l = l1 ++ (x, true) :: l2 -> ~ In x (map fst l2)) -> tcount x l <= 1.
Proof.
  intros x. induction l as [|[y b] t IH]; intros H; cbn [tcount]; [lia|].
  assert (IH' : tcount x t <= 1).
  { apply IH. intros l1 l2 E. apply (H ((y, b) :: l1) l2). rewrite E. reflexivity. }
  destruct b; [|lia]. unfold eqn. destruct (N.eqb y x) eqn:E; [|lia]. apply N.eqb_eq in E. subst y.
  specialize (H [] t eq_refl). apply cnt_zero_notin in H. pose proof (tcount_le_mentions x t). lia.
Qed.

(* at most one terminal event per request id *)
Theorem run_at_most_one_terminal : forall c evs h x,
  Uniq h (run_new_ids evs) -> tcount x (run_tagged c h evs) <= 1.
Proof.
  intros c evs h x U. apply tcount_at_most_one. intros l1 l2 E. eapply run_nothing_after_terminal; eauto.
Qed.

Lemma Uniq_init : forall ids, NoDup ids -> Uniq init_state ids.
Proof.
  intros ids H x. unfold cnt. rewrite (NoDup_count_occ N.eq_dec) in H. specialize (H x).
  unfold occ. cbn. lia.
Qed.

(* the ids held in a reachable state are pairwise distinct *)
Theorem reachable_rids_nodup : forall c evs, NoDup (run_new_ids evs) ->
  NoDup (all_rids (fst (run c init_state evs))) /\ NoDup (ext_rids (fst (run c init_state evs))).
Proof.
  intros c evs H. pose proof (Uniq_init _ H) as U.
  assert (X : forall x, occ x (fst (run c init_state evs)) <= 1).
  { intros x. pose proof (run_occ_le c evs init_state x). specialize (U x). lia. }
  split; apply (NoDup_count_occ N.eq_dec); intros x; specialize (X x).
  - rewrite <- occ_all_rids. exact X.
  - pose proof (ext_rids_le x (fst (run c init_state evs))). lia.
Qed.

Lemma occ_pos_in : forall x h, 1 <= occ x h <-> In x (all_rids h).
Proof. intros x h. rewrite occ_all_rids. apply (cnt_pos_in x (all_rids h)). Qed.

(* the step-level facts in terms of the lists of ids *)
Theorem step_terminal_event : forall c h e now d x,
  (forall y, occ y h + cnt y (new_ids e d) <= 1) ->
  In (x, true) (tagged (fst (step c h e now d)) (snd (step c h e now d))) ->
  (In x (all_rids h) \/ In x (new_ids e d)) /\ ~ In x (all_rids (fst (step c h e now d))).
Proof.
  intros c h e now d x U H. split.
  - pose proof (step_mention_live _ _ _ (step_conservation c h e now d) x true H) as X. cbv beta in X.
    destruct (occ x h) eqn:E.
    + right. apply cnt_pos_in. lia.
    + left. apply occ_pos_in. lia.
  - pose proof (step_terminal_dead _ _ _ (step_conservation c h e now d) U x H) as X.
    intros Hin. apply occ_pos_in in Hin. lia.
Qed.

Lemma tagged_false_held : forall h' o x, In (x, false) (tagged h' o) -> 1 <= occ x h'.
Proof.
  intros h' o x H. unfold tagged in H. apply in_flat_map in H. destruct H as (ev & _ & H).
  destruct ev as [[| |na rid rb| | | |]|]; cbn [about] in H; try contradiction; destruct H as [H|[]].
  - injection H as H1 H2. subst rid. cbn [is_terminal] in H2. destruct (occ x h'); [discriminate|lia].
  - injection H as H1 H2. discriminate.
Qed.

Theorem step_nonterminal_event : forall c h e now d x,
  In (x, false) (tagged (fst (step c h e now d)) (snd (step c h e now d))) ->
  In x (all_rids (fst (step c h e now d))).
Proof. intros c h e now d x H. apply occ_pos_in. eapply tagged_false_held. exact H. Qed.

Theorem step_nonterminal_is_partial_nodes : forall c h e now d na x rb,
  (forall y, occ y h + cnt y (new_ids e d) <= 1) ->
  In (OEvent (HResponse na x rb)) (snd (step c h e now d)) ->
  In x (all_rids (fst (step c h e now d))) ->
  exists total recs, rb = RNodes total recs /\ (1 < total)%N.
Proof.
  intros c h e now d na x rb U H Hin. apply occ_pos_in in Hin.
  eapply (step_nonterminal_is_partial _ _ _ (step_conservation c h e now d) U); [exact H|lia].
Qed.

(* ------------------------------------------------------------------------------------------ *)
(* a concrete run: request 100 is answered by a NODES response in two packets (one non-terminal,
   one terminal event), request 101 is never answered and fails after its retransmission *)
Local Open Scope N_scope.
Definition ex_kd : key := mk_key 63 2 9 1 2 true.
Definition ex_resp (n : nonce) (rid : N) (rb : rbody) : packet := PMsg 2 n 5 (CEnc ex_kd n (MResp rid rb) 5).
Definition ex_outcome_events : list (event * N * draws) :=
  [ (EvRequest ex_peer 100 7, 0, ex_draws 50);
    (EvInbound 20 (PWho (50, 51) 1 0 9), 10, ex_draws 60);
    (EvInbound 20 (ex_resp (1, 1) 100 (RNodes 2 [])), 20, ex_draws 70);
    (EvInbound 20 (ex_resp (2, 2) 100 (RNodes 2 [])), 30, ex_draws 80);
    (EvRequest ex_peer 101 8, 40, ex_draws 90);
    (EvTick, 5000, ex_draws 100);
    (EvTick, 10000, ex_draws 110) ].

Example ex_outcome_fresh : NoDup (run_new_ids ex_outcome_events).
Proof. vm_compute. repeat constructor; cbn; intuition discriminate. Qed.

Example ex_outcome_trace :
  run_tagged (ex_cfg true) init_state ex_outcome_events = [(100, false); (100, true); (101, true)]
  /\ all_rids (fst (run (ex_cfg true) init_state ex_outcome_events)) = [].
Proof. vm_compute. split; reflexivity. Qed.

(* in between, both maps are populated *)
Example ex_outcome_midway :
  all_rids (fst (run (ex_cfg true) init_state (firstn 5 ex_outcome_events))) = [101]
  /\ length (sessions (fst (run (ex_cfg true) init_state (firstn 5 ex_outcome_events)))) = 1%nat.
Proof. vm_compute. split; reflexivity. Qed.
