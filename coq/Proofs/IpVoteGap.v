(* Gap-closing theorem for C17 (Model/IpVote.v): the clauses "changes only to the most recent
   unexpired vote of at least the minimum number of DISTINCT peers, leading every rival by the
   clear-majority margin, with a sequence bump and an event" composed into ONE statement about
   every PONG of every history (Proofs/IpVote.v proves them as separate lemmas: handle_pong_change,
   winner_spec, one_vote_per_node, svc_inv). *)
From Coq Require Import List NArith Bool Lia Arith Permutation.
From Discv5V Require Import Generated.Params Model.IpVote Proofs.IpVote.
Import ListNotations.
Local Open Scope N_scope.

(* the peers whose entry in the table [t] is an unexpired vote for [a] *)
Definition quorum (now a : N) (t : list vote) : list N :=
  map vnode (filter (fun v => fresh now v && N.eqb (vaddr v) a) t).

Lemma quorum_length now a t : N.of_nat (length (quorum now a t)) = cnt now a t.
Proof. unfold quorum, cnt. rewrite map_length. reflexivity. Qed.

Lemma quorum_nodup now a t : NoDup (map vnode t) -> NoDup (quorum now a t).
Proof. intro ND. unfold quorum. apply NoDup_map_filter. exact ND. Qed.

Lemma quorum_entry now a t n : NoDup (map vnode t) -> In n (quorum now a t) ->
  exists v, entry n t = Some v /\ vaddr v = a /\ fresh now v = true.
Proof.
  intros ND Hn. unfold quorum in Hn. apply in_map_iff in Hn. destruct Hn as (v & <- & Hv).
  apply filter_In in Hv. destruct Hv as (Hv & C). apply andb_true_iff in C. destruct C as (C1 & C2).
  apply N.eqb_eq in C2. exists v. split; [apply entry_unique; auto|]. auto.
Qed.

(* Every change of the record's address of family [fam] by a PONG [x], after any history [pre] of
   PONGs from the initial service: the new address [a] is, at the moment [nq] of the decision, the
   table entry (= the most recent vote, one per peer) of the peers [quorum nq a t]: pairwise
   distinct, at least the configured minimum, each entry unexpired and cast by a PONG of that peer
   in the history that reported exactly (fam, a); every rival address has fewer than
   threshold(count of a) unexpired entries; the sequence number grows by one and exactly one
   SocketUpdated event for [a] is appended. *)
Theorem change_backed_by_quorum :
  forall mn dur dual e0 (pre : list (pong * N * N)) (x : pong * N * N) fam, 1 <= mn ->
  let s1 := run_pongs (initial_service mn dur dual e0) pre in
  let nq := snd (fst x) in
  let s2 := handle_pong s1 (pong_of x) nq (snd x) in
  udp fam (enr s2) <> udp fam (enr s1) ->
  exists a t,
    udp fam (enr s2) = Some a /\
    NoDup (map vnode t) /\
    NoDup (quorum nq a t) /\ mn <= N.of_nat (length (quorum nq a t)) /\
    (forall n, In n (quorum nq a t) ->
       (exists v, entry n t = Some v /\ vaddr v = a /\ fresh nq v = true) /\
       (exists p, In p (map pong_of (pre ++ [x])) /\ p_node p = n /\ p_sock p = (fam, a))) /\
    (forall b, b <> a -> cnt nq b t < threshold (cnt nq a t)) /\
    seq (enr s2) = seq (enr s1) + 1 /\
    events s2 = events s1 ++ [(fam, a)].
Proof.
  intros mn dur dual e0 pre x fam Hmn s1 nq s2 NE.
  destruct (handle_pong_change s1 (pong_of x) nq (snd x) fam NE)
    as (iv & iv1 & a & IV & CO & F & RM & W & U & _ & SQ & EV).
  assert (I : svc_inv mn (map pong_of pre) s1).
  { apply svc_inv_run. exists {| v4 := []; v6 := []; minimum := mn; duration := dur |}.
    repeat split; try constructor. intros f v Hin. destruct f; cbn in Hin; contradiction. }
  destruct I as (iv' & IV' & MN & WF & OR). rewrite IV in IV'. inversion IV'; subst iv'. clear IV'.
  rewrite MN in W. apply (winner_spec _ _ _ _ Hmn) in W. destruct W as [W1 W2].
  set (p := pong_of x) in *. set (t := put (new_vote iv (p_node p) (p_sock p) (snd x)) (tbl fam iv1)) in *.
  assert (B1 : wf iv1 /\ forall v, In v (tbl fam iv1) -> origin (map pong_of pre) fam v).
  { destruct RM as [R|R]; subst iv1.
    - split; [assumption | intros; apply OR; assumption].
    - split; [apply wf_pruned; assumption|]. intros v Hin. rewrite tbl_pruned in Hin. apply filter_In in Hin. apply OR. apply Hin. }
  destruct B1 as [WF1 OR1].
  assert (ND : NoDup (map vnode t)).
  { apply put_nodup. destruct WF1. destruct fam; assumption. }
  exists a, t. split; [exact U|]. split; [exact ND|]. split; [apply quorum_nodup; exact ND|].
  split; [rewrite quorum_length; exact W1|]. split; [|split; [exact W2|split; [exact SQ|exact EV]]].
  intros n Hn. split; [apply quorum_entry; assumption|].
  unfold quorum in Hn. apply in_map_iff in Hn. destruct Hn as (v & <- & Hv).
  apply filter_In in Hv. destruct Hv as (Hv & C). apply andb_true_iff in C. destruct C as (_ & C2).
  apply N.eqb_eq in C2. rewrite map_app. apply in_put in Hv. destruct Hv as [Hv|[Hv _]].
  - exists p. split; [apply in_or_app; right; left; reflexivity|]. subst v. cbn [new_vote vaddr vnode] in *.
    split; [reflexivity|]. rewrite <- F, <- C2. destruct (p_sock p); reflexivity.
  - destruct (OR1 v Hv) as [q [Q1 [Q2 Q3]]]. exists q. split; [apply in_or_app; left; assumption|].
    split; [assumption|]. rewrite Q3, C2. reflexivity.
Qed.

(* the theorem applies to a service built with IpVote::new (which panics for a minimum < 2) *)
Lemma new_ipvote_initial mn dur dual e0 iv :
  new_ipvote mn dur = Some iv ->
  initial_service mn dur dual e0 = {| ip_votes := Some iv; dual_stack := dual; enr := e0; events := [] |} /\ 2 <= mn.
Proof.
  intro H. unfold new_ipvote in H. destruct (mn <? 2) eqn:C; [discriminate|]. apply N.ltb_ge in C.
  inversion H; subst. split; [reflexivity|exact C].
Qed.
