(* Gap-closing theorem for C17 (Model/IpVote.v): the clauses "changes only to the most recent
   unexpired vote of at least the minimum number of DISTINCT peers, leading every rival by the
   clear-majority margin, with a sequence bump and an event" composed into ONE statement about
   every PONG of every history (Proofs/IpVote.v proves them as separate lemmas: handle_pong_change,
   winner_spec, one_vote_per_node, svc_inv). *)
From Coq Require Import List NArith Bool Lia Arith Permutation.
From Discv5V Require Import Generated.Params Model.IpVote Proofs.IpVote.
Import ListNotations.
Local Open Scope N_scope.

(* the peers whose entry in the table [t] is an unexpired vote for [a] *)
Definition quorum (now a : N) (t : list vote) : list N :=
  map vnode (filter (fun v => fresh now v && N.eqb (vaddr v) a) t).

Lemma quorum_length now a t : N.of_nat (length (quorum now a t)) = cnt now a t.
Proof. unfold quorum, cnt. rewrite map_length. reflexivity. Qed.

Lemma quorum_nodup now a t : NoDup (map vnode t) -> NoDup (quorum now a t).
Proof. intro ND. unfold quorum. apply NoDup_map_filter. exact ND. Qed.

Lemma quorum_entry now a t n : NoDup (map vnode t) -> In n (quorum now a t) ->
  exists v, entry n t = Some v /\ vaddr v = a /\ fresh now v = true.
Proof.
  intros ND Hn. unfold quorum in Hn. apply in_map_iff in Hn. destruct Hn as (v & <- & Hv).
  apply filter_In in Hv. destruct Hv as (Hv & C). apply andb_true_iff in C. destruct C as (C1 & C2).
  apply N.eqb_eq in C2. exists v. split; [apply entry_unique; auto|]. auto.
Qed.

(* Every change of the record's address of family [fam] by a PONG [x], after any history [pre] of
   PONGs from the initial service: the new address [a] is, at the moment [nq] of the decision, the
   table entry (= the most recent vote, one per peer) of the peers [quorum nq a t]: pairwise
   distinct, at least the configured minimum, each entry unexpired and cast by a PONG of that peer
   in the history that reported exactly (fam, a); every rival address has fewer than
   threshold(count of a) unexpired entries; the sequence number grows by one and exactly one
   SocketUpdated event for [a] is appended. *)
Theorem change_backed_by_quorum :
  forall mn dur dual e0 (pre : list (pong * N * N)) (x : pong * N * N) fam, 1 <= mn ->
  let s1 := run_pongs (initial_service mn dur dual e0) pre in
  let nq := snd (fst x) in
  let s2 := handle_pong s1 (pong_of x) nq (snd x) in
  udp fam (enr s2) <> udp fam (enr s1) ->
  exists a t,
    udp fam (enr s2) = Some a /\
    NoDup (map vnode t) /\
    NoDup (quorum nq a t) /\ mn <= N.of_nat (length (quorum nq a t)) /\
    (forall n, In n (quorum nq a t) ->
       (exists v, entry n t = Some v /\ vaddr v = a /\ fresh nq v = true) /\
       (exists p, In p (map pong_of (pre ++ [x])) /\ p_node p = n /\ p_sock p = (fam, a))) /\
    (forall b, b <> a -> cnt nq b t < threshold (cnt nq a t)) /\
    seq (enr s2) = seq (enr s1) + 1 /\
    events s2 = events s1 ++ [(fam, a)].
Proof.
  intros mn dur dual e0 pre x fam Hmn s1 nq s2 NE.
  destruct (handle_pong_change s1 (pong_of x) nq (snd x) fam NE)
    as (iv & iv1 & a & IV & CO & F & RM & W & U & _ & SQ & EV).
  assert (I : svc_inv mn (map pong_of pre) s1).
  { apply svc_inv_run. exists {| v4 := []; v6 := []; minimum := mn; duration := dur |}.
    repeat split; try constructor. intros f v Hin. destruct f; cbn in Hin; contradiction. }
  destruct I as (iv' & IV' & MN & WF & OR). rewrite IV in IV'. inversion IV'; subst iv'. clear IV'.
  rewrite MN in W. apply (winner_spec _ _ _ _ Hmn) in W. destruct W as [W1 W2].
  set (p := pong_of x) in *. set (t := put (new_vote iv (p_node p) (p_sock p) (snd x)) (tbl fam iv1)) in *.
  assert (B1 : wf iv1 /\ forall v, In v (tbl fam iv1) -> origin (map pong_of pre) fam v).
  { destruct RM as [R|R]; subst iv1.
    - split; [assumption | intros; apply OR; assumption].
    - split; [apply wf_pruned; assumption|]. intros v Hin. rewrite tbl_pruned in Hin. apply filter_In in Hin. apply OR. apply Hin. }
  destruct B1 as [WF1 OR1].
  assert (ND : NoDup (map vnode t)).
  { apply put_nodup. destruct WF1. destruct fam; assumption. }
  exists a, t. split; [exact U|]. split; [exact ND|]. split; [apply quorum_nodup; exact ND|].
  split; [rewrite quorum_length; exact W1|]. split; [|split; [exact W2|split; [exact SQ|exact EV]]].
  intros n Hn. split; [apply quorum_entry; assumption|].
  unfold quorum in Hn. apply in_map_iff in Hn. destruct Hn as (v & <- & Hv).
  apply filter_In in Hv. destruct Hv as (Hv & C). apply andb_true_iff in C. destruct C as (_ & C2).
  apply N.eqb_eq in C2. rewrite map_app. apply in_put in Hv. destruct Hv as [Hv|[Hv _]].
  - exists p. split; [apply in_or_app; right; left; reflexivity|]. subst v. cbn [new_vote vaddr vnode] in *.
    split; [reflexivity|]. rewrite <- F, <- C2. destruct (p_sock p); reflexivity.
  - destruct (OR1 v Hv) as [q [Q1 [Q2 Q3]]]. exists q. split; [apply in_or_app; left; assumption|].
    split; [assumption|]. rewrite Q3, C2. reflexivity.
Qed.

(* the theorem applies to a service built with IpVote::new (which panics for a minimum < 2) *)
Lemma new_ipvote_initial mn dur dual e0 iv :
  new_ipvote mn dur = Some iv ->
  initial_service mn dur dual e0 = {| ip_votes := Some iv; dual_stack := dual; enr := e0; events := [] |} /\ 2 <= mn.
Proof.
  intro H. unfold new_ipvote in H. destruct (mn <? 2) eqn:C; [discriminate|]. apply N.ltb_ge in C.
  inversion H; subst. split; [reflexivity|exact C].
Qed.

(* ================================================================ the main loop around the PONG handling
   (Model/IpVote.v [lstep]: PONGs, incoming sessions and the auto-NAT timer arm of Service::start).
   The address of one family changes only through a PONG that reports an address of THAT family
   (to the clear-majority winner, with the sequence bump and the event, as above) or, to nothing,
   when that family's own auto-NAT window runs out; a window is only ever opened by a majority
   change of its own family.  In particular a history without votes of a family never changes
   that family's address. *)

Definition wait_of (c : conn) (fam : bool) : option (N * N) := if fam then c_wait6 c else c_wait4 c.

Lemma timer_failure_spec n fam :
  udp fam (enr (n_svc (timer_failure n fam))) = None /\
  udp (negb fam) (enr (n_svc (timer_failure n fam))) = udp (negb fam) (enr (n_svc n)) /\
  events (n_svc (timer_failure n fam)) = events (n_svc n) /\
  seq (enr (n_svc (timer_failure n fam))) = seq (enr (n_svc n)) + 1 /\
  wait_of (n_conn (timer_failure n fam)) fam = None /\
  wait_of (n_conn (timer_failure n fam)) (negb fam) = wait_of (n_conn n) (negb fam).
Proof. destruct fam; cbn; repeat split; reflexivity. Qed.

Theorem loop_address_changes_per_family :
  forall n now e fam,
  let n' := lstep n now e in
  udp fam (enr (n_svc n')) <> udp fam (enr (n_svc n)) ->
  (exists voter a0 co tick iv iv1 a,
     e = LPong voter (fam, a0) co tick /\ should_count (n_conn n) fam = true /\
     ip_votes (n_svc n) = Some iv /\ (iv1 = iv \/ iv1 = fst (majority iv tick)) /\
     majority_of tick (minimum iv) (put (new_vote iv voter (fam, a0) tick) (tbl fam iv1)) = Some a /\
     udp fam (enr (n_svc n')) = Some a /\
     udp (negb fam) (enr (n_svc n')) = udp (negb fam) (enr (n_svc n)) /\
     seq (enr (n_svc n')) = seq (enr (n_svc n)) + 1 /\
     events (n_svc n') = events (n_svc n) ++ [(fam, a)])
  \/
  (exists t, e = LTime t /\ due (wait_of (n_conn n) fam) t = true /\
     udp fam (enr (n_svc n')) = None /\ events (n_svc n') = events (n_svc n)).
Proof.
  intros n now e fam n' Hne. destruct e as [voter sock co tick | v6 | t].
  - left. unfold n' in *. cbn [lstep n_svc] in *.
    set (p := {| p_node := voter; p_sock := sock; p_count_ok := should_count (n_conn n) (fst sock);
                 p_conn_out := co; p_enr_ok := true |}) in *.
    destruct (handle_pong_change (n_svc n) p tick tick fam Hne)
      as (iv & iv1 & a & IV & CO & F & RM & W & U & UO & SQ & EV).
    cbn [p p_count_ok p_sock p_node] in *. destruct sock as [f a0]. cbn [fst] in F. subst f.
    exists voter, a0, co, tick, iv, iv1, a. repeat split; assumption.
  - exfalso. apply Hne. reflexivity.
  - right. exists t. split; [reflexivity|]. unfold n' in *. clear n'. cbn [lstep] in *.
    destruct fam; cbn [wait_of].
    + (* IPv6 *)
      destruct (due (c_wait4 (n_conn n)) t) eqn:D4.
      * pose proof (timer_failure_spec n false) as (_ & O & E & _ & _ & W). cbn [negb wait_of] in O, W.
        rewrite W in *.
        destruct (due (c_wait6 (n_conn n)) t) eqn:D6.
        -- pose proof (timer_failure_spec (timer_failure n false) true) as (U & _ & E2 & _).
           split; [reflexivity|]. split; [exact U|]. rewrite E2. exact E.
        -- exfalso. apply Hne. exact O.
      * destruct (due (c_wait6 (n_conn n)) t) eqn:D6.
        -- pose proof (timer_failure_spec n true) as (U & _ & E2 & _).
           split; [reflexivity|]. split; [exact U|exact E2].
        -- exfalso. apply Hne. reflexivity.
    + (* IPv4 *)
      destruct (due (c_wait4 (n_conn n)) t) eqn:D4.
      * split; [reflexivity|].
        pose proof (timer_failure_spec n false) as (U & _ & E & _).
        destruct (due (c_wait6 (n_conn (timer_failure n false))) t).
        -- pose proof (timer_failure_spec (timer_failure n false) true) as (_ & O2 & E2 & _).
           cbn [negb] in O2. split; [rewrite O2; exact U | rewrite E2; exact E].
        -- split; [exact U|exact E].
      * destruct (due (c_wait6 (n_conn n)) t) eqn:D6.
        -- exfalso. apply Hne. pose proof (timer_failure_spec n true) as (_ & O & _). exact O.
        -- exfalso. apply Hne. reflexivity.
Qed.

Definition lrun (n : node) (evs : list (N * lev)) : node :=
  fold_left (fun n x => lstep n (fst x) (snd x)) evs n.

Definition reports (fam : bool) (e : lev) : bool :=
  match e with LPong _ sock _ _ => Bool.eqb (fst sock) fam | _ => false end.

(* one step that is not a PONG of family [fam]: no window of [fam] is opened, and with no window
   of [fam] open the address of [fam] stays *)
Lemma lstep_without_vote n now e fam :
  reports fam e = false -> wait_of (n_conn n) fam = None ->
  wait_of (n_conn (lstep n now e)) fam = None /\
  udp fam (enr (n_svc (lstep n now e))) = udp fam (enr (n_svc n)).
Proof.
  intros R W. split.
  - destruct e as [voter sock co tick | v6 | t]; cbn [lstep n_conn].
    + cbn [reports] in R. destruct (seq (enr (n_svc n)) <? seq (enr (handle_pong (n_svc n) _ tick tick))); [|exact W].
      unfold enr_socket_update. destruct (c_window (n_conn n)); [|exact W].
      destruct sock as [f a]; cbn [fst] in *. destruct f, fam; cbn in R; try discriminate; exact W.
    + unfold received_incoming. destruct v6, fam; cbn [wait_of n_conn c_wait4 c_wait6] in *; try exact W; rewrite W; reflexivity.
    + destruct fam; cbn [wait_of] in *.
      * destruct (due (c_wait4 (n_conn n)) t).
        -- pose proof (timer_failure_spec n false) as (_ & _ & _ & _ & _ & K). cbn [negb wait_of] in K.
           rewrite K, W. cbn [due]. exact (eq_trans K W).
        -- rewrite W. cbn [due]. exact W.
      * rewrite W. cbn [due].
        destruct (due (c_wait6 (n_conn n)) t); [|exact W].
        pose proof (timer_failure_spec n true) as (_ & _ & _ & _ & _ & K). cbn [negb wait_of] in K.
        exact (eq_trans K W).
  - destruct (option_eq_dec_N (udp fam (enr (n_svc (lstep n now e)))) (udp fam (enr (n_svc n)))) as [E|NE]; [exact E|].
    exfalso. destruct (loop_address_changes_per_family n now e fam NE)
      as [(voter & a0 & co & tick & _ & _ & _ & E & _) | (t & _ & D & _)].
    + subst e. cbn [reports fst] in R. rewrite Bool.eqb_reflx in R. discriminate.
    + rewrite W in D. discriminate.
Qed.

(* "an IPv6-only vote history never changes the IPv4 address and vice versa": from a node without
   open windows, whatever PONGs of the other family, incoming sessions and timer expiries happen *)
Theorem family_without_votes_never_changes :
  forall window s evs fam,
  forallb (fun x => negb (reports fam (snd x))) evs = true ->
  udp fam (enr (n_svc (lrun {| n_svc := s; n_conn := new_conn window |} evs))) = udp fam (enr s).
Proof.
  intros window s evs fam H.
  assert (G : forall n, wait_of (n_conn n) fam = None ->
              udp fam (enr (n_svc (lrun n evs))) = udp fam (enr (n_svc n))).
  { induction evs as [|x evs IH]; intros n W; [reflexivity|].
    cbn [forallb] in H. apply andb_true_iff in H. destruct H as [H1 H2]. apply negb_true_iff in H1.
    destruct (lstep_without_vote n (fst x) (snd x) fam H1 W) as [W' U'].
    cbn [lrun fold_left]. fold (lrun (lstep n (fst x) (snd x)) evs).
    rewrite (IH H2 _ W'). exact U'. }
  apply (G {| n_svc := s; n_conn := new_conn window |}). destruct fam; reflexivity.
Qed.
