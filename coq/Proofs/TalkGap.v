(* Gap-closing lemmas for C20 (Model/Talk.v): the link from "a TALKREQ was delivered" to "the
   application holds its request object", so that "exactly one response" can be stated in terms of
   the operation list alone (no hypothesis about the state). *)
From Coq Require Import List NArith Bool Lia.
From Discv5V Require Import Model.Talk Proofs.Talk.
Import ListNotations.
Local Open Scope N_scope.

(* the operation names (consumes) the request object with handle [h] *)
Definition names (h : N) (o : op) : bool :=
  match o with ORespond h' _ => N.eqb h' h | ODrop h' => N.eqb h' h | _ => false end.

(* the handle the next delivery gets: the number of deliveries so far *)
Definition handle_after (pre : list op) : N := N.of_nat (length (deliveries pre)).

Lemma next_final pre : next (final pre) = handle_after pre.
Proof. unfold final, handle_after. destruct (delivered_run pre init) as [_ B]. rewrite B. reflexivity. Qed.

(* an operation that does not name the object leaves it with the application *)
Lemma step_keeps_held h t w o :
  lookup h (pool w) = Some t -> names h o = false -> lookup h (pool (fst (step w o))) = Some t.
Proof.
  intros L Nm. destruct (step w o) as [w' r] eqn:H. cbn [fst]. apply step_effect in H.
  destruct H as [id addr Ho Hr Hi Hop Hnx Hp Hd | h0 Ho L' Hw Hr | h0 t0 body0 Ho L' S O' Hi Hop Hnx Hp Hd
               | h0 t0 Ho L' S O' Hi Hop Hnx Hp Hd | h0 t0 Ho L' S Hi Hop Hnx Hp Hd | Ho Hw Hr | Ho Hr Hi Hop Hnx Hp Hd].
  - rewrite Hp, lookup_app, L. reflexivity.
  - subst w'. exact L.
  - assert (h <> h0).
    { intros <-. destruct Ho as [[Ho _]|[Ho _]]; subst o; cbn in Nm; rewrite N.eqb_refl in Nm; discriminate. }
    rewrite Hp, lookup_remove_other; auto.
  - assert (h <> h0).
    { intros <-. destruct Ho as [[p [Ho _]]|[Ho _]]; subst o; cbn in Nm; rewrite N.eqb_refl in Nm; discriminate. }
    rewrite Hp, lookup_remove_other; auto.
  - assert (h <> h0).
    { intros <-. destruct Ho as [[p [Ho _]]|[Ho _]]; subst o; cbn in Nm; rewrite N.eqb_refl in Nm; discriminate. }
    destruct Hp as [Hp|Hp]; rewrite Hp; [rewrite lookup_remove_other; auto|exact L].
  - subst w'. exact L.
  - rewrite Hp. exact L.
Qed.

Lemma run_keeps_held h t ops : forall w,
  lookup h (pool w) = Some t -> forallb (fun o => negb (names h o)) ops = true ->
  lookup h (pool (fst (run w ops))) = Some t.
Proof.
  induction ops as [|o ops IH]; intros w L F; [exact L|]. rewrite run_cons. cbn [fst].
  cbn [forallb] in F. apply andb_true_iff in F. destruct F as [F1 F2]. apply negb_true_iff in F1.
  apply IH; [|exact F2]. apply step_keeps_held; assumption.
Qed.

(* Delivery hands the application a request object carrying the id and the node address of the
   TALKREQ (and the sender), and the application holds it until its first respond / drop. *)
Lemma delivered_object_held pre id addr between :
  forallb (fun o => negb (names (handle_after pre) o)) between = true ->
  lookup (handle_after pre) (pool (final (pre ++ ODeliver id addr :: between)))
  = Some {| tid := id; taddr := addr; tsender := Some HandlerChan |}.
Proof.
  intro F. rewrite final_app_cons. apply run_keeps_held; [|exact F].
  cbn [step fst pool]. rewrite lookup_app, next_final.
  destruct (lookup (handle_after pre) (pool (final pre))) as [t|] eqn:L.
  - exfalso. destruct (inv_pool _ (inv_final pre) _ _ L) as (A & _). rewrite next_final in A. lia.
  - rewrite N.eqb_refl. reflexivity.
Qed.

Lemma open_no_shutdown ops : existsb is_shutdown ops = false -> open (final ops) = true.
Proof. intro H. rewrite open_final, H. reflexivity. Qed.

Lemma existsb_app_false {A} (p : A -> bool) l1 l2 :
  existsb p (l1 ++ l2) = false <-> existsb p l1 = false /\ existsb p l2 = false.
Proof. rewrite existsb_app, orb_false_iff. tauto. Qed.

(* End to end, in terms of the operation list only: a TALKREQ (id, addr) delivered after [pre];
   the application keeps the object during [between] and then responds with [body] or drops it
   (body = []); the node is not shut down before that.  Then the operation succeeds and, whatever
   happens afterwards, the TALKRESP messages for this request are exactly one: same id, same node
   address, the application's payload / the empty payload. *)
Lemma delivered_answered_exactly_once pre id addr between o body post :
  let h := handle_after pre in
  forallb (fun o => negb (names h o)) between = true ->
  existsb is_shutdown (pre ++ ODeliver id addr :: between) = false ->
  (o = ORespond h body \/ (o = ODrop h /\ body = [])) ->
  let ops := (pre ++ ODeliver id addr :: between) ++ o :: post in
  nth (length (pre ++ ODeliver id addr :: between)) (results ops) RNoSuch
    = (match o with ORespond _ _ => ROk | _ => RUnit end) /\
  msgs_of h (final ops) = [{| mh := h; mid := id; maddr := addr; mbody := body |}].
Proof.
  intros h F S Ho ops.
  pose proof (delivered_object_held pre id addr between F) as L.
  pose proof (open_no_shutdown _ S) as O.
  exact (answered_running (pre ++ ODeliver id addr :: between) post h _ o body L O Ho).
Qed.

(* The same after a shutdown: the operation returns (ChannelClosed for respond), no response. *)
Lemma delivered_consumed_after_shutdown pre id addr between o post :
  let h := handle_after pre in
  forallb (fun o => negb (names h o)) between = true ->
  existsb is_shutdown (pre ++ ODeliver id addr :: between) = true ->
  ((exists body, o = ORespond h body) \/ o = ODrop h) ->
  let ops := (pre ++ ODeliver id addr :: between) ++ o :: post in
  nth (length (pre ++ ODeliver id addr :: between)) (results ops) RNoSuch
    = (match o with ORespond _ _ => RErr | _ => RUnit end) /\
  msgs_of h (final ops) = [].
Proof.
  intros h F S Ho ops.
  pose proof (delivered_object_held pre id addr between F) as L.
  assert (O : open (final (pre ++ ODeliver id addr :: between)) = false) by (rewrite open_final, S; reflexivity).
  exact (answered_after_shutdown (pre ++ ODeliver id addr :: between) post h _ o L O Ho).
Qed.

(* a request that is never named stays unanswered and held: no spontaneous response *)
Lemma delivered_held_is_silent pre id addr between :
  let h := handle_after pre in
  forallb (fun o => negb (names h o)) between = true ->
  msgs_of h (final (pre ++ ODeliver id addr :: between)) = [].
Proof.
  intros h F. eapply held_is_silent. apply delivered_object_held. exact F.
Qed.

(* the handle of a delivery is the one the ledger [number 0 (deliveries ops)] gives it *)
Lemma delivered_handle_in_ledger pre id addr post :
  In (handle_after pre, (id, addr)) (number 0 (deliveries (pre ++ ODeliver id addr :: post))).
Proof.
  unfold deliveries. rewrite flat_map_app. cbn [flat_map app].
  fold (deliveries pre) (deliveries post). rewrite number_app. apply in_or_app. right.
  cbn [number]. left. reflexivity.
Qed.
