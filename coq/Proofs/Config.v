(* Proofs about Model/Config.v: the configuration path of a node.

   A. every setter of the builder writes exactly its own field ([apply_sets], [apply_frame]);
   B. [build] touches nothing but [auto_nat_listen_duration], and that only when [enr_update] is off;
   C. after a run of setters every field holds the argument of the last setter for that field, or
      what it held before ([cfg_last_write_wins]); when a run panics;
   D. the [effective_*] lemmas: what the handler, the service, the routing table and the
      process-wide permit/ban list of a started node work with is what the application configured
      last, or the default;
   E. an example. *)
From Coq Require Import List NArith Bool Lia.
From Discv5V Require Import Generated.Params Model.Config.
Import ListNotations.
Local Open Scope N_scope.

(* ================================================================ A. setters *)

Theorem apply_sets : forall c op c',
  apply c op = Some c' -> get c' (field_of op) = value_of op.
Proof.
  intros c op c' Happ.
  destruct op; cbn [apply] in Happ;
    try (destruct (n <? 2); [discriminate Happ|]);
    injection Happ as Hc'; subst c'; reflexivity.
Qed.

Theorem apply_frame : forall c op c',
  apply c op = Some c' -> forall f, f <> field_of op -> get c' f = get c f.
Proof.
  intros c op c' Happ f Hf.
  destruct op; cbn [apply] in Happ;
    try (destruct (n <? 2); [discriminate Happ|]);
    injection Happ as Hc'; subst c';
    destruct f; try reflexivity; exfalso; apply Hf; reflexivity.
Qed.

(* the only setter that can panic *)
Theorem apply_none_iff : forall c op,
  apply c op = None <-> exists n, op = OEnrPeerUpdateMin n /\ n < 2.
Proof.
  intros c op. split.
  - intros Happ. destruct op; cbn [apply] in Happ; try discriminate Happ.
    destruct (n <? 2) eqn:Hlt; [|discriminate Happ].
    exists n. split; [reflexivity|]. apply N.ltb_lt. exact Hlt.
  - intros [n [Hop Hlt]]. subst op. cbn [apply].
    apply N.ltb_lt in Hlt. rewrite Hlt. reflexivity.
Qed.

(* ================================================================ B. build *)

Theorem build_some_iff : forall c,
  (exists b, build c = Some b) <-> c_incoming_bucket_limit c <= MAX_NODES_PER_BUCKET.
Proof.
  intros c. unfold build.
  destruct (MAX_NODES_PER_BUCKET <? c_incoming_bucket_limit c) eqn:Hlt.
  - apply N.ltb_lt in Hlt. split.
    + intros [b Hb]. discriminate Hb.
    + intros Hle. lia.
  - apply N.ltb_ge in Hlt. split.
    + intros _. exact Hlt.
    + intros _. eexists. reflexivity.
Qed.

Theorem build_frame : forall c b,
  build c = Some b -> forall f, f <> FAutoNatListenDuration -> get b f = get c f.
Proof.
  intros c b Hb f Hf. unfold build in Hb.
  destruct (MAX_NODES_PER_BUCKET <? c_incoming_bucket_limit c); [discriminate Hb|].
  injection Hb as Hb'. subst b.
  destruct (c_enr_update c); [reflexivity|].
  destruct f; try reflexivity. exfalso. apply Hf. reflexivity.
Qed.

Theorem build_auto_nat : forall c b,
  build c = Some b ->
  c_auto_nat_listen_duration b =
    if c_enr_update c then c_auto_nat_listen_duration c else None.
Proof.
  intros c b Hb. unfold build in Hb.
  destruct (MAX_NODES_PER_BUCKET <? c_incoming_bucket_limit c); [discriminate Hb|].
  injection Hb as Hb'. subst b.
  destruct (c_enr_update c); reflexivity.
Qed.

Theorem build_incoming_bounded : forall c b,
  build c = Some b -> c_incoming_bucket_limit b <= MAX_NODES_PER_BUCKET.
Proof.
  intros c b Hb.
  assert (Hle : c_incoming_bucket_limit c <= MAX_NODES_PER_BUCKET).
  { apply build_some_iff. exists b. exact Hb. }
  assert (Hget : get b FIncomingBucketLimit = get c FIncomingBucketLimit).
  { apply (build_frame c b Hb). discriminate. }
  cbn [get] in Hget. injection Hget as Heq. rewrite Heq. exact Hle.
Qed.

(* ================================================================ C. runs of setters *)

Theorem cfg_last_write_wins : forall ops c c',
  run_ops c ops = Some c' ->
  forall f, get c' f = match last_write f ops with Some v => v | None => get c f end.
Proof.
  induction ops as [|op rest IH]; intros c c' Hrun f.
  - cbn [run_ops] in Hrun. injection Hrun as Hc. subst c'. reflexivity.
  - cbn [run_ops] in Hrun. destruct (apply c op) as [c1|] eqn:Happ; [|discriminate Hrun].
    rewrite (IH c1 c' Hrun f). cbn [last_write].
    destruct (last_write f rest) as [v|]; [reflexivity|].
    destruct (field_eq_dec (field_of op) f) as [Heq|Hne].
    + subst f. apply (apply_sets c op c1 Happ).
    + apply (apply_frame c op c1 Happ). intros Heq. apply Hne. symmetry. exact Heq.
Qed.

Corollary run_ops_configured : forall ops c,
  run_ops default_cfg ops = Some c -> forall f, get c f = configured ops f.
Proof.
  intros ops c Hrun f. unfold configured. apply (cfg_last_write_wins ops default_cfg c Hrun).
Qed.

(* a run of setters panics exactly when the application asks for an address quorum below two *)
Theorem run_ops_none_iff : forall ops c,
  run_ops c ops = None <-> exists n, In (OEnrPeerUpdateMin n) ops /\ n < 2.
Proof.
  induction ops as [|op rest IH]; intros c.
  - cbn [run_ops]. split.
    + intros H. discriminate H.
    + intros [n [Hin _]]. destruct Hin.
  - cbn [run_ops]. destruct (apply c op) as [c1|] eqn:Happ.
    + rewrite (IH c1). split.
      * intros [n [Hin Hlt]]. exists n. split; [right; exact Hin|exact Hlt].
      * intros [n [[Heq|Hin] Hlt]].
        -- exfalso. assert (Hnone : apply c op = None).
           { apply apply_none_iff. exists n. split; [exact Heq|exact Hlt]. }
           rewrite Happ in Hnone. discriminate Hnone.
        -- exists n. split; [exact Hin|exact Hlt].
    + split; [|reflexivity]. intros _.
      apply apply_none_iff in Happ. destruct Happ as [n [Hop Hlt]].
      exists n. split; [left; exact Hop|exact Hlt].
Qed.

(* the position reported for a panicking run is that of a panicking setter, and every setter before it ran *)
Theorem panic_pos_spec : forall ops c,
  run_ops c ops = None ->
  exists pre op post c1, ops = pre ++ op :: post /\ N.of_nat (length pre) = panic_pos c ops /\
    run_ops c pre = Some c1 /\ apply c1 op = None.
Proof.
  induction ops as [|op rest IH]; intros c Hrun.
  - cbn [run_ops] in Hrun. discriminate Hrun.
  - cbn [run_ops] in Hrun. cbn [panic_pos]. destruct (apply c op) as [c1|] eqn:Happ.
    + destruct (IH c1 Hrun) as [pre [op' [post [c2 [Heq [Hlen [Hpre Hop]]]]]]].
      exists (op :: pre), op', post, c2. repeat split.
      * rewrite Heq. reflexivity.
      * cbn [length]. rewrite <- Hlen. lia.
      * cbn [run_ops]. rewrite Happ. exact Hpre.
      * exact Hop.
    + exists [], op, rest, c. repeat split. exact Happ.
Qed.

(* ================================================================ D. what reaches the components *)

(* a started node: the run of setters, and the built configuration behind the view *)
Lemma start_node_inv : forall ops v,
  start_node ops = Some v ->
  exists c b, run_ops default_cfg ops = Some c /\ build c = Some b /\ v = node_of b.
Proof.
  intros ops v Hstart. unfold start_node in Hstart.
  destruct (run_ops default_cfg ops) as [c|] eqn:Hrun; [|discriminate Hstart].
  destruct (build c) as [b|] eqn:Hb; [|discriminate Hstart].
  injection Hstart as Hv. exists c, b.
  split; [reflexivity|]. split; [exact Hb|]. symmetry. exact Hv.
Qed.

(* when does configuring and starting succeed *)
Theorem start_node_some_iff : forall ops,
  (exists v, start_node ops = Some v) <->
  (forall n, In (OEnrPeerUpdateMin n) ops -> 2 <= n) /\
  (exists l, configured ops FIncomingBucketLimit = VN l /\ l <= MAX_NODES_PER_BUCKET).
Proof.
  intros ops. split.
  - intros [v Hstart]. destruct (start_node_inv ops v Hstart) as [c [b [Hrun [Hb Hv]]]].
    split.
    + intros n Hin. destruct (N.lt_ge_cases n 2) as [Hlt|Hge]; [|exact Hge].
      exfalso. assert (Hnone : run_ops default_cfg ops = None).
      { apply run_ops_none_iff. exists n. split; [exact Hin|exact Hlt]. }
      rewrite Hrun in Hnone. discriminate Hnone.
    + exists (c_incoming_bucket_limit c). split.
      * rewrite <- (run_ops_configured ops c Hrun). reflexivity.
      * apply build_some_iff. exists b. exact Hb.
  - intros [Hmin [l [Hl Hle]]]. unfold start_node.
    destruct (run_ops default_cfg ops) as [c|] eqn:Hrun.
    + rewrite <- (run_ops_configured ops c Hrun) in Hl. cbn [get] in Hl. injection Hl as Hl'.
      assert (Hsome : exists b, build c = Some b).
      { apply build_some_iff. rewrite Hl'. exact Hle. }
      destruct Hsome as [b Hb]. rewrite Hb. eexists. reflexivity.
    + exfalso. apply run_ops_none_iff in Hrun. destruct Hrun as [n [Hin Hlt]].
      specialize (Hmin n Hin). lia.
Qed.

(* the three configurations of a started node are one and the same *)
Theorem start_node_same : forall ops v,
  start_node ops = Some v -> nv_service v = nv_built v /\ nv_handler v = nv_built v.
Proof.
  intros ops v Hstart. destruct (start_node_inv ops v Hstart) as [c [b [_ [_ Hv]]]].
  subst v. split; reflexivity.
Qed.

(* every field but the NAT heuristic: built = seen by the service = seen by the handler = configured *)
Theorem effective_field : forall ops v f,
  start_node ops = Some v -> f <> FAutoNatListenDuration ->
  get (nv_built v) f = configured ops f /\
  get (nv_service v) f = configured ops f /\
  get (nv_handler v) f = configured ops f.
Proof.
  intros ops v f Hstart Hf. destruct (start_node_inv ops v Hstart) as [c [b [Hrun [Hb Hv]]]].
  subst v. cbn [node_of nv_built nv_service nv_handler].
  assert (Hget : get b f = configured ops f).
  { rewrite (build_frame c b Hb f Hf). apply (run_ops_configured ops c Hrun). }
  repeat split; exact Hget.
Qed.

Ltac eff_field F :=
  let Hstart := fresh "Hstart" in
  let H := fresh "H" in
  intros ? ? Hstart;
  pose proof (effective_field _ _ F Hstart ltac:(discriminate)) as H;
  cbn [get] in H; exact H.

(* -- the handler: request timeout and retries (C03, C04), sessions (C15), identity (C05), filter (C13, C18) *)

Lemma effective_request_timeout : forall ops v, start_node ops = Some v ->
  VN (c_request_timeout (nv_built v)) = configured ops FRequestTimeout /\
  VN (c_request_timeout (nv_service v)) = configured ops FRequestTimeout /\
  VN (c_request_timeout (nv_handler v)) = configured ops FRequestTimeout.
Proof. eff_field FRequestTimeout. Qed.

Lemma effective_request_retries : forall ops v, start_node ops = Some v ->
  VN (c_request_retries (nv_built v)) = configured ops FRequestRetries /\
  VN (c_request_retries (nv_service v)) = configured ops FRequestRetries /\
  VN (c_request_retries (nv_handler v)) = configured ops FRequestRetries.
Proof. eff_field FRequestRetries. Qed.

Lemma effective_session_timeout : forall ops v, start_node ops = Some v ->
  VN (c_session_timeout (nv_built v)) = configured ops FSessionTimeout /\
  VN (c_session_timeout (nv_service v)) = configured ops FSessionTimeout /\
  VN (c_session_timeout (nv_handler v)) = configured ops FSessionTimeout.
Proof. eff_field FSessionTimeout. Qed.

Lemma effective_session_cache_capacity : forall ops v, start_node ops = Some v ->
  VN (c_session_cache_capacity (nv_built v)) = configured ops FSessionCacheCapacity /\
  VN (c_session_cache_capacity (nv_service v)) = configured ops FSessionCacheCapacity /\
  VN (c_session_cache_capacity (nv_handler v)) = configured ops FSessionCacheCapacity.
Proof. eff_field FSessionCacheCapacity. Qed.

Lemma effective_protocol_identity : forall ops v, start_node ops = Some v ->
  VI (c_protocol_id (nv_built v)) (c_protocol_version (nv_built v)) = configured ops FProtocolIdentity /\
  VI (c_protocol_id (nv_service v)) (c_protocol_version (nv_service v)) = configured ops FProtocolIdentity /\
  VI (c_protocol_id (nv_handler v)) (c_protocol_version (nv_handler v)) = configured ops FProtocolIdentity.
Proof. eff_field FProtocolIdentity. Qed.

(* the packet filter's four parameters as the handler hands them to the receive path *)
Lemma effective_filter : forall ops v, start_node ops = Some v ->
  VB (c_enable_packet_filter (nv_handler v)) = configured ops FEnablePacketFilter /\
  VO (c_filter_max_nodes_per_ip (nv_handler v)) = configured ops FFilterMaxNodesPerIp /\
  VO (c_filter_max_bans_per_ip (nv_handler v)) = configured ops FFilterMaxBansPerIp /\
  VR (c_filter_rate_limiter (nv_handler v)) = configured ops FFilterRateLimiter.
Proof.
  intros ops v Hstart.
  pose proof (effective_field _ _ FEnablePacketFilter Hstart ltac:(discriminate)) as [_ [_ H1]].
  pose proof (effective_field _ _ FFilterMaxNodesPerIp Hstart ltac:(discriminate)) as [_ [_ H2]].
  pose proof (effective_field _ _ FFilterMaxBansPerIp Hstart ltac:(discriminate)) as [_ [_ H3]].
  pose proof (effective_field _ _ FFilterRateLimiter Hstart ltac:(discriminate)) as [_ [_ H4]].
  cbn [get] in H1, H2, H3, H4. repeat split; assumption.
Qed.

Lemma effective_ban_duration : forall ops v, start_node ops = Some v ->
  VO (c_ban_duration (nv_built v)) = configured ops FBanDuration /\
  VO (c_ban_duration (nv_service v)) = configured ops FBanDuration /\
  VO (c_ban_duration (nv_handler v)) = configured ops FBanDuration.
Proof. eff_field FBanDuration. Qed.

(* -- the service: queries (C09, C10), NODES answers (C14), table filter (C12), votes (C17), pings *)

Lemma effective_query_timeout : forall ops v, start_node ops = Some v ->
  VN (c_query_timeout (nv_built v)) = configured ops FQueryTimeout /\
  VN (c_query_timeout (nv_service v)) = configured ops FQueryTimeout /\
  VN (c_query_timeout (nv_handler v)) = configured ops FQueryTimeout.
Proof. eff_field FQueryTimeout. Qed.

Lemma effective_query_peer_timeout : forall ops v, start_node ops = Some v ->
  VN (c_query_peer_timeout (nv_built v)) = configured ops FQueryPeerTimeout /\
  VN (c_query_peer_timeout (nv_service v)) = configured ops FQueryPeerTimeout /\
  VN (c_query_peer_timeout (nv_handler v)) = configured ops FQueryPeerTimeout.
Proof. eff_field FQueryPeerTimeout. Qed.

Lemma effective_query_parallelism : forall ops v, start_node ops = Some v ->
  VN (c_query_parallelism (nv_built v)) = configured ops FQueryParallelism /\
  VN (c_query_parallelism (nv_service v)) = configured ops FQueryParallelism /\
  VN (c_query_parallelism (nv_handler v)) = configured ops FQueryParallelism.
Proof. eff_field FQueryParallelism. Qed.

Lemma effective_max_nodes_response : forall ops v, start_node ops = Some v ->
  VN (c_max_nodes_response (nv_built v)) = configured ops FMaxNodesResponse /\
  VN (c_max_nodes_response (nv_service v)) = configured ops FMaxNodesResponse /\
  VN (c_max_nodes_response (nv_handler v)) = configured ops FMaxNodesResponse.
Proof. eff_field FMaxNodesResponse. Qed.

Lemma effective_table_filter : forall ops v, start_node ops = Some v ->
  VN (c_table_filter (nv_built v)) = configured ops FTableFilter /\
  VN (c_table_filter (nv_service v)) = configured ops FTableFilter /\
  VN (c_table_filter (nv_handler v)) = configured ops FTableFilter.
Proof. eff_field FTableFilter. Qed.

Lemma effective_enr_peer_update_min : forall ops v, start_node ops = Some v ->
  VN (c_enr_peer_update_min (nv_built v)) = configured ops FEnrPeerUpdateMin /\
  VN (c_enr_peer_update_min (nv_service v)) = configured ops FEnrPeerUpdateMin /\
  VN (c_enr_peer_update_min (nv_handler v)) = configured ops FEnrPeerUpdateMin.
Proof. eff_field FEnrPeerUpdateMin. Qed.

(* ... and the quorum a started node works with is at least two *)
Lemma effective_enr_peer_update_min_ge_2 : forall ops v, start_node ops = Some v ->
  2 <= c_enr_peer_update_min (nv_service v).
Proof.
  intros ops v Hstart.
  destruct (effective_enr_peer_update_min ops v Hstart) as [_ [Hs _]].
  unfold configured in Hs. destruct (last_write FEnrPeerUpdateMin ops) as [w|] eqn:Hlw.
  - assert (Hex : exists v0, start_node ops = Some v0) by (exists v; exact Hstart).
    apply start_node_some_iff in Hex. destruct Hex as [Hmin _].
    (* the last write is the argument of a setter in the list *)
    assert (Hin : forall ops0 w0, last_write FEnrPeerUpdateMin ops0 = Some w0 ->
                  exists n, w0 = VN n /\ In (OEnrPeerUpdateMin n) ops0).
    { induction ops0 as [|op rest IH]; intros w0 Hw0.
      - cbn [last_write] in Hw0. discriminate Hw0.
      - cbn [last_write] in Hw0. destruct (last_write FEnrPeerUpdateMin rest) as [w1|].
        + injection Hw0 as Hw0'. subst w1. destruct (IH w0 eq_refl) as [n [Hn Hi]].
          exists n. split; [exact Hn|right; exact Hi].
        + destruct (field_eq_dec (field_of op) FEnrPeerUpdateMin) as [Hf|Hf]; [|discriminate Hw0].
          injection Hw0 as Hw0'. destruct op; try discriminate Hf.
          exists n. split; [symmetry; exact Hw0'|left; reflexivity]. }
    destruct (Hin ops w Hlw) as [n [Hw Hn]]. rewrite Hw in Hs. injection Hs as Hs'. rewrite Hs'.
    apply Hmin. exact Hn.
  - cbn [get default_cfg c_enr_peer_update_min] in Hs. injection Hs as Hs'. rewrite Hs'. lia.
Qed.

Lemma effective_vote_duration : forall ops v, start_node ops = Some v ->
  VN (c_vote_duration (nv_built v)) = configured ops FVoteDuration /\
  VN (c_vote_duration (nv_service v)) = configured ops FVoteDuration /\
  VN (c_vote_duration (nv_handler v)) = configured ops FVoteDuration.
Proof. eff_field FVoteDuration. Qed.

Lemma effective_enr_update : forall ops v, start_node ops = Some v ->
  VB (c_enr_update (nv_built v)) = configured ops FEnrUpdate /\
  VB (c_enr_update (nv_service v)) = configured ops FEnrUpdate /\
  VB (c_enr_update (nv_handler v)) = configured ops FEnrUpdate.
Proof. eff_field FEnrUpdate. Qed.

Lemma effective_report_discovered_peers : forall ops v, start_node ops = Some v ->
  VB (c_report_discovered_peers (nv_built v)) = configured ops FReportDiscoveredPeers /\
  VB (c_report_discovered_peers (nv_service v)) = configured ops FReportDiscoveredPeers /\
  VB (c_report_discovered_peers (nv_handler v)) = configured ops FReportDiscoveredPeers.
Proof. eff_field FReportDiscoveredPeers. Qed.

Lemma effective_ping_interval : forall ops v, start_node ops = Some v ->
  VN (c_ping_interval (nv_built v)) = configured ops FPingInterval /\
  VN (c_ping_interval (nv_service v)) = configured ops FPingInterval /\
  VN (c_ping_interval (nv_handler v)) = configured ops FPingInterval.
Proof. eff_field FPingInterval. Qed.

(* the NAT heuristic: what was configured, unless address updates are switched off *)
Lemma effective_auto_nat_listen_duration : forall ops v, start_node ops = Some v ->
  let expected := if match configured ops FEnrUpdate with VB false => false | _ => true end
                  then configured ops FAutoNatListenDuration else VO None in
  VO (c_auto_nat_listen_duration (nv_built v)) = expected /\
  VO (c_auto_nat_listen_duration (nv_service v)) = expected /\
  VO (c_auto_nat_listen_duration (nv_handler v)) = expected.
Proof.
  intros ops v Hstart. destruct (start_node_inv ops v Hstart) as [c [b [Hrun [Hb Hv]]]].
  subst v. cbn [node_of nv_built nv_service nv_handler].
  rewrite <- (run_ops_configured ops c Hrun FEnrUpdate).
  rewrite <- (run_ops_configured ops c Hrun FAutoNatListenDuration).
  cbn [get]. rewrite (build_auto_nat c b Hb).
  destruct (c_enr_update c); cbn; repeat split; reflexivity.
Qed.

(* -- Discv5::new: the routing table (C07, C16) and the process-wide permit/ban list (C18) *)

Lemma effective_incoming_bucket_limit : forall ops v, start_node ops = Some v ->
  VN (nv_table_incoming_limit v) = configured ops FIncomingBucketLimit /\
  nv_table_incoming_limit v <= MAX_NODES_PER_BUCKET /\
  VN (c_incoming_bucket_limit (nv_service v)) = configured ops FIncomingBucketLimit.
Proof.
  intros ops v Hstart.
  pose proof (effective_field _ _ FIncomingBucketLimit Hstart ltac:(discriminate)) as [Hb [Hs _]].
  destruct (start_node_inv ops v Hstart) as [c [b [Hrun [Hbuild Hv]]]].
  subst v. cbn [node_of nv_built nv_service nv_table_incoming_limit] in *. cbn [get] in Hb, Hs.
  repeat split; [exact Hb| |exact Hs].
  apply (build_incoming_bounded c b Hbuild).
Qed.

Lemma effective_ip_limit : forall ops v, start_node ops = Some v ->
  VB (nv_ip_filters v) = configured ops FIpLimit /\
  VB (c_ip_limit (nv_service v)) = configured ops FIpLimit.
Proof.
  intros ops v Hstart.
  pose proof (effective_field _ _ FIpLimit Hstart ltac:(discriminate)) as [Hb [Hs _]].
  destruct (start_node_inv ops v Hstart) as [c [b [_ [_ Hv]]]].
  subst v. cbn [node_of nv_built nv_service nv_ip_filters] in *. cbn [get] in Hb, Hs.
  split; assumption.
Qed.

Lemma effective_permit_ban_list : forall ops v, start_node ops = Some v ->
  VP (nv_permit_ban v) = configured ops FPermitBanList /\
  VP (c_permit_ban_list (nv_handler v)) = configured ops FPermitBanList.
Proof.
  intros ops v Hstart.
  pose proof (effective_field _ _ FPermitBanList Hstart ltac:(discriminate)) as [Hb [_ Hh]].
  destruct (start_node_inv ops v Hstart) as [c [b [_ [_ Hv]]]].
  subst v. cbn [node_of nv_built nv_handler nv_permit_ban] in *. cbn [get] in Hb, Hh.
  split; assumption.
Qed.

(* -- the flat list the correspondence run compares is made of exactly these projections *)

Theorem outcome_started : forall ops v started,
  start_node ops = Some v -> outcome ops started = 1 :: effective v started.
Proof.
  intros ops v started Hstart. destruct (start_node_inv ops v Hstart) as [c [b [Hrun [Hb Hv]]]].
  subst v. unfold outcome. rewrite Hrun, Hb. reflexivity.
Qed.

Theorem outcome_panic : forall ops started,
  start_node ops = None -> exists k, outcome ops started = [0; k] /\ k <= N.of_nat (length ops).
Proof.
  intros ops started Hstart. unfold start_node in Hstart. unfold outcome.
  destruct (run_ops default_cfg ops) as [c|] eqn:Hrun.
  - destruct (build c) as [b|]; [discriminate Hstart|].
    eexists. split; [reflexivity|]. lia.
  - eexists. split; [reflexivity|].
    destruct (panic_pos_spec ops default_cfg Hrun) as [pre [op [post [c1 [Heq [Hlen _]]]]]].
    rewrite <- Hlen. rewrite Heq. rewrite app_length. lia.
Qed.

(* ================================================================ E. an example *)

Definition example_ops : list cop :=
  [ OQueryTimeout 2500; ORequestTimeout 400; OSessionTimeout 20000; OIncomingBucketLimit 5;
    OQueryTimeout 7300; OIpLimit; ODisableEnrUpdate; OAutoNatListenDuration (Some 450000);
    OPermitBanList (mkpb 1 2 3 0 1 1); OProtocolIdentity 127979076284781 2;
    OFilterRateLimiter None; OEnrPeerUpdateMin 4; OTableFilter 2 ].

(* (proved by [vm_compute]: the nested record updates of a concrete run have no sharing, the lazy
   conversion of the kernel would copy the inner configuration 25 times per setter) *)
Example example_starts : exists v,
  start_node example_ops = Some v /\
  c_query_timeout (nv_service v) = 7300 /\
  c_request_timeout (nv_handler v) = 400 /\
  c_session_timeout (nv_handler v) = 20000 /\
  c_session_cache_capacity (nv_handler v) = 1000 /\
  nv_table_incoming_limit v = 5 /\
  nv_ip_filters v = true /\
  nv_permit_ban v = mkpb 1 2 3 0 1 1 /\
  c_auto_nat_listen_duration (nv_service v) = None /\
  c_filter_rate_limiter (nv_handler v) = None /\
  c_protocol_id (nv_handler v) = 127979076284781.
Proof.
  destruct (start_node example_ops) as [v|] eqn:Hstart.
  - exists v. split; [reflexivity|].
    revert Hstart. vm_compute. intros Hv. injection Hv as Hv'. subst v. vm_compute. repeat split.
  - exfalso. revert Hstart. vm_compute. discriminate.
Qed.

(* the hypotheses of [start_node_some_iff] hold for it *)
Example example_hypotheses :
  (forall n, In (OEnrPeerUpdateMin n) example_ops -> 2 <= n) /\
  (exists l, configured example_ops FIncomingBucketLimit = VN l /\ l <= MAX_NODES_PER_BUCKET).
Proof.
  apply start_node_some_iff. destruct example_starts as [v [Hv _]]. exists v. exact Hv.
Qed.

Example example_configured :
  configured example_ops FQueryTimeout = VN 7300 /\
  configured example_ops FQueryPeerTimeout = VN 2000 /\
  configured example_ops FAutoNatListenDuration = VO (Some 450000).
Proof. vm_compute. repeat split. Qed.

(* the two ways of not getting a node: a quorum below two, an incoming limit above the bucket size *)
Example example_quorum_panics :
  start_node [ORequestTimeout 300; OEnrPeerUpdateMin 1; OQueryTimeout 5000] = None /\
  outcome [ORequestTimeout 300; OEnrPeerUpdateMin 1; OQueryTimeout 5000] true = [0; 1].
Proof. split; vm_compute; reflexivity. Qed.

Example example_build_panics :
  start_node [OIncomingBucketLimit 17; OQueryTimeout 5000] = None /\
  outcome [OIncomingBucketLimit 17; OQueryTimeout 5000] true = [0; 2].
Proof. split; vm_compute; reflexivity. Qed.
