(* C07, part 2: the table invariant TInv, its preservation by every operation of the [op] alphabet
   of Model/KBucket.v, for every time argument, and the lifting to [run]. *)
From Coq Require Import List Arith NArith Lia Bool Permutation Sorted.
From Discv5V Require Import Generated.Params Lib.ListX Lib.ListY Lib.SortedX Model.KBucket Proofs.KBucketInv.
Import ListNotations.

(* Table invariant, indexed like BInv by an optional current time (None: structural part only). *)
Definition TInvG (c : config) (T : option N) (t : table) : Prop :=
  length (buckets t) = NB /\ forall i, BInv c T (local t) i (get_bucket t i).

(* the structural invariant (valid whatever the clock does) *)
Definition TInv (c : config) (t : table) : Prop := TInvG c None t.
(* the full invariant at time [now]: structural part + stamps ordered inside each group + no stamp
   later than [now] *)
Definition TInvAt (c : config) (now : N) (t : table) : Prop := TInvG c (Some now) t.

Lemma tinv_weaken c T T' t : TInvG c T t -> tle T T' -> TInvG c T' t.
Proof. intros [H1 H2] Hle. split; [exact H1|]. intros i. eapply binv_weaken; eauto. Qed.

Lemma TInvAt_TInv c now t : TInvAt c now t -> TInv c t.
Proof. intros H. eapply tinv_weaken; [exact H|exact I]. Qed.

Lemma TInvAt_mono c t0 t1 t : TInvAt c t0 t -> (t0 <= t1)%N -> TInvAt c t1 t.
Proof. intros H Hle. eapply tinv_weaken; [exact H|exact Hle]. Qed.

Lemma get_bucket_default t i : length (buckets t) <= i -> get_bucket t i = empty_bucket.
Proof. intros H. unfold get_bucket. apply nth_overflow. exact H. Qed.

Lemma get_set_bucket t i b app j :
  get_bucket (set_bucket t i b app) j =
  if Nat.eqb i j && Nat.ltb i (length (buckets t)) then b else get_bucket t j.
Proof.
  unfold get_bucket, set_bucket. simpl.
  destruct (Nat.eqb_spec i j) as [E|E]; simpl.
  - subst j. destruct (Nat.ltb_spec i (length (buckets t))) as [L|L].
    + rewrite nth_upd_at_same by exact L. reflexivity.
    + rewrite !nth_overflow; [reflexivity|exact L|rewrite upd_at_length; exact L].
  - apply nth_upd_at_other. exact E.
Qed.

Lemma tinv_new c T loc : TInvG c T (new_table loc).
Proof.
  split; [apply repeat_length|]. intros i. unfold get_bucket, new_table. cbn [buckets local].
  assert (E : nth i (repeat empty_bucket NB) empty_bucket = empty_bucket).
  { generalize NB. intros n. revert i. induction n as [|n IH]; intros [|i]; simpl; auto. }
  rewrite E. apply binv_empty.
Qed.

Lemma tinv_set c T t i b app :
  TInvG c T t -> BInv c T (local t) i b -> TInvG c T (set_bucket t i b app).
Proof.
  intros [H1 H2] HB. split.
  - simpl. rewrite upd_at_length. exact H1.
  - intros j. rewrite get_set_bucket. simpl local.
    destruct (Nat.eqb_spec i j) as [E|E]; simpl; [|apply H2].
    subst j. destruct (Nat.ltb i (length (buckets t))); [exact HB|apply H2].
Qed.

Lemma tinv_same_buckets c T t t' :
  TInvG c T t -> local t' = local t -> buckets t' = buckets t -> TInvG c T t'.
Proof.
  intros [H1 H2] El Eb. split; [rewrite Eb; exact H1|]. intros i.
  unfold get_bucket. rewrite El, Eb. apply H2.
Qed.

Lemma applied_bucket_fst c t i now :
  fst (applied_bucket c t i now) = fst (b_apply_pending c (get_bucket t i) now).
Proof. unfold applied_bucket. destruct (b_apply_pending c (get_bucket t i) now). reflexivity. Qed.

Lemma applied_bucket_inv c T t i now :
  TInvG c T t -> tm T now T -> BInv c T (local t) i (fst (applied_bucket c t i now)).
Proof.
  intros [H1 H2] Htm. rewrite applied_bucket_fst. eapply b_apply_pending_inv; [apply H2|exact Htm].
Qed.

Ltac split_pair e x y E :=
  let H := fresh in
  destruct e as [x y] eqn:E;
  pose proof (f_equal fst E) as H; simpl in H; subst x.

(* ------------------------------------------------------------------------------------------ *)
(* Table operations *)

Section TableOps.
Variables (c : config) (T : option N) (now : N).
Hypothesis Htm : tm T now T.

Lemma t_update_node_status_inv t k conn dir :
  TInvG c T t -> TInvG c T (fst (t_update_node_status c t k conn dir now)).
Proof.
  intros HT. unfold t_update_node_status.
  destruct (bucket_index (local t) k) as [i|] eqn:Ei; [|exact HT].
  pose proof (applied_bucket_inv c T t i now HT Htm) as HB.
  destruct (applied_bucket c t i now) as [b app]. simpl in HB.
  pose proof (b_update_status_inv c T T (local t) i b k conn dir now HB Htm) as HB'.
  destruct (b_update_status c b k conn dir now) as [b' r]. simpl in *.
  apply tinv_set; assumption.
Qed.

Lemma t_update_node_inv t k v state :
  TInvG c T t -> TInvG c T (fst (t_update_node c t k v state now)).
Proof.
  intros HT. unfold t_update_node.
  destruct (bucket_index (local t) k) as [i|] eqn:Ei; [|exact HT].
  pose proof (applied_bucket_inv c T t i now HT Htm) as HB.
  destruct (applied_bucket c t i now) as [b app]. simpl in HB.
  destruct (negb (passes_table_filter c t k v)).
  - simpl. apply tinv_set; [exact HT|]. eapply b_remove_inv; eassumption.
  - pose proof (b_update_value_inv c T (local t) i b k v HB) as HB1.
    destruct (b_update_value c b k v) as [b1 ur]. simpl in HB1.
    assert (HX : forall sr : upd,
      TInvG c T (fst (let (b2, sr) := match state with
                                      | Some s => b_update_status c b1 k s None now
                                      | None => (b1, UNotModified)
                                      end in
                      (set_bucket t i b2 app, sr)))).
    { intros _. destruct state as [s|].
      - pose proof (b_update_status_inv c T T (local t) i b1 k s None now HB1 Htm) as HB2.
        destruct (b_update_status c b1 k s None now) as [b2 sr]. simpl in *. apply tinv_set; assumption.
      - simpl. apply tinv_set; assumption. }
    destruct ur; try (simpl; apply tinv_set; assumption);
      (destruct (match state with Some s => b_update_status c b1 k s None now | None => (b1, UNotModified) end)
         as [b2 sr] eqn:E2; simpl; apply tinv_set; [exact HT|];
       destruct state as [s|]; [|inversion E2; subst; exact HB1];
       pose proof (b_update_status_inv c T T (local t) i b1 k s None now HB1 Htm) as HB2;
       rewrite E2 in HB2; exact HB2).
Qed.

Lemma t_insert_or_update_inv t k v conn inc :
  TInvG c T t -> TInvG c T (fst (t_insert_or_update c t k v conn inc now)).
Proof.
  intros HT. unfold t_insert_or_update.
  destruct (bucket_index (local t) k) as [i|] eqn:Ei; [|exact HT].
  pose proof (applied_bucket_inv c T t i now HT Htm) as HB.
  destruct (applied_bucket c t i now) as [b app]. simpl in HB.
  destruct (negb (passes_table_filter c t k v)).
  - simpl. apply tinv_set; [exact HT|]. eapply b_remove_inv; eassumption.
  - destruct (position k (nodes b)).
    + pose proof (b_update_status_inv c T T (local t) i b k conn (Some inc) now HB Htm) as HB1.
      destruct (b_update_status c b k conn (Some inc) now) as [b1 sr]. simpl in HB1.
      pose proof (b_update_value_inv c T (local t) i b1 k v HB1) as HB2.
      destruct sr; try (simpl; apply tinv_set; assumption);
        (destruct (b_update_value c b1 k v) as [b2 vr]; simpl in *; apply tinv_set; assumption).
    + match goal with |- context [b_insert c b ?n now] =>
        pose proof (b_insert_inv c T T (local t) i b n now HB Htm Ei) as HB1;
        destruct (b_insert c b n now) as [b' r] end.
      simpl in *. apply tinv_set; assumption.
Qed.

Lemma t_remove_inv t k :
  TInvG c T t -> TInvG c T (fst (t_remove c t k now)).
Proof.
  intros HT. unfold t_remove.
  destruct (bucket_index (local t) k) as [i|] eqn:Ei; [|exact HT].
  pose proof (applied_bucket_inv c T t i now HT Htm) as HB.
  destruct (applied_bucket c t i now) as [b app]. simpl in HB.
  pose proof (b_remove_inv c T T (local t) i b k now HB Htm) as HB'.
  destruct (b_remove c b k now) as [b' r]. simpl in *. apply tinv_set; assumption.
Qed.

Lemma t_entry_inv t k a :
  TInvG c T t -> TInvG c T (fst (t_entry c t k a now)).
Proof.
  intros HT. unfold t_entry.
  destruct (bucket_index (local t) k) as [i|] eqn:Ei; [|exact HT].
  pose proof (applied_bucket_inv c T t i now HT Htm) as HB.
  destruct (applied_bucket c t i now) as [b app]. simpl in HB.
  pose proof (b_remove_inv c T T (local t) i b k now HB Htm) as HBr.
  destruct (classify b k) as [cc ii|cc ii| |]; destruct a as [|v conn inc|conn dir| |conn inc];
    try (simpl; apply tinv_set; assumption).
  - pose proof (b_update_status_inv c T T (local t) i b k conn dir now HB Htm) as HB'.
    destruct (b_update_status c b k conn dir now) as [b' r]. simpl in *. apply tinv_set; assumption.
  - simpl. apply tinv_set; [exact HT|]. apply b_update_pending_inv. exact HB.
  - match goal with |- context [b_insert c b ?n now] =>
      pose proof (b_insert_inv c T T (local t) i b n now HB Htm Ei) as HB1;
      destruct (b_insert c b n now) as [b' r] end.
    simpl in *. apply tinv_set; assumption.
Qed.

Lemma apply_all_fst bs : fst (apply_all c bs now) = map (fun b => fst (b_apply_pending c b now)) bs.
Proof.
  induction bs as [|b bs IH]; [reflexivity|]. simpl.
  destruct (b_apply_pending c b now) as [b' a]. destruct (apply_all c bs now) as [rest q].
  simpl in *. rewrite IH. reflexivity.
Qed.

Lemma apply_pending_empty : fst (b_apply_pending c empty_bucket now) = empty_bucket.
Proof. reflexivity. Qed.

Lemma t_iter_buckets t :
  buckets (fst (t_iter c t now)) = map (fun b => fst (b_apply_pending c b now)) (buckets t) /\
  local (fst (t_iter c t now)) = local t.
Proof.
  unfold t_iter. pose proof (apply_all_fst (buckets t)) as H.
  destruct (apply_all c (buckets t) now) as [bs q]. simpl in *. split; [exact H|reflexivity].
Qed.

Lemma t_iter_inv t : TInvG c T t -> TInvG c T (fst (t_iter c t now)).
Proof.
  intros [H1 H2]. destruct (t_iter_buckets t) as [Eb El]. split.
  - rewrite Eb, map_length. exact H1.
  - intros i. unfold get_bucket. rewrite Eb, El.
    rewrite <- apply_pending_empty at 1.
    rewrite (map_nth (fun b => fst (b_apply_pending c b now))).
    eapply b_apply_pending_inv; [apply H2|exact Htm].
Qed.

Lemma t_take_applied_inv t : TInvG c T t -> TInvG c T (fst (t_take_applied t)).
Proof.
  intros HT. unfold t_take_applied. destruct (applied t); [exact HT|].
  simpl. eapply tinv_same_buckets; [exact HT|reflexivity|reflexivity].
Qed.

Lemma nbd_apply_inv ds : forall t cnt maxn,
  TInvG c T t -> TInvG c T (nbd_apply c t ds cnt maxn now).
Proof.
  induction ds as [|d ds IH]; intros t cnt maxn HT; [exact HT|]. cbn [nbd_apply].
  pose proof (b_apply_pending_inv c T T (local t) (N.to_nat (d - 1)) _ now (proj2 HT _) Htm) as HB.
  destruct (b_apply_pending c (get_bucket t (N.to_nat (d - 1))) now) as [b a]. simpl in HB.
  destruct a as [x|].
  - destruct (Nat.leb maxn (cnt + length (nodes b))); [|apply IH]; apply tinv_set; assumption.
  - apply IH. apply tinv_set; assumption.
Qed.

Lemma t_nodes_by_distances_inv t ds maxn :
  TInvG c T t -> TInvG c T (fst (t_nodes_by_distances c t ds maxn now)).
Proof. intros HT. unfold t_nodes_by_distances. simpl. apply nbd_apply_inv. exact HT. Qed.

Lemma closest_walk_inv target order : forall t,
  TInvG c T t -> TInvG c T (fst (closest_walk c t target order now)).
Proof.
  induction order as [|i order IH]; intros t HT; [exact HT|]. cbn [closest_walk].
  pose proof (applied_bucket_inv c T t i now HT Htm) as HB.
  destruct (applied_bucket c t i now) as [b app]. simpl in HB.
  specialize (IH (set_bucket t i b app) (tinv_set c T t i b app HT HB)).
  destruct (closest_walk c (set_bucket t i b app) target order now) as [t2 out]. exact IH.
Qed.

Lemma t_closest_inv fixed t target :
  TInvG c T t -> TInvG c T (fst (t_closest fixed c t target now)).
Proof. intros HT. unfold t_closest. apply closest_walk_inv. exact HT. Qed.

Lemma t_force_ready_inv t i : TInvG c T t -> TInvG c T (t_force_ready t i now).
Proof.
  intros HT. unfold t_force_ready. destruct (pend (get_bucket t i)) as [p|] eqn:Ep; [|exact HT].
  apply tinv_set; [exact HT|].
  destruct (binv_pend_facts _ _ _ _ _ _ (proj2 HT i) Ep) as [Hpidx Hpnin].
  eapply binv_set_pend; [apply (proj2 HT i)|reflexivity|reflexivity|].
  simpl. intros p' Hp'. inversion Hp'; subst p'. simpl. split; assumption.
Qed.

Lemma step_inv_G fixed t o : TInvG c T t -> TInvG c T (fst (step fixed c t o now)).
Proof.
  intros HT. destruct o; simpl.
  - pose proof (t_insert_or_update_inv t k v conn inc HT). destruct (t_insert_or_update c t k v conn inc now); assumption.
  - pose proof (t_update_node_status_inv t k conn dir HT). destruct (t_update_node_status c t k conn dir now); assumption.
  - pose proof (t_update_node_inv t k v state HT). destruct (t_update_node c t k v state now); assumption.
  - pose proof (t_remove_inv t k HT). destruct (t_remove c t k now); assumption.
  - pose proof (t_entry_inv t k a HT). destruct (t_entry c t k a now); assumption.
  - pose proof (t_iter_inv t HT). destruct (t_iter c t now); assumption.
  - pose proof (t_take_applied_inv t HT). destruct (t_take_applied t); assumption.
  - exact (t_nodes_by_distances_inv t ds maxn HT).
  - pose proof (t_closest_inv fixed t target HT). destruct (t_closest fixed c t target now); assumption.
  - apply t_force_ready_inv. exact HT.
Qed.

End TableOps.

(* ------------------------------------------------------------------------------------------ *)
(* The theorems *)

Theorem TInv_new c loc : TInv c (new_table loc).
Proof. apply tinv_new. Qed.

Theorem TInvAt_new c now loc : TInvAt c now (new_table loc).
Proof. apply tinv_new. Qed.

(* structural invariant: every op, every time, no assumption on the clock *)
Theorem step_inv fixed c t o now : TInv c t -> TInv c (fst (step fixed c t o now)).
Proof. apply step_inv_G. exact I. Qed.

(* full invariant (with stamps): the clock must not run backwards, i.e. [now] is not earlier than
   the time index of the invariant (which bounds every stamp in the table) *)
Theorem step_inv_at fixed c t o t0 now :
  TInvAt c t0 t -> (t0 <= now)%N -> TInvAt c now (fst (step fixed c t o now)).
Proof.
  intros HT Hle. apply step_inv_G; [simpl; lia|]. eapply TInvAt_mono; eassumption.
Qed.

(* times of an op list are non-decreasing and start not before t0 *)
Fixpoint times_mono (t0 : N) (ops : list (op * N)) : Prop :=
  match ops with
  | [] => True
  | (_, now) :: rest => (t0 <= now)%N /\ times_mono now rest
  end.

Fixpoint last_time (t0 : N) (ops : list (op * N)) : N :=
  match ops with [] => t0 | (_, now) :: rest => last_time now rest end.

Theorem run_inv fixed c ops : forall t, TInv c t -> TInv c (fst (run fixed c t ops)).
Proof.
  induction ops as [|[o now] ops IH]; intros t HT; [exact HT|]. cbn [run].
  pose proof (step_inv fixed c t o now HT) as H1.
  destruct (step fixed c t o now) as [t1 r]. simpl in H1. specialize (IH t1 H1).
  destruct (run fixed c t1 ops) as [t2 rs]. exact IH.
Qed.

Theorem run_inv_at fixed c ops : forall t t0,
  TInvAt c t0 t -> times_mono t0 ops -> TInvAt c (last_time t0 ops) (fst (run fixed c t ops)).
Proof.
  induction ops as [|[o now] ops IH]; intros t t0 HT Hm; [exact HT|]. cbn [run].
  destruct Hm as [Hle Hm].
  pose proof (step_inv_at fixed c t o t0 now HT Hle) as H1.
  destruct (step fixed c t o now) as [t1 r]. simpl in H1. specialize (IH t1 now H1 Hm).
  destruct (run fixed c t1 ops) as [t2 rs]. exact IH.
Qed.

(* every table reachable from the empty table satisfies the invariant *)
Theorem reachable_inv fixed c loc ops :
  TInv c (fst (run fixed c (new_table loc) ops)).
Proof. apply run_inv. apply TInv_new. Qed.

Theorem reachable_inv_at fixed c loc ops t0 :
  times_mono t0 ops -> TInvAt c (last_time t0 ops) (fst (run fixed c (new_table loc) ops)).
Proof. intros H. apply run_inv_at; [apply TInvAt_new|exact H]. Qed.
