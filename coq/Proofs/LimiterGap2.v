(* Gap-closing proof for C18, "periodic pruning of limiter state does not change any decision",
   stated about the FILTER: any history of the filter (datagrams, direct calls of the two passes,
   unban checks, permit/ban calls) interleaved with any number of prune_limiter calls produces the
   same decisions and the same permit/ban lists as the history without the prune calls.
   Proofs/Limiter.v proves this for one Limiter ([prune_transparent]); here it is lifted through
   RateLimiter, Filter::initial_pass / final_pass, handle_inbound and whole filter histories. *)
From Coq Require Import List NArith Bool Lia.
From Discv5V Require Import Generated.Params Model.Limiter Proofs.Limiter Proofs.LimiterGap.
Import ListNotations.
Local Open Scope N_scope.

(* ---------------------------------------------------------------------------------------------- *)
(* one limiter: [l] (pruned now and then) and [l'] (never pruned) *)

Definition lrel (B c : N) (l l' : limiter) : Prop :=
  wfl l /\ wfl l' /\ linv l c /\ leq c l l' /\ B + tau l + tau l < U64.

Lemma linv_later l c c2 : linv l c -> c <= c2 -> linv l c2.
Proof.
  intros I L k. specialize (I k). unfold inv_k in *. destruct (lookup k (tats l)); [lia|exact I].
Qed.

Lemma leq_later c c2 l l' : leq c l l' -> c <= c2 -> leq c2 l l'.
Proof. intros (A & B & C) L. repeat split; auto. intro k. eapply eff_eq_later; eauto. Qed.

Lemma lrel_later B c c2 l l' : lrel B c l l' -> c <= c2 -> lrel B c2 l l'.
Proof.
  intros (W & W' & I & Q & H) L.
  split; [exact W|]. split; [exact W'|]. split; [eapply linv_later; eauto|]. split; [apply (leq_later c); auto|exact H].
Qed.

Lemma lrel_refl B c l : wfl l -> linv l c -> B + tau l + tau l < U64 -> lrel B c l l.
Proof.
  intros W I H. split; [exact W|]. split; [exact W|]. split; [exact I|]. split; [|exact H].
  split; [reflexivity|]. split; reflexivity.
Qed.

Lemma lrel_allows B c l l' el k n :
  lrel B c l l' -> c <= el -> el <= B ->
  snd (allows l el k n) = snd (allows l' el k n) /\
  lrel B el (fst (allows l el k n)) (fst (allows l' el k n)).
Proof.
  intros (W & W' & I & Q & H) L LB.
  assert (M : mono_from c [LAllows el k n]) by (cbn; auto).
  assert (Bf : all_before el [LAllows el k n]) by (repeat constructor; cbn; lia).
  pose proof (prune_transparent [LAllows el k n] l l' c el W W' I Q M Bf L ltac:(lia)) as P.
  pose proof (allows_facts l c el k n W I L ltac:(lia)) as F. cbv zeta in F. destruct F as (I1 & _).
  pose proof (allows_wfl l el k n W) as W1. pose proof (allows_wfl l' el k n W') as W1'.
  destruct (allows_params l el k n) as [Pt _].
  cbn [no_prunes List.filter lrun lstep] in P.
  destruct (allows l el k n) as [l1 v]. destruct (allows l' el k n) as [l1' v']. cbn [fst snd verdicts flat_map app] in *.
  destruct P as [Pv Pq]. split; [congruence|].
  split; [exact W1|]. split; [exact W1'|]. split; [exact I1|]. split; [exact Pq|]. rewrite Pt. exact H.
Qed.

Lemma lrel_prune B c l l' el :
  lrel B c l l' -> c <= el -> el <= B -> lrel B el (prune l el) l'.
Proof.
  intros (W & W' & I & Q & H) L LB.
  assert (M : mono_from c [LPrune el]) by (cbn; auto).
  assert (Bf : all_before el [LPrune el]) by (repeat constructor; cbn; lia).
  pose proof (prune_transparent [LPrune el] l l' c el W W' I Q M Bf L ltac:(lia)) as P.
  cbn [no_prunes List.filter lrun lstep fst snd] in P. destruct P as [_ Pq].
  split; [apply prune_wfl; exact W|]. split; [exact W'|].
  split; [apply (prune_linv l c el W I L); lia|]. split; [exact Pq|exact H].
Qed.

(* ---------------------------------------------------------------------------------------------- *)
(* the RateLimiter *)

Definition olrel (B c : N) (o o' : option limiter) : Prop :=
  match o, o' with
  | Some l, Some l' => lrel B c l l'
  | None, None => True
  | _, _ => False
  end.

Lemma olrel_later B c c2 o o' : olrel B c o o' -> c <= c2 -> olrel B c2 o o'.
Proof. destruct o, o'; cbn; auto. apply lrel_later. Qed.

Definition rrel (B cur : N) (r r' : rate_limiter) : Prop :=
  init_time r = init_time r' /\
  lrel (B - init_time r) (cur - init_time r) (total_rl r) (total_rl r') /\
  olrel (B - init_time r) (cur - init_time r) (node_rl r) (node_rl r') /\
  olrel (B - init_time r) (cur - init_time r) (ip_rl r) (ip_rl r').

Lemma rrel_later B cur now r r' : rrel B cur r r' -> cur <= now -> rrel B now r r'.
Proof.
  intros (A & T & Nd & Ip) L. split; [exact A|].
  split; [eapply lrel_later; [exact T|lia]|]. split; (eapply olrel_later; [eassumption|lia]).
Qed.

Lemma rrel_allows B cur now r r' k :
  rrel B cur r r' -> cur <= now -> now <= B ->
  snd (rl_allows r now k) = snd (rl_allows r' now k) /\
  rrel B now (fst (rl_allows r now k)) (fst (rl_allows r' now k)).
Proof.
  intros R L LB. pose proof (rrel_later B cur now r r' R L) as RL. pose proof RL as (A & T & Nd & Ip).
  destruct R as (_ & T0 & Nd0 & Ip0).
  assert (L1 : cur - init_time r <= now - init_time r) by lia.
  assert (L2 : now - init_time r <= B - init_time r) by lia.
  unfold rl_allows. rewrite <- A. destruct k as [|id|ip].
  - destruct (lrel_allows _ _ _ _ (now - init_time r) 0 1 T0 L1 L2) as [Ev Er].
    destruct (allows (total_rl r) (now - init_time r) 0 1) as [l1 v].
    destruct (allows (total_rl r') (now - init_time r) 0 1) as [l1' v']. cbn [fst snd] in *.
    split; [exact Ev|]. split; [first [exact A|reflexivity]|]. cbn [init_time total_rl node_rl ip_rl]. auto.
  - destruct (node_rl r) as [l|], (node_rl r') as [l'|]; cbn [olrel] in Nd0, Nd; try contradiction.
    + destruct (lrel_allows _ _ _ _ (now - init_time r) id 1 Nd0 L1 L2) as [Ev Er].
      destruct (allows l (now - init_time r) id 1) as [l1 v].
      destruct (allows l' (now - init_time r) id 1) as [l1' v']. cbn [fst snd] in *.
      split; [exact Ev|]. split; [first [exact A|reflexivity]|]. cbn [init_time total_rl node_rl ip_rl olrel]. auto.
    + cbn [fst snd]. split; [reflexivity|]. exact RL.
  - destruct (ip_rl r) as [l|], (ip_rl r') as [l'|]; cbn [olrel] in Ip0, Ip; try contradiction.
    + destruct (lrel_allows _ _ _ _ (now - init_time r) ip 1 Ip0 L1 L2) as [Ev Er].
      destruct (allows l (now - init_time r) ip 1) as [l1 v].
      destruct (allows l' (now - init_time r) ip 1) as [l1' v']. cbn [fst snd] in *.
      split; [exact Ev|]. split; [first [exact A|reflexivity]|]. cbn [init_time total_rl node_rl ip_rl olrel]. auto.
    + cbn [fst snd]. split; [reflexivity|]. exact RL.
Qed.

Lemma rrel_prune B cur now r r' :
  rrel B cur r r' -> cur <= now -> now <= B -> rrel B now (rl_prune r now) r'.
Proof.
  intros (A & T & Nd & Ip) L LB.
  assert (L1 : cur - init_time r <= now - init_time r) by lia.
  assert (L2 : now - init_time r <= B - init_time r) by lia.
  unfold rl_prune. split; [exact A|]. cbn [init_time total_rl node_rl ip_rl].
  split; [apply (lrel_prune _ _ _ _ _ T L1 L2)|]. split.
  - destruct (node_rl r) as [l|], (node_rl r') as [l'|]; cbn [olrel option_map] in *; try contradiction; auto.
    apply (lrel_prune _ _ _ _ _ Nd L1 L2).
  - destruct (ip_rl r) as [l|], (ip_rl r') as [l'|]; cbn [olrel option_map] in *; try contradiction; auto.
    apply (lrel_prune _ _ _ _ _ Ip L1 L2).
Qed.

(* ---------------------------------------------------------------------------------------------- *)
(* the filter: everything equal but the limiter state, which is equivalent *)

Definition orrel (B cur : N) (o o' : option rate_limiter) : Prop :=
  match o, o' with
  | Some r, Some r' => rrel B cur r r'
  | None, None => True
  | _, _ => False
  end.

Definition frel (B cur : N) (f f' : pfilter) : Prop :=
  exists r', f' = with_rate f r' /\ orrel B cur (rate f) r'.

Lemma frel_later B cur now f f' : frel B cur f f' -> cur <= now -> frel B now f f'.
Proof.
  intros (r' & E & R) L. exists r'. split; [exact E|].
  destruct (rate f), r'; cbn [orrel] in *; auto. eapply rrel_later; eauto.
Qed.

Lemma with_rate_twice f a b : with_rate (with_rate f a) b = with_rate f b.
Proof. reflexivity. Qed.
Lemma with_rate_known f a k : with_known (with_rate f a) k = with_rate (with_known f k) a.
Proof. reflexivity. Qed.
Lemma with_rate_banned f a k : with_banned (with_rate f a) k = with_rate (with_banned f k) a.
Proof. reflexivity. Qed.

Lemma frel_mk B cur f r r' : orrel B cur r r' -> frel B cur (with_rate f r) (with_rate f r').
Proof. intro R. exists r'. split; [reflexivity|exact R]. Qed.

Lemma frel_mk_known B cur f r r' k : orrel B cur r r' ->
  frel B cur (with_known (with_rate f r) k) (with_known (with_rate f r') k).
Proof. intro R. exists r'. split; [reflexivity|exact R]. Qed.

Lemma frel_mk_banned B cur f r r' k : orrel B cur r r' ->
  frel B cur (with_banned (with_rate f r) k) (with_banned (with_rate f r') k).
Proof. intro R. exists r'. split; [reflexivity|exact R]. Qed.

Lemma frel_self B cur f r' : orrel B cur (rate f) r' -> frel B cur f (with_rate f r').
Proof. intro R. exists r'. split; [reflexivity|exact R]. Qed.

Lemma initial_pass_rel B cur now f f' p ip :
  frel B cur f f' -> cur <= now -> now <= B ->
  snd (fst (initial_pass f p ip now)) = snd (fst (initial_pass f' p ip now)) /\
  snd (initial_pass f p ip now) = snd (initial_pass f' p ip now) /\
  frel B now (fst (fst (initial_pass f p ip now))) (fst (fst (initial_pass f' p ip now))).
Proof.
  intros Fr L LB. pose proof (frel_later B cur now f f' Fr L) as Fr1.
  destruct Fr as (r' & -> & R). unfold initial_pass. cbn [enabled rate with_rate ban_duration ban_timeout].
  destruct (mem ip (permit_ips p)); [cbn; auto|].
  destruct (has_key ip (ban_ips p)); [cbn; auto|].
  destruct (negb (enabled f)); [cbn; auto|].
  destruct (rate f) as [r|] eqn:Er, r' as [r2|]; cbn [orrel] in R; try contradiction; [|cbn; auto].
  destruct (rrel_allows B cur now r r2 (KIp ip) R L LB) as [Ev Rr].
  destruct (rl_allows r now (KIp ip)) as [r1 v1]. destruct (rl_allows r2 now (KIp ip)) as [r1' v1'].
  cbn [fst snd] in *. subst v1'. destruct (verdict_ok v1); cbn [negb].
  - destruct (rrel_allows B now now r1 r1' KTotal Rr (N.le_refl _) LB) as [Ev2 Rr2].
    destruct (rl_allows r1 now KTotal) as [r3 v3]. destruct (rl_allows r1' now KTotal) as [r3' v3'].
    cbn [fst snd] in *. subst v3'. split; [reflexivity|]. split; [reflexivity|].
    rewrite with_rate_twice. apply frel_mk. exact Rr2.
  - cbn [fst snd]. split; [reflexivity|]. split; [reflexivity|].
    rewrite with_rate_twice. apply frel_mk. exact Rr.
Qed.

Lemma final_pass_rel B cur now f f' p ip id :
  frel B cur f f' -> cur <= now -> now <= B ->
  snd (fst (final_pass f p ip id now)) = snd (fst (final_pass f' p ip id now)) /\
  snd (final_pass f p ip id now) = snd (final_pass f' p ip id now) /\
  frel B now (fst (fst (final_pass f p ip id now))) (fst (fst (final_pass f' p ip id now))).
Proof.
  intros Fr L LB. pose proof (frel_later B cur now f f' Fr L) as Fr1.
  destruct Fr as (r' & -> & R). unfold final_pass.
  cbn [enabled rate with_rate ban_duration ban_timeout max_bans_per_ip banned_nodes].
  destruct (mem id (permit_nodes p)); [cbn; auto|].
  destruct (has_key id (ban_nodes p)); [cbn; auto|].
  destruct (negb (enabled f)); [cbn; auto|].
  destruct (rate f) as [r|] eqn:Er, r' as [r2|]; cbn [orrel] in R; try contradiction.
  - destruct (rrel_allows B cur now r r2 (KNode id) R L LB) as [Ev Rr].
    destruct (rl_allows r now (KNode id)) as [r1 v1]. destruct (rl_allows r2 now (KNode id)) as [r1' v1'].
    cbn [fst snd] in *. subst v1'. rewrite with_rate_twice.
    destruct (verdict_ok v1).
    + cbn [max_nodes_per_ip with_rate known_addrs]. destruct (max_nodes_per_ip f) as [m|].
      * destruct (note_known (known_addrs f) ip id) as [k' n]. destruct (m <=? n); cbn [fst snd].
        -- split; [reflexivity|]. split; [reflexivity|]. apply frel_mk_known. exact Rr.
        -- split; [reflexivity|]. split; [reflexivity|]. apply frel_mk_known. exact Rr.
      * cbn [fst snd]. split; [reflexivity|]. split; [reflexivity|]. apply frel_mk. exact Rr.
    + destruct (max_bans_per_ip f) as [m|].
      * destruct (lru_get ip (banned_nodes f)) as [cnt|].
        -- destruct (m <=? cnt + 1); cbn [fst snd]; (split; [reflexivity|]); (split; [reflexivity|]);
             apply frel_mk_banned; exact Rr.
        -- cbn [fst snd]. split; [reflexivity|]. split; [reflexivity|]. apply frel_mk_banned. exact Rr.
      * cbn [fst snd]. split; [reflexivity|]. split; [reflexivity|]. apply frel_mk. exact Rr.
  - cbn [max_nodes_per_ip with_rate known_addrs]. destruct (max_nodes_per_ip f) as [m|].
    + destruct (note_known (known_addrs f) ip id) as [k' n]. destruct (m <=? n); cbn [fst snd].
      * split; [reflexivity|]. split; [reflexivity|]. exists None. split; [reflexivity|]. cbn. rewrite Er. exact Logic.I.
      * split; [reflexivity|]. split; [reflexivity|]. exists None. split; [reflexivity|]. cbn. rewrite Er. exact Logic.I.
    + cbn [fst snd]. split; [reflexivity|]. split; [reflexivity|]. exact Fr1.
Qed.

Lemma handle_inbound_rel B cur now f f' p ex ip d :
  frel B cur f f' -> cur <= now -> now <= B ->
  snd (fst (handle_inbound f p ex ip d now)) = snd (fst (handle_inbound f' p ex ip d now)) /\
  snd (handle_inbound f p ex ip d now) = snd (handle_inbound f' p ex ip d now) /\
  frel B now (fst (fst (handle_inbound f p ex ip d now))) (fst (fst (handle_inbound f' p ex ip d now))).
Proof.
  intros Fr L LB. destruct ex.
  - rewrite !handle_inbound_exempt. cbn [fst snd]. split; [reflexivity|]. split; [reflexivity|].
    eapply frel_later; eauto.
  - unfold handle_inbound.
    destruct (initial_pass_rel B cur now f f' p ip Fr L LB) as (Ep & Eo & Fr1).
    destruct (initial_pass f p ip now) as [[f1 p1] ok1]. destruct (initial_pass f' p ip now) as [[f1' p1'] ok1'].
    cbn [fst snd] in *. subst p1' ok1'. destruct ok1; cbn [negb]; [|cbn; auto].
    destruct d as [[id|]|]; [|cbn; auto|cbn; auto].
    destruct (final_pass_rel B now now f1 f1' p1 ip id Fr1 (N.le_refl _) LB) as (Ep2 & Eo2 & Fr2).
    destruct (final_pass f1 p1 ip id now) as [[f2 p2] ok2]. destruct (final_pass f1' p1 ip id now) as [[f2' p2'] ok2'].
    cbn [fst snd] in *. subst p2' ok2'. auto.
Qed.

Definition is_fprune (e : fevent) : bool := match e with FPruneLimiter => true | _ => false end.

(* every event but prune_limiter: same lists, same observation, equivalent filters *)
Lemma fstep_rel B cur now f f' p e :
  frel B cur f f' -> cur <= now -> now <= B -> is_fprune e = false ->
  snd (fst (fstep f p e now)) = snd (fst (fstep f' p e now)) /\
  snd (fstep f p e now) = snd (fstep f' p e now) /\
  frel B now (fst (fst (fstep f p e now))) (fst (fst (fstep f' p e now))).
Proof.
  intros Fr L LB Np. pose proof (frel_later B cur now f f' Fr L) as Fr0. destruct e; cbn [fstep]; try discriminate.
  - destruct (initial_pass_rel B cur now f f' p ip Fr L LB) as (Ep & Eo & Fr1).
    destruct (initial_pass f p ip now) as [[f1 p1] ok1]. destruct (initial_pass f' p ip now) as [[f1' p1'] ok1'].
    cbn [fst snd] in *. subst. auto.
  - destruct (final_pass_rel B cur now f f' p ip id Fr L LB) as (Ep & Eo & Fr1).
    destruct (final_pass f p ip id now) as [[f1 p1] ok1]. destruct (final_pass f' p ip id now) as [[f1' p1'] ok1'].
    cbn [fst snd] in *. subst. auto.
  - destruct (handle_inbound_rel B cur now f f' p exempt ip decoded Fr L LB) as (Ep & Eo & Fr1).
    destruct (handle_inbound f p exempt ip decoded now) as [[f1 p1] x].
    destruct (handle_inbound f' p exempt ip decoded now) as [[f1' p1'] x'].
    cbn [fst snd] in *. subst. auto.
  - cbn [fst snd]. auto.
  - cbn [fst snd]. auto.
  - cbn [fst snd]. auto.
  - cbn [fst snd]. auto.
  - cbn [fst snd]. auto.
Qed.

(* prune_limiter on one side only *)
Lemma fstep_prune_rel B cur now f f' :
  frel B cur f f' -> cur <= now -> now <= B -> frel B now (prune_limiter f now) f'.
Proof.
  intros (r' & -> & R) L LB. unfold prune_limiter.
  exists r'. split; [reflexivity|]. cbn [rate with_rate].
  destruct (rate f) as [r|], r' as [r2|]; cbn [orrel option_map] in *; try contradiction; auto.
  apply (rrel_prune B cur now r r2 R L LB).
Qed.

(* ---------------------------------------------------------------------------------------------- *)
(* whole histories *)

Definition no_fprunes (evs : list (fevent * N)) : list (fevent * N) :=
  List.filter (fun x => negb (is_fprune (fst x))) evs.

(* the observations of the events that are not prune_limiter calls (a prune call observes nothing) *)
Fixpoint drop_prune_obs (evs : list (fevent * N)) (os : list fobs) : list fobs :=
  match evs, os with
  | (e, _) :: evs', o :: os' => if is_fprune e then drop_prune_obs evs' os' else o :: drop_prune_obs evs' os'
  | _, _ => []
  end.

(* the time of the last event (the start time if there is none) *)
Definition last_ev_time (cur : N) (evs : list (fevent * N)) : N := fold_left (fun _ x => snd x) evs cur.

Lemma filter_prune_transparent_gen evs : forall f f' p cur B,
  frel B cur f f' -> mono_ev cur evs -> Forall (fun x => snd x <= B) evs ->
  snd (fst (frun f p evs)) = snd (fst (frun f' p (no_fprunes evs))) /\
  drop_prune_obs evs (snd (frun f p evs)) = snd (frun f' p (no_fprunes evs)) /\
  frel B (last_ev_time cur evs) (fst (fst (frun f p evs))) (fst (fst (frun f' p (no_fprunes evs)))).
Proof.
  induction evs as [|[e now] evs IH]; intros f f' p cur B Fr M Bf.
  - cbn. auto.
  - destruct M as [L M]. inversion Bf as [|x y LB Bfr]; subst. cbn [fst snd] in *.
    cbn [no_fprunes List.filter fst last_ev_time fold_left snd]. fold (no_fprunes evs). fold (last_ev_time now evs).
    destruct (is_fprune e) eqn:Pe; cbn [negb].
    + destruct e; try discriminate. cbn [frun fstep].
      pose proof (fstep_prune_rel B cur now f f' Fr L LB) as Fr1.
      specialize (IH (prune_limiter f now) f' p now B Fr1 M Bfr).
      destruct (frun (prune_limiter f now) p evs) as [[f2 p2] os]. cbn [fst snd drop_prune_obs is_fprune] in *.
      exact IH.
    + cbn [frun].
      destruct (fstep_rel B cur now f f' p e Fr L LB Pe) as (Ep & Eo & Fr1).
      destruct (fstep f p e now) as [[f1 p1] o]. destruct (fstep f' p e now) as [[f1' p1'] o'].
      cbn [fst snd] in *. subst p1' o'.
      specialize (IH f1 f1' p1 now B Fr1 M Bfr).
      destruct (frun f1 p1 evs) as [[f2 p2] os]. destruct (frun f1' p1 (no_fprunes evs)) as [[f2' p2'] os'].
      cbn [fst snd drop_prune_obs] in *. rewrite Pe. destruct IH as (IH1 & IH2 & IH3).
      split; [exact IH1|]. split; [f_equal; exact IH2|exact IH3].
Qed.

Theorem filter_prune_transparent_rel evs f f' p cur B :
  frel B cur f f' -> mono_ev cur evs -> Forall (fun x => snd x <= B) evs ->
  snd (fst (frun f p evs)) = snd (fst (frun f' p (no_fprunes evs))) /\
  drop_prune_obs evs (snd (frun f p evs)) = snd (frun f' p (no_fprunes evs)).
Proof.
  intros Fr M Bf. destruct (filter_prune_transparent_gen evs f f' p cur B Fr M Bf) as (A1 & A2 & _). auto.
Qed.

(* a filter is related to itself when its limiters are in a state they can be in at time [cur]
   and the clock of the window cannot overflow *)
Definition lgood (B c : N) (l : limiter) : Prop := wfl l /\ linv l c /\ B + tau l + tau l < U64.
Definition olgood (B c : N) (o : option limiter) : Prop := match o with Some l => lgood B c l | None => True end.
Definition fgood (B cur : N) (f : pfilter) : Prop :=
  match rate f with
  | Some r => lgood (B - init_time r) (cur - init_time r) (total_rl r) /\
              olgood (B - init_time r) (cur - init_time r) (node_rl r) /\
              olgood (B - init_time r) (cur - init_time r) (ip_rl r)
  | None => True
  end.

Lemma frel_refl B cur f : fgood B cur f -> frel B cur f f.
Proof.
  intro G. exists (rate f). split; [destruct f; reflexivity|]. unfold fgood in G.
  destruct (rate f) as [r|]; cbn [orrel]; [|exact Logic.I].
  destruct G as ((W & I & H) & Gn & Gi). split; [reflexivity|]. split; [apply lrel_refl; assumption|]. split.
  - destruct (node_rl r) as [l|]; cbn [olrel olgood] in *; [|exact Logic.I]. destruct Gn as (W1 & I1 & H1). apply lrel_refl; assumption.
  - destruct (ip_rl r) as [l|]; cbn [olrel olgood] in *; [|exact Logic.I]. destruct Gi as (W1 & I1 & H1). apply lrel_refl; assumption.
Qed.

(* prune transparency of the filter *)
Theorem filter_prune_transparent evs f p cur B :
  fgood B cur f -> mono_ev cur evs -> Forall (fun x => snd x <= B) evs ->
  snd (fst (frun f p evs)) = snd (fst (frun f p (no_fprunes evs))) /\
  drop_prune_obs evs (snd (frun f p evs)) = snd (frun f p (no_fprunes evs)).
Proof. intros G. apply filter_prune_transparent_rel. apply frel_refl. exact G. Qed.

Lemma frel_fgood B cur f f' : frel B cur f f' -> fgood B cur f.
Proof.
  intros (r' & _ & R). unfold fgood. destruct (rate f) as [r|]; [|exact Logic.I].
  destruct r' as [r2|]; cbn [orrel] in R; [|contradiction].
  destruct R as (_ & (W & _ & I & _ & H) & Nd & Ip). split; [split; [exact W|split; [exact I|exact H]]|]. split.
  - destruct (node_rl r) as [l|]; cbn [olgood]; [|exact Logic.I].
    destruct (node_rl r2) as [l2|]; cbn [olrel] in Nd; [|contradiction].
    destruct Nd as (W1 & _ & I1 & _ & H1). split; [exact W1|split; [exact I1|exact H1]].
  - destruct (ip_rl r) as [l|]; cbn [olgood]; [|exact Logic.I].
    destruct (ip_rl r2) as [l2|]; cbn [olrel] in Ip; [|contradiction].
    destruct Ip as (W1 & _ & I1 & _ & H1). split; [exact W1|split; [exact I1|exact H1]].
Qed.

(* the limiter states the filter can reach: [fgood] is preserved by every history (so the window
   theorems of Proofs/LimiterGap.v apply to a window that starts anywhere inside a history) *)
Theorem filter_limiters_reachable evs f p cur B :
  fgood B cur f -> mono_ev cur evs -> Forall (fun x => snd x <= B) evs ->
  fgood B (last_ev_time cur evs) (fst (fst (frun f p evs))).
Proof.
  intros G M Bf.
  destruct (filter_prune_transparent_gen evs f f p cur B (frel_refl B cur f G) M Bf) as (_ & _ & Fr).
  eapply frel_fgood. exact Fr.
Qed.

(* the hypotheses on a non-trivial history: quotas 3 per 1000 ns per IP, 2 per 1000 ns per node,
   100 per 1000 ns in total; prunes between the datagrams; the fourth datagram of IP 9 is refused
   (and bans the IP) with and without the prunes *)
Example filter_prune_transparent_example :
  exists iq nq tq,
    from_quota 1000 3 = Some iq /\ from_quota 1000 2 = Some nq /\ from_quota 1000 100 = Some tq /\
    let r := {| init_time := 10; total_rl := tq; node_rl := Some nq; ip_rl := Some iq |} in
    let f := new_filter true (Some r) (Some 5000) None None in
    let evs := [(FInbound false 9 (Some (Some 5)), 50); (FPruneLimiter, 55); (FInitial 9, 60);
                (FPruneLimiter, 2000); (FInbound false 9 (Some (Some 5)), 2000); (FInitial 9, 2000);
                (FInitial 9, 2000); (FPruneLimiter, 2001); (FInitial 9, 2001); (FInitial 8, 2002)] in
    fgood 3000 50 f /\ mono_ev 50 evs /\ Forall (fun x => snd x <= 3000) evs /\
    snd (frun f empty_pbl (no_fprunes evs))
    = [OFate Deliver; OBool true; OFate Deliver; OBool true; OBool true; OBool false; OBool true].
Proof.
  do 3 eexists. split; [reflexivity|]. split; [reflexivity|]. split; [reflexivity|]. cbv zeta.
  split; [|split; [cbn; lia|split; [repeat constructor; cbn; lia|vm_compute; reflexivity]]].
  unfold fgood, new_filter. cbn [rate init_time total_rl node_rl ip_rl olgood].
  assert (G : forall t_ tt_, 2990 + t_ + t_ < U64 -> lgood 2990 40 {| tau := t_; tt := tt_; tats := [] |}).
  { intros t_ tt_ H. split; [constructor|]. split; [intro k; exact I|exact H]. }
  repeat split; apply G; vm_compute; reflexivity.
Qed.

(* [fgood] provides exactly the limiter hypotheses of the window theorems *)
Lemma fgood_limiters B cur f r :
  fgood B cur f -> rate f = Some r ->
  (wfl (total_rl r) /\ linv (total_rl r) (cur - init_time r) /\
   (B - init_time r) + tau (total_rl r) + tau (total_rl r) < U64) /\
  (forall l, node_rl r = Some l ->
     wfl l /\ linv l (cur - init_time r) /\ (B - init_time r) + tau l + tau l < U64) /\
  (forall l, ip_rl r = Some l ->
     wfl l /\ linv l (cur - init_time r) /\ (B - init_time r) + tau l + tau l < U64).
Proof.
  intros G Rt. unfold fgood in G. rewrite Rt in G. destruct G as (Gt & Gn & Gi).
  split; [exact Gt|]. split; intros l E.
  - rewrite E in Gn. exact Gn.
  - rewrite E in Gi. exact Gi.
Qed.
