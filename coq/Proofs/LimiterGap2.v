(* Gap-closing proof for C18, "periodic pruning of limiter state does not change any decision",
   stated about the FILTER: any history of the filter (datagrams, direct calls of the two passes,
   unban checks, permit/ban calls) interleaved with any number of prune_limiter calls produces the
   same decisions and the same permit/ban lists as the history without the prune calls.
   Proofs/Limiter.v proves this for one Limiter ([prune_transparent]); here it is lifted through
   RateLimiter, Filter::initial_pass / final_pass, handle_inbound and whole filter histories. *)
From Coq Require Import List NArith Bool Lia.
From Discv5V Require Import Generated.Params Model.Limiter Proofs.Limiter Proofs.LimiterGap.
Import ListNotations.
Local Open Scope N_scope.

(* ---------------------------------------------------------------------------------------------- *)
(* one limiter: [l] (pruned now and then) and [l'] (never pruned) *)

Definition lrel (B c : N) (l l' : limiter) : Prop :=
  wfl l /\ wfl l' /\ linv l c /\ leq c l l' /\ B + tau l + tau l < U64.

Lemma linv_later l c c2 : linv l c -> c <= c2 -> linv l c2.
Proof.
  intros I L k. specialize (I k). unfold inv_k in *. destruct (lookup k (tats l)); [lia|exact I].
Qed.

Lemma leq_later c c2 l l' : leq c l l' -> c <= c2 -> leq c2 l l'.
Proof. intros (A & B & C) L. repeat split; auto. intro k. eapply eff_eq_later; eauto. Qed.

Lemma lrel_later B c c2 l l' : lrel B c l l' -> c <= c2 -> lrel B c2 l l'.
Proof.
  intros (W & W' & I & Q & H) L.
  split; [exact W|]. split; [exact W'|]. split; [eapply linv_later; eauto|]. split; [apply (leq_later c); auto|exact H].
Qed.

Lemma lrel_refl B c l : wfl l -> linv l c -> B + tau l + tau l < U64 -> lrel B c l l.
Proof.
  intros W I H. split; [exact W|]. split; [exact W|]. split; [exact I|]. split; [|exact H].
  split; [reflexivity|]. split; reflexivity.
Qed.

Lemma lrel_allows B c l l' el k n :
  lrel B c l l' -> c <= el -> el <= B ->
  snd (allows l el k n) = snd (allows l' el k n) /\
  lrel B el (fst (allows l el k n)) (fst (allows l' el k n)).
Proof.
  intros (W & W' & I & Q & H) L LB.
  assert (M : mono_from c [LAllows el k n]) by (cbn; auto).
  assert (Bf : all_before el [LAllows el k n]) by (repeat constructor; cbn; lia).
  pose proof (prune_transparent [LAllows el k n] l l' c el W W' I Q M Bf L ltac:(lia)) as P.
  pose proof (allows_facts l c el k n W I L ltac:(lia)) as F. cbv zeta in F. destruct F as (I1 & _).
  pose proof (allows_wfl l el k n W) as W1. pose proof (allows_wfl l' el k n W') as W1'.
  destruct (allows_params l el k n) as [Pt _].
  cbn [no_prunes List.filter lrun lstep] in P.
  destruct (allows l el k n) as [l1 v]. destruct (allows l' el k n) as [l1' v']. cbn [fst snd verdicts flat_map app] in *.
  destruct P as [Pv Pq]. split; [congruence|].
  split; [exact W1|]. split; [exact W1'|]. split; [exact I1|]. split; [exact Pq|]. rewrite Pt. exact H.
Qed.

Lemma lrel_prune B c l l' el :
  lrel B c l l' -> c <= el -> el <= B -> lrel B el (prune l el) l'.
Proof.
  intros (W & W' & I & Q & H) L LB.
  assert (M : mono_from c [LPrune el]) by (cbn; auto).
  assert (Bf : all_before el [LPrune el]) by (repeat constructor; cbn; lia).
  pose proof (prune_transparent [LPrune el] l l' c el W W' I Q M Bf L ltac:(lia)) as P.
  cbn [no_prunes List.filter lrun lstep fst snd] in P. destruct P as [_ Pq].
  split; [apply prune_wfl; exact W|]. split; [exact W'|].
  split; [apply (prune_linv l c el W I L); lia|]. split; [exact Pq|exact H].
Qed.

(* ---------------------------------------------------------------------------------------------- *)
(* the RateLimiter *)

Definition olrel (B c : N) (o o' : option limiter) : Prop :=
  match o, o' with
  | Some l, Some l' => lrel B c l l'
  | None, None => True
  | _, _ => False
  end.

Lemma olrel_later B c c2 o o' : olrel B c o o' -> c <= c2 -> olrel B c2 o o'.
Proof. destruct o, o'; cbn; auto. apply lrel_later. Qed.

Definition rrel (B cur : N) (r r' : rate_limiter) : Prop :=
  init_time r = init_time r' /\
  lrel (B - init_time r) (cur - init_time r) (total_rl r) (total_rl r') /\
  olrel (B - init_time r) (cur - init_time r) (node_rl r) (node_rl r') /\
  olrel (B - init_time r) (cur - init_time r) (ip_rl r) (ip_rl r').

Lemma rrel_later B cur now r r' : rrel B cur r r' -> cur <= now -> rrel B now r r'.
Proof.
  intros (A & T & Nd & Ip) L. split; [exact A|].
  split; [eapply lrel_later; [exact T|lia]|]. split; (eapply olrel_later; [eassumption|lia]).
Qed.

Lemma rrel_allows B cur now r r' k :
  rrel B cur r r' -> cur <= now -> now <= B ->
  snd (rl_allows r now k) = snd (rl_allows r' now k) /\
  rrel B now (fst (rl_allows r now k)) (fst (rl_allows r' now k)).
Proof.
  intros R L LB. pose proof (rrel_later B cur now r r' R L) as (A & T & Nd & Ip).
  destruct R as (_ & T0 & Nd0 & Ip0).
  assert (L1 : cur - init_time r <= now - init_time r) by lia.
  assert (L2 : now - init_time r <= B - init_time r) by lia.
  unfold rl_allows. rewrite <- A. destruct k as [|id|ip].
  - destruct (lrel_allows _ _ _ _ (now - init_time r) 0 1 T0 L1 L2) as [Ev Er].
    destruct (allows (total_rl r) (now - init_time r) 0 1) as [l1 v].
    destruct (allows (total_rl r') (now - init_time r) 0 1) as [l1' v']. cbn [fst snd] in *.
    split; [exact Ev|]. split; [first [exact A|reflexivity]|]. cbn [init_time total_rl node_rl ip_rl]. auto.
  - destruct (node_rl r) as [l|], (node_rl r') as [l'|]; cbn [olrel] in Nd0, Nd; try contradiction.
    + destruct (lrel_allows _ _ _ _ (now - init_time r) id 1 Nd0 L1 L2) as [Ev Er].
      destruct (allows l (now - init_time r) id 1) as [l1 v].
      destruct (allows l' (now - init_time r) id 1) as [l1' v']. cbn [fst snd] in *.
      split; [exact Ev|]. split; [first [exact A|reflexivity]|]. cbn [init_time total_rl node_rl ip_rl olrel]. auto.
    + cbn [fst snd]. split; [reflexivity|]. split; [first [exact A|reflexivity]|]. auto.
  - destruct (ip_rl r) as [l|], (ip_rl r') as [l'|]; cbn [olrel] in Ip0, Ip; try contradiction.
    + destruct (lrel_allows _ _ _ _ (now - init_time r) ip 1 Ip0 L1 L2) as [Ev Er].
      destruct (allows l (now - init_time r) ip 1) as [l1 v].
      destruct (allows l' (now - init_time r) ip 1) as [l1' v']. cbn [fst snd] in *.
      split; [exact Ev|]. split; [first [exact A|reflexivity]|]. cbn [init_time total_rl node_rl ip_rl olrel]. auto.
    + cbn [fst snd]. split; [reflexivity|]. split; [first [exact A|reflexivity]|]. auto.
Qed.

Lemma rrel_prune B cur now r r' :
  rrel B cur r r' -> cur <= now -> now <= B -> rrel B now (rl_prune r now) r'.
Proof.
  intros (A & T & Nd & Ip) L LB.
  assert (L1 : cur - init_time r <= now - init_time r) by lia.
  assert (L2 : now - init_time r <= B - init_time r) by lia.
  unfold rl_prune. split; [exact A|]. cbn [init_time total_rl node_rl ip_rl].
  split; [apply (lrel_prune _ _ _ _ _ T L1 L2)|]. split.
  - destruct (node_rl r) as [l|], (node_rl r') as [l'|]; cbn [olrel option_map] in *; try contradiction; auto.
    apply (lrel_prune _ _ _ _ _ Nd L1 L2).
  - destruct (ip_rl r) as [l|], (ip_rl r') as [l'|]; cbn [olrel option_map] in *; try contradiction; auto.
    apply (lrel_prune _ _ _ _ _ Ip L1 L2).
Qed.

(* ---------------------------------------------------------------------------------------------- *)
(* the filter: everything equal but the limiter state, which is equivalent *)

Definition orrel (B cur : N) (o o' : option rate_limiter) : Prop :=
  match o, o' with
  | Some r, Some r' => rrel B cur r r'
  | None, None => True
  | _, _ => False
  end.

Definition frel (B cur : N) (f f' : pfilter) : Prop :=
  exists r', f' = with_rate f r' /\ orrel B cur (rate f) r'.

Lemma frel_later B cur now f f' : frel B cur f f' -> cur <= now -> frel B now f f'.
Proof.
  intros (r' & E & R) L. exists r'. split; [exact E|].
  destruct (rate f), r'; cbn [orrel] in *; auto. eapply rrel_later; eauto.
Qed.

Lemma with_rate_twice f a b : with_rate (with_rate f a) b = with_rate f b.
Proof. reflexivity. Qed.
Lemma with_rate_known f a k : with_known (with_rate f a) k = with_rate (with_known f k) a.
Proof. reflexivity. Qed.
Lemma with_rate_banned f a k : with_banned (with_rate f a) k = with_rate (with_banned f k) a.
Proof. reflexivity. Qed.

Lemma frel_mk B cur f r r' : orrel B cur r r' -> frel B cur (with_rate f r) (with_rate f r').
Proof. intro R. exists r'. split; [reflexivity|exact R]. Qed.

Lemma frel_mk_known B cur f r r' k : orrel B cur r r' ->
  frel B cur (with_known (with_rate f r) k) (with_known (with_rate f r') k).
Proof. intro R. exists r'. split; [reflexivity|exact R]. Qed.

Lemma frel_mk_banned B cur f r r' k : orrel B cur r r' ->
  frel B cur (with_banned (with_rate f r) k) (with_banned (with_rate f r') k).
Proof. intro R. exists r'. split; [reflexivity|exact R]. Qed.

Lemma frel_self B cur f r' : orrel B cur (rate f) r' -> frel B cur f (with_rate f r').
Proof. intro R. exists r'. split; [reflexivity|exact R]. Qed.

Lemma initial_pass_rel B cur now f f' p ip :
  frel B cur f f' -> cur <= now -> now <= B ->
  snd (fst (initial_pass f p ip now)) = snd (fst (initial_pass f' p ip now)) /\
  snd (initial_pass f p ip now) = snd (initial_pass f' p ip now) /\
  frel B now (fst (fst (initial_pass f p ip now))) (fst (fst (initial_pass f' p ip now))).
Proof.
  intros Fr L LB. pose proof (frel_later B cur now f f' Fr L) as Fr1.
  destruct Fr as (r' & -> & R). unfold initial_pass. cbn [enabled rate with_rate ban_duration ban_timeout].
  destruct (mem ip (permit_ips p)); [cbn; auto|].
  destruct (has_key ip (ban_ips p)); [cbn; auto|].
  destruct (negb (enabled f)); [cbn; auto|].
  destruct (rate f) as [r|] eqn:Er, r' as [r2|]; cbn [orrel] in R; try contradiction; [|cbn; auto].
  destruct (rrel_allows B cur now r r2 (KIp ip) R L LB) as [Ev Rr].
  destruct (rl_allows r now (KIp ip)) as [r1 v1]. destruct (rl_allows r2 now (KIp ip)) as [r1' v1'].
  cbn [fst snd] in *. subst v1'. destruct (verdict_ok v1); cbn [negb].
  - destruct (rrel_allows B now now r1 r1' KTotal Rr (N.le_refl _) LB) as [Ev2 Rr2].
    destruct (rl_allows r1 now KTotal) as [r3 v3]. destruct (rl_allows r1' now KTotal) as [r3' v3'].
    cbn [fst snd] in *. subst v3'. split; [reflexivity|]. split; [reflexivity|].
    rewrite with_rate_twice. apply frel_mk. exact Rr2.
  - cbn [fst snd]. split; [reflexivity|]. split; [reflexivity|].
    rewrite with_rate_twice. apply frel_mk. exact Rr.
Qed.

Lemma final_pass_rel B cur now f f' p ip id :
  frel B cur f f' -> cur <= now -> now <= B ->
  snd (fst (final_pass f p ip id now)) = snd (fst (final_pass f' p ip id now)) /\
  snd (final_pass f p ip id now) = snd (final_pass f' p ip id now) /\
  frel B now (fst (fst (final_pass f p ip id now))) (fst (fst (final_pass f' p ip id now))).
Proof.
  intros Fr L LB. pose proof (frel_later B cur now f f' Fr L) as Fr1.
  destruct Fr as (r' & -> & R). unfold final_pass.
  cbn [enabled rate with_rate ban_duration ban_timeout max_bans_per_ip banned_nodes].
  destruct (mem id (permit_nodes p)); [cbn; auto|].
  destruct (has_key id (ban_nodes p)); [cbn; auto|].
  destruct (negb (enabled f)); [cbn; auto|].
  destruct (rate f) as [r|] eqn:Er, r' as [r2|]; cbn [orrel] in R; try contradiction.
  - destruct (rrel_allows B cur now r r2 (KNode id) R L LB) as [Ev Rr].
    destruct (rl_allows r now (KNode id)) as [r1 v1]. destruct (rl_allows r2 now (KNode id)) as [r1' v1'].
    cbn [fst snd] in *. subst v1'. rewrite with_rate_twice.
    destruct (verdict_ok v1).
    + cbn [max_nodes_per_ip with_rate known_addrs]. destruct (max_nodes_per_ip f) as [m|].
      * destruct (note_known (known_addrs f) ip id) as [k' n]. destruct (m <=? n); cbn [fst snd].
        -- split; [reflexivity|]. split; [reflexivity|]. apply frel_mk_known. exact Rr.
        -- split; [reflexivity|]. split; [reflexivity|]. apply frel_mk_known. exact Rr.
      * cbn [fst snd]. split; [reflexivity|]. split; [reflexivity|]. apply frel_mk. exact Rr.
    + destruct (max_bans_per_ip f) as [m|].
      * destruct (lru_get ip (banned_nodes f)) as [cnt|].
        -- destruct (m <=? cnt + 1); cbn [fst snd]; (split; [reflexivity|]); (split; [reflexivity|]);
             apply frel_mk_banned; exact Rr.
        -- cbn [fst snd]. split; [reflexivity|]. split; [reflexivity|]. apply frel_mk_banned. exact Rr.
      * cbn [fst snd]. split; [reflexivity|]. split; [reflexivity|]. apply frel_mk. exact Rr.
  - cbn [max_nodes_per_ip with_rate known_addrs]. destruct (max_nodes_per_ip f) as [m|].
    + destruct (note_known (known_addrs f) ip id) as [k' n]. destruct (m <=? n); cbn [fst snd].
      * split; [reflexivity|]. split; [reflexivity|]. exists None. split; [reflexivity|]. cbn. rewrite Er. exact Logic.I.
      * split; [reflexivity|]. split; [reflexivity|]. exists None. split; [reflexivity|]. cbn. rewrite Er. exact Logic.I.
    + cbn [fst snd]. split; [reflexivity|]. split; [reflexivity|]. exact Fr1.
Qed.
