(* C05, the clauses a gap audit found missing in Proofs/Packet.v:
   P1  "exact" in the other direction: what Packet::decode accepts re-encodes to the received
       datagram (encode (decode d) = d), the authenticated bytes are Packet::authenticated_data of
       the returned packet, and the returned packet is well formed;
   P2  strictness for the record of a handshake: record bytes that the ENR decoder refuses are
       rejected with InvalidEnr, and an accepted handshake carries the decoded record exactly when
       there are record bytes.
   New lemmas only; nothing of Model/Packet.v, Lib/Bytes.v, Proofs/Packet.v is changed. *)
From Coq Require Import List NArith Arith Bool Lia.
From Discv5V Require Import Generated.Params Lib.Bytes Model.Packet Proofs.Packet.
Import ListNotations.

(* ------------------------------------------------------------------------------------------- *)
(* big-endian integers: to_be (from_be l) = l for byte strings *)

Lemma pow256_succ m : (256 ^ N.of_nat (S m) = 256 * 256 ^ N.of_nat m)%N.
Proof. replace (N.of_nat (S m)) with (N.succ (N.of_nat m)) by lia. apply N.pow_succ_r'. Qed.

Lemma from_be_acc_split l : forall acc,
  from_be_acc acc l = (acc * 256 ^ N.of_nat (length l) + from_be l)%N.
Proof.
  induction l as [|b t IH]; intro acc.
  - cbn. lia.
  - unfold from_be. cbn [from_be_acc length]. rewrite (IH (acc * 256 + b)%N), (IH (0 * 256 + b)%N).
    rewrite pow256_succ. lia.
Qed.

Lemma from_be_cons b t : from_be (b :: t) = (b * 256 ^ N.of_nat (length t) + from_be t)%N.
Proof.
  unfold from_be at 1. cbn [from_be_acc]. rewrite from_be_acc_split. lia.
Qed.

Lemma from_be_bound l : bytes_ok l -> (from_be l < 256 ^ N.of_nat (length l))%N.
Proof.
  induction 1 as [|b t Hb _ IH].
  - cbn. lia.
  - rewrite from_be_cons. cbn [length]. rewrite pow256_succ. unfold byte_ok in Hb.
    set (P := (256 ^ N.of_nat (length t))%N) in *. nia.
Qed.

(* the low [m] bytes do not see a multiple of 256^m *)
Lemma to_be_shift m : forall a y, to_be m (a * 256 ^ N.of_nat m + y) = to_be m y.
Proof.
  induction m as [|m IH]; intros a y; [reflexivity|].
  cbn [to_be]. f_equal.
  - rewrite pow256_succ.
    set (P := (256 ^ N.of_nat m)%N).
    assert (HP : P <> 0%N) by (apply N.pow_nonzero; discriminate).
    replace (a * (256 * P) + y)%N with (a * 256 * P + y)%N by lia.
    rewrite N.div_add_l by exact HP.
    rewrite N.add_comm, N.mod_add by discriminate. reflexivity.
  - rewrite pow256_succ.
    replace (a * (256 * 256 ^ N.of_nat m) + y)%N with (a * 256 * 256 ^ N.of_nat m + y)%N by lia.
    apply IH.
Qed.

Theorem to_be_from_be l : bytes_ok l -> to_be (length l) (from_be l) = l.
Proof.
  induction 1 as [|b t Hb Ht IH]; [reflexivity|].
  cbn [length to_be]. rewrite from_be_cons.
  set (P := (256 ^ N.of_nat (length t))%N).
  assert (HP : P <> 0%N) by (apply N.pow_nonzero; discriminate).
  pose proof (from_be_bound t Ht) as Hlt. fold P in Hlt.
  f_equal.
  - rewrite N.div_add_l by exact HP. rewrite (N.div_small _ _ Hlt), N.add_0_r.
    apply N.mod_small. exact Hb.
  - unfold P. rewrite to_be_shift. exact IH.
Qed.

Lemma to_be_from_be_n n l : bytes_ok l -> length l = n -> to_be n (from_be l) = l.
Proof. intros H <-. apply to_be_from_be. exact H. Qed.

(* bytes stay bytes under xor with a keystream of bytes *)
Lemma lxor_byte a b : byte_ok a -> byte_ok b -> byte_ok (N.lxor a b).
Proof.
  unfold byte_ok. intros Ha Hb. change 256%N with (2 ^ 8)%N in *.
  destruct (N.eq_dec (N.lxor a b) 0) as [E|E]; [rewrite E; reflexivity|].
  apply N.log2_lt_pow2; [lia|].
  pose proof (N.log2_lxor a b) as Hl.
  assert (La : (N.log2 a < 8)%N).
  { destruct (N.eq_dec a 0) as [->|Na]; [reflexivity|]. apply N.log2_lt_pow2; [lia|exact Ha]. }
  assert (Lb : (N.log2 b < 8)%N).
  { destruct (N.eq_dec b 0) as [->|Nb]; [reflexivity|]. apply N.log2_lt_pow2; [lia|exact Hb]. }
  lia.
Qed.

Lemma xor_stream_ok k l : (forall i, byte_ok (k i)) -> bytes_ok l ->
  forall off, bytes_ok (xor_stream k off l).
Proof.
  intros Hk. induction 1 as [|b t Hb _ IH]; intro off; cbn [xor_stream]; constructor.
  - apply lxor_byte; auto.
  - apply IH.
Qed.

Lemma bytes_ok_app a b : bytes_ok (a ++ b) <-> bytes_ok a /\ bytes_ok b.
Proof. apply Forall_app. Qed.

Lemma bytes_ok_firstn n l : bytes_ok l -> bytes_ok (firstn n l).
Proof. intro H. rewrite <- (firstn_skipn n l) in H. apply bytes_ok_app in H. tauto. Qed.

Lemma bytes_ok_skipn n l : bytes_ok l -> bytes_ok (skipn n l).
Proof. intro H. rewrite <- (firstn_skipn n l) in H. apply bytes_ok_app in H. tauto. Qed.

Lemma bytes_ok_nth n l : bytes_ok l -> byte_ok (nth n l 0%N).
Proof.
  intro H. destruct (Nat.lt_ge_cases n (length l)) as [Hl|Hl].
  - unfold bytes_ok in H. rewrite Forall_forall in H. apply H. apply nth_In. exact Hl.
  - rewrite nth_overflow by exact Hl. reflexivity.
Qed.

Lemma res_ok_inj {A} (a b : A) : Ok a = Ok b -> a = b.
Proof. congruence. Qed.

Lemma skipn_nth_cons (l : bytes) : forall n, (n < length l)%nat ->
  skipn n l = nth n l 0%N :: skipn (S n) l.
Proof.
  induction l as [|x l IH]; intros [|n] H; cbn [length] in H; try lia; [reflexivity|].
  cbn [skipn nth]. rewrite IH by lia. reflexivity.
Qed.

(* ------------------------------------------------------------------------------------------- *)
Section Gap.
  Variable ks : bytes -> bytes -> nat -> N.
  Variable enr : Type.
  Variable enr_encode : enr -> bytes.
  Variable enr_decode : bytes -> option enr.

  Notation decode := (decode ks enr_decode).
  Notation encode := (encode ks enr_encode).
  Notation sh_of := (sh_of ks).
  Notation asz_of := (asz_of ks).
  Notation ad_of := (ad_of ks).
  Notation flag_of := (flag_of ks).
  Notation header_ok := (header_ok ks).
  Notation sig_size_of := (sig_size_of ks).
  Notation key_size_of := (key_size_of ks).
  Notation kind_decode_spec := (kind_decode_spec enr enr_decode).
  Notation packet_wf := (packet_wf enr).
  Notation kind_wf := (kind_wf enr).

  (* the record carried by a packet (only a handshake can carry one) *)
  Definition kind_record (k : pkind enr) : option enr :=
    match k with KHandshake _ _ _ r => r | _ => None end.

  (* the bytes of a handshake's auth-data that follow the signature and the key: the slice
     [remaining_data[total_size..]] handed to <Enr>::decode *)
  Definition record_bytes_of (local data : bytes) : bytes :=
    skipn (34 + sig_size_of local data + key_size_of local data) (ad_of local data).

  (* the record decoder consumed all the bytes it was given: the returned record encodes to them *)
  Definition record_canonical_for (local data : bytes) (p : packet enr) : Prop :=
    match kind_record (p_kind p) with
    | Some e => enr_encode e = record_bytes_of local data
    | None => True
    end.

  (* the keystream used for a datagram consists of bytes *)
  Definition ks_bytes_for (local data : bytes) : Prop :=
    forall i, byte_ok (ks (firstn 16 local) (firstn 16 data) i).

  (* ---------------- PacketKind: encode after decode ---------------- *)
  Lemma kind_encode_decode flag ad k :
    kind_decode_spec flag ad = Ok k -> bytes_ok ad ->
    (forall e, kind_record k = Some e ->
       enr_encode e = skipn (34 + N.to_nat (nth 32 ad 0%N) + N.to_nat (nth 33 ad 0%N)) ad) ->
    kind_encode enr_encode k = ad /\ kind_flag k = flag /\ kind_wf k.
  Proof.
    unfold Packet.kind_decode_spec. intros H Hok Hrec.
    destruct flag as [|[f|[f|f|]|]]; try discriminate.
    - (* MESSAGE *)
      destruct (length ad =? 32)%nat eqn:E; cbn [negb] in H; [|discriminate].
      apply Nat.eqb_eq in E. apply res_ok_inj in H; subst k. cbn. auto.
    - (* HANDSHAKE *)
      destruct (length ad <? 34)%nat eqn:E34; [discriminate|]. apply Nat.ltb_ge in E34.
      cbv zeta in H.
      set (s := N.to_nat (nth 32 ad 0%N)) in *. set (kk := N.to_nat (nth 33 ad 0%N)) in *.
      destruct (length ad <? 34 + (s + kk))%nat eqn:Esk; [discriminate|]. apply Nat.ltb_ge in Esk.
      set (rem := skipn 34 ad) in *.
      assert (Hrem : length rem = (length ad - 34)%nat) by apply skipn_length.
      assert (Hb32 : byte_ok (nth 32 ad 0%N)) by (apply bytes_ok_nth; exact Hok).
      assert (Hb33 : byte_ok (nth 33 ad 0%N)) by (apply bytes_ok_nth; exact Hok).
      unfold byte_ok in Hb32, Hb33.
      (* the auth-data cut into its fields *)
      assert (Had : ad = firstn 32 ad ++ [nth 32 ad 0%N] ++ [nth 33 ad 0%N]
                         ++ firstn s rem ++ firstn kk (skipn s rem) ++ skipn (s + kk) rem).
      { rewrite <- (Bytes.skipn_skipn rem kk s).
        rewrite (firstn_skipn kk (skipn s rem)), (firstn_skipn s rem).
        unfold rem. cbn [app].
        rewrite <- (skipn_nth_cons ad 33) by lia. rewrite <- (skipn_nth_cons ad 32) by lia.
        symmetry. apply firstn_skipn. }
      assert (Hsig : len (firstn s rem) = nth 32 ad 0%N).
      { unfold len. rewrite firstn_length, Nat.min_l by lia. unfold s. apply N2Nat.id. }
      assert (Hkey : len (firstn kk (skipn s rem)) = nth 33 ad 0%N).
      { unfold len. rewrite firstn_length, skipn_length, Nat.min_l by lia. unfold kk. apply N2Nat.id. }
      assert (Hwf : kind_wf (KHandshake (firstn 32 ad) (firstn s rem) (firstn kk (skipn s rem)) None)).
      { cbn [Packet.kind_wf]. rewrite !firstn_length, skipn_length.
        assert (s <= 255)%nat by (unfold s; lia). assert (kk <= 255)%nat by (unfold kk; lia). lia. }
      assert (Henc : forall r,
                 kind_encode enr_encode (KHandshake (firstn 32 ad) (firstn s rem) (firstn kk (skipn s rem)) r)
                 = firstn 32 ad ++ [nth 32 ad 0%N] ++ [nth 33 ad 0%N] ++ firstn s rem
                     ++ firstn kk (skipn s rem) ++ match r with Some e => enr_encode e | None => [] end).
      { intro r. cbn [kind_encode]. rewrite Hsig, Hkey, !to_be_1 by assumption. reflexivity. }
      destruct (s + kk <? length rem)%nat eqn:Erec.
      + destruct (enr_decode (skipn (s + kk) rem)) as [e|] eqn:Edec; [|discriminate].
        apply res_ok_inj in H; subst k. split; [|split; [reflexivity|exact Hwf]].
        rewrite Henc. rewrite (Hrec e eq_refl).
        replace (skipn (34 + s + kk) ad) with (skipn (s + kk) rem)
          by (unfold rem; rewrite Bytes.skipn_skipn; f_equal; lia).
        symmetry. exact Had.
      + apply Nat.ltb_ge in Erec. apply res_ok_inj in H; subst k. split; [|split; [reflexivity|exact Hwf]].
        rewrite Henc. rewrite (@skipn_all2 _ (s + kk) rem) in Had by lia. symmetry. exact Had.
    - (* WHOAREYOU *)
      destruct (length ad =? 24)%nat eqn:E; cbn [negb] in H; [|discriminate].
      apply Nat.eqb_eq in E. apply res_ok_inj in H; subst k.
      assert (Hs : bytes_ok (skipn 16 ad)) by (apply bytes_ok_skipn; exact Hok).
      assert (Hl : length (skipn 16 ad) = 8%nat) by (rewrite skipn_length; lia).
      split; [|split; [reflexivity|]].
      + cbn [kind_encode]. rewrite (to_be_from_be_n 8) by assumption. apply firstn_skipn.
      + cbn [Packet.kind_wf]. split; [rewrite firstn_length; lia|].
        pose proof (from_be_bound _ Hs) as B. rewrite Hl in B. exact B.
  Qed.

  (* ---------------- P1: Packet::encode after Packet::decode ---------------- *)
  (* General form.  The premises say that the authenticated data (the received iv and the unmasked
     header) consist of bytes, and that the record decoder, if it ran, consumed the whole slice. *)
  Theorem encode_decode_gen local data p aad :
    decode local data = Ok (p, aad) -> bytes_ok aad -> record_canonical_for local data p ->
    encode p local = data /\ authenticated_data enr_encode p = aad /\ packet_wf p.
  Proof.
    intros H Hok Hrec.
    pose proof (decode_ok_inv ks enr enr_decode _ _ _ _ H)
      as (Hh & Ha & Haad & Hiv & Hn & Hm & Hk & Hw).
    destruct Hh as (Hs & Hp & Hv). pose proof (size_ok_nat _ Hs) as Hlen.
    assert (Hshl : length (sh_of local data) = 23%nat).
    { unfold Packet.sh_of. rewrite xor_stream_length, firstn_length, skipn_length. lia. }
    rewrite Haad in Hok. apply bytes_ok_app in Hok as [Hok16 Hok]. apply bytes_ok_app in Hok as [Hoksh Hokad].
    assert (H16 : length (firstn 16 data) = 16%nat) by (rewrite firstn_length; lia).
    assert (Eiv : to_be 16 (p_iv p) = firstn 16 data).
    { rewrite Hiv. apply to_be_from_be_n; assumption. }
    (* the kind *)
    destruct (kind_encode_decode _ _ _ Hk Hokad) as (Ekind & Eflag & Hkwf).
    { intros e He. unfold record_canonical_for in Hrec. rewrite He in Hrec. exact Hrec. }
    (* the static header cut into its fields *)
    set (sh := sh_of local data) in *.
    assert (Hsh : sh = firstn 6 sh ++ firstn 2 (skipn 6 sh) ++ [nth 8 sh 0%N]
                       ++ firstn 12 (skipn 9 sh) ++ skipn 21 sh).
    { symmetry. change (skipn 21 sh) with (skipn (9 + 12) sh).
      rewrite <- (Bytes.skipn_skipn sh 12 9). rewrite (firstn_skipn 12 (skipn 9 sh)).
      cbn [app]. rewrite <- (skipn_nth_cons sh 8) by lia.
      change (skipn 8 sh) with (skipn (6 + 2) sh).
      rewrite <- (Bytes.skipn_skipn sh 2 6). rewrite (firstn_skipn 2 (skipn 6 sh)).
      apply firstn_skipn. }
    assert (Hflagb : to_be 1 (kind_flag (p_kind p)) = [nth 8 sh 0%N]).
    { rewrite Eflag. unfold Packet.flag_of. fold sh. apply to_be_1.
      apply bytes_ok_nth. exact Hoksh. }
    assert (Hsz : to_be 2 (len (kind_encode enr_encode (p_kind p))) = skipn 21 sh).
    { rewrite Ekind. unfold len. rewrite (ad_of_length ks _ _ Ha). unfold Packet.asz_of. fold sh.
      rewrite N2Nat.id. apply to_be_from_be_n.
      - apply bytes_ok_skipn. exact Hoksh.
      - rewrite skipn_length. lia. }
    assert (Ehdr : header_encode enr_encode p = sh ++ ad_of local data).
    { etransitivity; [|apply (f_equal (fun x => x ++ ad_of local data)); symmetry; exact Hsh].
      unfold header_encode. rewrite Hflagb, Hsz, Ekind, <- Hp, <- Hv, Hn.
      rewrite <- !app_assoc. reflexivity. }
    assert (Eaad : authenticated_data enr_encode p = aad).
    { unfold authenticated_data. rewrite Eiv, Ehdr, Haad. reflexivity. }
    split; [|split; [exact Eaad|]].
    - etransitivity; [|symmetry; apply (datagram_from_aad_and_body ks enr enr_decode _ _ _ _ H)].
      rewrite <- Eaad. unfold authenticated_data, Packet.encode, encrypt_header.
      assert (L : length (to_be 16 (p_iv p)) = 16%nat) by apply to_be_length.
      rewrite firstn_app_exact by (symmetry; exact L).
      rewrite skipn_app_exact by (symmetry; exact L). reflexivity.
    - split; [|split; [|split; [exact Hkwf|exact Hw]]].
      + rewrite Hiv. pose proof (from_be_bound _ Hok16) as B. rewrite H16 in B. exact B.
      + rewrite Hn. rewrite firstn_length, skipn_length. fold sh. lia.
  Qed.

  (* bytes in, bytes out: the authenticated data of a datagram of bytes are bytes *)
  Lemma aad_bytes_ok local data p aad :
    decode local data = Ok (p, aad) -> bytes_ok data -> ks_bytes_for local data -> bytes_ok aad.
  Proof.
    intros H Hd Hk.
    destruct (aad_is_received_bytes ks enr enr_decode _ _ _ _ H) as (-> & _ & _).
    apply bytes_ok_app. split; [apply bytes_ok_firstn; exact Hd|].
    apply xor_stream_ok; [exact Hk|]. apply bytes_ok_firstn, bytes_ok_skipn. exact Hd.
  Qed.

  (* The statement of the property: a canonical record decoder. *)
  Theorem encode_decode local data p aad :
    (forall b e, enr_decode b = Some e -> enr_encode e = b) ->
    bytes_ok data -> ks_bytes_for local data ->
    decode local data = Ok (p, aad) ->
    encode p local = data /\ authenticated_data enr_encode p = aad /\ packet_wf p.
  Proof.
    intros Hc Hd Hk H. apply (encode_decode_gen local data p aad H).
    - eapply aad_bytes_ok; eassumption.
    - unfold record_canonical_for.
      destruct (kind_record (p_kind p)) as [e|] eqn:Er; [|exact I].
      pose proof (decode_ok_inv ks enr enr_decode _ _ _ _ H) as (_ & Ha & _ & _ & _ & _ & Hkd & _).
      (* the record was decoded from exactly those bytes *)
      unfold Packet.kind_decode_spec in Hkd.
      destruct (Packet.flag_of ks local data) as [|[f|[f|f|]|]]; try discriminate;
        repeat match type of Hkd with
               | (if ?c then _ else _) = _ => destruct c eqn:?; try discriminate
               end;
        cbv zeta in Hkd.
      + apply res_ok_inj in Hkd. rewrite <- Hkd in Er. discriminate.
      + destruct (enr_decode _) as [e'|] eqn:Edec in Hkd; [|discriminate].
        apply res_ok_inj in Hkd. rewrite <- Hkd in Er. cbn [kind_record] in Er. injection Er as ->.
        rewrite (Hc _ _ Edec). unfold record_bytes_of, Packet.sig_size_of, Packet.key_size_of.
        rewrite Bytes.skipn_skipn. f_equal; lia.
      + apply res_ok_inj in Hkd. rewrite <- Hkd in Er. discriminate.
      + apply res_ok_inj in Hkd. rewrite <- Hkd in Er. discriminate.
  Qed.

  (* Without a record (MESSAGE, WHOAREYOU, a handshake without record) nothing is asked of the
     record codec. *)
  Theorem encode_decode_no_record local data p aad :
    bytes_ok data -> ks_bytes_for local data ->
    decode local data = Ok (p, aad) -> kind_record (p_kind p) = None ->
    encode p local = data /\ authenticated_data enr_encode p = aad /\ packet_wf p.
  Proof.
    intros Hd Hk H Hn. apply (encode_decode_gen local data p aad H).
    - eapply aad_bytes_ok; eassumption.
    - unfold record_canonical_for. rewrite Hn. exact I.
  Qed.

  (* the canonicity premise is necessary, not only sufficient: a packet that re-encodes to the
     datagram it was decoded from carries a record that encodes to the record bytes *)
  Theorem encode_decode_needs_canonical_record local data p aad :
    decode local data = Ok (p, aad) -> authenticated_data enr_encode p = aad ->
    record_canonical_for local data p.
  Proof.
    intros H E. unfold record_canonical_for.
    destruct (kind_record (p_kind p)) as [e|] eqn:Er; [|exact I].
    pose proof (decode_ok_inv ks enr enr_decode _ _ _ _ H) as (Hh & Ha & Haad & _ & Hn & _ & Hkd & _).
    destruct Hh as (Hs & _). pose proof (size_ok_nat _ Hs) as Hlen.
    assert (Hshl : length (Packet.sh_of ks local data) = 23%nat).
    { unfold Packet.sh_of. rewrite xor_stream_length, firstn_length, skipn_length. lia. }
    (* the auth-data of the re-encoding are the received auth-data *)
    assert (Ead : kind_encode enr_encode (p_kind p) = Packet.ad_of ks local data).
    { rewrite Haad in E. unfold authenticated_data in E. rewrite header_split in E.
      apply (f_equal (skipn 39)) in E.
      assert (L : length (to_be 16 (p_iv p) ++ static_header enr enr_encode p) = 39%nat).
      { rewrite app_length, to_be_length, static_header_length; [reflexivity|].
        rewrite Hn, firstn_length, skipn_length. lia. }
      rewrite app_assoc in E. rewrite skipn_app_exact in E by (symmetry; exact L).
      rewrite app_assoc in E. rewrite skipn_app_exact in E; [exact E|].
      rewrite app_length, firstn_length, Hshl. lia. }
    destruct (p_kind p) as [src|idn seq|src sig key r] eqn:Ek; cbn [kind_record] in Er; try discriminate.
    subst r.
    unfold Packet.kind_decode_spec in Hkd.
    destruct (Packet.flag_of ks local data) as [|[f|[f|f|]|]]; try discriminate;
      repeat match type of Hkd with
             | (if ?c then _ else _) = _ => destruct c eqn:?; try discriminate
             end;
      cbv zeta in Hkd.
    destruct (enr_decode _) as [e'|] eqn:Edec in Hkd; [|discriminate].
    apply res_ok_inj in Hkd.
    unfold record_bytes_of, Packet.sig_size_of, Packet.key_size_of.
    set (ad := Packet.ad_of ks local data) in *.
    set (s := N.to_nat (nth 32 ad 0%N)) in *. set (kk := N.to_nat (nth 33 ad 0%N)) in *.
    assert (Hsrc : firstn 32 ad = src) by congruence.
    assert (Hsig : firstn s (skipn 34 ad) = sig) by congruence.
    assert (Hkey : firstn kk (skipn s (skipn 34 ad)) = key) by congruence.
    assert (He : e' = e) by congruence. subst e'. clear Hkd.
    apply Nat.ltb_ge in Heqb, Heqb0. apply Nat.ltb_lt in Heqb1. rewrite skipn_length in Heqb1.
    transitivity (skipn (34 + s + kk) (kind_encode enr_encode (KHandshake src sig key (Some e))));
      [|rewrite Ead; reflexivity].
    cbn [kind_encode].
    assert (L : length (src ++ to_be 1 (len sig) ++ to_be 1 (len key) ++ sig ++ key) = (34 + s + kk)%nat).
    { rewrite !app_length, !to_be_length. rewrite <- Hsrc, <- Hsig, <- Hkey.
      rewrite !firstn_length, !skipn_length. lia. }
    replace (src ++ to_be 1 (len sig) ++ to_be 1 (len key) ++ sig ++ key ++ enr_encode e)
      with ((src ++ to_be 1 (len sig) ++ to_be 1 (len key) ++ sig ++ key) ++ enr_encode e)
      by (rewrite <- !app_assoc; reflexivity).
    rewrite skipn_app_exact by (symmetry; exact L). reflexivity.
  Qed.

  (* ---------------- P2: the record of a handshake ---------------- *)
  (* the handshake branch of PacketKind::decode once the size rules are passed *)
  Lemma kind_decode_spec_handshake ad :
    (34 + N.to_nat (nth 32 ad 0%N) + N.to_nat (nth 33 ad 0%N) <= length ad)%nat ->
    let s := N.to_nat (nth 32 ad 0%N) in
    let k := N.to_nat (nth 33 ad 0%N) in
    kind_decode_spec 2%N ad =
    if (34 + s + k <? length ad)%nat then
      match enr_decode (skipn (34 + s + k) ad) with
      | None => Err InvalidEnr
      | Some e => Ok (KHandshake (firstn 32 ad) (firstn s (skipn 34 ad)) (firstn k (skipn s (skipn 34 ad))) (Some e))
      end
    else Ok (KHandshake (firstn 32 ad) (firstn s (skipn 34 ad)) (firstn k (skipn s (skipn 34 ad))) None).
  Proof.
    intros Hl s k. fold s k in Hl. unfold Packet.kind_decode_spec. fold s k. cbv zeta.
    replace (length ad <? 34)%nat with false by (symmetry; apply Nat.ltb_ge; lia).
    replace (length ad <? 34 + (s + k))%nat with false by (symmetry; apply Nat.ltb_ge; lia).
    rewrite skipn_length, Bytes.skipn_skipn.
    replace (34 + (s + k))%nat with (34 + s + k)%nat by lia.
    destruct (34 + s + k <? length ad)%nat eqn:E.
    - apply Nat.ltb_lt in E. replace (s + k <? length ad - 34)%nat with true
        by (symmetry; apply Nat.ltb_lt; lia). reflexivity.
    - apply Nat.ltb_ge in E. replace (s + k <? length ad - 34)%nat with false
        by (symmetry; apply Nat.ltb_ge; lia). reflexivity.
  Qed.

  (* record bytes that the record decoder refuses: InvalidEnr *)
  Theorem strict_handshake_bad_record local data :
    header_ok local data -> (asz_of local data <= remaining_of data)%nat ->
    flag_of local data = 2%N ->
    (34 + sig_size_of local data + key_size_of local data < asz_of local data)%nat ->
    enr_decode (record_bytes_of local data) = None ->
    decode local data = Err InvalidEnr.
  Proof.
    intros Hh Ha Hf Hlt Hbad. rewrite (decode_header_ok ks enr enr_decode _ _ Hh).
    pose proof (ad_of_length ks _ _ Ha) as Hl.
    apply Nat.ltb_ge in Ha. rewrite Ha, Hf.
    unfold Packet.sig_size_of, Packet.key_size_of, record_bytes_of in *.
    rewrite kind_decode_spec_handshake by lia. cbv zeta. rewrite Hl.
    replace (_ <? asz_of local data)%nat with true by (symmetry; apply Nat.ltb_lt; lia).
    unfold Packet.sig_size_of, Packet.key_size_of in Hbad. rewrite Hbad. reflexivity.
  Qed.

  (* an accepted handshake: the record is present exactly when there are record bytes, and it is
     what the record decoder returned for them *)
  Theorem decode_accepts_handshake_record local data p aad :
    decode local data = Ok (p, aad) -> flag_of local data = 2%N ->
    (34 + sig_size_of local data + key_size_of local data <= asz_of local data)%nat /\
    ((34 + sig_size_of local data + key_size_of local data < asz_of local data)%nat ->
       exists e, enr_decode (record_bytes_of local data) = Some e /\ kind_record (p_kind p) = Some e) /\
    ((34 + sig_size_of local data + key_size_of local data = asz_of local data)%nat ->
       kind_record (p_kind p) = None) /\
    exists src sig key, p_kind p = KHandshake src sig key (kind_record (p_kind p))
      /\ src = firstn 32 (ad_of local data)
      /\ sig = firstn (sig_size_of local data) (skipn 34 (ad_of local data))
      /\ key = firstn (key_size_of local data) (skipn (34 + sig_size_of local data) (ad_of local data)).
  Proof.
    intros H Hf.
    pose proof (decode_accepts_only ks enr enr_decode _ _ _ _ H) as (_ & Ha & Hc).
    assert (Hle : (34 + sig_size_of local data + key_size_of local data <= asz_of local data)%nat).
    { destruct Hc as [[F _]|[[F _]|[_ Hle]]]; [rewrite Hf in F; discriminate..|exact Hle]. }
    pose proof (decode_ok_inv ks enr enr_decode _ _ _ _ H) as (_ & _ & _ & _ & _ & _ & Hk & _).
    pose proof (ad_of_length ks _ _ Ha) as Hl.
    rewrite Hf in Hk. unfold Packet.sig_size_of, Packet.key_size_of, record_bytes_of in *.
    rewrite kind_decode_spec_handshake in Hk by lia. cbv zeta in Hk. rewrite Hl in Hk.
    split; [exact Hle|].
    set (s := N.to_nat (nth 32 (ad_of local data) 0%N)) in *.
    set (k := N.to_nat (nth 33 (ad_of local data) 0%N)) in *.
    destruct (34 + s + k <? asz_of local data)%nat eqn:E.
    - apply Nat.ltb_lt in E.
      destruct (enr_decode (skipn (34 + s + k) (ad_of local data))) as [e|] eqn:Edec; [|discriminate].
      apply res_ok_inj in Hk. rewrite <- Hk. cbn [kind_record]. split; [|split].
      + intros _. exists e. split; [exact Edec|reflexivity].
      + intro Heq. lia.
      + do 3 eexists. split; [reflexivity|]. rewrite Bytes.skipn_skipn. auto.
    - apply Nat.ltb_ge in E. apply res_ok_inj in Hk. rewrite <- Hk. cbn [kind_record]. split; [|split].
      + intro Hlt. lia.
      + reflexivity.
      + do 3 eexists. split; [reflexivity|]. rewrite Bytes.skipn_skipn. auto.
  Qed.

  (* the same, with the fields of the returned kind spelled out *)
  Theorem decode_accepts_handshake local data p aad :
    decode local data = Ok (p, aad) -> flag_of local data = 2%N ->
    exists src sig key rec,
      p_kind p = KHandshake src sig key rec
      /\ src = firstn 32 (ad_of local data)
      /\ sig = firstn (sig_size_of local data) (skipn 34 (ad_of local data))
      /\ key = firstn (key_size_of local data) (skipn (34 + sig_size_of local data) (ad_of local data))
      /\ (34 + sig_size_of local data + key_size_of local data <= asz_of local data)%nat
      /\ ((34 + sig_size_of local data + key_size_of local data < asz_of local data)%nat ->
            exists e, enr_decode (skipn (34 + sig_size_of local data + key_size_of local data)
                                        (ad_of local data)) = Some e /\ rec = Some e)
      /\ ((34 + sig_size_of local data + key_size_of local data = asz_of local data)%nat -> rec = None).
  Proof.
    intros H Hf.
    destruct (decode_accepts_handshake_record local data p aad H Hf)
      as (Hle & H1 & H2 & src & sig & key & Ek & Hsrc & Hsig & Hkey).
    exists src, sig, key, (kind_record (p_kind p)). auto 10.
  Qed.

End Gap.

Arguments kind_record {enr} k.

(* a decidable test for [bytes_ok], for the examples *)
Lemma bytes_ok_check l : forallb (fun b => (b <? 256)%N) l = true -> bytes_ok l.
Proof.
  intro H. rewrite forallb_forall in H. apply Forall_forall. intros b Hb.
  apply N.ltb_lt. apply H. exact Hb.
Qed.

(* ------------------------------------------------------------------------------------------- *)
(* P1b.  A record codec that behaves like <Enr as Decodable>::decode of enr 0.13: it reads ONE RLP
   list item from the front of the buffer and ignores whatever follows.  Two records: the RLP
   lists [] (0xc0) and [0x01] (0xc1 0x01).  It satisfies the two laws of the round trip
   decode (encode p) = p, but it is not canonical. *)
Definition lax_enr_encode (e : bool) : bytes := if e then [193; 1]%N else [192]%N.
Definition lax_enr_decode (b : bytes) : option bool :=
  match b with
  | 193%N :: 1%N :: _ => Some true
  | 192%N :: _ => Some false
  | _ => None
  end.

Lemma lax_enr_round_trip : forall e, lax_enr_decode (lax_enr_encode e) = Some e.
Proof. intros [|]; reflexivity. Qed.
Lemma lax_enr_encode_nonempty : forall e, lax_enr_encode e <> [].
Proof. intros [|]; discriminate. Qed.
Lemma lax_enr_not_canonical :
  ~ (forall b e, lax_enr_decode b = Some e -> lax_enr_encode e = b).
Proof. intro H. specialize (H [192; 0]%N false eq_refl). discriminate. Qed.
