(* Bridge to the routing-table invariant of C07 (Proofs/KBucketInv.v, Proofs/KBucketTable.v):
   - TInv implies the placement property the honest-responder theorem needs;
   - every operation of the admission model (Model/Admission.v) preserves TInv, so the table of a
     service is TInv, hence placed, after every sequence of events. *)
From Coq Require Import List Arith NArith Bool Lia.
From Discv5V Require Import Generated.Params Lib.ListX Model.KBucket Model.Nodes Model.Serve
  Model.Admission Proofs.KBucketInv Proofs.KBucketTable Proofs.KBMembers Proofs.Serve.
Import ListNotations.

Lemma bmem_bentries b x : In x (bmem b) -> In x (bentries b).
Proof.
  unfold bmem, bentries. rewrite !in_app_iff. intros [H|H]; [left; exact H|right].
  destruct (pend b); [exact H|destruct H].
Qed.

Lemma TInv_placed c t : TInv c t -> placed t.
Proof.
  intros [_ HB] i x Hx. apply (bi_idx _ _ _ _ _ (HB i)).
  unfold bkeys. apply in_map. now apply bmem_bentries.
Qed.

Section ServiceInv.
  Variable rec_of : N -> enr.
  Variable tf : enr -> bool.
  Variable mode : ip_mode.
  Variable fx : fixes.
  Variable c : config.

  Let tmn (now : N) : tm None now None := tm_None None now.

  Lemma established_tinv t e inc now : TInv c t -> TInv c (fst (established tf mode fx c t e inc now)).
  Proof.
    intros HT. unfold established.
    destruct (negb (contactable mode e)); [exact HT|].
    destruct (fix_d5 fx && negb (tf e)); [exact HT|].
    match goal with |- context [t_insert_or_update c t ?k ?v true ?d now] => set (dir := d) end.
    pose proof (t_insert_or_update_inv c None now (tmn now) t (e_id e) (to_val e) true dir HT) as H1.
    destruct (t_insert_or_update c t (e_id e) (to_val e) true dir now) as [t1 r]. cbn [fst] in *.
    destruct r; try exact H1. apply (t_entry_inv c None now (tmn now)). exact H1.
  Qed.

  Lemma discovered_one_tinv t src e now :
    TInv c t -> TInv c (fst (discovered_one rec_of tf mode c t src e now)).
  Proof.
    intros HT. unfold discovered_one.
    destruct (e_id e =? local t)%N; [exact HT|].
    pose proof (t_entry_inv c None now (tmn now) t (e_id e) ALook HT) as H1.
    destruct (t_entry c t (e_id e) ALook now) as [t1 ko]. cbn [fst] in H1.
    destruct (tf e && contactable mode e).
    - match goal with |- context [if ?m then _ else _] => destruct m end; [|exact H1].
      pose proof (t_update_node_inv c None now (tmn now) t1 (e_id e) (to_val e) None H1) as H2.
      destruct (t_update_node c t1 (e_id e) (to_val e) None now) as [t2 r]. cbn [fst] in H2.
      destruct r; exact H2.
    - destruct (fst ko); try exact H1;
        (match goal with |- context [if ?m then _ else _] => destruct m end; cbn [fst]; [|exact H1];
         apply (t_entry_inv c None now (tmn now)); exact H1).
  Qed.

  Lemma discovered_tinv l : forall t src now,
    TInv c t -> TInv c (fst (discovered rec_of tf mode c t src l now)).
  Proof.
    induction l as [|e l IH]; intros t src now HT; cbn [discovered]; [exact HT|].
    pose proof (discovered_one_tinv t src e now HT) as H1.
    destruct (discovered_one rec_of tf mode c t src e now) as [t1 keep]. cbn [fst] in H1.
    specialize (IH t1 src now H1). destruct (discovered rec_of tf mode c t1 src l now). exact IH.
  Qed.

  Lemma astep_tinv t o now : TInv c t -> TInv c (fst (astep rec_of tf mode fx c t o now)).
  Proof.
    intros HT. destruct o; cbn [astep].
    - pose proof (established_tinv t e incoming now HT). destruct (established tf mode fx c t e incoming now). assumption.
    - pose proof (discovered_tinv l t src now HT). destruct (discovered rec_of tf mode c t src l now). assumption.
    - unfold pong.
      pose proof (t_entry_inv c None now (tmn now) t id ALook HT) as H1.
      destruct (t_entry c t id ALook now) as [t1 ko]. cbn [fst] in H1.
      destruct (fst ko); try exact H1.
      destruct (stored_rec rec_of t1 id) as [e|]; [|exact H1].
      destruct (contactable mode e); cbn [fst]; [|exact H1].
      apply (t_update_node_status_inv c None now (tmn now)). exact H1.
    - unfold ping_request.
      pose proof (t_entry_inv c None now (tmn now) t id ALook HT) as H1.
      destruct (t_entry c t id ALook now) as [t1 ko]. cbn [fst] in H1.
      destruct (fst ko); try exact H1; destruct (stored_rec rec_of t1 id); exact H1.
    - unfold failure. pose proof (t_update_node_status_inv c None now (tmn now) t id false None HT).
      destruct (t_update_node_status c t id false None now). assumption.
    - unfold add_enr.
      destruct (negb (contactable mode e)); [exact HT|]. destruct (negb (tf e)); [exact HT|].
      pose proof (t_insert_or_update_inv c None now (tmn now) t (e_id e) (to_val e) false true HT).
      destruct (t_insert_or_update c t (e_id e) (to_val e) false true now). assumption.
    - unfold unverifiable. pose proof (t_remove_inv c None now (tmn now) t id HT).
      destruct (t_remove c t id now). assumption.
    - unfold disconnect_node. pose proof (t_update_node_status_inv c None now (tmn now) t id false None HT).
      destruct (t_update_node_status c t id false None now). assumption.
  Qed.

  Lemma arun_tinv ops : forall t, TInv c t -> TInv c (arun rec_of tf mode fx c t ops).
  Proof.
    induction ops as [|[o now] ops IH]; intros t HT; cbn [arun]; [exact HT|].
    apply IH. now apply astep_tinv.
  Qed.

  (* the table of a service after any sequence of events *)
  Lemma service_table_tinv loc ops : TInv c (arun rec_of tf mode fx c (new_table loc) ops).
  Proof. apply arun_tinv. apply TInv_new. Qed.

  Lemma service_table_placed loc ops : placed (arun rec_of tf mode fx c (new_table loc) ops).
  Proof. eapply TInv_placed. apply service_table_tinv. Qed.
End ServiceInv.
