(* C04 timeout_justified - "a timeout is reported only if some request to that peer really went
   unanswered for a full timeout period".
   This file: (1) every request is stored under the node address of its contact (KeyWF); (2) where the
   entries of the nonce map (= the armed request timers) come from: an entry is kept from the state
   before, or it is armed with deadline (time of the arming) + cfg_timeout; (3) ERR_TIMEOUT is reported
   only by the timer stream (the implicit tick of a step), for a nonce-map entry whose deadline has
   passed, and only for requests to the node address of that entry. *)
From Coq Require Import List Arith NArith Bool Lia.
From Discv5V Require Import Model.Handler Proofs.HandlerInv.
From Discv5V Require Import Proofs.HandlerB_Base Proofs.HandlerB_Frame Proofs.HandlerB_Step.
Import ListNotations.
Local Open Scope N_scope.

(* ------------------------------------------------------------------------------------------ *)
(* association lists of lists: a property of every stored item, which may depend on the key *)

Section AllN.
Context {A : Type}.
Implicit Types (P : naddr -> A -> Prop) (m : list (naddr * list A)).

Definition AllN P m : Prop := forall na l a, In (na, l) m -> In a l -> P na a.

Lemma AllN_get P m na l : AllN P m -> alist_get na m = Some l -> forall a, In a l -> P na a.
Proof. intros H G a Ha. apply alist_get_In in G. exact (H _ _ _ G Ha). Qed.
Lemma AllN_set P m na l' : AllN P m -> (forall a, In a l' -> P na a) -> AllN P (alist_set na l' m).
Proof.
  intros H Hl na0 l a H1 H2. apply In_alist_set in H1. destruct H1 as [H1|H1].
  - inversion H1; subst. auto.
  - exact (H _ _ _ H1 H2).
Qed.
Lemma AllN_remove P m na : AllN P m -> AllN P (alist_remove na m).
Proof. intros H na0 l a H1 H2. apply In_alist_remove in H1. exact (H _ _ _ H1 H2). Qed.
Lemma AllN_app_new P m na a : AllN P m -> P na a -> AllN P (m ++ [(na, [a])]).
Proof.
  intros H Ha na0 l a0 H1 H2. apply in_app_or in H1. destruct H1 as [H1|[H1|[]]].
  - exact (H _ _ _ H1 H2).
  - inversion H1; subst. destruct H2 as [<-|[]]. exact Ha.
Qed.
(* append to the list of a key, or create the key *)
Lemma AllN_push P m na a :
  AllN P m -> P na a ->
  AllN P (match alist_get na m with Some cur => alist_set na (cur ++ [a]) m | None => m ++ [(na, [a])] end).
Proof.
  intros H Ha. destruct (alist_get na m) as [cur|] eqn:E.
  - apply AllN_set; [exact H|]. intros a0 H0. apply in_app_or in H0. destruct H0 as [H0|[<-|[]]]; [|exact Ha].
    exact (AllN_get _ _ _ _ H E _ H0).
  - apply AllN_app_new; assumption.
Qed.
End AllN.

Lemma AllN_put (P : naddr -> rcall -> Prop) m na l' :
  AllN P m -> (forall a, In a l' -> P na a) -> AllN P (put_list na l' m).
Proof. intros H Hl. unfold put_list. destruct l'; [apply AllN_remove; exact H|apply AllN_set; assumption]. Qed.

(* ------------------------------------------------------------------------------------------ *)
(* the nonce map *)

Lemma In_nmap_remove n l x : In x (nmap_remove n l) -> In x l.
Proof.
  induction l as [|[[n' a] d] t IH]; cbn [nmap_remove]; [auto|].
  destruct (nonce_eqb n n'); intros H; [right; exact H|].
  destruct H as [H|H]; [left; exact H|right; auto].
Qed.
Lemma In_nmap_insert n a d l x : In x (nmap_insert n a d l) -> In x l \/ x = (n, a, d).
Proof.
  unfold nmap_insert. intros H. apply in_app_or in H. destruct H as [H|[H|[]]].
  - left. eapply In_nmap_remove; eauto.
  - right. auto.
Qed.
Lemma In_fold_nmap_remove (l : list rcall) : forall nm x,
  In x (fold_left (fun nm r => nmap_remove (rc_nonce r) nm) l nm) -> In x nm.
Proof.
  induction l as [|r t IH]; intros nm x H; cbn [fold_left] in H; [exact H|].
  apply IH in H. eapply In_nmap_remove; eauto.
Qed.

(* ------------------------------------------------------------------------------------------ *)
(* KeyWF: requests are stored / queued under the node address of their contact.
   NmExt T h h': every timer of h' is a timer of h, or was armed at a time t with T t. *)

Definition KeyWF (h : hstate) : Prop :=
  AllN (fun na r => c_naddr (rc_contact r) = na) (active h) /\
  AllN (fun na q => c_naddr (pq_contact q) = na) (pending h).

Definition NmExt (c : config) (T : N -> Prop) (h h' : hstate) : Prop :=
  forall n na dl, In (n, na, dl) (nmap h') ->
    In (n, na, dl) (nmap h) \/ exists t, T t /\ dl = t + cfg_timeout c.

Definition HR (c : config) (T : N -> Prop) (h h' : hstate) : Prop :=
  (KeyWF h -> KeyWF h') /\ NmExt c T h h'.

Lemma NmExt_refl c T h : NmExt c T h h.
Proof. intros n na dl H. left. exact H. Qed.
Lemma NmExt_trans c T a b d : NmExt c T a b -> NmExt c T b d -> NmExt c T a d.
Proof. intros H1 H2 n na dl H. destruct (H2 _ _ _ H) as [H3|H3]; [exact (H1 _ _ _ H3)|right; exact H3]. Qed.
Lemma NmExt_weaken c (T T' : N -> Prop) h h' : (forall t, T t -> T' t) -> NmExt c T h h' -> NmExt c T' h h'.
Proof. intros HT H n na dl Hin. destruct (H _ _ _ Hin) as [H1|(t & H1 & H2)]; [left; exact H1|right; eauto]. Qed.
Lemma NmExt_sub c T h h' : (forall x, In x (nmap h') -> In x (nmap h)) -> NmExt c T h h'.
Proof. intros H n na dl Hin. left. apply H. exact Hin. Qed.

Lemma HR_refl c T h : HR c T h h.
Proof. split; [auto|apply NmExt_refl]. Qed.
Lemma HR_trans c T a b d : HR c T a b -> HR c T b d -> HR c T a d.
Proof. intros [A1 A2] [B1 B2]. split; [auto|eapply NmExt_trans; eauto]. Qed.
Lemma HR_weaken c (T T' : N -> Prop) h h' : (forall t, T t -> T' t) -> HR c T h h' -> HR c T' h h'.
Proof. intros HT [A1 A2]. split; [exact A1|eapply NmExt_weaken; eauto]. Qed.
(* request lists, queues and timers untouched *)
Lemma HR_same c T h h' : active h' = active h -> pending h' = pending h -> nmap h' = nmap h -> HR c T h h'.
Proof.
  intros E1 E2 E3. split.
  - unfold KeyWF. rewrite E1, E2. auto.
  - apply NmExt_sub. rewrite E3. auto.
Qed.

(* the primitive operations *)
Lemma KeyWF_ar_insert c h na r t : KeyWF h -> c_naddr (rc_contact r) = na -> KeyWF (ar_insert c h na r t).
Proof.
  intros [A B] Hr. split; [|exact B]. unfold ar_insert. cbn [set_active active].
  pose proof (AllN_push (fun na r => c_naddr (rc_contact r) = na) (active h) na r A Hr) as X.
  destruct (alist_get na (active h)); exact X.
Qed.
Lemma NmExt_ar_insert c (T : N -> Prop) h na r t : T t -> NmExt c T h (ar_insert c h na r t).
Proof.
  intros Ht n na0 dl H. unfold ar_insert in H. cbn [set_active nmap] in H.
  apply In_nmap_insert in H. destruct H as [H|H]; [left; exact H|right].
  inversion H; subst. exists t. auto.
Qed.
Lemma HR_ar_insert c (T : N -> Prop) h na r t :
  T t -> c_naddr (rc_contact r) = na -> HR c T h (ar_insert c h na r t).
Proof. intros Ht Hr. split; [intros K; apply KeyWF_ar_insert; assumption|apply NmExt_ar_insert; exact Ht]. Qed.

Lemma KeyWF_take h na l (p : rcall -> bool) r l' nm :
  KeyWF h -> alist_get na (active h) = Some l -> remove_first p l = Some (r, l') ->
  KeyWF (set_active h (put_list na l' (active h)) nm) /\ c_naddr (rc_contact r) = na.
Proof.
  intros [A B] Hg Hr. destruct (remove_first_spec _ _ _ _ Hr) as (_ & _ & Hin & Hsub & _).
  pose proof (AllN_get _ _ _ _ A Hg) as Hl. split; [|apply Hl; exact Hin].
  split; [|exact B]. cbn [set_active active]. apply AllN_put; [exact A|]. intros a Ha. apply Hl. apply Hsub. exact Ha.
Qed.

Lemma HR_remove_request c T h na rid :
  HR c T h (fst (ar_remove_request h na rid)) /\
  (forall r, snd (ar_remove_request h na rid) = Some r -> KeyWF h -> c_naddr (rc_contact r) = na).
Proof.
  unfold ar_remove_request. destruct (alist_get na (active h)) as [l|] eqn:Hg; [|split; [apply HR_refl|discriminate]].
  destruct (remove_first _ l) as [[r l']|] eqn:R; cbn [fst snd]; [|split; [apply HR_refl|discriminate]].
  split.
  - split.
    + intros K. exact (proj1 (KeyWF_take h na l _ r l' _ K Hg R)).
    + apply NmExt_sub. cbn [set_active nmap]. intros x. apply In_nmap_remove.
  - intros r0 E K. inversion E; subst. exact (proj2 (KeyWF_take h na l _ r0 l' (nmap h) K Hg R)).
Qed.

Lemma HR_remove_by_nonce c T h n :
  HR c T h (fst (ar_remove_by_nonce h n)) /\
  (forall na r, snd (ar_remove_by_nonce h n) = Some (na, r) -> KeyWF h -> c_naddr (rc_contact r) = na).
Proof.
  unfold ar_remove_by_nonce. destruct (nmap_get n (nmap h)) as [na|]; [|split; [apply HR_refl|discriminate]].
  destruct (alist_get na (active h)) as [l|] eqn:Hg.
  2:{ cbn [fst snd]. split; [|discriminate]. split; [intros K; exact K|].
      apply NmExt_sub. cbn [set_active nmap]. intros x. apply In_nmap_remove. }
  destruct (remove_first _ l) as [[r l']|] eqn:R; cbn [fst snd].
  - split.
    + split; [intros K; exact (proj1 (KeyWF_take h na l _ r l' _ K Hg R))|].
      apply NmExt_sub. cbn [set_active nmap]. intros x. apply In_nmap_remove.
    + intros na0 r0 E K. inversion E; subst. exact (proj2 (KeyWF_take h na0 l _ r0 l' (nmap h) K Hg R)).
  - split; [|discriminate]. split.
    + intros [A B]. split; [|exact B]. cbn [set_active active]. apply AllN_put; [exact A|].
      exact (AllN_get _ _ _ _ A Hg).
    + apply NmExt_sub. cbn [set_active nmap]. intros x. apply In_nmap_remove.
Qed.

Lemma HR_remove_requests c T h na : HR c T h (fst (ar_remove_requests h na)).
Proof.
  unfold ar_remove_requests. destruct (alist_get na (active h)) as [l|]; [|apply HR_refl]. cbn [fst]. split.
  - intros [A B]. split; [|exact B]. cbn [set_active active]. apply AllN_remove. exact A.
  - apply NmExt_sub. cbn [set_active nmap]. intros x. apply In_fold_nmap_remove.
Qed.

Lemma upd_pkt_contact old p l done r' :
  In r' (upd_pkt old p l done) -> exists r0, In r0 l /\ rc_contact r' = rc_contact r0 /\ rc_rid r' = rc_rid r0.
Proof.
  revert done. induction l as [|r t IH]; intros done; cbn [upd_pkt]; [intros []|].
  destruct (negb done && nonce_eqb (rc_nonce r) old); intros [<-|H0].
  - exists r. split; [left; reflexivity|split; reflexivity].
  - destruct (IH _ H0) as (r0 & H1 & H2). exists r0. split; [right; exact H1|exact H2].
  - exists r. split; [left; reflexivity|split; reflexivity].
  - destruct (IH _ H0) as (r0 & H1 & H2). exists r0. split; [right; exact H1|exact H2].
Qed.

Lemma HR_update_packet c (T : N -> Prop) h old p t : T t -> HR c T h (ar_update_packet c h old p t).
Proof.
  intros Ht. rewrite ar_update_packet_eq. destruct (nmap_get old (nmap h)) as [na|]; [|apply HR_refl]. cbv zeta.
  assert (X : forall act, NmExt c T h (set_active h act (nmap_insert (pkt_nonce p) na (t + cfg_timeout c) (nmap_remove old (nmap h))))).
  { intros act n na0 dl H. cbn [set_active nmap] in H. apply In_nmap_insert in H. destruct H as [H|H].
    - left. eapply In_nmap_remove; eauto.
    - right. inversion H; subst. exists t. auto. }
  destruct (alist_get na (active h)) as [l|] eqn:Hg.
  - split; [|apply X]. intros [A B]. split; [|exact B]. cbn [set_active active].
    apply AllN_set; [exact A|]. intros r' Hr'. destruct (upd_pkt_contact _ _ _ _ _ Hr') as (r0 & H1 & H2 & _).
    rewrite H2. exact (AllN_get _ _ _ _ A Hg _ H1).
  - split; [intros K; exact K|apply X].
Qed.

Lemma KeyWF_push_pending h na q : KeyWF h -> c_naddr (pq_contact q) = na -> KeyWF (push_pending h na q).
Proof.
  intros [A B] Hq. unfold push_pending.
  pose proof (AllN_push (fun na q => c_naddr (pq_contact q) = na) (pending h) na q B Hq) as X.
  destruct (alist_get na (pending h)); split; cbn [set_pending active pending]; assumption.
Qed.
Lemma HR_push_pending c T h na q : c_naddr (pq_contact q) = na -> HR c T h (push_pending h na q).
Proof.
  intros Hq. split; [intros K; apply KeyWF_push_pending; assumption|].
  apply NmExt_sub. unfold push_pending. destruct (alist_get na (pending h)); cbn [set_pending nmap]; auto.
Qed.
Lemma HR_drop_pending c T h na : HR c T h (set_pending h (alist_remove na (pending h))).
Proof.
  split; [|apply NmExt_sub; cbn [set_pending nmap]; auto].
  intros [A B]. split; [exact A|]. cbn [set_pending pending]. apply AllN_remove. exact B.
Qed.

(* ------------------------------------------------------------------------------------------ *)
(* the relation on the step monad, one lemma per handler function.  [T]: the times at which the
   function arms request timers. *)

Definition SR (c : config) (T : N -> Prop) (s s' : st) : Prop := HR c T (hs s) (hs s').

Lemma SR_refl c T s : SR c T s s.
Proof. apply HR_refl. Qed.
Lemma SR_trans c T a b d : SR c T a b -> SR c T b d -> SR c T a d.
Proof. apply HR_trans. Qed.
Lemma SR_weaken c (T T' : N -> Prop) s s' : (forall t, T t -> T' t) -> SR c T s s' -> SR c T' s s'.
Proof. apply HR_weaken. Qed.
Lemma SR_with_hs c T s h : HR c T (hs s) h -> SR c T s (with_hs s h).
Proof. intros H. exact H. Qed.
Lemma SR_k_with_hs c T s x h : SR c T s x -> HR c T (hs x) h -> SR c T s (with_hs x h).
Proof. intros H1 H2. eapply HR_trans; [exact H1|exact H2]. Qed.
Lemma SR_k_same c T s x x' : SR c T s x -> hs x' = hs x -> SR c T s x'.
Proof. intros H E. unfold SR. rewrite E. exact H. Qed.

(* [c']: the configuration whose clock the session cache reads *)
Lemma HR_sess_get c' c T h na : HR c T h (fst (sess_get c' h na)).
Proof. destruct (sess_get_frame c' h na) as (A & B & C & _). apply HR_same; assumption. Qed.

Lemma SR_is_awaiting c' c T s na : SR c T s (fst (is_awaiting_session c' s na)).
Proof.
  unfold is_awaiting_session. pose proof (HR_sess_get c' c T (hs s) na) as H.
  destruct (sess_get c' (hs s) na) as [h se]. cbn [fst] in H. destruct se; exact H.
Qed.

Lemma SR_remove_expired c' c T s : SR c T s (remove_expired_sessions c' s).
Proof. destruct (remove_expired_sessions_frame c' s) as (A & B & C & _). apply HR_same; assumption. Qed.

Definition at_time (t : N) : N -> Prop := fun x => x = t.

Lemma SR_send_request c s ct ext rid body now :
  SR c (at_time now) s (fst (send_request c s ct ext rid body now)).
Proof.
  unfold send_request.
  destruct (existsb (N.eqb (c_addr ct)) (cfg_listen c)); [apply SR_refl|].
  set (na := c_naddr ct).
  assert (Ha : SR c (at_time now) s (fst (if has_challenge (hs s) na then (s, true) else is_awaiting_session c s na))).
  { destruct (has_challenge (hs s) na); [apply SR_refl|apply SR_is_awaiting]. }
  destruct (if has_challenge (hs s) na then (s, true) else is_awaiting_session c s na) as [s1 awaiting].
  cbn [fst] in Ha. destruct awaiting; cbn [fst].
  - apply SR_k_with_hs; [exact Ha|apply HR_push_pending; reflexivity].
  - pose proof (HR_sess_get c c (at_time now) (hs s1) na) as Hg.
    destruct (sess_get c (hs s1) na) as [h2 se]. cbn [fst] in Hg.
    destruct se as [se|].
    + rewrite encrypt_message_eq. cbn [fst snd].
      apply SR_k_with_hs; [|apply HR_ar_insert; reflexivity].
      cbn [send emit add_expected with_hs hs]. eapply HR_trans; [exact Ha|]. eapply HR_trans; [exact Hg|].
      apply HR_same; reflexivity.
    + destruct (pop_pk (dr (with_hs s1 h2))) as [[[[cn r] aad] e0] d']. cbn [fst snd].
      apply SR_k_with_hs; [|apply HR_ar_insert; reflexivity].
      cbn [send emit add_expected with_hs hs]. eapply HR_trans; [exact Ha|]. eapply HR_trans; [exact Hg|].
      apply HR_same; reflexivity.
Qed.

Lemma SR_send_pending_requests c s na now : SR c (at_time now) s (send_pending_requests c s na now).
Proof.
  unfold send_pending_requests. destruct (alist_get na (pending (hs s))) as [l|]; [|apply SR_refl].
  eapply SR_trans; [apply SR_with_hs; apply HR_drop_pending|].
  apply fold_left_rel; [apply SR_refl|apply SR_trans|].
  intros a q. pose proof (SR_send_request c a (pq_contact q) (pq_ext q) (pq_rid q) (pq_body q) now) as H.
  destruct (send_request c a (pq_contact q) (pq_ext q) (pq_rid q) (pq_body q) now) as [s' ok].
  cbn [fst] in H. destruct ok; [exact H|]. destruct (pq_ext q); exact H.
Qed.

Lemma SR_fail_session c T s na err rm : SR c T s (fail_session c s na err rm).
Proof.
  unfold fail_session.
  set (s1 := if rm then let s0 := remove_expired_sessions c s in with_hs s0 (sess_remove (hs s0) na) else s).
  assert (H1 : SR c T s s1).
  { unfold s1. destruct rm; [|apply SR_refl]. cbv zeta.
    eapply SR_trans; [apply (SR_remove_expired c)|]. apply SR_with_hs; apply HR_same; reflexivity. }
  set (s2 := match alist_get na (pending (hs s1)) with Some l => _ | None => s1 end).
  assert (H2 : SR c T s1 s2).
  { unfold s2. destruct (alist_get na (pending (hs s1))) as [l|]; [|apply SR_refl].
    eapply SR_trans; [apply SR_with_hs; apply HR_drop_pending|].
    apply fold_left_rel; [apply SR_refl|apply SR_trans|].
    intros a q. destruct (pq_ext q); exact (HR_refl _ _ _). }
  pose proof (HR_remove_requests c T (hs s2) na) as H3.
  destruct (ar_remove_requests (hs s2) na) as [h3 reqs]. cbn [fst] in H3.
  eapply SR_trans; [exact H1|]. eapply SR_trans; [exact H2|].
  eapply SR_trans; [apply SR_with_hs; exact H3|].
  apply fold_left_rel; [apply SR_refl|apply SR_trans|].
  intros a r. destruct (rc_ext r); apply HR_same; reflexivity.
Qed.

Lemma SR_fail_request c T s r err rm : SR c T s (fail_request c s r err rm).
Proof.
  unfold fail_request. eapply SR_trans; [|apply SR_fail_session].
  destruct (rc_ext r); exact (HR_refl _ _ _).
Qed.

Lemma SR_replay c s na skip now : SR c (at_time now) s (replay_active_requests c s na skip now).
Proof.
  unfold replay_active_requests.
  pose proof (HR_sess_get c c (at_time now) (hs s) na) as Hg.
  destruct (sess_get c (hs s) na) as [h1 se]. cbn [fst] in Hg.
  destruct se as [se0|]; [|exact Hg].
  set (reqs := filter _ _).
  pose proof (replay_fold c na reqs (with_hs s h1) se0 []) as Hf. cbn zeta in Hf.
  destruct (fold_left _ reqs (with_hs s h1, se0, [])) as [[s2 se2] pkts]. cbn [fst snd] in Hf.
  destruct Hf as [E1 [E2 E3]]. cbn [hs with_hs outs] in E1, E2.
  assert (H2 : SR c (at_time now) s (with_hs s2 (sess_put (hs s2) na se2))).
  { unfold SR. cbn [hs with_hs]. rewrite E1. eapply HR_trans; [exact Hg|]. apply HR_same; reflexivity. }
  eapply SR_trans; [exact H2|].
  apply fold_left_rel; [apply SR_refl|apply SR_trans|].
  intros a x. unfold SR. cbn [send emit with_hs hs]. apply HR_update_packet. reflexivity.
Qed.

Lemma SR_new_session c s na se skip now : SR c (at_time now) s (new_session c s na se skip now).
Proof.
  unfold new_session.
  eapply SR_trans; [apply (SR_remove_expired c)|]. generalize (remove_expired_sessions c s). clear s. intros s.
  pose proof (HR_sess_get c c (at_time now) (hs s) na) as Hg.
  destruct (sess_get c (hs s) na) as [h1 cur]. cbn [fst] in Hg.
  destruct cur as [cs|].
  - match goal with |- context [replay_active_requests c ?s1 na skip now] =>
      assert (X : SR c (at_time now) s (replay_active_requests c s1 na skip now)) end.
    { eapply SR_trans; [|apply SR_replay]. unfold SR. cbn [with_hs hs].
      eapply HR_trans; [exact Hg|]. apply HR_same; reflexivity. }
    destruct (fix_d2a c); [|exact X]. eapply SR_trans; [exact X|apply SR_send_pending_requests].
  - eapply SR_trans; [|apply SR_send_pending_requests]. unfold SR. cbn [with_hs hs].
    eapply HR_trans; [exact Hg|]. apply HR_same; reflexivity.
Qed.

Lemma SR_K c T s s' : SR c T s s' -> KeyWF (hs s) -> KeyWF (hs s').
Proof. intros [H _]. exact H. Qed.
Lemma SR_N c T s s' : SR c T s s' -> NmExt c T (hs s) (hs s').
Proof. intros [_ H]. exact H. Qed.

Definition bump_r (r : rcall) : rcall :=
  {| rc_contact := rc_contact r; rc_pkt := rc_pkt r; rc_ext := rc_ext r; rc_rid := rc_rid r;
     rc_body := rc_body r; rc_hs_sent := rc_hs_sent r; rc_retries := rc_retries r + 1;
     rc_remaining := rc_remaining r; rc_init := rc_init r |}.

Lemma handle_request_timeout_cases c s na r now :
  handle_request_timeout c s na r now =
  if N.leb (cfg_retries c) (rc_retries r) then fail_request c (remove_expected s (snd na)) r ERR_TIMEOUT false
  else with_hs (send s na (rc_pkt r)) (ar_insert c (hs s) na (bump_r r) now).
Proof. reflexivity. Qed.

Lemma NmExt_handle_request_timeout c s na r now :
  NmExt c (at_time now) (hs s) (hs (handle_request_timeout c s na r now)).
Proof.
  rewrite handle_request_timeout_cases. destruct (N.leb (cfg_retries c) (rc_retries r)).
  - apply (SR_N c (at_time now) s). eapply SR_trans; [|apply SR_fail_request]. apply HR_same; reflexivity.
  - cbn [with_hs hs]. apply NmExt_ar_insert. reflexivity.
Qed.
Lemma KeyWF_handle_request_timeout c s na r now :
  KeyWF (hs s) -> c_naddr (rc_contact r) = na -> KeyWF (hs (handle_request_timeout c s na r now)).
Proof.
  intros K Hr. rewrite handle_request_timeout_cases. destruct (N.leb (cfg_retries c) (rc_retries r)).
  - apply (SR_K c (at_time now) (remove_expected s (snd na))); [apply SR_fail_request|exact K].
  - cbn [with_hs hs]. apply KeyWF_ar_insert; [exact K|exact Hr].
Qed.

Lemma SR_send_response c T s na rid rb : SR c T s (send_response c s na rid rb).
Proof.
  unfold send_response. pose proof (HR_sess_get c c T (hs s) na) as Hg.
  destruct (sess_get c (hs s) na) as [h1 se]. cbn [fst] in Hg. destruct se as [se|]; [|exact Hg].
  rewrite encrypt_message_eq. unfold SR. cbn [send emit with_hs hs].
  eapply HR_trans; [exact Hg|apply HR_same; reflexivity].
Qed.

Lemma SR_send_challenge c T s na n known now : SR c T s (send_challenge c s na n known now).
Proof.
  unfold send_challenge. destruct (has_challenge (hs s) na); [apply SR_refl|].
  destruct (pop_pk (dr s)) as [[[[idn x2] cd] x4] d']. apply HR_same; reflexivity.
Qed.

Lemma SR_handle_response c s na rid rb now : SR c (at_time now) s (handle_response c s na rid rb now).
Proof.
  unfold handle_response. destruct (HR_remove_request c (at_time now) (hs s) na rid) as [H1 H2].
  destruct (ar_remove_request (hs s) na rid) as [h1 found]. cbn [fst snd] in H1, H2.
  destruct found as [r|]; [|apply SR_refl].
  assert (R : forall rem ev, SR c (at_time now) s (emit (with_hs (with_hs s h1)
             (ar_insert c (hs (with_hs s h1)) na
                {| rc_contact := rc_contact r; rc_pkt := rc_pkt r; rc_ext := rc_ext r; rc_rid := rc_rid r;
                   rc_body := rc_body r; rc_hs_sent := rc_hs_sent r; rc_retries := rc_retries r;
                   rc_remaining := rem; rc_init := rc_init r |} now)) ev)).
  { intros rem ev. unfold SR. cbn [emit with_hs hs]. split.
    - intros K. apply KeyWF_ar_insert; [apply H1; exact K|]. cbn [rc_contact]. apply (H2 r eq_refl K).
    - eapply NmExt_trans; [apply H1|apply NmExt_ar_insert; reflexivity]. }
  assert (F : forall ev, SR c (at_time now) s (emit (remove_expected (with_hs s h1) (snd na)) ev)).
  { intros ev. unfold SR. cbn [emit remove_expected with_hs hs]. eapply HR_trans; [exact H1|apply HR_same; reflexivity]. }
  cbv zeta. destruct rb as [total recs|tag]; [|apply F].
  destruct (N.ltb 1 total); [|apply F].
  destruct (rc_remaining r) as [rem|]; [|apply R].
  destruct (negb (N.eqb (rem - 1) 0)); [apply R|apply F].
Qed.

Lemma SR_handle_message c s na n aad ct now : SR c (at_time now) s (handle_message c s na n aad ct now).
Proof.
  unfold handle_message. pose proof (HR_sess_get c c (at_time now) (hs s) na) as Hg.
  destruct (sess_get c (hs s) na) as [h1 se]. cbn [fst] in Hg.
  destruct se as [se|]; [|exact Hg].
  destruct (decrypt_message se n aad ct) as [se' m].
  set (s2 := with_hs (with_hs s h1) (sess_put (hs (with_hs s h1)) na se')).
  assert (H2 : SR c (at_time now) s s2).
  { unfold s2, SR. cbn [with_hs hs]. eapply HR_trans; [exact Hg|apply HR_same; reflexivity]. }
  clearbody s2.
  destruct m as [[rid body|rid rb|j]|].
  - exact H2.
  - assert (HR' : SR c (at_time now) s (handle_response c s2 na rid rb now)).
    { eapply SR_trans; [exact H2|apply SR_handle_response]. }
    destruct (s_await se') as [arid|]; [|exact HR'].
    destruct (N.eqb rid arid); [|exact HR'].
    match goal with |- context [fail_session c ?x na ERR_INVALID_REMOTE_ENR true] => set (s3 := x) end.
    assert (H3 : SR c (at_time now) s s3).
    { unfold s3. eapply SR_trans; [exact H2|].
      match goal with |- SR _ _ s2 (if fix_d2b c then ?a else ?b) => assert (H3 : SR c (at_time now) s2 b) end.
      { apply HR_same; reflexivity. }
      destruct (fix_d2b c); [|exact H3].
      match goal with |- context [ar_remove_request ?h na rid] =>
        destruct (HR_remove_request c (at_time now) h na rid) as [X _];
        destruct (ar_remove_request h na rid) as [h4 found] end.
      cbn [fst] in X. destruct found as [r|]; [|exact H3].
      unfold SR. cbn [remove_expected with_hs hs]. cbn [with_hs hs] in X.
      eapply HR_trans; [exact X|apply HR_same; reflexivity]. }
    clearbody s3.
    assert (HF : forall x, hs x = hs s3 -> SR c (at_time now) s (fail_session c x na ERR_INVALID_REMOTE_ENR true)).
    { intros x E. eapply SR_trans; [|apply SR_fail_session]. unfold SR. rewrite E. exact H3. }
    destruct rb as [total recs|tag]; [|apply HF; reflexivity].
    destruct (rev recs) as [|e t]; [apply HF; reflexivity|].
    destruct (verify_enr e na); [exact H3|apply HF; reflexivity].
  - exact H2.
  - match goal with |- context [has_challenge (hs ?x) na] => assert (H3 : SR c (at_time now) s x) end.
    { eapply SR_trans; [exact H2|apply SR_fail_session]. }
    destruct (has_challenge _ na); exact H3.
Qed.

Lemma SR_handle_auth_message c s na n aad sg eph eph_ok rec ct now :
  SR c (at_time now) s (handle_auth_message c s na n aad sg eph eph_ok rec ct now).
Proof.
  unfold handle_auth_message. destruct (chall_get na (challenges (hs s))) as [ch|]; [|apply SR_refl].
  set (s1 := with_hs s (set_challenges (hs s) (chall_remove na (challenges (hs s))))).
  assert (H1 : SR c (at_time now) s s1) by (apply HR_same; reflexivity). clearbody s1.
  destruct (establish c (fst na) ch sg eph eph_ok rec) as [se e| |].
  - eapply SR_trans; [|apply SR_handle_message]. eapply SR_trans; [|apply SR_new_session].
    eapply SR_trans; [exact H1|]. destruct (verify_enr e na); apply HR_same; reflexivity.
  - eapply SR_trans; [exact H1|apply HR_same; reflexivity].
  - eapply SR_trans; [exact H1|]. eapply SR_trans; [|apply SR_fail_session].
    destruct (fix_d6 c); apply HR_same; reflexivity.
Qed.

Lemma SR_handle_challenge c s src n seq cd now : SR c (at_time now) s (handle_challenge c s src n seq cd now).
Proof.
  unfold handle_challenge. destruct (nmap_get n (nmap (hs s))) as [na0|]; [|apply SR_refl].
  destruct (HR_remove_by_nonce c (at_time now) (hs s) n) as [H1 H2].
  destruct (ar_remove_by_nonce (hs s) n) as [h1 found]. cbn [fst snd] in H1, H2.
  destruct found as [[na r]|]; [|exact H1].
  destruct (negb (N.eqb (snd na) src)).
  { unfold SR. cbn [with_hs hs]. split.
    - intros K. apply KeyWF_ar_insert; [apply H1; exact K|apply (H2 na r eq_refl K)].
    - eapply NmExt_trans; [apply H1|apply NmExt_ar_insert; reflexivity]. }
  destruct (rc_hs_sent r || c_ed (rc_contact r)).
  { eapply SR_trans; [|apply SR_fail_request]. destruct (fix_d6 c); exact H1. }
  destruct (pop_pk (dr (with_hs s h1))) as [[[[cn rr] aad] eph] d'].
  set (ct := rc_contact r).
  destruct (c_enr ct) as [e|].
  - eapply SR_trans; [|apply SR_new_session]. unfold SR. cbn [emit send with_hs hs].
    eapply HR_trans; [exact H1|apply HR_ar_insert; reflexivity].
  - destruct (pop_rid _) as [irid d''].
    match goal with |- context [send_request c ?s5 ct false irid 0 now] =>
      pose proof (SR_send_request c s5 ct false irid 0 now) as X;
      destruct (send_request c s5 ct false irid 0 now) as [s6 ok] end.
    cbn [fst] in X. eapply SR_trans; [|apply SR_new_session]. eapply SR_trans; [|exact X].
    unfold SR. cbn [emit send with_hs hs]. eapply HR_trans; [exact H1|apply HR_ar_insert; reflexivity].
Qed.

(* the part of a step after the implicit tick: timers are armed at [now] *)
Lemma SR_dispatch c s0 e now : SR c (at_time now) s0 (dispatch c s0 e now).
Proof.
  destruct e as [ct rid body|na rid rb|na n known|from p|]; cbn [dispatch].
  - pose proof (SR_send_request c s0 ct true rid body now) as X.
    destruct (send_request c s0 ct true rid body now) as [s1 ok]. cbn [fst] in X. destruct ok; exact X.
  - apply SR_send_response.
  - apply SR_send_challenge.
  - destruct p.
    + apply SR_handle_message.
    + apply SR_handle_challenge.
    + apply SR_handle_auth_message.
  - apply SR_refl.
Qed.

(* timers: armed at the fire times *)
Lemma SR_fire_request c s n na ft : SR c (at_time ft) s (fire_request c s n na ft).
Proof.
  unfold fire_request.
  assert (H0 : HR c (at_time ft) (hs s) (set_active (hs s) (active (hs s)) (nmap_remove n (nmap (hs s))))).
  { split; [intros K; exact K|]. apply NmExt_sub. cbn [set_active nmap]. intros x. apply In_nmap_remove. }
  destruct (alist_get na (active (hs s))) as [l|] eqn:Hg; [|exact H0].
  destruct (remove_first (fun r => nonce_eqb (rc_nonce r) n) l) as [[r l']|] eqn:R; [|exact H0].
  split.
  - intros K. destruct (KeyWF_take (hs s) na l _ r l' (nmap_remove n (nmap (hs s))) K Hg R) as [K1 Hr].
    apply KeyWF_handle_request_timeout; [exact K1|exact Hr].
  - eapply NmExt_trans; [|apply NmExt_handle_request_timeout].
    apply NmExt_sub. cbn [with_hs hs set_active nmap]. intros x. apply In_nmap_remove.
Qed.

Lemma SR_fire_challenge c s na ft : SR c (at_time ft) s (fire_challenge c s na ft).
Proof.
  unfold fire_challenge. eapply SR_trans; [|apply SR_send_pending_requests]. apply HR_same; reflexivity.
Qed.

Lemma SR_fire_group c s g d ft : SR c (at_time ft) s (fire_group c s g d ft).
Proof.
  unfold fire_group. apply fold_left_rel; [apply SR_refl|apply SR_trans|].
  intros a x. destruct (nmap_deadline (fst x) (nmap (hs a))) as [d'|]; [|apply SR_refl].
  destruct (N.eqb d' d); [apply SR_fire_request|apply SR_refl].
Qed.

(* the fire times of a tick at [now] *)
Definition tick_time (c : config) (now : N) : N -> Prop :=
  fun t => exists d0, d0 < now /\ t = fire_time c d0 now.

Lemma SR_fire_due c now fuel : forall s, SR c (tick_time c now) s (fire_due c s now fuel).
Proof.
  induction fuel as [|f IH]; intros s; cbn [fire_due]; [apply SR_refl|].
  assert (FR : forall d, d < now -> SR c (tick_time c now) s (match group_of d (nmap (hs s)) with
      | _ :: _ :: _ =>
        let (rev_order, d') := pop_rev (dr s) in
        fire_group (with_clock c (fire_time c d now)) {| hs := hs s; dr := d'; outs := outs s |}
          (if rev_order then rev (group_of d (nmap (hs s))) else group_of d (nmap (hs s))) d (fire_time c d now)
      | _ => fire_group (with_clock c (fire_time c d now)) s (group_of d (nmap (hs s))) d (fire_time c d now)
      end)).
  { intros d Hd.
    assert (W : forall t, at_time (fire_time c d now) t -> tick_time c now t).
    { intros t ->. exists d. auto. }
    destruct (group_of d (nmap (hs s))) as [|x [|y g]];
      try (eapply SR_weaken; [exact W|exact (SR_fire_group (with_clock c (fire_time c d now)) s _ d (fire_time c d now))]).
    destruct (pop_rev (dr s)) as [ro d'].
    eapply SR_weaken; [exact W|].
    exact (SR_fire_group (with_clock c (fire_time c d now)) {| hs := hs s; dr := d'; outs := outs s |} _ d (fire_time c d now)). }
  assert (FC : forall cna cd, cd < now ->
            SR c (tick_time c now) s (fire_challenge (with_clock c (fire_time c cd now)) s cna (fire_time c cd now))).
  { intros cna cd Hd. eapply SR_weaken; [|exact (SR_fire_challenge (with_clock c (fire_time c cd now)) s cna (fire_time c cd now))].
    intros t ->. exists cd. auto. }
  destruct (min_deadline_nmap (nmap (hs s)) None) as [[[rn ra] rd]|];
  destruct (min_deadline_ch (challenges (hs s)) None) as [[[cna cc] cd]|].
  - destruct (N.ltb rd now) eqn:E1; cbn [andb].
    + destruct (negb (N.ltb cd now) || N.leb rd cd).
      * eapply SR_trans; [apply FR; apply N.ltb_lt; exact E1|apply IH].
      * destruct (N.ltb cd now) eqn:E2; [|apply SR_refl].
        eapply SR_trans; [apply FC; apply N.ltb_lt; exact E2|apply IH].
    + destruct (N.ltb cd now) eqn:E2; [|apply SR_refl].
      eapply SR_trans; [apply FC; apply N.ltb_lt; exact E2|apply IH].
  - destruct (N.ltb rd now) eqn:E1; [|apply SR_refl].
    eapply SR_trans; [apply FR; apply N.ltb_lt; exact E1|apply IH].
  - destruct (N.ltb cd now) eqn:E2; [|apply SR_refl].
    eapply SR_trans; [apply FC; apply N.ltb_lt; exact E2|apply IH].
  - apply SR_refl.
Qed.

(* ------------------------------------------------------------------------------------------ *)
(* the step and the run: KeyWF is an invariant; origin of the timers *)

Definition action_time (c : config) (now : N) : N -> Prop := fun t => t = now \/ tick_time c now t.

Local Transparent tick.
Lemma SR_tick c h now d : SR c (tick_time c now) {| hs := h; dr := d; outs := [] |} (tick c h now d).
Proof. unfold tick. exact (SR_fire_due (with_clock c now) now TICK_FUEL _). Qed.
Global Opaque tick.

Lemma HR_step c h e now d : HR c (action_time c now) h (fst (step c h e now d)).
Proof.
  rewrite step_eq. cbn [fst].
  eapply HR_trans.
  - eapply HR_weaken; [|apply (SR_tick c h now d)]. intros t H. right. exact H.
  - eapply HR_weaken; [|exact (SR_dispatch (with_clock c now) (tick c h now d) e now)]. intros t H. left. exact H.
Qed.

Lemma KeyWF_init : KeyWF init_state.
Proof. split; intros na l a []. Qed.

Lemma run_fst_cons' c h e now d rest :
  fst (run c h ((e, now, d) :: rest)) = fst (run c (fst (step c h e now d)) rest).
Proof. cbn [run]. destruct (step c h e now d) as [h1 o]. cbn [fst]. destruct (run c h1 rest) as [h2 os]. reflexivity. Qed.

Lemma KeyWF_run c evs : forall h, KeyWF h -> KeyWF (fst (run c h evs)).
Proof.
  induction evs as [|[[e now] d] rest IH]; intros h K; [exact K|].
  rewrite run_fst_cons'. apply IH. apply (HR_step c h e now d). exact K.
Qed.

(* every reachable state: requests are stored under the node address of their contact *)
Theorem reachable_KeyWF c evs : KeyWF (fst (run c init_state evs)).
Proof. apply KeyWF_run. apply KeyWF_init. Qed.

(* a timer of the state after a step is a timer of the state before, or was armed by the step:
   its deadline is (an action time of the step) + cfg_timeout *)
Theorem step_timer_origin c h e now d n na dl :
  In (n, na, dl) (nmap (fst (step c h e now d))) ->
  In (n, na, dl) (nmap h) \/ exists t0, action_time c now t0 /\ dl = t0 + cfg_timeout c.
Proof. intros H. exact (proj2 (HR_step c h e now d) n na dl H). Qed.

(* ------------------------------------------------------------------------------------------ *)
(* failure reports: which error codes a function reports *)

Definition out_ok (E : N -> Prop) (o : output) : Prop :=
  forall rid err, o = OEvent (HRequestFailed rid err) -> E err.
Definition OE (E : N -> Prop) (s s' : st) : Prop := OutsExt (out_ok E) s s'.

Lemma OE_refl E s : OE E s s.
Proof. apply OutsExt_refl. Qed.
Lemma OE_trans E a b d : OE E a b -> OE E b d -> OE E a d.
Proof. apply OutsExt_trans. Qed.
Lemma OE_same E s s' : outs s' = outs s -> OE E s s'.
Proof. apply OutsExt_same. Qed.
Lemma OE_weaken (E E' : N -> Prop) s s' : (forall e, E e -> E' e) -> OE E s s' -> OE E' s s'.
Proof. intros H. apply OutsExt_weaken. intros o Ho rid err Eq. apply H. exact (Ho rid err Eq). Qed.
Lemma OE_emit_fail (E : N -> Prop) s rid err : E err -> OE E s (emit s (OEvent (HRequestFailed rid err))).
Proof. intros H. apply OutsExt_emit. intros rid' err' Eq. inversion Eq; subst. exact H. Qed.
Lemma OE_emit_wire E s d p : OE E s (emit s (OWire d p)).
Proof. apply OutsExt_emit. intros rid err Eq. discriminate. Qed.
Lemma OE_k_same E s x x' : OE E s x -> outs x' = outs x -> OE E s x'.
Proof. intros H Eo. eapply OE_trans; [exact H|apply OE_same; exact Eo]. Qed.

Definition self_only : N -> Prop := fun e => e = ERR_SELF_REQUEST.

Lemma OE_is_awaiting E c s na : OE E s (fst (is_awaiting_session c s na)).
Proof.
  apply OE_same. unfold is_awaiting_session. destruct (sess_get c (hs s) na) as [h se]. destruct se; reflexivity.
Qed.

(* the report of the purged sessions is no failure report *)
Lemma OE_remove_expired E c s : OE E s (remove_expired_sessions c s).
Proof.
  rewrite remove_expired_sessions_eq. destruct (fst (drop_expired c (sessions (hs s)))) as [|k ks]; [apply OE_refl|].
  eapply OE_trans; [apply (OE_same E s (with_hs s (set_sessions (hs s) (snd (drop_expired c (sessions (hs s))))))); reflexivity|].
  apply OutsExt_emit. intros rid err Eq. discriminate.
Qed.

Lemma OE_send_request E c s ct ext rid body now : OE E s (fst (send_request c s ct ext rid body now)).
Proof.
  unfold send_request. destruct (existsb (N.eqb (c_addr ct)) (cfg_listen c)); [apply OE_refl|].
  set (na := c_naddr ct).
  assert (Ha : OE E s (fst (if has_challenge (hs s) na then (s, true) else is_awaiting_session c s na))).
  { destruct (has_challenge (hs s) na); [apply OE_refl|apply OE_is_awaiting]. }
  destruct (if has_challenge (hs s) na then (s, true) else is_awaiting_session c s na) as [s1 awaiting].
  cbn [fst] in Ha. destruct awaiting; cbn [fst].
  - eapply OE_k_same; [exact Ha|reflexivity].
  - destruct (sess_get c (hs s1) na) as [h2 se]. destruct se as [se|].
    + rewrite encrypt_message_eq. cbn [fst snd].
      eapply OE_trans; [exact Ha|]. eapply OE_k_same; [apply OE_emit_wire|reflexivity].
    + destruct (pop_pk (dr (with_hs s1 h2))) as [[[[cn r] aad] e0] d']. cbn [fst snd].
      eapply OE_trans; [exact Ha|]. eapply OE_k_same; [apply OE_emit_wire|reflexivity].
Qed.

Lemma OE_send_pending_requests c s na now : OE self_only s (send_pending_requests c s na now).
Proof.
  unfold send_pending_requests. destruct (alist_get na (pending (hs s))) as [l|]; [|apply OE_refl].
  apply (OE_trans _ _ (with_hs s (set_pending (hs s) (alist_remove na (pending (hs s)))))); [apply OE_same; reflexivity|].
  apply fold_left_rel; [apply OE_refl|apply OE_trans|].
  intros a q. pose proof (OE_send_request self_only c a (pq_contact q) (pq_ext q) (pq_rid q) (pq_body q) now) as H.
  destruct (send_request c a (pq_contact q) (pq_ext q) (pq_rid q) (pq_body q) now) as [s' ok].
  cbn [fst] in H. destruct ok; [exact H|]. destruct (pq_ext q); [|exact H].
  eapply OE_trans; [exact H|apply OE_emit_fail; reflexivity].
Qed.

(* the failure reports of fail_session: the given error, for the requests queued or stored under
   the node address *)
Definition fs_out (h : hstate) (na : naddr) (err : N) (o : output) : Prop :=
  exists rid, o = OEvent (HRequestFailed rid err) /\
    ((exists l q, alist_get na (pending h) = Some l /\ In q l /\ pq_rid q = rid) \/
     (exists l r, alist_get na (active h) = Some l /\ In r l /\ rc_rid r = rid)).

Lemma fold_emit_outs {B} (b : B -> bool) (ev : B -> output) (g : st -> st) :
  (forall s, outs (g s) = outs s) ->
  forall (l : list B) (s0 : st),
  exists lo, outs (fold_left (fun s q => g (if b q then emit s (ev q) else s)) l s0) = outs s0 ++ lo /\
    forall o, In o lo -> exists q, In q l /\ o = ev q.
Proof.
  intros Hg. induction l as [|q t IH]; intros s0; cbn [fold_left].
  - exists []. rewrite app_nil_r. split; [reflexivity|intros o []].
  - destruct (IH (g (if b q then emit s0 (ev q) else s0))) as (lo & E & F). rewrite Hg in E.
    destruct (b q).
    + exists (ev q :: lo). cbn [emit outs] in E. rewrite <- app_assoc in E. split; [exact E|].
      intros o [<-|Ho]; [exists q; split; [left; reflexivity|reflexivity]|].
      destruct (F o Ho) as (q' & H1 & H2). exists q'. split; [right; exact H1|exact H2].
    + exists lo. split; [exact E|]. intros o Ho. destruct (F o Ho) as (q' & H1 & H2). exists q'. split; [right; exact H1|exact H2].
Qed.

(* with [rm] the expired sessions are purged first: one more event, the report of the purge *)
Definition purge_out (rm : bool) (o : output) : Prop := rm = true /\ exists ks, o = OEvent (HExpiredSessions ks).

Lemma fail_session_outs c s na err rm :
  OutsExt (fun o => fs_out (hs s) na err o \/ purge_out rm o) s (fail_session c s na err rm).
Proof.
  unfold fail_session.
  set (s1 := if rm then let s0 := remove_expired_sessions c s in with_hs s0 (sess_remove (hs s0) na) else s).
  assert (E1 : (exists lo1, outs s1 = outs s ++ lo1 /\ Forall (purge_out rm) lo1) /\
               pending (hs s1) = pending (hs s) /\ active (hs s1) = active (hs s)).
  { unfold s1. destruct rm.
    - cbv zeta. cbn [with_hs hs outs sess_remove set_sessions pending active].
      destruct (remove_expired_sessions_frame c s) as (A & _ & B & _). split; [|split; assumption].
      destruct (HandlerInv.remove_expired_sessions_outs c s) as [Eo|[ks Eo]]; rewrite Eo.
      + exists []. rewrite app_nil_r. split; [reflexivity|constructor].
      + exists [OEvent (HExpiredSessions ks)]. split; [reflexivity|]. constructor; [|constructor]. split; eauto.
    - split; [|split; reflexivity]. exists []. rewrite app_nil_r. split; [reflexivity|constructor]. }
  destruct E1 as ((lo1 & E1 & F1) & E1p & E1a). clearbody s1.
  set (s2 := match alist_get na (pending (hs s1)) with Some l => _ | None => s1 end).
  assert (H2 : active (hs s2) = active (hs s) /\
               exists lo, outs s2 = outs s1 ++ lo /\ Forall (fs_out (hs s) na err) lo).
  { unfold s2. destruct (alist_get na (pending (hs s1))) as [l|] eqn:Hg.
    - destruct (fold_emit_outs pq_ext (fun q => OEvent (HRequestFailed (pq_rid q) err)) (fun s => s) (fun s => eq_refl) l
                  (with_hs s1 (set_pending (hs s1) (alist_remove na (pending (hs s1)))))) as (lo & E & F).
      split.
      + assert (X : forall s0, active (hs (fold_left (fun (s : st) (q : preq) =>
                       if pq_ext q then emit s (OEvent (HRequestFailed (pq_rid q) err)) else s) l s0)) = active (hs s0)).
        { clear. induction l as [|q t IH]; intros s0; cbn [fold_left]; [reflexivity|].
          rewrite IH. destruct (pq_ext q); reflexivity. }
        rewrite X. cbn [with_hs hs set_pending active]. exact E1a.
      + exists lo. cbn [with_hs outs] in E. split; [exact E|].
        apply Forall_forall. intros o Ho. destruct (F o Ho) as (q & H1 & ->).
        exists (pq_rid q). split; [reflexivity|]. left. exists l, q. rewrite <- E1p. auto.
    - split; [exact E1a|]. exists []. rewrite app_nil_r. split; [reflexivity|constructor]. }
  destruct H2 as (E2a & lo2 & E2 & F2). clearbody s2.
  destruct (ar_remove_requests (hs s2) na) as [h3 reqs] eqn:E.
  assert (Hreqs : forall r, In r reqs -> exists l, alist_get na (active (hs s)) = Some l /\ In r l).
  { intros r Hr. unfold ar_remove_requests in E. rewrite E2a in E.
    destruct (alist_get na (active (hs s))) as [l|]; inversion E; subst; [eauto|destruct Hr]. }
  destruct (fold_emit_outs rc_ext (fun r => OEvent (HRequestFailed (rc_rid r) err))
              (fun s => remove_expected s (snd na)) (fun s => eq_refl) reqs (with_hs s2 h3)) as (lo3 & E3 & F3).
  exists (lo1 ++ lo2 ++ lo3). split.
  - rewrite E3. cbn [with_hs outs]. rewrite E2, E1, !app_assoc. reflexivity.
  - apply Forall_app. split; [eapply Forall_impl; [|exact F1]; intros o Ho; right; exact Ho|].
    apply Forall_app. split; [eapply Forall_impl; [|exact F2]; intros o Ho; left; exact Ho|].
    apply Forall_forall. intros o Ho. destruct (F3 o Ho) as (r & H1 & ->). left.
    exists (rc_rid r). split; [reflexivity|]. right. destruct (Hreqs r H1) as (l & H3 & H4). eauto.
Qed.

Lemma fs_out_ok h na err o : fs_out h na err o -> out_ok (fun e => e = err) o.
Proof. intros (rid & -> & _) rid' err' Eq. inversion Eq. reflexivity. Qed.

Lemma OE_fail_session c s na err rm : OE (fun e => e = err) s (fail_session c s na err rm).
Proof.
  eapply OutsExt_weaken; [|apply fail_session_outs]. intros o [Ho|(_ & ks & ->)]; [eapply fs_out_ok; exact Ho|].
  intros rid e Eq. discriminate.
Qed.
Lemma OE_fail_request c s r err rm : OE (fun e => e = err) s (fail_request c s r err rm).
Proof.
  unfold fail_request. eapply OE_trans; [|apply OE_fail_session].
  destruct (rc_ext r); [apply OE_emit_fail; reflexivity|apply OE_refl].
Qed.

Lemma OE_replay E c s na skip now : OE E s (replay_active_requests c s na skip now).
Proof.
  unfold replay_active_requests. destruct (sess_get c (hs s) na) as [h1 se].
  destruct se as [se0|]; [|apply OE_same; reflexivity].
  set (reqs := filter _ _).
  pose proof (replay_fold c na reqs (with_hs s h1) se0 []) as Hf. cbn zeta in Hf.
  destruct (fold_left _ reqs (with_hs s h1, se0, [])) as [[s2 se2] pkts]. cbn [fst snd] in Hf.
  destruct Hf as [E1 [E2 E3]]. cbn [hs with_hs outs] in E1, E2.
  apply (OE_trans _ _ (with_hs s2 (sess_put (hs s2) na se2))); [apply OE_same; cbn [with_hs outs]; exact E2|].
  apply fold_left_rel; [apply OE_refl|apply OE_trans|].
  intros a x. cbv zeta. eapply OE_trans; [apply (OE_same E a (with_hs a (ar_update_packet c (hs a) (fst x) (snd x) now))); reflexivity|].
  apply OE_emit_wire.
Qed.

Lemma OE_new_session c s na se skip now : OE self_only s (new_session c s na se skip now).
Proof.
  unfold new_session. eapply OE_trans; [apply (OE_remove_expired _ c)|].
  generalize (remove_expired_sessions c s). clear s. intros s.
  destruct (sess_get c (hs s) na) as [h1 cur]. destruct cur as [cs|].
  - match goal with |- context [replay_active_requests c ?s1 na skip now] =>
      assert (X : OE self_only s (replay_active_requests c s1 na skip now)) end.
    { eapply OE_trans; [|apply OE_replay]. apply OE_same. reflexivity. }
    destruct (fix_d2a c); [|exact X]. eapply OE_trans; [exact X|apply OE_send_pending_requests].
  - eapply OE_trans; [|apply OE_send_pending_requests]. apply OE_same. reflexivity.
Qed.

Lemma OE_send_response E c s na rid rb : OE E s (send_response c s na rid rb).
Proof.
  unfold send_response. destruct (sess_get c (hs s) na) as [h1 se]. destruct se as [se|]; [|apply OE_same; reflexivity].
  rewrite encrypt_message_eq. eapply OE_k_same; [apply OE_emit_wire|reflexivity].
Qed.
Lemma OE_send_challenge E c s na n known now : OE E s (send_challenge c s na n known now).
Proof.
  unfold send_challenge. destruct (has_challenge (hs s) na); [apply OE_refl|].
  destruct (pop_pk (dr s)) as [[[[idn x2] cd] x4] d']. eapply OE_k_same; [apply OE_emit_wire|reflexivity].
Qed.

Lemma OE_emit_other E s e : (forall rid err, e <> HRequestFailed rid err) -> OE E s (emit s (OEvent e)).
Proof. intros H. apply OutsExt_emit. intros rid err Eq. inversion Eq. exfalso. eapply H; eauto. Qed.

Lemma OE_handle_response E c s na rid rb now : OE E s (handle_response c s na rid rb now).
Proof.
  unfold handle_response. destruct (ar_remove_request (hs s) na rid) as [h1 found].
  destruct found as [r|]; [|apply OE_refl].
  assert (X : forall x, outs x = outs s -> OE E s (emit x (OEvent (HResponse na rid rb)))).
  { intros x Ex. eapply OE_trans; [apply OE_same; exact Ex|]. apply OE_emit_other. intros; discriminate. }
  cbv zeta. destruct rb as [total recs|tag]; [|apply X; reflexivity].
  destruct (N.ltb 1 total); [|apply X; reflexivity].
  destruct (rc_remaining r) as [rem|]; [|apply X; reflexivity].
  destruct (negb (N.eqb (rem - 1) 0)); apply X; reflexivity.
Qed.

Definition not_timeout : N -> Prop := fun e => e <> ERR_TIMEOUT.

Lemma OE_fail_session_nt c s na err rm : err <> ERR_TIMEOUT -> OE not_timeout s (fail_session c s na err rm).
Proof. intros H. eapply OE_weaken; [|apply OE_fail_session]. intros e ->. exact H. Qed.
Lemma OE_self_nt s s' : OE self_only s s' -> OE not_timeout s s'.
Proof. apply OE_weaken. intros e ->. discriminate. Qed.

Lemma OE_handle_message c s na n aad ct now : OE not_timeout s (handle_message c s na n aad ct now).
Proof.
  unfold handle_message. destruct (sess_get c (hs s) na) as [h1 se].
  destruct se as [se|].
  2:{ eapply OE_trans; [apply (OE_same _ s (with_hs s h1)); reflexivity|apply OE_emit_other; intros; discriminate]. }
  destruct (decrypt_message se n aad ct) as [se' m].
  set (s2 := with_hs (with_hs s h1) (sess_put (hs (with_hs s h1)) na se')).
  assert (H2 : OE not_timeout s s2) by (apply OE_same; reflexivity). clearbody s2.
  destruct m as [[rid body|rid rb|j]|].
  - eapply OE_trans; [exact H2|apply OE_emit_other; intros; discriminate].
  - assert (HR' : OE not_timeout s (handle_response c s2 na rid rb now)).
    { eapply OE_trans; [exact H2|apply OE_handle_response]. }
    destruct (s_await se') as [arid|]; [|exact HR'].
    destruct (N.eqb rid arid); [|exact HR'].
    match goal with |- context [fail_session c ?x na ERR_INVALID_REMOTE_ENR true] => set (s3 := x) end.
    assert (H3 : OE not_timeout s s3).
    { eapply OE_trans; [exact H2|]. apply OE_same. unfold s3. destruct (fix_d2b c); [|reflexivity].
      match goal with |- context [ar_remove_request ?h na rid] => destruct (ar_remove_request h na rid) as [h4 found] end.
      destruct found; reflexivity. }
    clearbody s3.
    assert (HF : forall x, OE not_timeout s x -> OE not_timeout s (fail_session c x na ERR_INVALID_REMOTE_ENR true)).
    { intros x Hx. eapply OE_trans; [exact Hx|apply OE_fail_session_nt; discriminate]. }
    destruct rb as [total recs|tag]; [|apply HF; exact H3].
    destruct (rev recs) as [|e t]; [apply HF; exact H3|].
    destruct (verify_enr e na).
    + eapply OE_trans; [exact H3|apply OE_emit_other; intros; discriminate].
    + apply HF. eapply OE_trans; [exact H3|apply OE_emit_other; intros; discriminate].
  - exact H2.
  - match goal with |- context [has_challenge (hs ?x) na] => assert (H3 : OE not_timeout s x) end.
    { eapply OE_trans; [exact H2|apply OE_fail_session_nt; discriminate]. }
    destruct (has_challenge _ na); [exact H3|].
    eapply OE_trans; [exact H3|apply OE_emit_other; intros; discriminate].
Qed.

Lemma OE_handle_auth_message c s na n aad sg eph eph_ok rec ct now :
  OE not_timeout s (handle_auth_message c s na n aad sg eph eph_ok rec ct now).
Proof.
  unfold handle_auth_message. destruct (chall_get na (challenges (hs s))) as [ch|]; [|apply OE_refl].
  set (s1 := with_hs s (set_challenges (hs s) (chall_remove na (challenges (hs s))))).
  assert (H1 : OE not_timeout s s1) by (apply OE_same; reflexivity). clearbody s1.
  destruct (establish c (fst na) ch sg eph eph_ok rec) as [se e| |].
  - eapply OE_trans; [|apply OE_handle_message]. eapply OE_trans; [|apply OE_self_nt, OE_new_session].
    destruct (verify_enr e na).
    + eapply OE_trans; [eapply (OE_k_same _ _ _ (remove_expected s1 (snd na))); [exact H1|reflexivity]|].
      apply OE_emit_other; intros; discriminate.
    + eapply OE_trans; [eapply (OE_k_same _ _ _ (remove_expected s1 (snd na))); [exact H1|reflexivity]|].
      apply OE_emit_other; intros; discriminate.
  - eapply OE_k_same; [exact H1|reflexivity].
  - eapply OE_trans; [exact H1|]. eapply OE_trans; [|apply OE_fail_session_nt; discriminate].
    destruct (fix_d6 c); apply OE_same; reflexivity.
Qed.

Lemma OE_handle_challenge c s src n seq cd now : OE not_timeout s (handle_challenge c s src n seq cd now).
Proof.
  unfold handle_challenge. destruct (nmap_get n (nmap (hs s))) as [na0|]; [|apply OE_refl].
  destruct (ar_remove_by_nonce (hs s) n) as [h1 found].
  destruct found as [[na r]|]; [|apply OE_same; reflexivity].
  destruct (negb (N.eqb (snd na) src)); [apply OE_same; reflexivity|].
  destruct (rc_hs_sent r || c_ed (rc_contact r)).
  { eapply OE_trans; [|eapply OE_weaken; [|apply OE_fail_request]].
    - destruct (fix_d6 c); apply OE_same; reflexivity.
    - intros e ->. discriminate. }
  destruct (pop_pk (dr (with_hs s h1))) as [[[[cn rr] aad] eph] d'].
  set (ct := rc_contact r).
  destruct (c_enr ct) as [e|].
  - eapply OE_trans; [|apply OE_self_nt, OE_new_session].
    eapply OE_trans; [|apply OE_emit_other; intros; discriminate].
    eapply OE_k_same; [apply OE_emit_wire|reflexivity].
  - destruct (pop_rid _) as [irid d''].
    match goal with |- context [send_request c ?s5 ct false irid 0 now] =>
      pose proof (OE_send_request not_timeout c s5 ct false irid 0 now) as X;
      destruct (send_request c s5 ct false irid 0 now) as [s6 ok] end.
    cbn [fst] in X. eapply OE_trans; [|apply OE_self_nt, OE_new_session]. eapply OE_trans; [|exact X].
    eapply OE_k_same; [apply OE_emit_wire|reflexivity].
Qed.

(* the handler of an event never reports a timeout *)
Lemma OE_dispatch c s0 e now : OE not_timeout s0 (dispatch c s0 e now).
Proof.
  destruct e as [ct rid body|na rid rb|na n known|from p|]; cbn [dispatch].
  - pose proof (OE_send_request not_timeout c s0 ct true rid body now) as X.
    destruct (send_request c s0 ct true rid body now) as [s1 ok]. cbn [fst] in X. destruct ok; [exact X|].
    eapply OE_trans; [exact X|apply OE_emit_fail; discriminate].
  - apply OE_send_response.
  - apply OE_send_challenge.
  - destruct p.
    + apply OE_handle_message.
    + apply OE_handle_challenge.
    + apply OE_handle_auth_message.
  - apply OE_refl.
Qed.

(* ------------------------------------------------------------------------------------------ *)
(* which requests the handler holds, by request id and node address of the contact *)

Section Stored.
Context {A : Type}.
Implicit Types (m : list (naddr * list A)).
Definition StoredIn m (a : A) : Prop := exists k l, In (k, l) m /\ In a l.
Lemma StoredIn_get m na l a : alist_get na m = Some l -> In a l -> StoredIn m a.
Proof. intros G H. exists na, l. split; [apply alist_get_In; exact G|exact H]. Qed.
Lemma StoredIn_set m na l' a : StoredIn (alist_set na l' m) a -> StoredIn m a \/ In a l'.
Proof.
  intros (k & l & H1 & H2). apply In_alist_set in H1. destruct H1 as [H1|H1].
  - inversion H1; subst. right. exact H2.
  - left. exists k, l. auto.
Qed.
Lemma StoredIn_remove m na a : StoredIn (alist_remove na m) a -> StoredIn m a.
Proof. intros (k & l & H1 & H2). apply In_alist_remove in H1. exists k, l. auto. Qed.
Lemma StoredIn_push m na x a :
  StoredIn (match alist_get na m with Some cur => alist_set na (cur ++ [x]) m | None => m ++ [(na, [x])] end) a ->
  StoredIn m a \/ a = x.
Proof.
  destruct (alist_get na m) as [cur|] eqn:E.
  - intros H. apply StoredIn_set in H. destruct H as [H|H]; [left; exact H|].
    apply in_app_or in H. destruct H as [H|[<-|[]]]; [left; eapply StoredIn_get; eauto|right; reflexivity].
  - intros (k & l & H1 & H2). apply in_app_or in H1. destruct H1 as [H1|[H1|[]]].
    + left. exists k, l. auto.
    + inversion H1; subst. destruct H2 as [<-|[]]. right. reflexivity.
Qed.
End Stored.

Lemma StoredIn_put (m : list (naddr * list rcall)) na l' a : StoredIn (put_list na l' m) a -> StoredIn m a \/ In a l'.
Proof.
  unfold put_list. destruct l' as [|x t]; [intros H; left; eapply StoredIn_remove; eauto|apply StoredIn_set].
Qed.

Definition HeldC (h : hstate) (rid : N) (na : naddr) : Prop :=
  (exists r, StoredIn (active h) r /\ rc_rid r = rid /\ c_naddr (rc_contact r) = na) \/
  (exists q, StoredIn (pending h) q /\ pq_rid q = rid /\ c_naddr (pq_contact q) = na).

(* no new request: every request held in h' was held in h *)
Definition HM (h h' : hstate) : Prop := forall rid na, HeldC h' rid na -> HeldC h rid na.
Lemma HM_refl h : HM h h.
Proof. intros rid na H. exact H. Qed.
Lemma HM_trans a b d : HM a b -> HM b d -> HM a d.
Proof. intros H1 H2 rid na H. apply H1. apply H2. exact H. Qed.
Lemma HM_same h h' : active h' = active h -> pending h' = pending h -> HM h h'.
Proof. intros E1 E2 rid na H. unfold HeldC in *. rewrite E1, E2 in H. exact H. Qed.
(* the request lists and queues only lose items *)
Lemma HM_sub h h' :
  (forall r, StoredIn (active h') r -> StoredIn (active h) r) ->
  (forall q, StoredIn (pending h') q -> StoredIn (pending h) q) -> HM h h'.
Proof.
  intros H1 H2 rid na [(r & A & B)|(q & A & B)]; [left; exists r|right; exists q]; split; auto.
Qed.

Definition SM (s s' : st) : Prop := HM (hs s) (hs s').

Lemma StoredIn_ar_insert c h na r t a : StoredIn (active (ar_insert c h na r t)) a -> StoredIn (active h) a \/ a = r.
Proof.
  unfold ar_insert. cbn [set_active active]. intros H.
  apply (StoredIn_push (active h) na r a). destruct (alist_get na (active h)); exact H.
Qed.
Lemma StoredIn_push_pending h na q a : StoredIn (pending (push_pending h na q)) a -> StoredIn (pending h) a \/ a = q.
Proof.
  unfold push_pending. intros H. apply (StoredIn_push (pending h) na q a).
  destruct (alist_get na (pending h)); exact H.
Qed.

Lemma active_sess_get3 c h na : active (fst (sess_get c h na)) = active h.
Proof. apply (sess_get_frame c h na). Qed.
Lemma pending_sess_get3 c h na : pending (fst (sess_get c h na)) = pending h.
Proof. apply (sess_get_frame c h na). Qed.

Lemma is_awaiting_ap c s na :
  active (hs (fst (is_awaiting_session c s na))) = active (hs s) /\
  pending (hs (fst (is_awaiting_session c s na))) = pending (hs s).
Proof.
  unfold is_awaiting_session. pose proof (active_sess_get3 c (hs s) na). pose proof (pending_sess_get3 c (hs s) na).
  destruct (sess_get c (hs s) na) as [h se]. cbn [fst] in *. destruct se; cbn [fst with_hs hs]; auto.
Qed.

(* send_request: the only request that may be new is the one handed over *)
Lemma send_request_held c s ct ext rid body now rid' na' :
  HeldC (hs (fst (send_request c s ct ext rid body now))) rid' na' ->
  HeldC (hs s) rid' na' \/ (rid' = rid /\ na' = c_naddr ct).
Proof.
  unfold send_request. destruct (existsb (N.eqb (c_addr ct)) (cfg_listen c)); [cbn [fst]; auto|].
  set (na := c_naddr ct).
  assert (Ha : let s1 := fst (if has_challenge (hs s) na then (s, true) else is_awaiting_session c s na) in
               active (hs s1) = active (hs s) /\ pending (hs s1) = pending (hs s)).
  { cbv zeta. destruct (has_challenge (hs s) na); [split; reflexivity|apply is_awaiting_ap]. }
  destruct (if has_challenge (hs s) na then (s, true) else is_awaiting_session c s na) as [s1 awaiting].
  cbn [fst] in Ha. cbv zeta in Ha. destruct Ha as [Ea Ep]. destruct awaiting; cbn [fst].
  - cbn [with_hs hs]. intros [(r & A & B)|(q & A & B1 & B2)].
    + left. left. exists r. split; [|exact B].
      assert (E : active (push_pending (hs s1) na {| pq_contact := ct; pq_ext := ext; pq_rid := rid; pq_body := body |}) = active (hs s1)).
      { unfold push_pending. destruct (alist_get na (pending (hs s1))); reflexivity. }
      rewrite E, Ea in A. exact A.
    + apply StoredIn_push_pending in A. destruct A as [A| ->].
      * left. right. exists q. rewrite Ep in A. auto.
      * right. cbn [pq_rid pq_contact] in *. auto.
  - pose proof (active_sess_get3 c (hs s1) na) as Ga. pose proof (pending_sess_get3 c (hs s1) na) as Gp.
    destruct (sess_get c (hs s1) na) as [h2 se]. cbn [fst] in Ga, Gp.
    assert (X : forall s4 call, active (hs s4) = active h2 -> pending (hs s4) = pending h2 ->
              rc_rid call = rid -> rc_contact call = ct ->
              HeldC (hs (with_hs s4 (ar_insert c (hs s4) na call now))) rid' na' ->
              HeldC (hs s) rid' na' \/ rid' = rid /\ na' = c_naddr ct).
    { intros s4 call E4a E4p Hr Hc. cbn [with_hs hs]. intros [(r & A & B1 & B2)|(q & A & B)].
      - apply StoredIn_ar_insert in A. destruct A as [A| ->].
        + left. left. exists r. rewrite E4a, Ga, Ea in A. auto.
        + right. rewrite Hr in B1. rewrite Hc in B2. auto.
      - left. right. exists q. change (pending (ar_insert c (hs s4) na call now)) with (pending (hs s4)) in A.
        rewrite E4p, Gp, Ep in A. auto. }
    destruct se as [se|].
    + rewrite encrypt_message_eq. cbn [fst snd]. apply X; reflexivity.
    + destruct (pop_pk (dr (with_hs s1 h2))) as [[[[cn r] aad] e0] d']. cbn [fst snd]. apply X; reflexivity.
Qed.

Definition HeldL (l : list preq) (rid : N) (na : naddr) : Prop :=
  exists q, In q l /\ pq_rid q = rid /\ c_naddr (pq_contact q) = na.

Lemma send_pending_fold_held c now l : forall s0 rid na,
  HeldC (hs (fold_left (fun s q =>
      let (s', ok) := send_request c s (pq_contact q) (pq_ext q) (pq_rid q) (pq_body q) now in
      if ok then s'
      else if pq_ext q then emit s' (OEvent (HRequestFailed (pq_rid q) ERR_SELF_REQUEST)) else s') l s0)) rid na ->
  HeldC (hs s0) rid na \/ HeldL l rid na.
Proof.
  induction l as [|q t IH]; intros s0 rid na H; cbn [fold_left] in H; [left; exact H|].
  apply IH in H. destruct H as [H|(q' & H1 & H2)]; [|right; exists q'; split; [right; exact H1|exact H2]].
  pose proof (send_request_held c s0 (pq_contact q) (pq_ext q) (pq_rid q) (pq_body q) now rid na) as X.
  destruct (send_request c s0 (pq_contact q) (pq_ext q) (pq_rid q) (pq_body q) now) as [s' ok]. cbn [fst] in X.
  assert (H' : HeldC (hs s') rid na). { destruct ok; [exact H|]. destruct (pq_ext q); exact H. }
  destruct (X H') as [Y|[Y1 Y2]]; [left; exact Y|right]. exists q. split; [left; reflexivity|auto].
Qed.

Lemma SM_send_pending_requests c s na now : SM s (send_pending_requests c s na now).
Proof.
  unfold send_pending_requests. destruct (alist_get na (pending (hs s))) as [l|] eqn:Hg; [|apply HM_refl].
  intros rid na' H. apply send_pending_fold_held in H. destruct H as [H|(q & H1 & H2)].
  - revert H. apply HM_sub; cbn [with_hs hs set_pending active pending]; [auto|]. intros q. apply StoredIn_remove.
  - right. exists q. split; [eapply StoredIn_get; eauto|exact H2].
Qed.

Lemma SM_fail_session c s na err rm : SM s (fail_session c s na err rm).
Proof.
  unfold fail_session.
  set (s1 := if rm then let s0 := remove_expired_sessions c s in with_hs s0 (sess_remove (hs s0) na) else s).
  assert (H1 : SM s s1).
  { unfold s1. destruct rm; [|apply HM_refl]. cbv zeta. destruct (remove_expired_sessions_frame c s) as (A & _ & B & _).
    apply HM_same; cbn [with_hs hs sess_remove set_sessions active pending]; assumption. }
  set (s2 := match alist_get na (pending (hs s1)) with Some l => _ | None => s1 end).
  assert (H2 : SM s1 s2).
  { unfold s2. destruct (alist_get na (pending (hs s1))) as [l|]; [|apply HM_refl].
    eapply (HM_trans _ (hs (with_hs s1 (set_pending (hs s1) (alist_remove na (pending (hs s1))))))).
    - apply HM_sub; cbn [with_hs hs set_pending active pending]; [auto|]. intros q. apply StoredIn_remove.
    - apply (fold_left_rel SM); [intros a; apply HM_refl|intros a b d; apply HM_trans|].
      intros a q. destruct (pq_ext q); exact (HM_refl _). }
  assert (H3 : HM (hs s2) (fst (ar_remove_requests (hs s2) na))).
  { unfold ar_remove_requests. destruct (alist_get na (active (hs s2))) as [l|]; [|apply HM_refl]. cbn [fst].
    apply HM_sub; cbn [set_active active pending]; [|auto]. intros r. apply StoredIn_remove. }
  destruct (ar_remove_requests (hs s2) na) as [h3 reqs]. cbn [fst] in H3.
  eapply HM_trans; [exact H1|]. eapply HM_trans; [exact H2|]. eapply HM_trans; [exact H3|].
  apply (fold_left_rel SM); [intros a; apply HM_refl|intros a b d; apply HM_trans|].
  intros a r. destruct (rc_ext r); apply HM_same; reflexivity.
Qed.

Lemma SM_fail_request c s r err rm : SM s (fail_request c s r err rm).
Proof.
  unfold fail_request. eapply HM_trans; [|apply SM_fail_session]. destruct (rc_ext r); exact (HM_refl _).
Qed.

(* ------------------------------------------------------------------------------------------ *)
(* the implicit tick: every reported timeout has a due timer and is about a request to the node
   address of that timer *)

Definition Orig (c : config) (h0 : hstate) (now : N) (n : nonce) (na : naddr) (dl : N) : Prop :=
  In (n, na, dl) (nmap h0) \/ exists t, tick_time c now t /\ dl = t + cfg_timeout c.

Definition is_timeout (rid : N) : output := OEvent (HRequestFailed rid ERR_TIMEOUT).

Definition TW (c : config) (h0 : hstate) (now : N) (o : list output) : Prop :=
  forall rid, In (is_timeout rid) o ->
    exists n na dl, dl < now /\ Orig c h0 now n na dl /\ HeldC h0 rid na.

Record TP (c : config) (h0 : hstate) (now : N) (s : st) : Prop := {
  TP_K : KeyWF (hs s);
  TP_N : NmExt c (tick_time c now) h0 (hs s);
  TP_M : HM h0 (hs s);
  TP_W : TW c h0 now (outs s)
}.

(* functions that report no timeout *)
Lemma TP_quiet c h0 now s s' :
  TP c h0 now s -> SR c (tick_time c now) s s' -> SM s s' -> OE not_timeout s s' -> TP c h0 now s'.
Proof.
  intros [K Nm M W] [HK HN] HM' [lo [Eo Fo]]. split.
  - apply HK. exact K.
  - eapply NmExt_trans; eauto.
  - eapply HM_trans; eauto.
  - intros rid Hin. rewrite Eo in Hin. apply in_app_or in Hin. destruct Hin as [Hin|Hin]; [apply W; exact Hin|].
    rewrite Forall_forall in Fo. exfalso. exact (Fo _ Hin rid ERR_TIMEOUT eq_refl eq_refl).
Qed.

Lemma at_tick c now d0 : d0 < now -> forall t, at_time (fire_time c d0 now) t -> tick_time c now t.
Proof. intros Hd t ->. exists d0. auto. Qed.

Lemma TP_fire_challenge c h0 now s na cd :
  cd < now -> TP c h0 now s -> TP c h0 now (fire_challenge c s na (fire_time c cd now)).
Proof.
  intros Hd P. eapply TP_quiet; [exact P| | |].
  - eapply SR_weaken; [apply (at_tick c now cd); exact Hd|apply SR_fire_challenge].
  - unfold fire_challenge. eapply HM_trans; [|apply SM_send_pending_requests]. apply HM_same; reflexivity.
  - unfold fire_challenge. apply OE_self_nt.
    eapply OE_trans; [|apply OE_send_pending_requests]. apply OE_same. reflexivity.
Qed.

Lemma TP_fire_request c h0 now s n na d0 :
  d0 < now -> Orig c h0 now n na d0 ->
  TP c h0 now s -> TP c h0 now (fire_request c s n na (fire_time c d0 now)).
Proof.
  intros Hd Ho P. set (ft := fire_time c d0 now).
  assert (Hsr : SR c (tick_time c now) s (fire_request c s n na ft)).
  { eapply SR_weaken; [apply (at_tick c now d0); exact Hd|apply SR_fire_request]. }
  unfold fire_request in *.
  assert (Q0 : TP c h0 now (with_hs s (set_active (hs s) (active (hs s)) (nmap_remove n (nmap (hs s)))))).
  { eapply TP_quiet; [exact P| |apply HM_same; reflexivity|apply OE_same; reflexivity].
    split; [intros K; exact K|]. apply NmExt_sub. cbn [with_hs hs set_active nmap]. intros x. apply In_nmap_remove. }
  destruct (alist_get na (active (hs s))) as [l|] eqn:Hg; [|exact Q0].
  destruct (remove_first (fun r => nonce_eqb (rc_nonce r) n) l) as [[r l']|] eqn:R; [|exact Q0].
  clear Q0. destruct P as [K Nm M W].
  destruct (remove_first_spec _ _ _ _ R) as (_ & _ & Hrin & Hsub & _).
  destruct (KeyWF_take (hs s) na l _ r l' (nmap_remove n (nmap (hs s))) K Hg R) as [K1 Hr].
  set (s1 := with_hs s (set_active (hs s) (put_list na l' (active (hs s))) (nmap_remove n (nmap (hs s))))) in *.
  assert (M1 : forall r0, StoredIn (active (hs s1)) r0 -> StoredIn (active (hs s)) r0).
  { intros r0 H0. cbn [s1 with_hs hs set_active active] in H0. apply StoredIn_put in H0.
    destruct H0 as [H0|H0]; [exact H0|]. eapply StoredIn_get; [exact Hg|apply Hsub; exact H0]. }
  assert (Hr_held : StoredIn (active (hs s)) r) by (eapply StoredIn_get; eauto).
  split; [apply Hsr; exact K|eapply NmExt_trans; [exact Nm|apply Hsr]| |].
  - (* no new request *)
    rewrite handle_request_timeout_cases. destruct (N.leb (cfg_retries c) (rc_retries r)).
    + eapply HM_trans; [exact M|]. eapply HM_trans; [|apply SM_fail_request].
      apply HM_sub; [exact M1|auto].
    + eapply HM_trans; [exact M|]. cbn [with_hs send emit hs].
      intros rid' na' [(r0 & A & B1 & B2)|(q & A & B)].
      * apply StoredIn_ar_insert in A. destruct A as [A| ->]; left.
        -- exists r0. split; [apply M1; exact A|auto].
        -- exists r. split; [exact Hr_held|auto].
      * right. exists q. auto.
  - (* the reported timeouts *)
    rewrite handle_request_timeout_cases. destruct (N.leb (cfg_retries c) (rc_retries r)).
    2:{ cbn [with_hs send emit outs]. intros rid Hin. apply in_app_or in Hin.
        destruct Hin as [Hin|[Hin|[]]]; [apply W; exact Hin|discriminate]. }
    unfold fail_request.
    set (s2 := if rc_ext r then _ else _).
    assert (W2 : forall rid, In (is_timeout rid) (outs s2) -> In (is_timeout rid) (outs s) \/ rid = rc_rid r).
    { unfold s2. intros rid Hin. destruct (rc_ext r); [|left; exact Hin].
      cbn [emit remove_expected with_hs outs] in Hin. apply in_app_or in Hin.
      destruct Hin as [Hin|[Hin|[]]]; [left; exact Hin|right]. inversion Hin. reflexivity. }
    assert (E2 : active (hs s2) = active (hs s1) /\ pending (hs s2) = pending (hs s)).
    { unfold s2. destruct (rc_ext r); split; reflexivity. }
    destruct E2 as [E2a E2p].
    destruct (fail_session_outs c s2 (c_naddr (rc_contact r)) ERR_TIMEOUT false) as (lo & Eo & Fo).
    clearbody s2. intros rid Hin. rewrite Eo in Hin. apply in_app_or in Hin.
    assert (Wit : HeldC h0 rid na -> exists n0 na0 dl, dl < now /\ Orig c h0 now n0 na0 dl /\ HeldC h0 rid na0).
    { intros Hh. exists n, na, d0. auto. }
    destruct Hin as [Hin|Hin].
    + destruct (W2 rid Hin) as [Hin'| ->]; [apply W; exact Hin'|].
      apply Wit. apply M. left. exists r. auto.
    + rewrite Forall_forall in Fo. destruct (Fo _ Hin) as [(rid' & Eq & Hh)|(Hrm & _)]; [|discriminate].
      inversion Eq; subst rid'.
      apply Wit. apply M. rewrite Hr in Hh. destruct Hh as [(l0 & q & H1 & H2 & H3)|(l0 & r0 & H1 & H2 & H3)].
      * right. exists q. rewrite E2p in H1. split; [eapply StoredIn_get; eauto|]. split; [exact H3|].
        destruct K as [_ Kp]. exact (AllN_get _ _ _ _ Kp H1 _ H2).
      * left. exists r0. rewrite E2a in H1. split; [apply M1; eapply StoredIn_get; eauto|]. split; [exact H3|].
        destruct K1 as [Ka _]. exact (AllN_get _ _ _ _ Ka H1 _ H2).
Qed.

Lemma group_of_in d nm x : In x (group_of d nm) -> In (fst x, snd x, d) nm.
Proof.
  unfold group_of. intros H. apply in_map_iff in H. destruct H as ([[n a] d'] & E & H). subst x.
  apply filter_In in H. destruct H as [H1 H2]. cbn [fst snd] in *. apply N.eqb_eq in H2. subst d'. exact H1.
Qed.

Lemma TP_fire_group c h0 now d0 g : forall s,
  d0 < now -> (forall x, In x g -> Orig c h0 now (fst x) (snd x) d0) ->
  TP c h0 now s -> TP c h0 now (fire_group c s g d0 (fire_time c d0 now)).
Proof.
  unfold fire_group. induction g as [|x t IH]; intros s Hd Hg P; cbn [fold_left]; [exact P|].
  apply IH; [exact Hd|intros y Hy; apply Hg; right; exact Hy|].
  destruct (nmap_deadline (fst x) (nmap (hs s))) as [d'|]; [|exact P].
  destruct (N.eqb d' d0); [|exact P]. apply TP_fire_request; [exact Hd|apply Hg; left; reflexivity|exact P].
Qed.

(* the invariant of the timer stream does not look at the clock of the environment *)
Lemma TP_clock c t h0 now s : TP (with_clock c t) h0 now s <-> TP c h0 now s.
Proof. split; intros [A1 A2 A3 A4]; split; assumption. Qed.

Lemma TP_fire_due c h0 now fuel : forall s, TP c h0 now s -> TP c h0 now (fire_due c s now fuel).
Proof.
  induction fuel as [|f IH]; intros s P; cbn [fire_due]; [exact P|].
  assert (FG : forall d g s', d < now -> (forall x, In x g -> Orig c h0 now (fst x) (snd x) d) -> TP c h0 now s' ->
            TP c h0 now (fire_group (with_clock c (fire_time c d now)) s' g d (fire_time c d now))).
  { intros d g s' Hd Hg P'. apply (TP_clock c (fire_time c d now)).
    apply (TP_fire_group (with_clock c (fire_time c d now)) h0 now d g s' Hd); [exact Hg|apply TP_clock; exact P']. }
  assert (FR : forall d, d < now -> TP c h0 now (match group_of d (nmap (hs s)) with
      | _ :: _ :: _ =>
        let (rev_order, d') := pop_rev (dr s) in
        fire_group (with_clock c (fire_time c d now)) {| hs := hs s; dr := d'; outs := outs s |}
          (if rev_order then rev (group_of d (nmap (hs s))) else group_of d (nmap (hs s))) d (fire_time c d now)
      | _ => fire_group (with_clock c (fire_time c d now)) s (group_of d (nmap (hs s))) d (fire_time c d now)
      end)).
  { intros d Hd.
    assert (Hg : forall x, In x (group_of d (nmap (hs s))) -> Orig c h0 now (fst x) (snd x) d).
    { intros x Hx. apply group_of_in in Hx. exact (TP_N _ _ _ _ P _ _ _ Hx). }
    destruct (group_of d (nmap (hs s))) as [|x [|y g]] eqn:Eg; try (apply FG; assumption).
    destruct (pop_rev (dr s)) as [ro d'].
    assert (P' : TP c h0 now {| hs := hs s; dr := d'; outs := outs s |}) by (destruct P; split; assumption).
    apply FG; [exact Hd| |exact P'].
    destruct ro; [|exact Hg]. intros z Hz. apply Hg. apply in_rev. exact Hz. }
  assert (FC : forall cna cd, cd < now ->
            TP c h0 now (fire_challenge (with_clock c (fire_time c cd now)) s cna (fire_time c cd now))).
  { intros cna cd Hd. apply (TP_clock c (fire_time c cd now)).
    apply (TP_fire_challenge (with_clock c (fire_time c cd now)) h0 now s cna cd Hd). apply TP_clock. exact P. }
  destruct (min_deadline_nmap (nmap (hs s)) None) as [[[rn ra] rd]|];
  destruct (min_deadline_ch (challenges (hs s)) None) as [[[cna cc] cd]|].
  - destruct (N.ltb rd now) eqn:E1; cbn [andb].
    + destruct (negb (N.ltb cd now) || N.leb rd cd).
      * apply IH. apply FR. apply N.ltb_lt. exact E1.
      * destruct (N.ltb cd now) eqn:E2; [|exact P]. apply IH. apply FC. apply N.ltb_lt; exact E2.
    + destruct (N.ltb cd now) eqn:E2; [|exact P]. apply IH. apply FC. apply N.ltb_lt; exact E2.
  - destruct (N.ltb rd now) eqn:E1; [|exact P]. apply IH. apply FR. apply N.ltb_lt. exact E1.
  - destruct (N.ltb cd now) eqn:E2; [|exact P]. apply IH. apply FC. apply N.ltb_lt; exact E2.
  - exact P.
Qed.

Local Transparent tick.
Lemma TP_tick c h now d : KeyWF h -> TP c h now (tick c h now d).
Proof.
  intros K. unfold tick. apply (TP_clock c now). apply TP_fire_due. split; cbn [hs outs].
  - exact K.
  - apply NmExt_refl.
  - apply HM_refl.
  - intros rid [].
Qed.
Global Opaque tick.

(* timeout_justified, step level: a timeout reported by a step at time [now] is justified by a
   request timer (n, na, dl) whose deadline has passed, dl < now, and which is a timer of the state
   before the step or was armed by the timer stream of this step (cfg_grid <> 0 only: at a fire time
   of this step); the failed request is held in the state before the step and is a request to the
   node address na of the timer. *)
Theorem step_timeout_due c h e now d rid :
  KeyWF h ->
  In (OEvent (HRequestFailed rid ERR_TIMEOUT)) (snd (step c h e now d)) ->
  exists n na dl, dl < now /\ Orig c h now n na dl /\ HeldC h rid na.
Proof.
  intros K Hin. rewrite step_eq in Hin. cbn [snd] in Hin.
  destruct (OE_dispatch (with_clock c now) (tick c h now d) e now) as (lo & Eo & Fo). rewrite Eo in Hin.
  apply in_app_or in Hin. destruct Hin as [Hin|Hin].
  - exact (TP_W _ _ _ _ (TP_tick c h now d K) rid Hin).
  - rewrite Forall_forall in Fo. exfalso. exact (Fo _ Hin rid ERR_TIMEOUT eq_refl eq_refl).
Qed.

(* ------------------------------------------------------------------------------------------ *)
(* runs: every timer was armed by some step and has been in the nonce map ever since *)

Lemma run_app_fst c : forall a h b, fst (run c h (a ++ b)) = fst (run c (fst (run c h a)) b).
Proof.
  induction a as [|[[e now] d] rest IH]; intros h b; [reflexivity|].
  cbn [app]. rewrite !run_fst_cons'. apply IH.
Qed.

(* the timer (n, na, dl) was armed at time t0 by a step of evs (at the time of the step, or at a fire
   time of its timer stream) and is in the nonce map after that step and after every later step *)
Definition armed_by (c : config) (evs : list (event * N * draws)) (n : nonce) (na : naddr) (dl t0 : N) : Prop :=
  exists pre e t d post, evs = pre ++ (e, t, d) :: post /\ action_time c t t0 /\ dl = t0 + cfg_timeout c /\
    forall post1 post2, post = post1 ++ post2 ->
      In (n, na, dl) (nmap (fst (run c init_state (pre ++ (e, t, d) :: post1)))).

Theorem timer_armed c evs n na dl :
  In (n, na, dl) (nmap (fst (run c init_state evs))) -> exists t0, armed_by c evs n na dl t0.
Proof.
  induction evs as [|[[e t] d] evs' IH] using rev_ind; intros Hin; [destruct Hin|].
  pose proof Hin as Hin0. rewrite run_app_fst, run_fst_cons' in Hin. cbn [run fst] in Hin.
  destruct (step_timer_origin c _ e t d n na dl Hin) as [Hold|(t0 & Ht0 & Hdl)].
  - destruct (IH Hold) as (t0 & pre & e0 & t' & d' & post & E & Ha & Hdl & Hc).
    exists t0, pre, e0, t', d', (post ++ [(e, t, d)]). split; [|split; [exact Ha|split; [exact Hdl|]]].
    + rewrite E, <- app_assoc. reflexivity.
    + intros post1 post2 Ep. destruct post2 as [|y0 p0].
      * rewrite app_nil_r in Ep. subst post1.
        rewrite app_comm_cons, app_assoc, <- E. exact Hin0.
      * destruct (@exists_last _ (y0 :: p0)) as (p & y & Ey); [discriminate|].
        rewrite Ey, app_assoc in Ep. apply app_inj_tail in Ep. destruct Ep as [Ep _].
        apply (Hc post1 p). exact Ep.
  - exists t0, evs', e, t, d, []. split; [reflexivity|split; [exact Ht0|split; [exact Hdl|]]].
    intros post1 post2 Ep. destruct post1; [|discriminate]. exact Hin0.
Qed.

(* timeout_justified: in any run from the initial state, if the step (e, now, d) after the events
   [pre] reports a timeout for request rid, then there are a node address na and a request timer
   (n, na, dl) such that: rid is a request to na held by the handler before the step; the deadline
   dl = t0 + cfg_timeout has passed (t0 + cfg_timeout < now); and the timer was armed at time t0
   by an earlier step and has been in the nonce map ever since (a response to its request would have
   removed it), or - with a clock grid only - it was armed by the timer stream of this very step at
   an earlier fire time t0. *)
Theorem timeout_justified_run c pre e now d rid :
  let h := fst (run c init_state pre) in
  In (OEvent (HRequestFailed rid ERR_TIMEOUT)) (snd (step c h e now d)) ->
  exists n na dl t0,
    dl = t0 + cfg_timeout c /\ t0 + cfg_timeout c < now /\ HeldC h rid na /\
    (armed_by c pre n na dl t0 \/ tick_time c now t0).
Proof.
  intros h Hin.
  destruct (step_timeout_due c h e now d rid (reachable_KeyWF c pre) Hin) as (n & na & dl & Hlt & Ho & Hh).
  destruct Ho as [Ho|(t0 & Ht0 & Hdl)].
  - destruct (timer_armed c pre n na dl Ho) as (t0 & Ha). pose proof Ha as (_ & _ & _ & _ & _ & _ & _ & Hdl & _).
    exists n, na, dl, t0. split; [exact Hdl|split; [rewrite <- Hdl; exact Hlt|split; [exact Hh|left; exact Ha]]].
  - exists n, na, dl, t0. split; [exact Hdl|split; [rewrite <- Hdl; exact Hlt|split; [exact Hh|right; exact Ht0]]].
Qed.

(* without a clock grid timers fire, and are re-armed, at the time of the step *)
Lemma fire_time_nogrid c d0 now : cfg_grid c = 0 -> fire_time c d0 now = now.
Proof. intros E. unfold fire_time. rewrite E. reflexivity. Qed.

Corollary timeout_justified_realtime c pre e now d rid :
  cfg_grid c = 0 ->
  let h := fst (run c init_state pre) in
  In (OEvent (HRequestFailed rid ERR_TIMEOUT)) (snd (step c h e now d)) ->
  exists n na pre1 e1 t1 d1 mid,
    pre = pre1 ++ (e1, t1, d1) :: mid /\ t1 + cfg_timeout c < now /\ HeldC h rid na /\
    forall mid1 mid2, mid = mid1 ++ mid2 ->
      In (n, na, t1 + cfg_timeout c) (nmap (fst (run c init_state (pre1 ++ (e1, t1, d1) :: mid1)))).
Proof.
  intros Eg h Hin.
  destruct (timeout_justified_run c pre e now d rid Hin) as (n & na & dl & t0 & Hdl & Hlt & Hh & Ha).
  destruct Ha as [(pre1 & e1 & t1 & d1 & mid & E & Hat & _ & Hc)|(d0 & Hd0 & Ht0)].
  - assert (Et : t0 = t1).
    { destruct Hat as [Hat|(d0 & _ & Hat)]; [exact Hat|]. rewrite fire_time_nogrid in Hat by exact Eg. exact Hat. }
    subst t0 dl. exists n, na, pre1, e1, t1, d1, mid. auto.
  - rewrite fire_time_nogrid in Ht0 by exact Eg. subst t0. lia.
Qed.
