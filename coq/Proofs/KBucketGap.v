(* C08, part 3: the three public closest iterators (closest_keys, closest_values,
   closest_values_predicate) yield the projection of one and the same node sequence - the one of
   [t_closest], which Proofs/ClosestTable.v shows to be the sorted full scan - and leave the table in
   the same state; the predicate variant's flags are the predicate applied to the stored value. *)
From Coq Require Import List Arith NArith Lia Bool Permutation Sorted.
From Discv5V Require Import Generated.Params Lib.ListX Lib.ListY Lib.NBits Model.KBucket
  Proofs.ClosestOrder Proofs.KBucketInv Proofs.KBucketTable Proofs.KBucketPending Proofs.ClosestTable.
Import ListNotations.

Section MapVariant.
  Variable A : Type.
  Variable fm : node -> A.
  Variable key_of : A -> N.
  (* the projected item refers to the key of the node it was built from
     (AsRef<Key> of ClosestValue / PredicateValue / Key itself) *)
  Hypothesis key_fm : forall n, key_of (fm n) = nkey n.

  Lemma insert_sorted_by_map target n l :
    insert_sorted_by A key_of target (fm n) (map fm l) = map fm (insert_sorted target n l).
  Proof.
    induction l as [|x l IH]; cbn [map insert_sorted_by insert_sorted]; [reflexivity|].
    rewrite !key_fm. destruct (N.ltb _ _); cbn [map]; [reflexivity|]. now rewrite IH.
  Qed.

  Lemma sort_by_distance_by_map target l :
    sort_by_distance_by A key_of target (map fm l) = map fm (sort_by_distance target l).
  Proof.
    unfold sort_by_distance_by, sort_by_distance.
    induction l as [|x l IH]; cbn [map fold_right]; [reflexivity|].
    rewrite IH. apply insert_sorted_by_map.
  Qed.

  Lemma closest_walk_map_spec c target now order : forall t,
    closest_walk_map A fm key_of c t target order now =
    (fst (closest_walk c t target order now), map fm (snd (closest_walk c t target order now))).
  Proof.
    induction order as [|i rest IH]; intros t; cbn [closest_walk_map closest_walk fst snd map]; [reflexivity|].
    destruct (applied_bucket c t i now) as [b app].
    rewrite IH.
    destruct (closest_walk c (set_bucket t i b app) target rest now) as [t2 out].
    cbn [fst snd]. rewrite map_app, sort_by_distance_by_map. reflexivity.
  Qed.

  Theorem t_closest_map_spec fixed c t target now :
    t_closest_map A fm key_of fixed c t target now =
    (fst (t_closest fixed c t target now), map fm (snd (t_closest fixed c t target now))).
  Proof. unfold t_closest_map, t_closest. apply closest_walk_map_spec. Qed.
End MapVariant.

Definition cv_of (n : node) : closest_value := {| cv_key := nkey n; cv_value := nval n |}.
Definition pv_of (predicate : val -> bool) (n : node) : predicate_value :=
  {| pv_key := nkey n; pv_match := predicate (nval n); pv_value := nval n |}.

(* all three variants are projections of the node sequence of t_closest and end in its table *)
Theorem closest_variants_spec fixed predicate c t target now :
  let rn := t_closest fixed c t target now in
  t_closest_keys fixed c t target now = (fst rn, map nkey (snd rn)) /\
  t_closest_values fixed c t target now = (fst rn, map cv_of (snd rn)) /\
  t_closest_values_predicate fixed predicate c t target now = (fst rn, map (pv_of predicate) (snd rn)).
Proof.
  cbv zeta. split; [|split].
  - unfold t_closest_keys. apply t_closest_map_spec. reflexivity.
  - unfold t_closest_values. apply (t_closest_map_spec closest_value cv_of cv_key). reflexivity.
  - unfold t_closest_values_predicate.
    apply (t_closest_map_spec predicate_value (pv_of predicate) pv_key). reflexivity.
Qed.

(* "the predicate variant yields the same sequence with correct match flags": the same
   (key, value) sequence as closest_values, the same keys as closest_keys, every flag is the
   predicate applied to the value next to it, and the table is left in the same state *)
Theorem predicate_variant_same_sequence fixed predicate c t target now :
  let rp := t_closest_values_predicate fixed predicate c t target now in
  let rv := t_closest_values fixed c t target now in
  let rk := t_closest_keys fixed c t target now in
  fst rp = fst rv /\ fst rp = fst rk /\
  map (fun x => (pv_key x, pv_value x)) (snd rp) = map (fun x => (cv_key x, cv_value x)) (snd rv) /\
  map pv_key (snd rp) = snd rk /\
  map cv_key (snd rv) = snd rk /\
  Forall (fun x => pv_match x = predicate (pv_value x)) (snd rp).
Proof.
  cbv zeta.
  destruct (closest_variants_spec fixed predicate c t target now) as (Hk & Hv & Hp).
  rewrite Hk, Hv, Hp. cbn [fst snd]. rewrite !map_map. cbn [pv_of cv_of pv_key pv_value cv_key cv_value].
  repeat split; try reflexivity.
  apply Forall_forall. intros x Hx. apply in_map_iff in Hx. destruct Hx as (n & <- & _). reflexivity.
Qed.

Lemma SS_map_iff {A B} (f : A -> B) (R : B -> B -> Prop) l :
  StronglySorted (fun a b => R (f a) (f b)) l -> StronglySorted R (map f l).
Proof.
  induction 1 as [|x l Hs IH Hf]; cbn [map]; constructor; [exact IH|].
  apply Forall_forall. intros y Hy. apply in_map_iff in Hy. destruct Hy as (z & <- & Hz).
  rewrite Forall_forall in Hf. now apply Hf.
Qed.

(* the predicate variant on a table satisfying the C07 invariant: every stored node exactly once
   (as (key, value) pairs: a permutation of the full scan of the table after the pending nodes were
   applied), in strictly increasing XOR distance to the target, each with the correct flag *)
Theorem predicate_variant_exact predicate c t target now :
  TInv c t -> (local t < 2 ^ NUM_BUCKETS)%N -> (target < 2 ^ NUM_BUCKETS)%N ->
  let t' := fst (t_closest_values_predicate true predicate c t target now) in
  let out := snd (t_closest_values_predicate true predicate c t target now) in
  Permutation (map (fun x => (pv_key x, pv_value x)) out) (map (fun n => (nkey n, nval n)) (all_nodes t')) /\
  StronglySorted (fun a b => (N.lxor target (pv_key a) < N.lxor target (pv_key b))%N) out /\
  Forall (fun x => pv_match x = predicate (pv_value x)) out /\
  TInv c t'.
Proof.
  intros HT Hl Ht. cbv zeta.
  destruct (closest_variants_spec true predicate c t target now) as (_ & _ & Hp). rewrite Hp. cbn [fst snd].
  destruct (closest_exact c t target now HT Hl Ht) as (Hperm & Hss & Hinv).
  split; [|split; [|split]].
  - rewrite map_map. cbn [pv_of pv_key pv_value]. apply Permutation_map. exact Hperm.
  - apply (SS_map_iff (pv_of predicate)
             (fun a b => (N.lxor target (pv_key a) < N.lxor target (pv_key b))%N)). exact Hss.
  - apply Forall_forall. intros x Hx. apply in_map_iff in Hx. destruct Hx as (n & <- & _). reflexivity.
  - exact Hinv.
Qed.

(* the same for closest_keys and closest_values *)
Theorem keys_values_variants_exact c t target now :
  TInv c t -> (local t < 2 ^ NUM_BUCKETS)%N -> (target < 2 ^ NUM_BUCKETS)%N ->
  let t' := fst (t_closest true c t target now) in
  let ks := snd (t_closest_keys true c t target now) in
  let vs := snd (t_closest_values true c t target now) in
  fst (t_closest_keys true c t target now) = t' /\ fst (t_closest_values true c t target now) = t' /\
  Permutation ks (map nkey (all_nodes t')) /\ NoDup ks /\
  StronglySorted (fun a b => (N.lxor target a < N.lxor target b)%N) ks /\
  Permutation (map (fun x => (cv_key x, cv_value x)) vs) (map (fun n => (nkey n, nval n)) (all_nodes t')) /\
  StronglySorted (fun a b => (N.lxor target (cv_key a) < N.lxor target (cv_key b))%N) vs.
Proof.
  intros HT Hl Ht. cbv zeta.
  destruct (closest_variants_spec true (fun _ => true) c t target now) as (Hk & Hv & _). rewrite Hk, Hv. cbn [fst snd].
  destruct (closest_exact c t target now HT Hl Ht) as (Hperm & Hss & Hinv).
  assert (Hks : StronglySorted (fun a b => (N.lxor target a < N.lxor target b)%N)
                  (map nkey (snd (t_closest true c t target now)))).
  { apply (SS_map_iff nkey (fun a b => (N.lxor target a < N.lxor target b)%N)). exact Hss. }
  split; [reflexivity|]. split; [reflexivity|]. split; [apply Permutation_map; exact Hperm|].
  split.
  { clear - Hks. induction Hks as [|x l Hs IH Hf]; constructor; [|exact IH].
    intros Hin. rewrite Forall_forall in Hf. specialize (Hf x Hin). lia. }
  split; [exact Hks|]. split.
  - rewrite map_map. cbn [cv_of cv_key cv_value]. apply Permutation_map. exact Hperm.
  - apply (SS_map_iff cv_of (fun a b => (N.lxor target (cv_key a) < N.lxor target (cv_key b))%N)). exact Hss.
Qed.

(* ------------------------------------------------------------------------------------------ *)
(* C07: the node evicted by a pending node is the least-recently-active disconnected one: under
   the invariant with stamps, no disconnected node of the bucket has an earlier last status report *)
Theorem evicted_is_least_recently_active c t0 loc i b now ins e :
  BInv c (Some t0) loc i b ->
  snd (b_apply_pending c b now) = Some (ins, Some e) ->
  exists h rest, nodes b = h :: rest /\ nkey h = e /\ nconn h = false /\ is_full b = true /\
    forall n, In n (nodes b) -> nconn n = false -> (nstamp h <= nstamp n)%N.
Proof.
  intros HB Hs. pose proof (apply_pending_spec c b now) as S. cbv zeta in S. rewrite Hs in S.
  destruct S as (p & _ & _ & _ & _ & _ & Hfull & h & rest & En & -> & Hh & _).
  exists h, rest. repeat split; auto.
  intros n Hn Hd.
  destruct (bi_split _ _ _ _ _ HB) as (D & C & S1 & S2 & S3 & _ & S5 & _ & _).
  rewrite En in S1.
  destruct D as [|d D'].
  - (* no disconnected prefix: the head would be connected *)
    cbn [app] in S1. rewrite <- S1 in S3. inversion S3; subst. congruence.
  - cbn [app] in S1. inversion S1; subst d.
    assert (HnD : In n (h :: D')).
    { rewrite En, S1 in Hn. cbn [app] in Hn. rewrite app_comm_cons in Hn.
      apply in_app_or in Hn. destruct Hn as [Hn|Hn]; [exact Hn|].
      rewrite Forall_forall in S3. specialize (S3 n Hn). congruence. }
    destruct HnD as [<-|HnD]; [lia|].
    cbn [map] in S5. inversion S5 as [|? ? _ Hf]; subst. rewrite Forall_forall in Hf.
    apply Hf. now apply in_map.
Qed.

Lemma K_is_16 : K = 16. Proof. reflexivity. Qed.
Lemma NB_is_256 : NB = 256. Proof. reflexivity. Qed.

(* C07, "a pending node enters a FULL bucket only ...": the only bucket operations that can add a
   key to [nodes] are b_insert and b_apply_pending (b_remove ends with b_apply_pending); b_insert
   never touches the nodes of a full bucket, and the update operations never add a key. *)
Lemma b_insert_full_nodes_unchanged c b n now :
  is_full b = true -> nodes (fst (b_insert c b n now)) = nodes b.
Proof.
  intros Hf. unfold b_insert. rewrite Hf.
  destruct (position _ _); [reflexivity|].
  destruct (negb _); [reflexivity|].
  destruct (nconn (set_stamp n now)); [|reflexivity].
  destruct (_ && _); [reflexivity|].
  destruct (fcp b) as [[|q]|], (pend b); try reflexivity; destruct (nodes b) eqn:En; cbn [fst nodes]; rewrite ?En; reflexivity.
Qed.

Lemma b_insert_node_keys c b n now k :
  In k (map nkey (nodes (fst (b_insert c b n now)))) -> In k (map nkey (nodes b)) \/ (k = nkey n /\ is_full b = false).
Proof.
  destruct (is_full b) eqn:Hf.
  - rewrite b_insert_full_nodes_unchanged by exact Hf. auto.
  - unfold b_insert. rewrite Hf.
    assert (Hclear : forall (flag : bool) b', nodes (if flag then {| nodes := nodes b'; fcp := fcp b'; pend := None |} else b') = nodes b').
    { intros [|] b'; reflexivity. }
    destruct (position _ _); [auto|].
    destruct (negb _); [auto|].
    destruct (nconn (set_stamp n now)).
    + destruct (_ && _); [auto|]. cbn [fst]. rewrite Hclear. cbn [nodes]. rewrite map_app, in_app_iff.
      intros [H|[<-|[]]]; auto.
    + destruct (fcp b); cbn [fst]; rewrite Hclear; cbn [nodes].
      * rewrite map_insert_at. intros H. apply In_insert_at in H. destruct H as [->|H]; auto.
      * rewrite map_app, in_app_iff. intros [H|[<-|[]]]; auto.
Qed.

Lemma b_update_status_node_keys c b k0 conn dir now k :
  In k (map nkey (nodes (fst (b_update_status c b k0 conn dir now)))) -> In k (map nkey (nodes b)).
Proof.
  unfold b_update_status. destruct (position k0 (nodes b)) as [pos|] eqn:Hpos.
  - destruct (position_some _ _ _ Hpos) as (old & Hn & Hk). rewrite Hn. cbv zeta.
    match goal with |- context [b_insert c ?b1 ?n now] => set (bb := b1); set (nn := n) end.
    assert (H1 : In k (map nkey (nodes (fst (b_insert c bb nn now)))) -> In k (map nkey (nodes b))).
    { intros H. apply b_insert_node_keys in H. destruct H as [H|(-> & _)].
      - unfold bb in H. cbn [nodes] in H. apply in_map_iff in H. destruct H as (x & <- & Hx).
        apply in_map. eapply In_remove_at; eauto.
      - unfold nn. cbn [nkey]. apply in_map. eapply nth_error_In; eauto. }
    destruct (b_insert c bb nn now) as [b2 r]. cbn [fst] in *. destruct r; exact H1.
  - destruct (pend b) as [p|]; [|auto]. destruct (N.eqb _ _); auto.
Qed.

Lemma b_update_value_node_keys c b k0 v k :
  In k (map nkey (nodes (fst (b_update_value c b k0 v)))) -> In k (map nkey (nodes b)).
Proof.
  unfold b_update_value. destruct (position k0 (nodes b)) as [pos|] eqn:Hpos.
  - destruct (position_some _ _ _ Hpos) as (old & Hn & Hk). rewrite Hn.
    destruct (val_eqb _ _); [auto|]. cbv zeta.
    destruct (negb _); cbn [fst nodes].
    + intros H. apply in_map_iff in H. destruct H as (x & <- & Hx). apply in_map. eapply In_remove_at; eauto.
    + rewrite map_insert_at. intros H. apply In_insert_at in H. destruct H as [->|H].
      * cbn [set_val nkey]. apply in_map. eapply nth_error_In; eauto.
      * apply in_map_iff in H. destruct H as (x & <- & Hx). apply in_map. eapply In_remove_at; eauto.
  - destruct (pend b) as [p|]; [|auto]. destruct (N.eqb _ _); auto.
Qed.

Lemma b_update_pending_nodes b conn inc : nodes (b_update_pending b conn inc) = nodes b.
Proof. unfold b_update_pending. destruct (pend b); reflexivity. Qed.

(* ------------------------------------------------------------------------------------------ *)
(* C07, "a connected node is never evicted in favour of a pending one": no operation drops a
   connected node from the nodes of its bucket unless the operation is addressed to that node
   (remove, a status / record update refused by a limit).  The node stays the very same record
   (key, value, status, direction, stamp). *)

Theorem apply_pending_never_evicts_connected c b now n :
  In n (nodes b) -> nconn n = true -> In n (nodes (fst (b_apply_pending c b now))).
Proof.
  intros Hn Hc. pose proof (apply_pending_spec c b now) as S. cbv zeta in S.
  destruct (snd (b_apply_pending c b now)) as [[ins ev]|].
  - destruct S as (p & _ & _ & _ & _ & _ & S). destruct ev as [e|].
    + destruct S as (_ & h & rest & En & _ & Hh & HP).
      apply (Permutation_in _ (Permutation_sym HP)). right.
      rewrite En in Hn. destruct Hn as [<-|Hn]; [congruence|exact Hn].
    + destruct S as (_ & HP). apply (Permutation_in _ (Permutation_sym HP)). right. exact Hn.
  - destruct S as (S & _). rewrite S. exact Hn.
Qed.

(* what apply_pending can remove from the nodes: only the head of a full bucket, disconnected,
   and only when there is a pending node whose timeout has elapsed *)
Theorem apply_pending_departures c b now n :
  In n (nodes b) -> ~ In n (nodes (fst (b_apply_pending c b now))) ->
  nconn n = false /\ is_full b = true /\ (exists rest, nodes b = n :: rest) /\
  exists p, pend b = Some p /\ (preplace p <= now)%N.
Proof.
  intros Hn Hout. pose proof (apply_pending_spec c b now) as S. cbv zeta in S.
  destruct (snd (b_apply_pending c b now)) as [[ins ev]|].
  - destruct S as (p & Ep & Hle & _ & _ & _ & S). destruct ev as [e|].
    + destruct S as (Hf & h & rest & En & _ & Hh & HP).
      rewrite En in Hn. destruct Hn as [<-|Hn].
      * repeat split; auto; eauto.
      * exfalso. apply Hout. apply (Permutation_in _ (Permutation_sym HP)). right. exact Hn.
    + destruct S as (_ & HP). exfalso. apply Hout.
      apply (Permutation_in _ (Permutation_sym HP)). right. exact Hn.
  - destruct S as (S & _). rewrite S in Hout. contradiction.
Qed.

(* [Keeps k0 b b']: every connected node of [b] whose key is not [k0] is a node of [b'] *)
Definition Keeps (k0 : option N) (b b' : bucket) : Prop :=
  forall n, In n (nodes b) -> nconn n = true -> k0 <> Some (nkey n) -> In n (nodes b').

Lemma keeps_refl k0 b : Keeps k0 b b.
Proof. intros n H _ _. exact H. Qed.

Lemma keeps_trans k0 b b' b'' : Keeps k0 b b' -> Keeps k0 b' b'' -> Keeps k0 b b''.
Proof. intros H1 H2 n Hn Hc Hk. apply H2; auto. Qed.

Lemma keeps_same_nodes k0 b b' : nodes b' = nodes b -> Keeps k0 b b'.
Proof. intros E n H _ _. rewrite E. exact H. Qed.

Lemma keeps_apply k0 c b now : Keeps k0 b (fst (b_apply_pending c b now)).
Proof. intros n Hn Hc _. apply apply_pending_never_evicts_connected; assumption. Qed.

Lemma b_insert_keeps_nodes c b n0 now n : In n (nodes b) -> In n (nodes (fst (b_insert c b n0 now))).
Proof.
  intros Hn. unfold b_insert.
  assert (Hclear : forall (flag : bool) b', nodes (if flag then {| nodes := nodes b'; fcp := fcp b'; pend := None |} else b') = nodes b').
  { intros [|] b'; reflexivity. }
  destruct (position _ _); [exact Hn|].
  destruct (negb _); [exact Hn|].
  destruct (nconn (set_stamp n0 now)).
  - destruct (_ && _); [exact Hn|].
    destruct (is_full b).
    + destruct (fcp b) as [[|q]|], (pend b); try exact Hn; destruct (nodes b) eqn:En; cbn [fst nodes]; rewrite ?En; exact Hn.
    + cbn [fst]. rewrite Hclear. cbn [nodes]. apply in_or_app. left. exact Hn.
  - destruct (is_full b); [exact Hn|].
    destruct (fcp b); cbn [fst]; rewrite Hclear; cbn [nodes].
    + apply In_insert_at. right. exact Hn.
    + apply in_or_app. left. exact Hn.
Qed.

Lemma keeps_insert k0 c b n0 now : Keeps k0 b (fst (b_insert c b n0 now)).
Proof. intros n Hn _ _. apply b_insert_keeps_nodes. exact Hn. Qed.

Lemma In_remove_at_other {A} i (x y : A) l :
  nth_error l i = Some y -> In x l -> x <> y -> In x (remove_at i l).
Proof.
  intros Hn Hx Hne. pose proof (remove_at_perm i y l Hn) as HP.
  apply (Permutation_in _ HP) in Hx. destruct Hx as [E|Hx]; [congruence|exact Hx].
Qed.

Lemma keeps_status c b k conn dir now : Keeps (Some k) b (fst (b_update_status c b k conn dir now)).
Proof.
  intros n Hn _ Hk. unfold b_update_status. destruct (position k (nodes b)) as [pos|] eqn:Hpos.
  - destruct (position_some _ _ _ Hpos) as (old & Ho & Hko). rewrite Ho. cbv zeta.
    match goal with |- context [b_insert c ?b1 ?nn now] => set (bb := b1); set (n1 := nn) end.
    assert (H1 : In n (nodes (fst (b_insert c bb n1 now)))).
    { apply b_insert_keeps_nodes. unfold bb. cbn [nodes].
      eapply In_remove_at_other; [exact Ho|exact Hn|]. intros ->. apply Hk. now rewrite Hko. }
    destruct (b_insert c bb n1 now) as [b2 r]. cbn [fst] in *. destruct r; exact H1.
  - destruct (pend b) as [p|]; [|exact Hn]. destruct (N.eqb _ _); exact Hn.
Qed.

Lemma keeps_value c b k v : Keeps (Some k) b (fst (b_update_value c b k v)).
Proof.
  intros n Hn _ Hk. unfold b_update_value. destruct (position k (nodes b)) as [pos|] eqn:Hpos.
  - destruct (position_some _ _ _ Hpos) as (old & Ho & Hko). rewrite Ho.
    destruct (val_eqb _ _); [exact Hn|]. cbv zeta.
    assert (Hr : In n (remove_at pos (nodes b))).
    { eapply In_remove_at_other; [exact Ho|exact Hn|]. intros ->. apply Hk. now rewrite Hko. }
    destruct (negb _); cbn [fst nodes]; [exact Hr|]. apply In_insert_at. right. exact Hr.
  - destruct (pend b) as [p|]; [|exact Hn]. destruct (N.eqb _ _); exact Hn.
Qed.

Lemma keeps_remove c b k now : Keeps (Some k) b (fst (b_remove c b k now)).
Proof.
  intros n Hn Hc Hk. unfold b_remove. destruct (position k (nodes b)) as [pos|] eqn:Hpos; [|exact Hn].
  destruct (position_some _ _ _ Hpos) as (old & Ho & Hko). cbv zeta. cbn [fst].
  apply apply_pending_never_evicts_connected; [|exact Hc]. cbn [nodes].
  eapply In_remove_at_other; [exact Ho|exact Hn|]. intros ->. apply Hk. now rewrite Hko.
Qed.

Lemma keeps_weaken k b b' : Keeps None b b' -> Keeps (Some k) b b'.
Proof. intros H n Hn Hc _. apply H; auto. discriminate. Qed.

(* the table *)
Definition TKeeps (k0 : option N) (t t' : table) : Prop :=
  forall j, Keeps k0 (get_bucket t j) (get_bucket t' j).

Lemma tkeeps_refl k0 t : TKeeps k0 t t.
Proof. intros j. apply keeps_refl. Qed.

Lemma tkeeps_trans k0 t t' t'' : TKeeps k0 t t' -> TKeeps k0 t' t'' -> TKeeps k0 t t''.
Proof. intros H1 H2 j. eapply keeps_trans; [apply H1|apply H2]. Qed.

Lemma tkeeps_set k0 t i b' app : Keeps k0 (get_bucket t i) b' -> TKeeps k0 t (set_bucket t i b' app).
Proof.
  intros H j. rewrite get_set_bucket.
  destruct (Nat.eqb_spec i j) as [<-|E]; cbn [andb]; [|apply keeps_refl].
  destruct (Nat.ltb i (length (buckets t))); [exact H|apply keeps_refl].
Qed.

Lemma keeps_applied k0 c t i now : Keeps k0 (get_bucket t i) (fst (applied_bucket c t i now)).
Proof. rewrite applied_bucket_fst. apply keeps_apply. Qed.

Definition addressed (o : op) : option N :=
  match o with
  | OInsertOrUpdate k _ _ _ | OUpdateStatus k _ _ | OUpdateNode k _ _ | ORemove k | OEntry k _ => Some k
  | _ => None
  end.

Lemma t_update_node_status_keeps c t k conn dir now :
  TKeeps (Some k) t (fst (t_update_node_status c t k conn dir now)).
Proof.
  unfold t_update_node_status. destruct (bucket_index (local t) k) as [i|]; [|apply tkeeps_refl].
  pose proof (keeps_applied (Some k) c t i now) as HA.
  destruct (applied_bucket c t i now) as [b app]. cbn [fst] in HA.
  pose proof (keeps_status c b k conn dir now) as HS.
  destruct (b_update_status c b k conn dir now) as [b' r]. cbn [fst] in *.
  apply tkeeps_set. eapply keeps_trans; eassumption.
Qed.

Lemma t_remove_keeps c t k now : TKeeps (Some k) t (fst (t_remove c t k now)).
Proof.
  unfold t_remove. destruct (bucket_index (local t) k) as [i|]; [|apply tkeeps_refl].
  pose proof (keeps_applied (Some k) c t i now) as HA.
  destruct (applied_bucket c t i now) as [b app]. cbn [fst] in HA.
  pose proof (keeps_remove c b k now) as HS.
  destruct (b_remove c b k now) as [b' r]. cbn [fst] in *.
  apply tkeeps_set. eapply keeps_trans; eassumption.
Qed.

Lemma t_update_node_keeps c t k v state now :
  TKeeps (Some k) t (fst (t_update_node c t k v state now)).
Proof.
  unfold t_update_node. destruct (bucket_index (local t) k) as [i|]; [|apply tkeeps_refl].
  pose proof (keeps_applied (Some k) c t i now) as HA.
  destruct (applied_bucket c t i now) as [b app]. cbn [fst] in HA.
  destruct (negb (passes_table_filter c t k v)).
  - cbn [fst]. apply tkeeps_set. eapply keeps_trans; [exact HA|apply keeps_remove].
  - pose proof (keeps_value c b k v) as HV.
    destruct (b_update_value c b k v) as [b1 ur]. cbn [fst] in HV.
    assert (H1 : Keeps (Some k) (get_bucket t i) b1) by (eapply keeps_trans; eassumption).
    assert (H2 : forall b2 sr, (b2, sr) = match state with
                                         | Some s => b_update_status c b1 k s None now
                                         | None => (b1, UNotModified)
                                         end -> Keeps (Some k) (get_bucket t i) b2).
    { intros b2 sr E. destruct state as [s|].
      - pose proof (keeps_status c b1 k s None now) as HS. rewrite <- E in HS. cbn [fst] in HS.
        eapply keeps_trans; eassumption.
      - inversion E; subst. exact H1. }
    destruct ur; try (cbn [fst]; apply tkeeps_set; exact H1);
      (destruct (match state with Some s => b_update_status c b1 k s None now | None => (b1, UNotModified) end)
         as [b2 sr] eqn:E; cbn [fst]; apply tkeeps_set; apply (H2 b2 sr); reflexivity).
Qed.

Lemma t_insert_or_update_keeps c t k v conn inc now :
  TKeeps (Some k) t (fst (t_insert_or_update c t k v conn inc now)).
Proof.
  unfold t_insert_or_update. destruct (bucket_index (local t) k) as [i|]; [|apply tkeeps_refl].
  pose proof (keeps_applied (Some k) c t i now) as HA.
  destruct (applied_bucket c t i now) as [b app]. cbn [fst] in HA.
  destruct (negb (passes_table_filter c t k v)).
  - cbn [fst]. apply tkeeps_set. eapply keeps_trans; [exact HA|apply keeps_remove].
  - destruct (position k (nodes b)).
    + pose proof (keeps_status c b k conn (Some inc) now) as HS.
      destruct (b_update_status c b k conn (Some inc) now) as [b1 sr]. cbn [fst] in HS.
      assert (H1 : Keeps (Some k) (get_bucket t i) b1) by (eapply keeps_trans; eassumption).
      pose proof (keeps_value c b1 k v) as HV.
      destruct (b_update_value c b1 k v) as [b2 vr]. cbn [fst] in HV.
      assert (H2 : Keeps (Some k) (get_bucket t i) b2) by (eapply keeps_trans; eassumption).
      destruct sr; cbn [fst]; apply tkeeps_set; assumption.
    + match goal with |- context [b_insert c b ?n0 now] =>
        pose proof (keeps_insert (Some k) c b n0 now) as HI; destruct (b_insert c b n0 now) as [b' r] end.
      cbn [fst] in *. apply tkeeps_set. eapply keeps_trans; eassumption.
Qed.

Lemma t_entry_keeps c t k a now : TKeeps (Some k) t (fst (t_entry c t k a now)).
Proof.
  unfold t_entry. destruct (bucket_index (local t) k) as [i|]; [|apply tkeeps_refl].
  pose proof (keeps_applied (Some k) c t i now) as HA.
  destruct (applied_bucket c t i now) as [b app]. cbn [fst] in HA.
  destruct (classify b k), a; cbn [fst]; try (apply tkeeps_set; exact HA);
    try (apply tkeeps_set; eapply keeps_trans; [exact HA|apply keeps_remove]).
  - pose proof (keeps_status c b k conn0 dir now) as HS.
    destruct (b_update_status c b k conn0 dir now) as [b' r]. cbn [fst] in *.
    apply tkeeps_set. eapply keeps_trans; eassumption.
  - apply tkeeps_set. eapply keeps_trans; [exact HA|].
    apply keeps_same_nodes. apply b_update_pending_nodes.
  - match goal with |- context [b_insert c b ?n0 now] =>
      pose proof (keeps_insert (Some k) c b n0 now) as HI; destruct (b_insert c b n0 now) as [b' r] end.
    cbn [fst] in *. apply tkeeps_set. eapply keeps_trans; eassumption.
Qed.

Lemma t_iter_keeps c t now : TKeeps None t (fst (t_iter c t now)).
Proof.
  intros j. destruct (t_iter_buckets c now t) as [Eb _].
  assert (E : get_bucket (fst (t_iter c t now)) j = fst (b_apply_pending c (get_bucket t j) now)).
  { unfold get_bucket. rewrite Eb.
    exact (map_nth (fun b => fst (b_apply_pending c b now)) (buckets t) empty_bucket j). }
  rewrite E. apply keeps_apply.
Qed.

Lemma nbd_apply_keeps c now ds : forall t cnt maxn, TKeeps None t (nbd_apply c t ds cnt maxn now).
Proof.
  induction ds as [|d ds IH]; intros t cnt maxn; [apply tkeeps_refl|]. cbn [nbd_apply].
  pose proof (keeps_apply None c (get_bucket t (N.to_nat (d - 1))) now) as HA.
  destruct (b_apply_pending c (get_bucket t (N.to_nat (d - 1))) now) as [b a]. cbn [fst] in HA.
  destruct a as [x|].
  - destruct (Nat.leb maxn (cnt + length (nodes b))).
    + apply tkeeps_set. exact HA.
    + eapply tkeeps_trans; [apply tkeeps_set; exact HA|apply IH].
  - eapply tkeeps_trans; [apply tkeeps_set; exact HA|apply IH].
Qed.

Lemma closest_walk_keeps c now target order : forall t,
  TKeeps None t (fst (closest_walk c t target order now)).
Proof.
  induction order as [|i order IH]; intros t; [apply tkeeps_refl|]. cbn [closest_walk].
  pose proof (keeps_applied None c t i now) as HA.
  destruct (applied_bucket c t i now) as [b app]. cbn [fst] in HA.
  specialize (IH (set_bucket t i b app)).
  destruct (closest_walk c (set_bucket t i b app) target order now) as [t2 out]. cbn [fst] in *.
  eapply tkeeps_trans; [apply tkeeps_set; exact HA|exact IH].
Qed.

Lemma t_force_ready_keeps t i now : TKeeps None t (t_force_ready t i now).
Proof.
  unfold t_force_ready. destruct (pend (get_bucket t i)); [|apply tkeeps_refl].
  apply tkeeps_set. apply keeps_same_nodes. reflexivity.
Qed.

Lemma t_take_applied_keeps t : TKeeps None t (fst (t_take_applied t)).
Proof. unfold t_take_applied. destruct (applied t); [apply tkeeps_refl|]. intros j. apply keeps_refl. Qed.

(* every operation of the table: a connected node that the operation is not addressed to is still
   a node of its bucket afterwards (same record, same status) *)
Theorem step_never_drops_connected fixed c t o now j n :
  In n (nodes (get_bucket t j)) -> nconn n = true -> addressed o <> Some (nkey n) ->
  In n (nodes (get_bucket (fst (step fixed c t o now)) j)).
Proof.
  intros Hn Hc Hk.
  assert (H : TKeeps (addressed o) t (fst (step fixed c t o now))).
  { destruct o; cbn [step addressed].
    - pose proof (t_insert_or_update_keeps c t k v conn inc now). destruct (t_insert_or_update c t k v conn inc now); assumption.
    - pose proof (t_update_node_status_keeps c t k conn dir now). destruct (t_update_node_status c t k conn dir now); assumption.
    - pose proof (t_update_node_keeps c t k v state now). destruct (t_update_node c t k v state now); assumption.
    - pose proof (t_remove_keeps c t k now). destruct (t_remove c t k now); assumption.
    - pose proof (t_entry_keeps c t k a now). destruct (t_entry c t k a now); assumption.
    - pose proof (t_iter_keeps c t now). destruct (t_iter c t now); assumption.
    - pose proof (t_take_applied_keeps t). destruct (t_take_applied t); assumption.
    - unfold t_nodes_by_distances. cbn [fst]. apply nbd_apply_keeps.
    - unfold t_closest. pose proof (closest_walk_keeps c now target (bucket_order fixed (N.lxor (local t) target)) t).
      destruct (closest_walk c t target _ now); assumption.
    - apply t_force_ready_keeps. }
  apply (H j n Hn Hc Hk).
Qed.

(* ------------------------------------------------------------------------------------------ *)
(* The (key, record) pairs of the table - nodes and pending slots - come from the operations: after
   any operation every pair was in the table before or is the pair the operation carries for the
   id it is addressed to.  Hence, if every operation offers a record only for the id it belongs to
   (the node id of a record is the hash of its key), every stored record sits under its own id:
   no operation writes the record of A into the entry of X. *)
From Discv5V Require Import Proofs.KBMembers.

Definition offered (o : op) : list (N * val) :=
  match o with
  | OInsertOrUpdate k v _ _ => [(k, v)]
  | OUpdateNode k v _ => [(k, v)]
  | OEntry k (AInsert v _ _) => [(k, v)]
  | _ => []
  end.

Lemma tmem_same_buckets t t' : buckets t' = buckets t -> tmem t' = tmem t.
Proof. unfold tmem. now intros ->. Qed.

Lemma t_iter_mem c t now x : In x (tmem (fst (t_iter c t now))) -> In x (tmem t).
Proof.
  destruct (t_iter_buckets c now t) as [Eb _]. unfold tmem. rewrite Eb.
  rewrite !in_flat_map. intros (b' & Hb' & Hx). apply in_map_iff in Hb'. destruct Hb' as (b & <- & Hb).
  exists b. split; [exact Hb|]. eapply b_apply_pending_mem. exact Hx.
Qed.

Lemma nbd_apply_mem c now ds x : forall t cnt maxn,
  In x (tmem (nbd_apply c t ds cnt maxn now)) -> In x (tmem t).
Proof.
  induction ds as [|d ds IH]; intros t cnt maxn H; [exact H|]. cbn [nbd_apply] in H.
  pose proof (b_apply_pending_mem c (get_bucket t (N.to_nat (d - 1))) now x) as HA.
  destruct (b_apply_pending c (get_bucket t (N.to_nat (d - 1))) now) as [b a]. cbn [fst] in HA.
  assert (HS : forall app, In x (tmem (set_bucket t (N.to_nat (d - 1)) b app)) -> In x (tmem t)).
  { intros app H'. apply set_bucket_mem in H'. destruct H' as [H'|H']; [|exact H'].
    eapply get_bucket_mem. apply HA. exact H'. }
  destruct a as [y|].
  - destruct (Nat.leb maxn (cnt + length (nodes b))); [eapply HS; exact H|].
    eapply HS. eapply IH. exact H.
  - eapply HS. eapply IH. exact H.
Qed.

Lemma closest_walk_mem c now target order x : forall t,
  In x (tmem (fst (closest_walk c t target order now))) -> In x (tmem t).
Proof.
  induction order as [|i order IH]; intros t H; [exact H|]. cbn [closest_walk] in H.
  pose proof (applied_bucket_mem c t i now x) as HA.
  destruct (applied_bucket c t i now) as [b app]. cbn [fst] in HA.
  specialize (IH (set_bucket t i b app)).
  destruct (closest_walk c (set_bucket t i b app) target order now) as [t2 out]. cbn [fst] in *.
  apply IH in H. apply set_bucket_mem in H. destruct H as [H|H]; [apply HA; exact H|exact H].
Qed.

Lemma t_force_ready_mem t i now x : In x (tmem (t_force_ready t i now)) -> In x (tmem t).
Proof.
  unfold t_force_ready. destruct (pend (get_bucket t i)) as [p|] eqn:Ep; [|auto].
  intros H. apply set_bucket_mem in H. destruct H as [H|H]; [|exact H].
  apply (get_bucket_mem t i). unfold bmem in *. cbn [nodes pend pn] in H. rewrite Ep. exact H.
Qed.

Theorem step_mem fixed c t o now x :
  In x (tmem (fst (step fixed c t o now))) -> In x (tmem t) \/ In x (offered o).
Proof.
  destruct o; cbn [step offered].
  - pose proof (t_insert_or_update_mem c t k v conn inc now x) as H.
    destruct (t_insert_or_update c t k v conn inc now). cbn [fst] in *.
    intros Hx. destruct (H Hx) as [H'|(-> & _)]; [left; exact H'|right; left; reflexivity].
  - pose proof (t_update_node_status_mem c t k conn dir now x) as H.
    destruct (t_update_node_status c t k conn dir now). cbn [fst] in *. auto.
  - pose proof (t_update_node_mem c t k v state now x) as H.
    destruct (t_update_node c t k v state now). cbn [fst] in *.
    intros Hx. destruct (H Hx) as [H'|(-> & _)]; [left; exact H'|right; left; reflexivity].
  - pose proof (t_remove_mem c t k now x) as H. destruct (t_remove c t k now). cbn [fst] in *. auto.
  - pose proof (t_entry_mem c t k a now x) as H. destruct (t_entry c t k a now). cbn [fst] in *.
    intros Hx. destruct (H Hx) as [H'|(v & cn & ic & -> & -> & _)]; [left; exact H'|right; left; reflexivity].
  - pose proof (t_iter_mem c t now x) as H. destruct (t_iter c t now). cbn [fst] in *. auto.
  - unfold t_take_applied. destruct (applied t); cbn [fst]; auto.
  - unfold t_nodes_by_distances. cbn [fst]. intros H. left. eapply nbd_apply_mem. exact H.
  - unfold t_closest.
    pose proof (closest_walk_mem c now target (bucket_order fixed (N.lxor (local t) target)) x t) as H.
    destruct (closest_walk c t target _ now). cbn [fst] in *. auto.
  - intros H. left. eapply t_force_ready_mem. exact H.
Qed.

(* any predicate on (id, record) pairs that holds for the table and for what the operation offers
   holds for the table afterwards *)
Theorem values_keyed_inv (P : N * val -> Prop) fixed c t o now :
  (forall x, In x (tmem t) -> P x) -> (forall x, In x (offered o) -> P x) ->
  forall x, In x (tmem (fst (step fixed c t o now))) -> P x.
Proof.
  intros Ht Ho x Hx. destruct (step_mem fixed c t o now x Hx) as [H|H]; auto.
Qed.

Lemma tmem_new loc : tmem (new_table loc) = [].
Proof.
  unfold tmem, new_table. cbn [buckets]. induction NB as [|n IH]; [reflexivity|]. cbn [repeat flat_map]. exact IH.
Qed.

Theorem values_keyed_run (P : N * val -> Prop) fixed c ops : forall t,
  (forall x, In x (tmem t) -> P x) ->
  Forall (fun o => forall x, In x (offered (fst o)) -> P x) ops ->
  forall x, In x (tmem (fst (run fixed c t ops))) -> P x.
Proof.
  induction ops as [|[o now] ops IH]; intros t Ht Hops; [exact Ht|]. cbn [run].
  inversion Hops as [|? ? Ho Hrest]; subst.
  pose proof (values_keyed_inv P fixed c t o now Ht Ho) as H1.
  destruct (step fixed c t o now) as [t1 r]. cbn [fst] in H1.
  specialize (IH t1 H1 Hrest). destruct (run fixed c t1 ops) as [t2 rs]. exact IH.
Qed.

(* with [owner]: the id a record belongs to *)
Theorem values_keyed_reachable (owner : N -> N) fixed c loc ops :
  Forall (fun o => forall k v, In (k, v) (offered (fst o)) -> owner (vid v) = k) ops ->
  forall k v, In (k, v) (tmem (fst (run fixed c (new_table loc) ops))) -> owner (vid v) = k.
Proof.
  intros Hops k v H.
  apply (values_keyed_run (fun x => owner (vid (snd x)) = fst x) fixed c ops (new_table loc)) in H; [exact H| |].
  - intros x Hx. rewrite tmem_new in Hx. destruct Hx.
  - eapply Forall_impl; [|exact Hops]. intros o Ho [k' v'] Hx. apply Ho. exact Hx.
Qed.
