(* C08, part 3: the three public closest iterators (closest_keys, closest_values,
   closest_values_predicate) yield the projection of one and the same node sequence - the one of
   [t_closest], which Proofs/ClosestTable.v shows to be the sorted full scan - and leave the table in
   the same state; the predicate variant's flags are the predicate applied to the stored value. *)
From Coq Require Import List Arith NArith Lia Bool Permutation Sorted.
From Discv5V Require Import Generated.Params Lib.ListX Lib.ListY Lib.NBits Model.KBucket
  Proofs.ClosestOrder Proofs.KBucketInv Proofs.KBucketTable Proofs.KBucketPending Proofs.ClosestTable.
Import ListNotations.

Section MapVariant.
  Variable A : Type.
  Variable fm : node -> A.
  Variable key_of : A -> N.
  (* the projected item refers to the key of the node it was built from
     (AsRef<Key> of ClosestValue / PredicateValue / Key itself) *)
  Hypothesis key_fm : forall n, key_of (fm n) = nkey n.

  Lemma insert_sorted_by_map target n l :
    insert_sorted_by A key_of target (fm n) (map fm l) = map fm (insert_sorted target n l).
  Proof.
    induction l as [|x l IH]; cbn [map insert_sorted_by insert_sorted]; [reflexivity|].
    rewrite !key_fm. destruct (N.ltb _ _); cbn [map]; [reflexivity|]. now rewrite IH.
  Qed.

  Lemma sort_by_distance_by_map target l :
    sort_by_distance_by A key_of target (map fm l) = map fm (sort_by_distance target l).
  Proof.
    unfold sort_by_distance_by, sort_by_distance.
    induction l as [|x l IH]; cbn [map fold_right]; [reflexivity|].
    rewrite IH. apply insert_sorted_by_map.
  Qed.

  Lemma closest_walk_map_spec c target now order : forall t,
    closest_walk_map A fm key_of c t target order now =
    (fst (closest_walk c t target order now), map fm (snd (closest_walk c t target order now))).
  Proof.
    induction order as [|i rest IH]; intros t; cbn [closest_walk_map closest_walk fst snd map]; [reflexivity|].
    destruct (applied_bucket c t i now) as [b app].
    rewrite IH.
    destruct (closest_walk c (set_bucket t i b app) target rest now) as [t2 out].
    cbn [fst snd]. rewrite map_app, sort_by_distance_by_map. reflexivity.
  Qed.

  Theorem t_closest_map_spec fixed c t target now :
    t_closest_map A fm key_of fixed c t target now =
    (fst (t_closest fixed c t target now), map fm (snd (t_closest fixed c t target now))).
  Proof. unfold t_closest_map, t_closest. apply closest_walk_map_spec. Qed.
End MapVariant.

Definition cv_of (n : node) : closest_value := {| cv_key := nkey n; cv_value := nval n |}.
Definition pv_of (predicate : val -> bool) (n : node) : predicate_value :=
  {| pv_key := nkey n; pv_match := predicate (nval n); pv_value := nval n |}.

(* all three variants are projections of the node sequence of t_closest and end in its table *)
Theorem closest_variants_spec fixed predicate c t target now :
  let rn := t_closest fixed c t target now in
  t_closest_keys fixed c t target now = (fst rn, map nkey (snd rn)) /\
  t_closest_values fixed c t target now = (fst rn, map cv_of (snd rn)) /\
  t_closest_values_predicate fixed predicate c t target now = (fst rn, map (pv_of predicate) (snd rn)).
Proof.
  cbv zeta. split; [|split].
  - unfold t_closest_keys. apply t_closest_map_spec. reflexivity.
  - unfold t_closest_values. apply (t_closest_map_spec closest_value cv_of cv_key). reflexivity.
  - unfold t_closest_values_predicate.
    apply (t_closest_map_spec predicate_value (pv_of predicate) pv_key). reflexivity.
Qed.

(* "the predicate variant yields the same sequence with correct match flags": the same
   (key, value) sequence as closest_values, the same keys as closest_keys, every flag is the
   predicate applied to the value next to it, and the table is left in the same state *)
Theorem predicate_variant_same_sequence fixed predicate c t target now :
  let rp := t_closest_values_predicate fixed predicate c t target now in
  let rv := t_closest_values fixed c t target now in
  let rk := t_closest_keys fixed c t target now in
  fst rp = fst rv /\ fst rp = fst rk /\
  map (fun x => (pv_key x, pv_value x)) (snd rp) = map (fun x => (cv_key x, cv_value x)) (snd rv) /\
  map pv_key (snd rp) = snd rk /\
  map cv_key (snd rv) = snd rk /\
  Forall (fun x => pv_match x = predicate (pv_value x)) (snd rp).
Proof.
  cbv zeta.
  destruct (closest_variants_spec fixed predicate c t target now) as (Hk & Hv & Hp).
  rewrite Hk, Hv, Hp. cbn [fst snd]. rewrite !map_map. cbn [pv_of cv_of pv_key pv_value cv_key cv_value].
  repeat split; try reflexivity.
  apply Forall_forall. intros x Hx. apply in_map_iff in Hx. destruct Hx as (n & <- & _). reflexivity.
Qed.

Lemma SS_map_iff {A B} (f : A -> B) (R : B -> B -> Prop) l :
  StronglySorted (fun a b => R (f a) (f b)) l -> StronglySorted R (map f l).
Proof.
  induction 1 as [|x l Hs IH Hf]; cbn [map]; constructor; [exact IH|].
  apply Forall_forall. intros y Hy. apply in_map_iff in Hy. destruct Hy as (z & <- & Hz).
  rewrite Forall_forall in Hf. now apply Hf.
Qed.

(* the predicate variant on a table satisfying the C07 invariant: every stored node exactly once
   (as (key, value) pairs: a permutation of the full scan of the table after the pending nodes were
   applied), in strictly increasing XOR distance to the target, each with the correct flag *)
Theorem predicate_variant_exact predicate c t target now :
  TInv c t -> (local t < 2 ^ NUM_BUCKETS)%N -> (target < 2 ^ NUM_BUCKETS)%N ->
  let t' := fst (t_closest_values_predicate true predicate c t target now) in
  let out := snd (t_closest_values_predicate true predicate c t target now) in
  Permutation (map (fun x => (pv_key x, pv_value x)) out) (map (fun n => (nkey n, nval n)) (all_nodes t')) /\
  StronglySorted (fun a b => (N.lxor target (pv_key a) < N.lxor target (pv_key b))%N) out /\
  Forall (fun x => pv_match x = predicate (pv_value x)) out /\
  TInv c t'.
Proof.
  intros HT Hl Ht. cbv zeta.
  destruct (closest_variants_spec true predicate c t target now) as (_ & _ & Hp). rewrite Hp. cbn [fst snd].
  destruct (closest_exact c t target now HT Hl Ht) as (Hperm & Hss & Hinv).
  split; [|split; [|split]].
  - rewrite map_map. cbn [pv_of pv_key pv_value]. apply Permutation_map. exact Hperm.
  - apply (SS_map_iff (pv_of predicate)
             (fun a b => (N.lxor target (pv_key a) < N.lxor target (pv_key b))%N)). exact Hss.
  - apply Forall_forall. intros x Hx. apply in_map_iff in Hx. destruct Hx as (n & <- & _). reflexivity.
  - exact Hinv.
Qed.

(* the same for closest_keys and closest_values *)
Theorem keys_values_variants_exact c t target now :
  TInv c t -> (local t < 2 ^ NUM_BUCKETS)%N -> (target < 2 ^ NUM_BUCKETS)%N ->
  let t' := fst (t_closest true c t target now) in
  let ks := snd (t_closest_keys true c t target now) in
  let vs := snd (t_closest_values true c t target now) in
  fst (t_closest_keys true c t target now) = t' /\ fst (t_closest_values true c t target now) = t' /\
  Permutation ks (map nkey (all_nodes t')) /\ NoDup ks /\
  StronglySorted (fun a b => (N.lxor target a < N.lxor target b)%N) ks /\
  Permutation (map (fun x => (cv_key x, cv_value x)) vs) (map (fun n => (nkey n, nval n)) (all_nodes t')) /\
  StronglySorted (fun a b => (N.lxor target (cv_key a) < N.lxor target (cv_key b))%N) vs.
Proof.
  intros HT Hl Ht. cbv zeta.
  destruct (closest_variants_spec true (fun _ => true) c t target now) as (Hk & Hv & _). rewrite Hk, Hv. cbn [fst snd].
  destruct (closest_exact c t target now HT Hl Ht) as (Hperm & Hss & Hinv).
  assert (Hks : StronglySorted (fun a b => (N.lxor target a < N.lxor target b)%N)
                  (map nkey (snd (t_closest true c t target now)))).
  { apply (SS_map_iff nkey (fun a b => (N.lxor target a < N.lxor target b)%N)). exact Hss. }
  split; [reflexivity|]. split; [reflexivity|]. split; [apply Permutation_map; exact Hperm|].
  split.
  { clear - Hks. induction Hks as [|x l Hs IH Hf]; constructor; [|exact IH].
    intros Hin. rewrite Forall_forall in Hf. specialize (Hf x Hin). lia. }
  split; [exact Hks|]. split.
  - rewrite map_map. cbn [cv_of cv_key cv_value]. apply Permutation_map. exact Hperm.
  - apply (SS_map_iff cv_of (fun a b => (N.lxor target (cv_key a) < N.lxor target (cv_key b))%N)). exact Hss.
Qed.

(* ------------------------------------------------------------------------------------------ *)
(* C07: the node evicted by a pending node is the least-recently-active disconnected one: under
   the invariant with stamps, no disconnected node of the bucket has an earlier last status report *)
Theorem evicted_is_least_recently_active c t0 loc i b now ins e :
  BInv c (Some t0) loc i b ->
  snd (b_apply_pending c b now) = Some (ins, Some e) ->
  exists h rest, nodes b = h :: rest /\ nkey h = e /\ nconn h = false /\ is_full b = true /\
    forall n, In n (nodes b) -> nconn n = false -> (nstamp h <= nstamp n)%N.
Proof.
  intros HB Hs. pose proof (apply_pending_spec c b now) as S. cbv zeta in S. rewrite Hs in S.
  destruct S as (p & _ & _ & _ & _ & _ & Hfull & h & rest & En & -> & Hh & _).
  exists h, rest. repeat split; auto.
  intros n Hn Hd.
  destruct (bi_split _ _ _ _ _ HB) as (D & C & S1 & S2 & S3 & _ & S5 & _ & _).
  rewrite En in S1.
  destruct D as [|d D'].
  - (* no disconnected prefix: the head would be connected *)
    cbn [app] in S1. rewrite <- S1 in S3. inversion S3; subst. congruence.
  - cbn [app] in S1. inversion S1; subst d.
    assert (HnD : In n (h :: D')).
    { rewrite En, S1 in Hn. cbn [app] in Hn. rewrite app_comm_cons in Hn.
      apply in_app_or in Hn. destruct Hn as [Hn|Hn]; [exact Hn|].
      rewrite Forall_forall in S3. specialize (S3 n Hn). congruence. }
    destruct HnD as [<-|HnD]; [lia|].
    cbn [map] in S5. inversion S5 as [|? ? _ Hf]; subst. rewrite Forall_forall in Hf.
    apply Hf. now apply in_map.
Qed.

Lemma K_is_16 : K = 16. Proof. reflexivity. Qed.
Lemma NB_is_256 : NB = 256. Proof. reflexivity. Qed.

(* C07, "a pending node enters a FULL bucket only ...": the only bucket operations that can add a
   key to [nodes] are b_insert and b_apply_pending (b_remove ends with b_apply_pending); b_insert
   never touches the nodes of a full bucket, and the update operations never add a key. *)
Lemma b_insert_full_nodes_unchanged c b n now :
  is_full b = true -> nodes (fst (b_insert c b n now)) = nodes b.
Proof.
  intros Hf. unfold b_insert. rewrite Hf.
  destruct (position _ _); [reflexivity|].
  destruct (negb _); [reflexivity|].
  destruct (nconn (set_stamp n now)); [|reflexivity].
  destruct (_ && _); [reflexivity|].
  destruct (fcp b) as [[|q]|], (pend b); try reflexivity; destruct (nodes b) eqn:En; cbn [fst nodes]; rewrite ?En; reflexivity.
Qed.

Lemma b_insert_node_keys c b n now k :
  In k (map nkey (nodes (fst (b_insert c b n now)))) -> In k (map nkey (nodes b)) \/ (k = nkey n /\ is_full b = false).
Proof.
  destruct (is_full b) eqn:Hf.
  - rewrite b_insert_full_nodes_unchanged by exact Hf. auto.
  - unfold b_insert. rewrite Hf.
    assert (Hclear : forall (flag : bool) b', nodes (if flag then {| nodes := nodes b'; fcp := fcp b'; pend := None |} else b') = nodes b').
    { intros [|] b'; reflexivity. }
    destruct (position _ _); [auto|].
    destruct (negb _); [auto|].
    destruct (nconn (set_stamp n now)).
    + destruct (_ && _); [auto|]. cbn [fst]. rewrite Hclear. cbn [nodes]. rewrite map_app, in_app_iff.
      intros [H|[<-|[]]]; auto.
    + destruct (fcp b); cbn [fst]; rewrite Hclear; cbn [nodes].
      * rewrite map_insert_at. intros H. apply In_insert_at in H. destruct H as [->|H]; auto.
      * rewrite map_app, in_app_iff. intros [H|[<-|[]]]; auto.
Qed.

Lemma b_update_status_node_keys c b k0 conn dir now k :
  In k (map nkey (nodes (fst (b_update_status c b k0 conn dir now)))) -> In k (map nkey (nodes b)).
Proof.
  unfold b_update_status. destruct (position k0 (nodes b)) as [pos|] eqn:Hpos.
  - destruct (position_some _ _ _ Hpos) as (old & Hn & Hk). rewrite Hn. cbv zeta.
    match goal with |- context [b_insert c ?b1 ?n now] => set (bb := b1); set (nn := n) end.
    assert (H1 : In k (map nkey (nodes (fst (b_insert c bb nn now)))) -> In k (map nkey (nodes b))).
    { intros H. apply b_insert_node_keys in H. destruct H as [H|(-> & _)].
      - unfold bb in H. cbn [nodes] in H. apply in_map_iff in H. destruct H as (x & <- & Hx).
        apply in_map. eapply In_remove_at; eauto.
      - unfold nn. cbn [nkey]. apply in_map. eapply nth_error_In; eauto. }
    destruct (b_insert c bb nn now) as [b2 r]. cbn [fst] in *. destruct r; exact H1.
  - destruct (pend b) as [p|]; [|auto]. destruct (N.eqb _ _); auto.
Qed.

Lemma b_update_value_node_keys c b k0 v k :
  In k (map nkey (nodes (fst (b_update_value c b k0 v)))) -> In k (map nkey (nodes b)).
Proof.
  unfold b_update_value. destruct (position k0 (nodes b)) as [pos|] eqn:Hpos.
  - destruct (position_some _ _ _ Hpos) as (old & Hn & Hk). rewrite Hn.
    destruct (val_eqb _ _); [auto|]. cbv zeta.
    destruct (negb _); cbn [fst nodes].
    + intros H. apply in_map_iff in H. destruct H as (x & <- & Hx). apply in_map. eapply In_remove_at; eauto.
    + rewrite map_insert_at. intros H. apply In_insert_at in H. destruct H as [->|H].
      * cbn [set_val nkey]. apply in_map. eapply nth_error_In; eauto.
      * apply in_map_iff in H. destruct H as (x & <- & Hx). apply in_map. eapply In_remove_at; eauto.
  - destruct (pend b) as [p|]; [|auto]. destruct (N.eqb _ _); auto.
Qed.

Lemma b_update_pending_nodes b conn inc : nodes (b_update_pending b conn inc) = nodes b.
Proof. unfold b_update_pending. destruct (pend b); reflexivity. Qed.
