(* C08, part 2 (table level): the closest iteration over a table satisfying the C07 invariant is
   exactly the sorted full scan, and nodes_by_distances is the truncated concatenation of the
   requested buckets. *)
From Coq Require Import List Arith NArith Lia Bool Permutation Sorted.
From Discv5V Require Import Generated.Params Lib.ListX Lib.ListY Lib.SortedX Lib.NBits Model.KBucket
  Proofs.ClosestOrder Proofs.KBucketInv Proofs.KBucketTable Proofs.KBucketPending.
Import ListNotations.

Definition dist (target : N) (n : node) : N := N.lxor target (nkey n).
Definition closer (target : N) (a b : node) : Prop := (dist target a < dist target b)%N.
Definition all_nodes (t : table) : list node := flat_map nodes (buckets t).

(* ------------------------------------------------------------------------------------------ *)
(* the sort inside a bucket *)

Lemma insert_sorted_perm target n l : Permutation (insert_sorted target n l) (n :: l).
Proof.
  induction l as [|x l IH]; simpl; [reflexivity|].
  destruct (N.ltb _ _); [reflexivity|].
  eapply perm_trans; [apply perm_skip, IH|apply perm_swap].
Qed.

Lemma sort_perm target l : Permutation (sort_by_distance target l) l.
Proof.
  induction l as [|x l IH]; simpl; [reflexivity|].
  eapply perm_trans; [apply insert_sorted_perm|]. apply perm_skip, IH.
Qed.

Lemma lxor_inj a b c : N.lxor a b = N.lxor a c -> b = c.
Proof.
  intros H. apply (f_equal (N.lxor a)) in H.
  rewrite <- !N.lxor_assoc, N.lxor_nilpotent, !N.lxor_0_l in H. exact H.
Qed.

Lemma insert_sorted_SS target n l :
  StronglySorted (closer target) l -> (forall x, In x l -> nkey x <> nkey n) ->
  StronglySorted (closer target) (insert_sorted target n l).
Proof.
  induction 1 as [|x l Hs IH Hf]; intros Hne; simpl; [repeat constructor|].
  rewrite Forall_forall in Hf.
  destruct (N.ltb_spec (N.lxor target (nkey n)) (N.lxor target (nkey x))) as [L|L].
  - constructor; [constructor; [exact Hs|apply Forall_forall; exact Hf]|].
    constructor; [exact L|]. apply Forall_forall. intros y Hy. specialize (Hf y Hy).
    unfold closer, dist in *. lia.
  - constructor; [apply IH; intros y Hy; apply Hne; right; exact Hy|].
    apply Forall_forall. intros y Hy.
    apply (Permutation_in _ (insert_sorted_perm target n l)) in Hy. destruct Hy as [<-|Hy]; [|apply Hf; exact Hy].
    unfold closer, dist.
    assert (N.lxor target (nkey x) <> N.lxor target (nkey n)).
    { intros E. apply lxor_inj in E. apply (Hne x); [left; reflexivity|exact E]. }
    lia.
Qed.

Lemma sort_SS target l :
  NoDup (map nkey l) -> StronglySorted (closer target) (sort_by_distance target l).
Proof.
  induction l as [|x l IH]; simpl; intros Hnd; [constructor|]. inversion Hnd; subst.
  apply insert_sorted_SS; [apply IH; assumption|].
  intros y Hy E. apply (Permutation_in _ (sort_perm target l)) in Hy.
  apply H1. rewrite <- E. apply in_map. exact Hy.
Qed.

(* ------------------------------------------------------------------------------------------ *)
(* the walk over the buckets *)

Lemma closest_walk_untouched c target now order : forall t j,
  ~ In j order -> get_bucket (fst (closest_walk c t target order now)) j = get_bucket t j.
Proof.
  induction order as [|i order IH]; intros t j Hj; [reflexivity|]. cbn [closest_walk].
  destruct (applied_bucket c t i now) as [b app].
  specialize (IH (set_bucket t i b app) j).
  destruct (closest_walk c (set_bucket t i b app) target order now) as [t2 out]. simpl in *.
  rewrite IH by (intros H; apply Hj; right; exact H).
  rewrite get_set_bucket. destruct (Nat.eqb_spec i j) as [E|E]; [exfalso; apply Hj; left; exact E|reflexivity].
Qed.

Lemma closest_walk_out c target now order : forall t,
  NoDup order ->
  snd (closest_walk c t target order now) =
  flat_map (fun i => sort_by_distance target (nodes (get_bucket (fst (closest_walk c t target order now)) i))) order.
Proof.
  induction order as [|i order IH]; intros t Hnd; [reflexivity|]. cbn [closest_walk].
  inversion Hnd; subst.
  pose proof (applied_bucket_fst c t i now) as Eb.
  destruct (applied_bucket c t i now) as [b app]. simpl in Eb.
  specialize (IH (set_bucket t i b app) H2).
  pose proof (closest_walk_untouched c target now order (set_bucket t i b app) i H1) as Hu.
  destruct (closest_walk c (set_bucket t i b app) target order now) as [t2 out]. simpl in *.
  rewrite IH. f_equal. rewrite Hu, get_set_bucket, Nat.eqb_refl. simpl.
  destruct (Nat.ltb_spec i (length (buckets t))) as [L|L]; [reflexivity|].
  rewrite Eb, get_bucket_default by exact L. reflexivity.
Qed.

Lemma buckets_as_map t : buckets t = map (get_bucket t) (seq 0 (length (buckets t))).
Proof.
  unfold get_bucket. generalize (buckets t). intros l.
  apply nth_ext with (d := empty_bucket) (d' := nth (length l) l empty_bucket).
  - rewrite map_length, seq_length. reflexivity.
  - intros n Hn. rewrite (map_nth (fun i => nth i l empty_bucket)). rewrite seq_nth by exact Hn. reflexivity.
Qed.

Lemma flat_map_perm {A B} (f g : A -> list B) l1 l2 :
  Permutation l1 l2 -> (forall x, Permutation (f x) (g x)) -> Permutation (flat_map f l1) (flat_map g l2).
Proof.
  intros Hp Hfg. induction Hp; simpl.
  - constructor.
  - apply Permutation_app; [apply Hfg|exact IHHp].
  - rewrite !app_assoc. apply Permutation_app.
    + eapply perm_trans; [apply Permutation_app_comm|]. apply Permutation_app; apply Hfg.
    + clear - Hfg. induction l as [|a l IH]; simpl; [constructor|]. apply Permutation_app; [apply Hfg|exact IH].
  - eapply perm_trans; [exact IHHp1|]. eapply perm_trans; [|exact IHHp2].
    clear - Hfg. induction l' as [|a l IH]; simpl; [constructor|].
    apply Permutation_app; [|exact IH]. apply Permutation_sym, Hfg.
Qed.

Lemma flat_map_map {A B C} (f : B -> list C) (g : A -> B) l :
  flat_map f (map g l) = flat_map (fun x => f (g x)) l.
Proof. induction l as [|a l IH]; simpl; [reflexivity|]. rewrite IH. reflexivity. Qed.

Lemma lxor_lt_pow2 a b n : (a < 2 ^ n)%N -> (b < 2 ^ n)%N -> (N.lxor a b < 2 ^ n)%N.
Proof.
  intros Ha Hb. destruct (N.eq_dec (N.lxor a b) 0) as [E|E].
  - rewrite E. apply N.neq_0_lt_0, N.pow_nonzero. discriminate.
  - apply N.log2_lt_pow2; [lia|].
    destruct (N.eq_dec a 0) as [->|Ha0]; [rewrite N.lxor_0_l in *; apply N.log2_lt_pow2; lia|].
    destruct (N.eq_dec b 0) as [->|Hb0]; [rewrite N.lxor_0_r in *; apply N.log2_lt_pow2; lia|].
    eapply N.le_lt_trans; [apply N.log2_lxor|].
    apply N.max_lub_lt; apply N.log2_lt_pow2; lia.
Qed.

(* a node stored in bucket i is at a distance whose highest set bit is i *)
Lemma bucket_index_log2 loc k i :
  bucket_index loc k = Some i -> N.lxor loc k <> 0%N /\ N.log2 (N.lxor loc k) = N.of_nat i.
Proof.
  unfold bucket_index. destruct (N.eqb_spec (N.lxor loc k) 0) as [E|E]; [discriminate|].
  intros H. inversion H. split; [exact E|]. rewrite N2Nat.id. reflexivity.
Qed.

Lemma lxor_target loc target k : N.lxor target k = N.lxor (N.lxor loc target) (N.lxor loc k).
Proof.
  rewrite (N.lxor_comm loc target), N.lxor_assoc, <- (N.lxor_assoc loc loc k), N.lxor_nilpotent, N.lxor_0_l.
  reflexivity.
Qed.

(* nodes of a bucket that comes earlier in the iteration order are strictly closer *)
Lemma cross_bucket_closer c T t target i j x y :
  TInvG c T t -> beforeN (N.lxor (local t) target) i j ->
  In x (nodes (get_bucket t i)) -> In y (nodes (get_bucket t j)) -> closer target x y.
Proof.
  intros [_ HB] Hb Hx Hy.
  pose proof (bi_idx _ _ _ _ _ (HB i) _ (in_bkeys_node _ _ Hx)) as Ix.
  pose proof (bi_idx _ _ _ _ _ (HB j) _ (in_bkeys_node _ _ Hy)) as Iy.
  apply bucket_index_log2 in Ix, Iy. destruct Ix as [Nx Lx], Iy as [Ny Ly].
  unfold closer, dist. rewrite (lxor_target (local t) target (nkey x)), (lxor_target (local t) target (nkey y)).
  apply before_lt; [exact Nx|exact Ny|]. rewrite Lx, Ly. exact Hb.
Qed.

Lemma walk_sorted c T t target order :
  TInvG c T t -> StronglySorted (beforeN (N.lxor (local t) target)) order ->
  StronglySorted (closer target)
    (flat_map (fun i => sort_by_distance target (nodes (get_bucket t i))) order).
Proof.
  intros HT Hs. induction Hs as [|i order Hs IH Hf]; simpl; [constructor|].
  apply SS_app; [|exact IH|].
  - apply sort_SS. destruct HT as [_ HB].
    pose proof (bi_nodup _ _ _ _ _ (HB i)) as Hnd. rewrite bkeys_eq in Hnd.
    eapply NoDup_app_remove_r. exact Hnd.
  - intros x y Hx Hy. apply in_flat_map in Hy. destruct Hy as (j & Hj & Hy).
    rewrite Forall_forall in Hf.
    apply (Permutation_in _ (sort_perm target _)) in Hx, Hy.
    eapply cross_bucket_closer; [exact HT|apply Hf; exact Hj|exact Hx|exact Hy].
Qed.

Lemma closest_walk_local c target now order : forall t,
  local (fst (closest_walk c t target order now)) = local t.
Proof.
  induction order as [|i order IH]; intros t; [reflexivity|]. cbn [closest_walk].
  destruct (applied_bucket c t i now) as [b app]. specialize (IH (set_bucket t i b app)).
  destruct (closest_walk c (set_bucket t i b app) target order now) as [t2 out]. exact IH.
Qed.

(* C08: the closest iteration is exactly the sorted full scan *)
Theorem closest_exact c t target now :
  TInv c t -> (local t < 2 ^ NUM_BUCKETS)%N -> (target < 2 ^ NUM_BUCKETS)%N ->
  let t' := fst (t_closest true c t target now) in
  let out := snd (t_closest true c t target now) in
  Permutation out (all_nodes t') /\ StronglySorted (closer target) out /\ TInv c t'.
Proof.
  intros HT Hl Ht. cbv zeta.
  pose proof (t_closest_inv c None now I true t target HT) as HT'.
  unfold t_closest in *.
  set (d := N.lxor (local t) target) in *.
  assert (Hd : (d < 2 ^ NUM_BUCKETS)%N) by (apply lxor_lt_pow2; assumption).
  assert (Hperm : Permutation (bucket_order true d) (seq 0 NB))
    by (rewrite (bucket_order_closed_form d Hd); exact (order_spec_perm d Hd)).
  assert (Hsort : StronglySorted (beforeN d) (bucket_order true d))
    by (rewrite (bucket_order_closed_form d Hd); exact (order_spec_sorted d Hd)).
  assert (Hnd : NoDup (bucket_order true d)).
  { eapply Permutation_NoDup; [apply Permutation_sym; exact Hperm|apply seq_NoDup]. }
  rewrite (closest_walk_out c target now _ t Hnd).
  set (t' := fst (closest_walk c t target (bucket_order true d) now)) in *.
  split; [|split; [|exact HT']].
  - unfold all_nodes.
    assert (E : buckets t' = map (get_bucket t') (seq 0 NB))
      by (rewrite <- (proj1 HT'); apply buckets_as_map).
    rewrite E, flat_map_map.
    apply flat_map_perm; [exact Hperm|]. intros i. apply sort_perm.
  - eapply walk_sorted; [exact HT'|]. unfold t'. rewrite closest_walk_local. exact Hsort.
Qed.

(* ------------------------------------------------------------------------------------------ *)
(* nodes_by_distances *)

(* the cap actually applied by the code: the count is compared after each push, so a request for 0
   nodes still yields one *)
Definition cap (maxn : nat) : nat := Nat.max maxn 1.
Definition bucket_of_distance (t : table) (d : N) : list node := nodes (get_bucket t (N.to_nat (d - 1)%N)).

Lemma take_upto_spec maxn : forall l acc, acc < cap maxn ->
  take_upto maxn acc l = (firstn (cap maxn - acc) l, Nat.leb (cap maxn - acc) (length l)).
Proof.
  unfold cap. induction l as [|x l IH]; intros acc Hacc; cbn [take_upto].
  - rewrite firstn_nil. f_equal. symmetry. apply Nat.leb_gt. simpl. lia.
  - destruct (Nat.leb_spec maxn (S acc)) as [L|L].
    + replace (Nat.max maxn 1 - acc) with 1 by lia. reflexivity.
    + rewrite IH by lia. replace (Nat.max maxn 1 - acc) with (S (Nat.max maxn 1 - S acc)) by lia.
      reflexivity.
Qed.

Lemma nbd_collect_spec t maxn : forall ds acc, acc < cap maxn ->
  nbd_collect t ds acc maxn = firstn (cap maxn - acc) (flat_map (bucket_of_distance t) ds).
Proof.
  induction ds as [|d ds IH]; intros acc Hacc; cbn [nbd_collect flat_map].
  - rewrite firstn_nil. reflexivity.
  - fold (bucket_of_distance t d). rewrite take_upto_spec by exact Hacc.
    set (l := bucket_of_distance t d). rewrite firstn_app.
    destruct (Nat.leb_spec (cap maxn - acc) (length l)) as [L|L].
    + replace (cap maxn - acc - length l) with 0 by lia. rewrite firstn_O, app_nil_r. reflexivity.
    + rewrite firstn_all2 by lia. f_equal. rewrite IH by lia. f_equal. lia.
Qed.

(* C08: the result of nodes_by_distances is the concatenation, in request order, of the buckets of
   the in-range requested distances (after the pending nodes have been applied), cut at the cap *)
Theorem nodes_by_distances_spec c t ds maxn now :
  let t' := fst (t_nodes_by_distances c t ds maxn now) in
  snd (t_nodes_by_distances c t ds maxn now) =
  firstn (cap maxn) (flat_map (bucket_of_distance t') (valid_distances ds)).
Proof.
  unfold t_nodes_by_distances. cbn [fst snd]. cbv zeta.
  rewrite nbd_collect_spec by (unfold cap; lia). rewrite Nat.sub_0_r. reflexivity.
Qed.

Lemma valid_distances_In ds d : In d (valid_distances ds) <-> In d ds /\ (0 < d <= NUM_BUCKETS)%N.
Proof.
  unfold valid_distances. rewrite filter_In, andb_true_iff, N.ltb_lt, N.leb_le. tauto.
Qed.

Lemma valid_distances_idem ds : valid_distances (valid_distances ds) = valid_distances ds.
Proof.
  unfold valid_distances. induction ds as [|d ds IH]; simpl; [reflexivity|].
  destruct (N.ltb 0 d && N.leb d NUM_BUCKETS) eqn:E; simpl; rewrite ?E, IH; reflexivity.
Qed.

(* distances 0 and > 256 contribute nothing: they can be dropped from the request *)
Theorem nbd_out_of_range_ignored c t ds maxn now :
  t_nodes_by_distances c t ds maxn now = t_nodes_by_distances c t (valid_distances ds) maxn now.
Proof. unfold t_nodes_by_distances. rewrite valid_distances_idem. reflexivity. Qed.

Theorem nbd_nothing_out_of_range c t ds maxn now :
  (forall d, In d ds -> d = 0%N \/ (NUM_BUCKETS < d)%N) ->
  snd (t_nodes_by_distances c t ds maxn now) = [].
Proof.
  intros H. rewrite nodes_by_distances_spec.
  assert (E : valid_distances ds = []).
  { destruct (valid_distances ds) as [|d l] eqn:E; [reflexivity|exfalso].
    assert (Hin : In d (valid_distances ds)) by (rewrite E; left; reflexivity).
    apply valid_distances_In in Hin. destruct Hin as [Hin Hr]. destruct (H d Hin); lia. }
  rewrite E. simpl. apply firstn_nil.
Qed.

Lemma firstn_In' {A} n (l : list A) x : In x (firstn n l) -> In x l.
Proof. intros H. rewrite <- (firstn_skipn n l). apply in_or_app. left. exact H. Qed.

(* only nodes at the requested (in-range) distances are returned *)
Theorem nbd_only_requested c t ds maxn now n :
  TInv c t ->
  let t' := fst (t_nodes_by_distances c t ds maxn now) in
  In n (snd (t_nodes_by_distances c t ds maxn now)) ->
  exists d, In d ds /\ (0 < d <= NUM_BUCKETS)%N /\ In n (bucket_of_distance t' d) /\
            N.lxor (local t') (nkey n) <> 0%N /\ (N.log2 (N.lxor (local t') (nkey n)) + 1 = d)%N.
Proof.
  intros HT t' Hin.
  pose proof (t_nodes_by_distances_inv c None now I t ds maxn HT) as HT'. fold t' in HT'.
  rewrite nodes_by_distances_spec in Hin. fold t' in Hin.
  apply firstn_In' in Hin. apply in_flat_map in Hin. destruct Hin as (d & Hd & Hn).
  apply valid_distances_In in Hd. destruct Hd as [Hd Hr].
  exists d. repeat split; try tauto.
  - pose proof (bi_idx _ _ _ _ _ (proj2 HT' _) _ (in_bkeys_node _ _ Hn)) as Ix.
    apply bucket_index_log2 in Ix. tauto.
  - pose proof (bi_idx _ _ _ _ _ (proj2 HT' _) _ (in_bkeys_node _ _ Hn)) as Ix.
    apply bucket_index_log2 in Ix. destruct Ix as [_ Ix]. rewrite Ix, N2Nat.id. lia.
Qed.

Lemma NoDup_firstn {A} n (l : list A) : NoDup l -> NoDup (firstn n l).
Proof. intros H. rewrite <- (firstn_skipn n l) in H. eapply NoDup_app_remove_r. exact H. Qed.

Lemma nbd_keys_nodup c T t ds :
  TInvG c T t -> NoDup ds -> (forall d, In d ds -> (0 < d)%N) ->
  NoDup (map nkey (flat_map (bucket_of_distance t) ds)).
Proof.
  intros [_ HB]. induction ds as [|d ds IH]; intros Hnd Hpos; simpl; [constructor|].
  inversion Hnd; subst. rewrite map_app. apply NoDup_app_iff. split; [|split].
  - pose proof (bi_nodup _ _ _ _ _ (HB (N.to_nat (d - 1)))) as H. rewrite bkeys_eq in H.
    eapply NoDup_app_remove_r. exact H.
  - apply IH; [assumption|]. intros; apply Hpos; right; assumption.
  - intros k Hk Hk'. apply in_map_iff in Hk. destruct Hk as (n & <- & Hn).
    apply in_map_iff in Hk'. destruct Hk' as (n' & Ek & Hn').
    apply in_flat_map in Hn'. destruct Hn' as (d' & Hd' & Hn').
    pose proof (bi_idx _ _ _ _ _ (HB _) _ (in_bkeys_node _ _ Hn)) as I1.
    pose proof (bi_idx _ _ _ _ _ (HB _) _ (in_bkeys_node _ _ Hn')) as I2.
    rewrite Ek, I1 in I2. inversion I2 as [E].
    assert (0 < d)%N by (apply Hpos; left; reflexivity).
    assert (0 < d')%N by (apply Hpos; right; exact Hd').
    assert (d = d') by lia. subst d'. contradiction.
Qed.

Lemma NoDup_filter {A} (p : A -> bool) l : NoDup l -> NoDup (filter p l).
Proof.
  induction 1 as [|x l Hx _ IH]; simpl; [constructor|]. destruct (p x); [|exact IH].
  constructor; [|exact IH]. intros H. apply filter_In in H. tauto.
Qed.

(* for a duplicate-free request: no node is returned twice, the number of returned nodes is the
   minimum of the cap and the number of nodes stored at the requested distances, and if the cap
   allows, every stored node at a requested distance is returned *)
Theorem nbd_complete c t ds maxn now :
  TInv c t -> NoDup ds ->
  let t' := fst (t_nodes_by_distances c t ds maxn now) in
  let res := snd (t_nodes_by_distances c t ds maxn now) in
  let stored := flat_map (bucket_of_distance t') (valid_distances ds) in
  TInv c t' /\
  NoDup (map nkey stored) /\ NoDup (map nkey res) /\
  length res = Nat.min (cap maxn) (length stored) /\
  (length stored <= cap maxn -> res = stored).
Proof.
  intros HT Hnd t' res stored.
  pose proof (t_nodes_by_distances_inv c None now I t ds maxn HT) as HT'. fold t' in HT'.
  assert (E : res = firstn (cap maxn) stored) by apply nodes_by_distances_spec.
  assert (Hs : NoDup (map nkey stored)).
  { eapply nbd_keys_nodup; [exact HT'|apply NoDup_filter; exact Hnd|].
    intros d Hd. apply valid_distances_In in Hd. tauto. }
  split; [exact HT'|]. split; [exact Hs|]. rewrite E. split; [|split].
  - rewrite <- firstn_map. apply NoDup_firstn. exact Hs.
  - apply firstn_length.
  - intros L. apply firstn_all2. exact L.
Qed.
