(* C04, liveness half ("never neither"): DRAIN.
   If from a state that satisfies the invariants of the reachable states of the repaired
   configuration nothing more arrives and only time passes - a sequence of EvTick events, the first
   one later than every armed deadline, each further one later than its predecessor by more than
   cfg_timeout + cfg_grid - then after at most [weight c h] ticks the handler holds nothing, and
   every application request it held has been reported as failed during those ticks.

   Measure: a stored request that was transmitted k times weighs 1 + (cfg_retries - k), a queued
   request 1 + cfg_retries, a pending challenge 1.  Firing a request timer or a challenge timer
   never increases the weight, and the first timer fired by a tick strictly decreases it; a tick
   later than every armed deadline fires at least one timer unless none is armed; if none is armed
   the invariants (Sync, no_orphans, ExpInv) say that nothing is held.  TICK_FUEL only bounds how
   many timer groups ONE tick fires: the bound on the number of ticks is the weight itself, so no
   assumption on the number of armed timers is needed.

   Conservation from below (for the terminal events): for every id x,
       #(application requests with id x held) + #(HRequestFailed x reported)
   is unchanged by firing timers. *)
From Coq Require Import List Arith NArith Bool Lia.
From Discv5V Require Import Model.Handler Proofs.HandlerInv Proofs.HandlerA_Ledger Proofs.HandlerA_Nonce
  Proofs.HandlerA_Progress.
Import ListNotations.

(* ------------------------------------------------------------------------------------------ *)
(* the parts of the state the argument looks at *)

Definition core4 (h : hstate) := (active h, nmap h, pending h, challenges h).

Lemma core4_eq : forall h h', core4 h' = core4 h ->
  active h' = active h /\ nmap h' = nmap h /\ pending h' = pending h /\ challenges h' = challenges h.
Proof. intros h h' E. unfold core4 in E. injection E as E1 E2 E3 E4. auto. Qed.

Lemma core4_sess_get : forall c h na, core4 (fst (sess_get c h na)) = core4 h.
Proof.
  intros c h na. destruct (sess_get_frame c h na) as (A & B & C & D & _). unfold core4. rewrite A, B, C, D. reflexivity.
Qed.
Lemma core4_remove_expired_sessions : forall c s, core4 (hs (remove_expired_sessions c s)) = core4 (hs s).
Proof. intros c s. rewrite remove_expired_sessions_hs. reflexivity. Qed.

Lemma is_awaiting_session_core4 : forall c s na,
  core4 (hs (fst (is_awaiting_session c s na))) = core4 (hs s) /\ outs (fst (is_awaiting_session c s na)) = outs s.
Proof.
  intros c s na. unfold is_awaiting_session. pose proof (core4_sess_get c (hs s) na) as H.
  destruct (sess_get c (hs s) na) as [h se]. cbn [fst] in H. destruct se; cbn [fst with_hs hs outs]; auto.
Qed.

(* ------------------------------------------------------------------------------------------ *)
(* the measure *)

Definition wreq (c : config) (r : rcall) : nat := S (N.to_nat (cfg_retries c - rc_retries r)).
Definition wq (c : config) : nat := S (N.to_nat (cfg_retries c)).
Fixpoint wl (c : config) (l : list rcall) : nat :=
  match l with [] => 0 | r :: t => wreq c r + wl c t end.
Definition wpl (c : config) (l : list preq) : nat := length l * wq c.
Definition weight (c : config) (h : hstate) : nat :=
  asum (wl c) (active h) + asum (wpl c) (pending h) + length (challenges h).

(* the measure does not depend on the clock of the environment *)
Lemma wl_with_clock : forall c t l, wl (with_clock c t) l = wl c l.
Proof. intros c t. induction l as [|r l IH]; cbn [wl]; [reflexivity|]. rewrite IH. reflexivity. Qed.
Lemma weight_with_clock : forall c t h, weight (with_clock c t) h = weight c h.
Proof.
  intros c t h. unfold weight. f_equal. f_equal.
  induction (active h) as [|[k v] l IH]; cbn [asum]; [reflexivity|]. rewrite IH, wl_with_clock. reflexivity.
Qed.

Lemma weight_core : forall c h h', core4 h' = core4 h -> weight c h' = weight c h.
Proof. intros c h h' E. destruct (core4_eq _ _ E) as (E1 & _ & E3 & E4). unfold weight. rewrite E1, E3, E4. reflexivity. Qed.

Lemma wl_app : forall c l1 l2, wl c (l1 ++ l2) = wl c l1 + wl c l2.
Proof. intros c. induction l1 as [|r t IH]; intros l2; cbn [wl app]; [reflexivity|]. rewrite IH. lia. Qed.

Lemma wreq_pos : forall c r, 1 <= wreq c r.
Proof. intros. unfold wreq. lia. Qed.
Lemma wreq_le_wq : forall c r, wreq c r <= wq c.
Proof. intros. unfold wreq, wq. lia. Qed.

Lemma remove_first_wl : forall c (p : rcall -> bool) l r l',
  remove_first p l = Some (r, l') -> wl c l = wreq c r + wl c l'.
Proof.
  intros c p. induction l as [|a t IH]; cbn [remove_first]; intros r l' H; [discriminate|].
  destruct (p a).
  - inversion H; subst. reflexivity.
  - destruct (remove_first p t) as [[y t']|]; [|discriminate]. inversion H; subst.
    cbn [wl]. rewrite (IH _ _ eq_refl). lia.
Qed.

Lemma asum_put_gen : forall {A : Type} (w : list A -> nat) (act : list (naddr * list A)) na l (l' : list A),
  w [] = 0 -> alist_get na act = Some l ->
  asum w (match l' with [] => alist_remove na act | _ => alist_set na l' act end) + w l = asum w act + w l'.
Proof.
  intros A w act na l l' W0 G. destruct l' as [|r l'].
  - rewrite <- (asum_remove w _ _ _ G). lia.
  - apply asum_set. exact G.
Qed.

Lemma wl_put : forall c act na l l', alist_get na act = Some l ->
  asum (wl c) (put_list na l' act) + wl c l = asum (wl c) act + wl c l'.
Proof. intros c act na l l' G. unfold put_list. apply (asum_put_gen (wl c)); [reflexivity|exact G]. Qed.

Lemma weight_ar_insert : forall c h na r now, weight c (ar_insert c h na r now) = weight c h + wreq c r.
Proof.
  intros c h na r now. unfold weight, ar_insert. cbn [set_active active pending challenges].
  destruct (alist_get na (active h)) as [l|] eqn:G.
  - pose proof (asum_set (wl c) _ _ _ (l ++ [r]) G) as E. rewrite wl_app in E. cbn [wl] in E. lia.
  - rewrite asum_app. cbn [asum wl]. lia.
Qed.

Lemma weight_push_pending : forall c h na q, weight c (push_pending h na q) = weight c h + wq c.
Proof.
  intros c h na q. unfold weight, push_pending.
  destruct (alist_get na (pending h)) as [l|] eqn:G; cbn [set_pending active pending challenges].
  - pose proof (asum_set (wpl c) _ _ _ (l ++ [q]) G) as E. unfold wpl in *. rewrite app_length in E.
    cbn [length] in E. lia.
  - rewrite asum_app. cbn [asum]. unfold wpl. cbn [length]. lia.
Qed.

Lemma weight_remove_pending : forall c h na l, alist_get na (pending h) = Some l ->
  weight c (set_pending h (alist_remove na (pending h))) + length l * wq c = weight c h.
Proof.
  intros c h na l G. unfold weight. cbn [set_pending active pending challenges].
  pose proof (asum_remove (wpl c) _ _ _ G) as E. unfold wpl in *. lia.
Qed.

Lemma weight_take : forall c h na l (p : rcall -> bool) r l' nm,
  alist_get na (active h) = Some l -> remove_first p l = Some (r, l') ->
  weight c (set_active h (put_list na l' (active h)) nm) + wreq c r = weight c h.
Proof.
  intros c h na l p r l' nm G R. unfold weight. cbn [set_active active pending challenges].
  pose proof (wl_put c _ _ _ l' G) as E. rewrite (remove_first_wl c p l r l' R) in E. lia.
Qed.

Lemma weight_ar_remove_requests : forall c h na h' reqs,
  ar_remove_requests h na = (h', reqs) -> weight c h' <= weight c h.
Proof.
  intros c h na h' reqs E. unfold ar_remove_requests in E.
  destruct (alist_get na (active h)) as [l|] eqn:G; inversion E; subst; [|lia].
  unfold weight. cbn [set_active active pending challenges].
  pose proof (asum_remove (wl c) _ _ _ G). lia.
Qed.

(* ------------------------------------------------------------------------------------------ *)
(* deadlines *)

Definition dl_below (B : N) (h : hstate) : Prop :=
  Forall (fun e => (snd e < B)%N) (nmap h) /\ Forall (fun e => (snd e < B)%N) (challenges h).

Lemma dl_below_core : forall B h h', core4 h' = core4 h -> dl_below B h -> dl_below B h'.
Proof. intros B h h' E. destruct (core4_eq _ _ E) as (_ & E2 & _ & E4). unfold dl_below. rewrite E2, E4. auto. Qed.

Lemma dl_below_same : forall B h h', nmap h' = nmap h -> challenges h' = challenges h -> dl_below B h -> dl_below B h'.
Proof. intros B h h' E2 E4. unfold dl_below. rewrite E2, E4. auto. Qed.

Lemma dl_below_mono : forall B B' h, (B <= B')%N -> dl_below B h -> dl_below B' h.
Proof.
  intros B B' h L [H1 H2]. split; eapply Forall_impl; try eassumption; cbv beta; intros; lia.
Qed.

Lemma nmap_remove_Forall : forall (P : nonce * naddr * N -> Prop) n nm, Forall P nm -> Forall P (nmap_remove n nm).
Proof.
  intros P n. induction nm as [|[[n0 a0] d0] t IH]; intros H; cbn [nmap_remove]; [exact H|].
  inversion H; subst. destruct (nonce_eqb n n0); [assumption|]. constructor; auto.
Qed.

Lemma chall_remove_Forall : forall (P : naddr * chall * N -> Prop) na l, Forall P l -> Forall P (chall_remove na l).
Proof.
  intros P na. induction l as [|[[a ch] d] t IH]; intros H; cbn [chall_remove]; [exact H|].
  inversion H; subst. destruct (naddr_eqb a na); [assumption|]. constructor; auto.
Qed.

Lemma dl_below_ar_insert : forall B c h na r now, dl_below B h -> (now + cfg_timeout c < B)%N ->
  dl_below B (ar_insert c h na r now).
Proof.
  intros B c h na r now [H1 H2] L. split; unfold ar_insert; cbn [set_active nmap challenges]; [|exact H2].
  unfold nmap_insert. apply Forall_app. split; [apply nmap_remove_Forall; exact H1|].
  constructor; [cbn [snd]; exact L|constructor].
Qed.

Lemma dl_below_ar_remove_requests : forall B h na h' reqs,
  ar_remove_requests h na = (h', reqs) -> dl_below B h -> dl_below B h'.
Proof.
  intros B h na h' reqs E [H1 H2]. unfold ar_remove_requests in E.
  destruct (alist_get na (active h)) as [l|]; inversion E; subst; [|split; assumption].
  split; cbn [set_active nmap challenges]; [|exact H2].
  clear E. revert H1. generalize (nmap h). induction reqs as [|r t IH]; intros nm H; cbn [fold_left]; [exact H|].
  apply IH. apply nmap_remove_Forall. exact H.
Qed.

(* ------------------------------------------------------------------------------------------ *)
(* application requests held, failure reports *)

Definition ecr (x : N) (l : list rcall) : nat := cntf rc_rid x (filter rc_ext l).
Definition ecq (x : N) (l : list preq) : nat := cntf pq_rid x (filter pq_ext l).
Definition eocc (x : N) (h : hstate) : nat := asum (ecr x) (active h) + asum (ecq x) (pending h).
Definition is_fail (x : N) (o : output) : nat :=
  match o with OEvent (HRequestFailed y _) => eqn y x | _ => 0 end.
Fixpoint fmen (x : N) (l : list output) : nat :=
  match l with [] => 0 | o :: t => is_fail x o + fmen x t end.
Definition elive (x : N) (s : st) : nat := eocc x (hs s) + fmen x (outs s).

Definition er1 (x : N) (r : rcall) : nat := if rc_ext r then eqn (rc_rid r) x else 0.
Definition eq1 (x : N) (q : preq) : nat := if pq_ext q then eqn (pq_rid q) x else 0.

Lemma eocc_core : forall x h h', core4 h' = core4 h -> eocc x h' = eocc x h.
Proof. intros x h h' E. destruct (core4_eq _ _ E) as (E1 & _ & E3 & _). unfold eocc. rewrite E1, E3. reflexivity. Qed.

Lemma fmen_app : forall x l1 l2, fmen x (l1 ++ l2) = fmen x l1 + fmen x l2.
Proof. intros x. induction l1 as [|o t IH]; intros l2; cbn [fmen app]; [reflexivity|]. rewrite IH. lia. Qed.

Lemma ecr_app : forall x l1 l2, ecr x (l1 ++ l2) = ecr x l1 + ecr x l2.
Proof. intros. unfold ecr. rewrite filter_app, cntf_app. reflexivity. Qed.
Lemma ecq_app : forall x l1 l2, ecq x (l1 ++ l2) = ecq x l1 + ecq x l2.
Proof. intros. unfold ecq. rewrite filter_app, cntf_app. reflexivity. Qed.
Lemma ecr_cons : forall x r l, ecr x (r :: l) = er1 x r + ecr x l.
Proof. intros. unfold ecr, er1. cbn [filter]. destruct (rc_ext r); cbn [cntf]; lia. Qed.
Lemma ecq_cons : forall x q l, ecq x (q :: l) = eq1 x q + ecq x l.
Proof. intros. unfold ecq, eq1. cbn [filter]. destruct (pq_ext q); cbn [cntf]; lia. Qed.

Lemma remove_first_ecr : forall x (p : rcall -> bool) l r l',
  remove_first p l = Some (r, l') -> ecr x l = er1 x r + ecr x l'.
Proof.
  intros x p. induction l as [|a t IH]; cbn [remove_first]; intros r l' H; [discriminate|].
  destruct (p a).
  - inversion H; subst. apply ecr_cons.
  - destruct (remove_first p t) as [[y t']|]; [|discriminate]. inversion H; subst.
    rewrite !ecr_cons, (IH _ _ eq_refl). lia.
Qed.

Lemma elive_emit : forall x s o, elive x (emit s o) = elive x s + is_fail x o.
Proof. intros x s o. unfold elive. cbn [emit hs outs]. rewrite fmen_app. cbn [fmen]. lia. Qed.

Lemma eocc_ar_insert : forall x c h na r now, eocc x (ar_insert c h na r now) = eocc x h + er1 x r.
Proof.
  intros x c h na r now. unfold eocc, ar_insert. cbn [set_active active pending].
  destruct (alist_get na (active h)) as [l|] eqn:G.
  - pose proof (asum_set (ecr x) _ _ _ (l ++ [r]) G) as E. rewrite ecr_app, ecr_cons in E.
    change (ecr x []) with 0 in E. lia.
  - rewrite asum_app. cbn [asum]. rewrite ecr_cons. change (ecr x []) with 0. lia.
Qed.

Lemma eocc_push_pending : forall x h na q, eocc x (push_pending h na q) = eocc x h + eq1 x q.
Proof.
  intros x h na q. unfold eocc, push_pending.
  destruct (alist_get na (pending h)) as [l|] eqn:G; cbn [set_pending active pending].
  - pose proof (asum_set (ecq x) _ _ _ (l ++ [q]) G) as E. rewrite ecq_app, ecq_cons in E.
    change (ecq x []) with 0 in E. lia.
  - rewrite asum_app. cbn [asum]. rewrite ecq_cons. change (ecq x []) with 0. lia.
Qed.

Lemma eocc_remove_pending : forall x h na l, alist_get na (pending h) = Some l ->
  eocc x (set_pending h (alist_remove na (pending h))) + ecq x l = eocc x h.
Proof.
  intros x h na l G. unfold eocc. cbn [set_pending active pending].
  pose proof (asum_remove (ecq x) _ _ _ G). lia.
Qed.

Lemma eocc_take : forall x h na l (p : rcall -> bool) r l' nm,
  alist_get na (active h) = Some l -> remove_first p l = Some (r, l') ->
  eocc x (set_active h (put_list na l' (active h)) nm) + er1 x r = eocc x h.
Proof.
  intros x h na l p r l' nm G R. unfold eocc. cbn [set_active active pending].
  pose proof (asum_put_gen (ecr x) (active h) na l l' eq_refl G) as E. fold (put_list na l' (active h)) in E.
  rewrite (remove_first_ecr x p l r l' R) in E. lia.
Qed.

Lemma eocc_ar_remove_requests : forall x h na h' reqs,
  ar_remove_requests h na = (h', reqs) -> eocc x h' + ecr x reqs = eocc x h.
Proof.
  intros x h na h' reqs E. unfold ar_remove_requests in E.
  destruct (alist_get na (active h)) as [l|] eqn:G; inversion E; subst.
  - unfold eocc. cbn [set_active active pending]. pose proof (asum_remove (ecr x) _ _ _ G). lia.
  - change (ecr x []) with 0. lia.
Qed.

(* ------------------------------------------------------------------------------------------ *)
(* Handler::send_request: nothing happens (self request), or the request is queued, or it is stored
   with transmission counter 1 and its timer armed at now + timeout *)

Lemma send_request_shape : forall c s ct ext rid body now,
  let s' := fst (send_request c s ct ext rid body now) in
  let ok := snd (send_request c s ct ext rid body now) in
  (ok = false /\ s' = s) \/
  (ok = true /\ exists h1, core4 h1 = core4 (hs s) /\ outs s' = outs s /\
      hs s' = push_pending h1 (c_naddr ct) {| pq_contact := ct; pq_ext := ext; pq_rid := rid; pq_body := body |}) \/
  (ok = true /\ exists h1 r p, hs s' = ar_insert c h1 (c_naddr ct) r now /\
      core4 h1 = core4 (hs s) /\ rc_ext r = ext /\ rc_rid r = rid /\ rc_retries r = 1%N /\
      outs s' = outs s ++ [OWire (c_naddr ct) p]).
Proof.
  intros c s ct ext rid body now. unfold send_request.
  destruct (existsb (N.eqb (c_addr ct)) (cfg_listen c)); [left; split; reflexivity|]. right.
  assert (H1 : core4 (hs (fst (if has_challenge (hs s) (c_naddr ct) then (s, true)
                               else is_awaiting_session c s (c_naddr ct)))) = core4 (hs s) /\
               outs (fst (if has_challenge (hs s) (c_naddr ct) then (s, true)
                               else is_awaiting_session c s (c_naddr ct))) = outs s).
  { destruct (has_challenge (hs s) (c_naddr ct)); [split; reflexivity|apply is_awaiting_session_core4]. }
  destruct (if has_challenge (hs s) (c_naddr ct) then (s, true) else is_awaiting_session c s (c_naddr ct))
    as [s1 aw]. cbn [fst] in H1. destruct H1 as [H1 O1].
  destruct aw; cbn [fst snd].
  - left. split; [reflexivity|]. exists (hs s1). cbn [with_hs hs outs]. auto.
  - right. split.
    { destruct (sess_get c (hs s1) (c_naddr ct)) as [h2 [se|]].
      - destruct (encrypt_message c (with_hs s1 h2) (c_naddr ct) se (MReq rid body)) as [[s3 se'] p]. reflexivity.
      - destruct (pop_pk (dr (with_hs s1 h2))) as [[[[cn r] aad] x4] d']. reflexivity. }
    pose proof (core4_sess_get c (hs s1) (c_naddr ct)) as H4.
    destruct (sess_get c (hs s1) (c_naddr ct)) as [h2 se]. cbn [fst] in H4.
    destruct se as [se|].
    + pose proof (encrypt_message_st c (with_hs s1 h2) (c_naddr ct) se (MReq rid body)) as H5.
      destruct (encrypt_message c (with_hs s1 h2) (c_naddr ct) se (MReq rid body)) as [[s3 se'] p].
      cbn [fst snd] in *. destruct H5 as (H5 & H6 & _). cbn [with_hs hs outs] in H5, H6.
      eexists _, _, p. cbn [with_hs hs outs send emit add_expected]. split; [reflexivity|].
      cbn [rc_ext rc_rid rc_retries]. repeat split; [|rewrite H6, O1; reflexivity].
      rewrite H5. rewrite <- H1, <- H4. reflexivity.
    + destruct (pop_pk (dr (with_hs s1 h2))) as [[[[cn r] aad] x4] d']. cbn [fst snd].
      eexists _, _, _. cbn [with_hs hs outs send emit add_expected]. split; [reflexivity|].
      cbn [rc_ext rc_rid rc_retries]. repeat split; [|rewrite O1; reflexivity].
      rewrite <- H1, <- H4. reflexivity.
Qed.

(* the function folded by send_pending_requests *)
Definition spr_f (c : config) (now : N) (s : st) (q : preq) : st :=
  let (s', ok) := send_request c s (pq_contact q) (pq_ext q) (pq_rid q) (pq_body q) now in
  if ok then s'
  else if pq_ext q then emit s' (OEvent (HRequestFailed (pq_rid q) ERR_SELF_REQUEST)) else s'.

Lemma send_pending_requests_eq : forall c s na now,
  send_pending_requests c s na now =
  match alist_get na (pending (hs s)) with
  | None => s
  | Some l => fold_left (spr_f c now) l (with_hs s (set_pending (hs s) (alist_remove na (pending (hs s)))))
  end.
Proof. reflexivity. Qed.

Lemma spr_f_facts : forall c now s q,
  weight c (hs (spr_f c now s q)) <= weight c (hs s) + wq c /\
  (forall B, dl_below B (hs s) -> (now + cfg_timeout c < B)%N -> dl_below B (hs (spr_f c now s q))) /\
  (forall x, elive x (spr_f c now s q) = elive x s + eq1 x q).
Proof.
  intros c now s q. unfold spr_f.
  pose proof (send_request_shape c s (pq_contact q) (pq_ext q) (pq_rid q) (pq_body q) now) as X.
  destruct (send_request c s (pq_contact q) (pq_ext q) (pq_rid q) (pq_body q) now) as [s' ok].
  cbn [fst snd] in X. destruct X as [[-> ->]|[[-> (h1 & C1 & O1 & E1)]|[-> (h1 & r & p & E1 & C1 & X1 & X2 & X3 & O1)]]].
  - split; [|split].
    + destruct (pq_ext q); cbn [emit hs]; lia.
    + intros B H _. destruct (pq_ext q); exact H.
    + intros x. unfold eq1. destruct (pq_ext q); [|lia]. rewrite elive_emit. reflexivity.
  - split; [|split].
    + rewrite E1, weight_push_pending, (weight_core c _ _ C1). lia.
    + intros B H _. rewrite E1. eapply dl_below_same; [| |eapply dl_below_core; [exact C1|exact H]];
        unfold push_pending; destruct (alist_get _ (pending h1)); reflexivity.
    + intros x. unfold elive. rewrite E1, O1, eocc_push_pending, (eocc_core x _ _ C1). unfold eq1. cbn [pq_ext pq_rid]. lia.
  - split; [|split].
    + rewrite E1, weight_ar_insert, (weight_core c _ _ C1).
      assert (wreq c r <= wq c) by apply wreq_le_wq. lia.
    + intros B H L. rewrite E1. apply dl_below_ar_insert; [|exact L]. eapply dl_below_core; [exact C1|exact H].
    + intros x. unfold elive. rewrite E1, O1, eocc_ar_insert, (eocc_core x _ _ C1), fmen_app.
      cbn [fmen is_fail]. unfold er1, eq1. rewrite X1, X2. lia.
Qed.

Lemma spr_fold_facts : forall c now l s,
  weight c (hs (fold_left (spr_f c now) l s)) <= weight c (hs s) + length l * wq c /\
  (forall B, dl_below B (hs s) -> (now + cfg_timeout c < B)%N -> dl_below B (hs (fold_left (spr_f c now) l s))) /\
  (forall x, elive x (fold_left (spr_f c now) l s) = elive x s + ecq x l).
Proof.
  intros c now. induction l as [|q t IH]; intros s; cbn [fold_left length].
  - split; [lia|split; [auto|]]. intros x. change (ecq x []) with 0. lia.
  - destruct (spr_f_facts c now s q) as (A1 & A2 & A3). destruct (IH (spr_f c now s q)) as (B1 & B2 & B3).
    split; [|split].
    + cbn [Nat.mul]. lia.
    + intros B H L. apply B2; [apply A2; assumption|exact L].
    + intros x. rewrite B3, A3, ecq_cons. lia.
Qed.

Lemma send_pending_requests_facts : forall c s na now,
  weight c (hs (send_pending_requests c s na now)) <= weight c (hs s) /\
  (forall B, dl_below B (hs s) -> (now + cfg_timeout c < B)%N -> dl_below B (hs (send_pending_requests c s na now))) /\
  (forall x, elive x (send_pending_requests c s na now) = elive x s).
Proof.
  intros c s na now. rewrite send_pending_requests_eq.
  destruct (alist_get na (pending (hs s))) as [l|] eqn:G; [|split; [lia|split; auto]].
  destruct (spr_fold_facts c now l (with_hs s (set_pending (hs s) (alist_remove na (pending (hs s))))))
    as (A1 & A2 & A3). cbn [with_hs hs] in A1, A2.
  split; [|split].
  - pose proof (weight_remove_pending c (hs s) na l G). lia.
  - intros B H L. apply A2; [|exact L]. eapply dl_below_same; [| |exact H]; reflexivity.
  - intros x. rewrite A3. unfold elive. cbn [with_hs hs outs].
    pose proof (eocc_remove_pending x (hs s) na l G). lia.
Qed.

(* ------------------------------------------------------------------------------------------ *)
(* Handler::fail_session, fail_request, handle_request_timeout *)

Lemma fail_pending_fold_facts : forall err l s0,
  let s' := fold_left (fun s q => if pq_ext q then emit s (OEvent (HRequestFailed (pq_rid q) err)) else s) l s0 in
  hs s' = hs s0 /\ forall x, elive x s' = elive x s0 + ecq x l.
Proof.
  intros err. induction l as [|q t IH]; intros s0; cbn [fold_left].
  - split; [reflexivity|]. intros x. change (ecq x []) with 0. lia.
  - destruct (IH (if pq_ext q then emit s0 (OEvent (HRequestFailed (pq_rid q) err)) else s0)) as [A1 A2].
    cbv zeta in A1, A2. split.
    + rewrite A1. destruct (pq_ext q); reflexivity.
    + intros x. rewrite A2, ecq_cons. unfold eq1. destruct (pq_ext q); [|lia]. rewrite elive_emit. cbn [is_fail]. lia.
Qed.

Lemma fail_active_fold_facts : forall err a l s0,
  let s' := fold_left (fun s r =>
      let s' := if rc_ext r then emit s (OEvent (HRequestFailed (rc_rid r) err)) else s in
      remove_expected s' a) l s0 in
  core4 (hs s') = core4 (hs s0) /\ forall x, elive x s' = elive x s0 + ecr x l.
Proof.
  intros err a. induction l as [|r t IH]; intros s0; cbn [fold_left].
  - split; [reflexivity|]. intros x. change (ecr x []) with 0. lia.
  - match goal with |- context [fold_left ?f t ?s1] => destruct (IH s1) as [A1 A2] end.
    cbv zeta in A1, A2. split.
    + rewrite A1. destruct (rc_ext r); reflexivity.
    + intros x. rewrite A2, ecr_cons. unfold er1. destruct (rc_ext r).
      * unfold elive. cbn [remove_expected with_hs hs outs emit]. rewrite fmen_app. cbn [fmen is_fail].
        change (eocc x {| active := active (hs s0); nmap := nmap (hs s0); pending := pending (hs s0);
                          challenges := challenges (hs s0); sessions := sessions (hs s0);
                          expected := exp_remove a (expected (hs s0)) |}) with (eocc x (hs s0)). lia.
      * unfold elive. cbn [remove_expected with_hs hs outs].
        change (eocc x {| active := active (hs s0); nmap := nmap (hs s0); pending := pending (hs s0);
                          challenges := challenges (hs s0); sessions := sessions (hs s0);
                          expected := exp_remove a (expected (hs s0)) |}) with (eocc x (hs s0)). lia.
Qed.

Lemma fail_session_facts : forall c s na err rm,
  weight c (hs (fail_session c s na err rm)) <= weight c (hs s) /\
  (forall B, dl_below B (hs s) -> dl_below B (hs (fail_session c s na err rm))) /\
  (forall x, elive x (fail_session c s na err rm) = elive x s).
Proof.
  intros c s na err rm. unfold fail_session.
  set (s1 := if rm then let s0 := remove_expired_sessions c s in with_hs s0 (sess_remove (hs s0) na) else s).
  assert (H1 : core4 (hs s1) = core4 (hs s) /\ forall x, fmen x (outs s1) = fmen x (outs s)).
  { subst s1. destruct rm; [|split; reflexivity]. cbv zeta. cbn [with_hs hs outs]. split.
    - rewrite <- (core4_remove_expired_sessions c s). reflexivity.
    - intros x. destruct (remove_expired_sessions_outs c s) as [X|[ks X]]; rewrite X; [reflexivity|].
      rewrite fmen_app. cbn [fmen is_fail]. lia. }
  clearbody s1. destruct H1 as [C1 O1].
  set (s2 := match alist_get na (pending (hs s1)) with Some l => _ | None => s1 end).
  assert (H2 : weight c (hs s2) <= weight c (hs s1) /\ (forall B, dl_below B (hs s1) -> dl_below B (hs s2)) /\
               forall x, elive x s2 = elive x s1).
  { subst s2. destruct (alist_get na (pending (hs s1))) as [l|] eqn:G; [|split; [lia|split; auto]].
    destruct (fail_pending_fold_facts err l (with_hs s1 (set_pending (hs s1) (alist_remove na (pending (hs s1))))))
      as [A1 A2]. cbv zeta in A1, A2. rewrite A1. cbn [with_hs hs]. split; [|split].
    - pose proof (weight_remove_pending c (hs s1) na l G). lia.
    - intros B H. eapply dl_below_same; [| |exact H]; reflexivity.
    - intros x. rewrite A2. unfold elive. cbn [with_hs hs outs]. pose proof (eocc_remove_pending x (hs s1) na l G). lia. }
  clearbody s2. destruct H2 as (W2 & D2 & L2).
  destruct (ar_remove_requests (hs s2) na) as [h3 reqs] eqn:E.
  destruct (fail_active_fold_facts err (snd na) reqs (with_hs s2 h3)) as [A1 A2]. cbv zeta in A1, A2.
  cbn [with_hs hs] in A1. split; [|split].
  - rewrite (weight_core c _ _ A1). pose proof (weight_ar_remove_requests c _ _ _ _ E).
    rewrite <- (weight_core c _ _ C1). lia.
  - intros B H. eapply dl_below_core; [exact A1|]. eapply dl_below_ar_remove_requests; [exact E|].
    apply D2. eapply dl_below_core; [exact C1|exact H].
  - intros x. rewrite A2. unfold elive at 1. cbn [with_hs hs outs].
    pose proof (eocc_ar_remove_requests x _ _ _ _ E). specialize (L2 x). unfold elive in L2 at 1.
    assert (X : elive x s1 = elive x s). { unfold elive. rewrite (O1 x), (eocc_core x _ _ C1). reflexivity. }
    lia.
Qed.

Lemma fail_request_facts : forall c s r err rm,
  weight c (hs (fail_request c s r err rm)) <= weight c (hs s) /\
  (forall B, dl_below B (hs s) -> dl_below B (hs (fail_request c s r err rm))) /\
  (forall x, elive x (fail_request c s r err rm) = elive x s + er1 x r).
Proof.
  intros c s r err rm. unfold fail_request.
  match goal with |- context [fail_session c ?s1 ?a err rm] => destruct (fail_session_facts c s1 a err rm) as (A1 & A2 & A3) end.
  split; [|split].
  - etransitivity; [exact A1|]. destruct (rc_ext r); cbn [emit hs]; lia.
  - intros B H. apply A2. destruct (rc_ext r); exact H.
  - intros x. rewrite A3. unfold er1. destruct (rc_ext r); [|lia]. rewrite elive_emit. reflexivity.
Qed.

Lemma handle_request_timeout_facts : forall c s na r now,
  weight c (hs (handle_request_timeout c s na r now)) + 1 <= weight c (hs s) + wreq c r /\
  (forall B, dl_below B (hs s) -> (now + cfg_timeout c < B)%N -> dl_below B (hs (handle_request_timeout c s na r now))) /\
  (forall x, elive x (handle_request_timeout c s na r now) = elive x s + er1 x r).
Proof.
  intros c s na r now. unfold handle_request_timeout.
  destruct (N.leb (cfg_retries c) (rc_retries r)) eqn:Hl.
  - destruct (fail_request_facts c (remove_expected s (snd na)) r ERR_TIMEOUT false) as (A1 & A2 & A3).
    split; [|split].
    + pose proof (wreq_pos c r). assert (X : weight c (hs (remove_expected s (snd na))) = weight c (hs s)) by reflexivity. lia.
    + intros B H _. apply A2. eapply dl_below_same; [| |exact H]; reflexivity.
    + intros x. rewrite A3. reflexivity.
  - apply N.leb_gt in Hl. cbn [send emit with_hs hs outs]. split; [|split].
    + rewrite weight_ar_insert. unfold wreq. cbn [rc_retries]. lia.
    + intros B H L. apply dl_below_ar_insert; assumption.
    + intros x. unfold elive, send, emit. cbn [with_hs hs outs]. rewrite eocc_ar_insert, fmen_app. cbn [fmen is_fail]. unfold er1.
      cbn [rc_ext rc_rid]. lia.
Qed.

(* ------------------------------------------------------------------------------------------ *)
(* an expired request timer *)

Lemma fire_request_facts : forall c s n na now,
  weight c (hs (fire_request c s n na now)) <= weight c (hs s) /\
  (Sync (hs s) -> nmap_get n (nmap (hs s)) = Some na -> weight c (hs (fire_request c s n na now)) < weight c (hs s)) /\
  (forall B, dl_below B (hs s) -> (now + cfg_timeout c < B)%N -> dl_below B (hs (fire_request c s n na now))) /\
  (forall x, elive x (fire_request c s n na now) = elive x s).
Proof.
  intros c s n na now.
  assert (D0 : forall B, dl_below B (hs s) ->
            dl_below B (hs (with_hs s (set_active (hs s) (active (hs s)) (nmap_remove n (nmap (hs s))))))).
  { intros B [H1 H2]. split; cbn [with_hs hs set_active nmap challenges]; [apply nmap_remove_Forall; exact H1|exact H2]. }
  unfold fire_request.
  destruct (alist_get na (active (hs s))) as [l|] eqn:G.
  2:{ split; [cbn [with_hs hs]; unfold weight; cbn [set_active active pending challenges]; lia|].
      split; [|split; [intros B H _; apply D0; exact H|intros x; reflexivity]].
      intros S Gn. exfalso. destruct (Sync_stored _ _ _ S Gn) as (l & r & l' & G1 & _). congruence. }
  destruct (remove_first (fun r => nonce_eqb (rc_nonce r) n) l) as [[r l']|] eqn:R.
  2:{ split; [cbn [with_hs hs]; unfold weight; cbn [set_active active pending challenges]; lia|].
      split; [|split; [intros B H _; apply D0; exact H|intros x; reflexivity]].
      intros S Gn. exfalso. destruct (Sync_stored _ _ _ S Gn) as (l0 & r & l' & G1 & R1 & _). congruence. }
  match goal with |- context [handle_request_timeout c ?s1 na r now] =>
    destruct (handle_request_timeout_facts c s1 na r now) as (A1 & A2 & A3) end.
  cbn [with_hs hs] in A1, A2.
  pose proof (weight_take c (hs s) na l _ r l' (nmap_remove n (nmap (hs s))) G R) as W.
  split; [lia|]. split; [intros _ _; lia|]. split.
  - intros B [H1 H2] L. apply A2; [|exact L].
    split; cbn [set_active nmap challenges]; [apply nmap_remove_Forall; exact H1|exact H2].
  - intros x. rewrite A3. unfold elive. cbn [with_hs hs outs].
    pose proof (eocc_take x (hs s) na l _ r l' (nmap_remove n (nmap (hs s))) G R). lia.
Qed.

(* an expired challenge timer *)
Lemma chall_remove_length : forall na l, length (chall_remove na l) <= length l.
Proof.
  intros na. induction l as [|[[a ch] d] t IH]; cbn [chall_remove length]; [lia|].
  destruct (naddr_eqb a na); cbn [length]; lia.
Qed.
Lemma chall_remove_length_in : forall na ch d l, In (na, ch, d) l -> S (length (chall_remove na l)) = length l.
Proof.
  intros na ch d. induction l as [|[[a ch0] d0] t IH]; intros H; [destruct H|]. cbn [chall_remove length].
  destruct (naddr_eqb a na) eqn:E; [reflexivity|]. cbn [length]. destruct H as [H|H].
  - inversion H; subst. rewrite naddr_eqb_refl in E. discriminate.
  - rewrite (IH H). reflexivity.
Qed.

Lemma fire_challenge_facts : forall c s na now,
  weight c (hs (fire_challenge c s na now)) <= weight c (hs s) /\
  (forall ch d, In (na, ch, d) (challenges (hs s)) -> weight c (hs (fire_challenge c s na now)) < weight c (hs s)) /\
  (forall B, dl_below B (hs s) -> (now + cfg_timeout c < B)%N -> dl_below B (hs (fire_challenge c s na now))) /\
  (forall x, elive x (fire_challenge c s na now) = elive x s).
Proof.
  intros c s na now. unfold fire_challenge.
  match goal with |- context [send_pending_requests c ?s2 na now] =>
    destruct (send_pending_requests_facts c s2 na now) as (A1 & A2 & A3); set (s2' := s2) in * end.
  assert (W : weight c (hs s2') + length (challenges (hs s)) =
              weight c (hs s) + length (chall_remove na (challenges (hs s)))).
  { subst s2'. unfold weight. cbn [remove_expected with_hs hs set_challenges active pending challenges]. lia. }
  split; [|split; [|split]].
  - pose proof (chall_remove_length na (challenges (hs s))). lia.
  - intros ch d Hin. pose proof (chall_remove_length_in na ch d _ Hin). lia.
  - intros B [H1 H2] L. apply A2; [|exact L]. subst s2'. split;
      cbn [remove_expected with_hs hs set_challenges nmap challenges]; [exact H1|apply chall_remove_Forall; exact H2].
  - intros x. rewrite A3. reflexivity.
Qed.

(* ------------------------------------------------------------------------------------------ *)
(* a group of request timers with one deadline *)

Definition fg_f (c : config) (d ft : N) (s : st) (x : nonce * naddr) : st :=
  match nmap_deadline (fst x) (nmap (hs s)) with
  | Some d' => if N.eqb d' d then fire_request c s (fst x) (snd x) ft else s
  | None => s
  end.

Lemma fire_group_cons : forall c s x t d ft, fire_group c s (x :: t) d ft = fire_group c (fg_f c d ft s x) t d ft.
Proof. reflexivity. Qed.

Lemma fg_f_facts : forall c d ft s x,
  weight c (hs (fg_f c d ft s x)) <= weight c (hs s) /\
  (forall B, dl_below B (hs s) -> (ft + cfg_timeout c < B)%N -> dl_below B (hs (fg_f c d ft s x))) /\
  (forall y, elive y (fg_f c d ft s x) = elive y s).
Proof.
  intros c d ft s x. unfold fg_f.
  destruct (fire_request_facts c s (fst x) (snd x) ft) as (A1 & _ & A3 & A4).
  destruct (nmap_deadline (fst x) (nmap (hs s))) as [d'|]; [|split; [lia|split; auto]].
  destruct (N.eqb d' d); [|split; [lia|split; auto]]. split; [exact A1|split; [exact A3|exact A4]].
Qed.

Lemma fire_group_facts : forall c d ft g s,
  weight c (hs (fire_group c s g d ft)) <= weight c (hs s) /\
  (forall B, dl_below B (hs s) -> (ft + cfg_timeout c < B)%N -> dl_below B (hs (fire_group c s g d ft))) /\
  (forall y, elive y (fire_group c s g d ft) = elive y s).
Proof.
  intros c d ft. induction g as [|x t IH]; intros s.
  - unfold fire_group. cbn [fold_left]. split; [lia|split; auto].
  - rewrite fire_group_cons. destruct (fg_f_facts c d ft s x) as (A1 & A2 & A3).
    destruct (IH (fg_f c d ft s x)) as (B1 & B2 & B3). split; [lia|split].
    + intros B H L. apply B2; [apply A2; assumption|exact L].
    + intros y. rewrite B3. apply A3.
Qed.

Lemma nmap_deadline_in : forall n na d nm, In (n, na, d) nm -> kM n nm <= 1 -> nmap_deadline n nm = Some d.
Proof.
  intros n na d. induction nm as [|[[n0 na0] d0] t IH]; intros H K; [destruct H|].
  cbn [nmap_deadline]. cbn [kM] in K. destruct (nonce_eqb n n0) eqn:E; cbn [bn] in K.
  - destruct H as [H|H]; [inversion H; reflexivity|].
    exfalso. pose proof (cM_in _ _ _ _ H). pose proof (cM_le_kM n na t). lia.
  - destruct H as [H|H]; [inversion H; subst; rewrite nonce_eqb_refl in E; discriminate|].
    apply IH; [exact H|lia].
Qed.

Lemma group_of_in3 : forall d nm n na, In (n, na) (group_of d nm) -> In (n, na, d) nm.
Proof.
  intros d nm n na H. unfold group_of in H. apply in_map_iff in H. destruct H as ([[n0 na0] d0] & E & H).
  cbn [fst snd] in E. inversion E; subst. apply filter_In in H. destruct H as [H1 H2]. cbn [snd] in H2.
  apply N.eqb_eq in H2. subst. exact H1.
Qed.

Lemma in_group_of : forall d nm n na, In (n, na, d) nm -> In (n, na) (group_of d nm).
Proof.
  intros d nm n na H. unfold group_of. apply in_map_iff. exists (n, na, d). split; [reflexivity|].
  apply filter_In. split; [exact H|]. cbn [snd]. apply N.eqb_refl.
Qed.

(* the timers run under their own clock *)
Lemma fire_group_facts_wc : forall c t d ft g s,
  weight c (hs (fire_group (with_clock c t) s g d ft)) <= weight c (hs s) /\
  (forall B, dl_below B (hs s) -> (ft + cfg_timeout c < B)%N -> dl_below B (hs (fire_group (with_clock c t) s g d ft))) /\
  (forall y, elive y (fire_group (with_clock c t) s g d ft) = elive y s).
Proof.
  intros c t d ft g s. pose proof (fire_group_facts (with_clock c t) d ft g s) as H.
  rewrite !weight_with_clock in H. exact H.
Qed.

Lemma fire_challenge_facts_wc : forall c t s na now,
  weight c (hs (fire_challenge (with_clock c t) s na now)) <= weight c (hs s) /\
  (forall ch d, In (na, ch, d) (challenges (hs s)) -> weight c (hs (fire_challenge (with_clock c t) s na now)) < weight c (hs s)) /\
  (forall B, dl_below B (hs s) -> (now + cfg_timeout c < B)%N -> dl_below B (hs (fire_challenge (with_clock c t) s na now))) /\
  (forall x, elive x (fire_challenge (with_clock c t) s na now) = elive x s).
Proof.
  intros c t s na now. pose proof (fire_challenge_facts (with_clock c t) s na now) as H.
  rewrite !weight_with_clock in H. exact H.
Qed.

(* the first member of a group fires (nothing has touched its timer yet) *)
Lemma fire_group_strict : forall c d ft x t s,
  Sync (hs s) -> In (fst x, snd x, d) (nmap (hs s)) ->
  weight c (hs (fire_group c s (x :: t) d ft)) < weight c (hs s).
Proof.
  intros c d ft x t s S Hin. rewrite fire_group_cons.
  destruct (fire_group_facts c d ft t (fg_f c d ft s x)) as (B1 & _ & _).
  assert (X : weight c (hs (fg_f c d ft s x)) < weight c (hs s)); [|lia].
  unfold fg_f. destruct S as (K & S & U).
  rewrite (nmap_deadline_in _ _ _ _ Hin (U (fst x))), N.eqb_refl.
  destruct (fire_request_facts c s (fst x) (snd x) ft) as (_ & A2 & _). apply A2; [exact (conj K (conj S U))|].
  apply cM_uniq_get; [apply U|]. eapply cM_in. exact Hin.
Qed.

Lemma fire_group_strict_wc : forall c t d ft x g s,
  Sync (hs s) -> In (fst x, snd x, d) (nmap (hs s)) ->
  weight c (hs (fire_group (with_clock c t) s (x :: g) d ft)) < weight c (hs s).
Proof.
  intros c t d ft x g s S Hin. pose proof (fire_group_strict (with_clock c t) d ft x g s S Hin) as H.
  rewrite !weight_with_clock in H. exact H.
Qed.

(* one round of fire_due on the request side *)
Definition fire_req_group (c : config) (s : st) (d now : N) : st :=
  match group_of d (nmap (hs s)) with
  | _ :: _ :: _ =>
    let (rev_order, d') := pop_rev (dr s) in
    fire_group (with_clock c (fire_time c d now)) {| hs := hs s; dr := d'; outs := outs s |}
      (if rev_order then rev (group_of d (nmap (hs s))) else group_of d (nmap (hs s))) d (fire_time c d now)
  | _ => fire_group (with_clock c (fire_time c d now)) s (group_of d (nmap (hs s))) d (fire_time c d now)
  end.

Lemma fire_req_group_facts : forall c s d now,
  weight c (hs (fire_req_group c s d now)) <= weight c (hs s) /\
  (forall B, dl_below B (hs s) -> (fire_time c d now + cfg_timeout c < B)%N -> dl_below B (hs (fire_req_group c s d now))) /\
  (forall y, elive y (fire_req_group c s d now) = elive y s).
Proof.
  intros c s d now. unfold fire_req_group.
  destruct (group_of d (nmap (hs s))) as [|x [|y g]]; try apply fire_group_facts_wc.
  destruct (pop_rev (dr s)) as [ro d'].
  apply (fire_group_facts_wc c (fire_time c d now) d (fire_time c d now) (if ro then rev (x :: y :: g) else x :: y :: g)
           {| hs := hs s; dr := d'; outs := outs s |}).
Qed.

Lemma fire_req_group_strict : forall c s d now n na,
  Sync (hs s) -> In (n, na, d) (nmap (hs s)) ->
  weight c (hs (fire_req_group c s d now)) < weight c (hs s).
Proof.
  intros c s d now n na S Hin. unfold fire_req_group.
  pose proof (in_group_of d _ _ _ Hin) as Hg.
  assert (M : forall x, In x (group_of d (nmap (hs s))) -> In (fst x, snd x, d) (nmap (hs s))).
  { intros [n0 na0] H0. apply group_of_in3. exact H0. }
  destruct (group_of d (nmap (hs s))) as [|x [|y g]] eqn:EG; [destruct Hg| |].
  - apply fire_group_strict_wc; [exact S|]. apply M. left. reflexivity.
  - destruct (pop_rev (dr s)) as [ro d'].
    assert (X : forall G, G <> [] -> (forall z, In z G -> In z (x :: y :: g)) ->
              weight c (hs (fire_group (with_clock c (fire_time c d now)) {| hs := hs s; dr := d'; outs := outs s |} G d
                              (fire_time c d now)))
              < weight c (hs s)).
    { intros G Hne Hsub. destruct G as [|z G']; [congruence|].
      apply (fire_group_strict_wc c (fire_time c d now) d (fire_time c d now) z G'
               {| hs := hs s; dr := d'; outs := outs s |}); [exact S|].
      cbn [hs]. apply M. apply Hsub. left. reflexivity. }
    destruct ro; apply X.
    + intros E. apply (f_equal (@length _)) in E. rewrite rev_length in E. discriminate.
    + intros z Hz. apply in_rev. exact Hz.
    + discriminate.
    + auto.
Qed.

(* ------------------------------------------------------------------------------------------ *)
(* fire_due, one round at a time *)

Definition fire_next (c : config) (s : st) (now : N) : option st :=
  match min_deadline_nmap (nmap (hs s)) None, min_deadline_ch (challenges (hs s)) None with
  | Some (_, _, d), Some (cna, _, cd) =>
    if N.ltb d now && (negb (N.ltb cd now) || N.leb d cd) then Some (fire_req_group c s d now)
    else if N.ltb cd now then Some (fire_challenge (with_clock c (fire_time c cd now)) s cna (fire_time c cd now)) else None
  | Some (_, _, d), None => if N.ltb d now then Some (fire_req_group c s d now) else None
  | None, Some (cna, _, cd) =>
    if N.ltb cd now then Some (fire_challenge (with_clock c (fire_time c cd now)) s cna (fire_time c cd now)) else None
  | None, None => None
  end.

Lemma fire_due_S : forall c s now f,
  fire_due c s now (S f) = match fire_next c s now with Some s1 => fire_due c s1 now f | None => s end.
Proof.
  intros c s now f. cbn [fire_due]. unfold fire_next, fire_req_group.
  destruct (min_deadline_nmap (nmap (hs s)) None) as [[[rn ra] rd]|];
  destruct (min_deadline_ch (challenges (hs s)) None) as [[[cna cc] cd]|]; try reflexivity.
  - destruct (N.ltb rd now && (negb (N.ltb cd now) || N.leb rd cd)); [reflexivity|].
    destruct (N.ltb cd now); reflexivity.
  - destruct (N.ltb rd now); reflexivity.
  - destruct (N.ltb cd now); reflexivity.
Qed.

Lemma min_deadline_nmap_in : forall l best x, min_deadline_nmap l best = Some x -> In x l \/ best = Some x.
Proof.
  induction l as [|[[n a] d] r IH]; cbn [min_deadline_nmap In]; intros best x H; [auto|].
  apply IH in H. destruct H as [H|H]; [auto|].
  destruct best as [[[bn0 ba] bd]|].
  - destruct (N.ltb d bd); [inversion H; auto|auto].
  - inversion H; auto.
Qed.
Lemma min_deadline_nmap_none : forall l best, min_deadline_nmap l best = None -> l = [].
Proof.
  induction l as [|[[n a] d] r IH]; cbn [min_deadline_nmap]; intros best H; [reflexivity|].
  exfalso. destruct best as [[[bn0 ba] bd]|].
  - destruct (N.ltb d bd); specialize (IH _ H); subst r; cbn in H; discriminate.
  - specialize (IH _ H). subst r. cbn in H. discriminate.
Qed.
Lemma min_deadline_ch_none : forall l best, min_deadline_ch l best = None -> l = [].
Proof.
  induction l as [|[[a ch] d] r IH]; cbn [min_deadline_ch]; intros best H; [reflexivity|].
  exfalso. destruct best as [[[ba bc] bd]|].
  - destruct (N.ltb d bd); specialize (IH _ H); subst r; cbn in H; discriminate.
  - specialize (IH _ H). subst r. cbn in H. discriminate.
Qed.

(* what fires is armed and due *)
Lemma fire_next_some : forall c s now s1, fire_next c s now = Some s1 ->
  (exists n na d, In (n, na, d) (nmap (hs s)) /\ (d < now)%N /\ s1 = fire_req_group c s d now) \/
  (exists na ch d, In (na, ch, d) (challenges (hs s)) /\ (d < now)%N /\
     s1 = fire_challenge (with_clock c (fire_time c d now)) s na (fire_time c d now)).
Proof.
  intros c s now s1 H. unfold fire_next in H.
  destruct (min_deadline_nmap (nmap (hs s)) None) as [[[rn ra] rd]|] eqn:ER;
  destruct (min_deadline_ch (challenges (hs s)) None) as [[[cna cc] cd]|] eqn:EC.
  - apply min_deadline_nmap_in in ER. destruct ER as [ER|ER]; [|discriminate].
    apply min_deadline_ch_in in EC. destruct EC as [EC|EC]; [|discriminate].
    destruct (N.ltb rd now && (negb (N.ltb cd now) || N.leb rd cd)) eqn:E1.
    + apply andb_true_iff in E1. destruct E1 as [E1 _]. apply N.ltb_lt in E1. inversion H; subst. left. eauto 8.
    + destruct (N.ltb cd now) eqn:E2; [|discriminate]. apply N.ltb_lt in E2. inversion H; subst. right. eauto 8.
  - apply min_deadline_nmap_in in ER. destruct ER as [ER|ER]; [|discriminate].
    destruct (N.ltb rd now) eqn:E1; [|discriminate]. apply N.ltb_lt in E1. inversion H; subst. left. eauto 8.
  - apply min_deadline_ch_in in EC. destruct EC as [EC|EC]; [|discriminate].
    destruct (N.ltb cd now) eqn:E2; [|discriminate]. apply N.ltb_lt in E2. inversion H; subst. right. eauto 8.
  - discriminate.
Qed.

(* if every armed deadline has passed and nothing fires, nothing is armed *)
Lemma fire_next_none : forall c s now, fire_next c s now = None -> dl_below now (hs s) ->
  nmap (hs s) = [] /\ challenges (hs s) = [].
Proof.
  intros c s now H [D1 D2]. unfold fire_next in H. rewrite Forall_forall in D1, D2.
  destruct (min_deadline_nmap (nmap (hs s)) None) as [[[rn ra] rd]|] eqn:ER;
  destruct (min_deadline_ch (challenges (hs s)) None) as [[[cna cc] cd]|] eqn:EC.
  - exfalso. apply min_deadline_nmap_in in ER. destruct ER as [ER|ER]; [|discriminate].
    apply min_deadline_ch_in in EC. destruct EC as [EC|EC]; [|discriminate].
    specialize (D1 _ ER). specialize (D2 _ EC). cbn [snd] in D1, D2.
    apply N.ltb_lt in D1. apply N.ltb_lt in D2. rewrite D1, D2 in H. cbn [negb orb andb] in H.
    destruct (N.leb rd cd); discriminate.
  - exfalso. apply min_deadline_nmap_in in ER. destruct ER as [ER|ER]; [|discriminate].
    specialize (D1 _ ER). cbn [snd] in D1. apply N.ltb_lt in D1. rewrite D1 in H. discriminate.
  - exfalso. apply min_deadline_ch_in in EC. destruct EC as [EC|EC]; [|discriminate].
    specialize (D2 _ EC). cbn [snd] in D2. apply N.ltb_lt in D2. rewrite D2 in H. discriminate.
  - split; [eapply min_deadline_nmap_none; eauto|eapply min_deadline_ch_none; eauto].
Qed.

Lemma fire_time_le : forall c d now, (d < now)%N -> (fire_time c d now <= now + cfg_grid c)%N.
Proof.
  intros c d now L. unfold fire_time. destruct (N.eqb (cfg_grid c) 0) eqn:E; [lia|].
  apply N.eqb_neq in E. pose proof (N.mul_div_le d (cfg_grid c) E). lia.
Qed.

(* the bound below which every deadline lies after a tick at time [now] *)
Definition next_bound (c : config) (now : N) : N := (now + cfg_grid c + cfg_timeout c + 1)%N.

Lemma fire_next_facts : forall c s now s1, fire_next c s now = Some s1 ->
  weight c (hs s1) <= weight c (hs s) /\
  (Sync (hs s) -> weight c (hs s1) < weight c (hs s)) /\
  (forall B, (next_bound c now <= B)%N -> dl_below B (hs s) -> dl_below B (hs s1)) /\
  (forall y, elive y s1 = elive y s).
Proof.
  intros c s now s1 H. apply fire_next_some in H.
  destruct H as [(n & na & d & Hin & L & ->)|(na & ch & d & Hin & L & ->)].
  - destruct (fire_req_group_facts c s d now) as (A1 & A2 & A3).
    split; [exact A1|split; [|split; [|exact A3]]].
    + intros S. eapply fire_req_group_strict; eauto.
    + intros B LB D. apply A2; [exact D|]. pose proof (fire_time_le c d now L). unfold next_bound in LB. lia.
  - destruct (fire_challenge_facts_wc c (fire_time c d now) s na (fire_time c d now)) as (A1 & A2 & A3 & A4).
    split; [exact A1|split; [|split; [|exact A4]]].
    + intros _. eapply A2; eauto.
    + intros B LB D. apply A3; [exact D|]. pose proof (fire_time_le c d now L). unfold next_bound in LB. lia.
Qed.

Lemma fire_due_facts : forall c now fuel s,
  weight c (hs (fire_due c s now fuel)) <= weight c (hs s) /\
  (forall B, (next_bound c now <= B)%N -> dl_below B (hs s) -> dl_below B (hs (fire_due c s now fuel))) /\
  (forall y, elive y (fire_due c s now fuel) = elive y s).
Proof.
  intros c now. induction fuel as [|f IH]; intros s; [cbn [fire_due]; split; [lia|split; auto]|].
  rewrite fire_due_S. destruct (fire_next c s now) as [s1|] eqn:E; [|split; [lia|split; auto]].
  destruct (fire_next_facts c s now s1 E) as (A1 & _ & A3 & A4). destruct (IH s1) as (B1 & B2 & B3).
  split; [lia|split; [auto|]]. intros y. rewrite B3. apply A4.
Qed.

(* ------------------------------------------------------------------------------------------ *)
(* the invariants of the reachable states of the repaired configuration that the argument uses:
   Sync (C04 maps_in_sync: every stored request has its timer), NoOrph (C04 no_orphans: every
   queue hangs on a challenge or on a session-initiating request; counters in range), ExpInv (C13;
   only its part ActWF - no empty request list is stored - is used, and it gives expected = []) *)

Definition DrainInv (c : config) (h : hstate) : Prop := Sync h /\ NoOrph c h /\ ExpInv h.

(* nothing armed => nothing held *)
Theorem nothing_armed_nothing_held : forall c h, DrainInv c h -> nmap h = [] -> challenges h = [] ->
  active h = [] /\ pending h = [].
Proof.
  intros c h ((K & S & U) & (_ & _ & C & _) & ((AW & _) & _)) Hn Hc.
  assert (Ha : active h = []).
  { destruct (active h) as [|[na l] t] eqn:Ea; [reflexivity|exfalso].
    destruct AW as [_ AW]. inversion AW as [|? ? [Hne _] _]; subst. cbn [snd] in Hne.
    destruct l as [|r l]; [congruence|]. specialize (S (rc_nonce r) na). rewrite Hn in S. cbn [cM] in S.
    unfold cA in S. cbn [alist_get] in S. rewrite naddr_eqb_refl in S. cbn [cntn] in S.
    rewrite nonce_eqb_refl in S. cbn [bn] in S. lia. }
  split; [exact Ha|].
  destruct (pending h) as [|[na q] t] eqn:Ep; [reflexivity|exfalso].
  destruct (C na) as [X|X]; [intros []| |].
  - cbn [alist_get] in X. rewrite naddr_eqb_refl in X. discriminate.
  - destruct X as [X|[_ [X|X]]].
    + unfold has_challenge in X. rewrite Hc in X. discriminate.
    + discriminate.
    + destruct X as (l & G & _). rewrite Ha in G. discriminate.
Qed.

Lemma weight_zero_unarmed : forall c h, DrainInv c h -> weight c h = 0 -> nmap h = [] /\ challenges h = [].
Proof.
  intros c h ((K & S & U) & _ & ((AW & _) & _)) W. unfold weight in W.
  assert (Hc : challenges h = []) by (destruct (challenges h); [reflexivity|cbn [length] in W; lia]).
  split; [|exact Hc].
  assert (Ha : active h = []).
  { destruct (active h) as [|[na l] t] eqn:Ea; [reflexivity|exfalso].
    destruct AW as [_ AW]. inversion AW as [|? ? [Hne _] _]; subst. cbn [snd] in Hne.
    destruct l as [|r l]; [congruence|]. cbn [asum wl] in W. pose proof (wreq_pos c r). lia. }
  destruct (nmap h) as [|[[n na] d] t] eqn:En; [reflexivity|exfalso].
  specialize (S n na). rewrite Ha in S. unfold cA in S. cbn [alist_get cM] in S.
  rewrite nonce_eqb_refl, naddr_eqb_refl in S. cbn [andb bn] in S. lia.
Qed.

Lemma unarmed_weight_zero : forall c h, DrainInv c h -> nmap h = [] -> challenges h = [] -> weight c h = 0.
Proof.
  intros c h I Hn Hc. destruct (nothing_armed_nothing_held c h I Hn Hc) as [Ha Hp].
  unfold weight. rewrite Ha, Hp, Hc. reflexivity.
Qed.

Theorem weight_zero_nothing_held : forall c h, DrainInv c h -> weight c h = 0 ->
  active h = [] /\ pending h = [] /\ challenges h = [] /\ nmap h = [] /\ expected h = [].
Proof.
  intros c h I W. destruct (weight_zero_unarmed c h I W) as [Hn Hc].
  destruct (nothing_armed_nothing_held c h I Hn Hc) as [Ha Hp].
  repeat split; auto. destruct I as (_ & _ & E). apply all_done_no_exemption; assumption.
Qed.

(* ------------------------------------------------------------------------------------------ *)
(* one tick *)

Lemma tick_unfold : forall c h now d,
  step c h EvTick now d =
  (hs (fire_due (with_clock c now) {| hs := h; dr := d; outs := [] |} now TICK_FUEL),
   outs (fire_due (with_clock c now) {| hs := h; dr := d; outs := [] |} now TICK_FUEL)).
Proof. reflexivity. Qed.

(* a tick at time [now] fires the due timers under the clock [now]; stated for an arbitrary fuel *)
Lemma fire_due_no_wc : forall c t E now fuel s,
  NOC c None E (hs s) -> NOC c None E (hs (fire_due (with_clock c t) s now fuel)).
Proof. intros c t. exact (fire_due_no (with_clock c t)). Qed.
Lemma fire_due_facts_wc : forall c t now fuel s,
  weight c (hs (fire_due (with_clock c t) s now fuel)) <= weight c (hs s) /\
  (forall B, (next_bound c now <= B)%N -> dl_below B (hs s) -> dl_below B (hs (fire_due (with_clock c t) s now fuel))) /\
  (forall y, elive y (fire_due (with_clock c t) s now fuel) = elive y s).
Proof.
  intros c t now fuel s. pose proof (fire_due_facts (with_clock c t) now fuel s) as H.
  rewrite !weight_with_clock in H. exact H.
Qed.

Lemma TICK_FUEL_S : TICK_FUEL = S 63.
Proof. reflexivity. Qed.

Lemma fire_due_progress : forall c now f s,
  DrainInv c (hs s) -> dl_below now (hs s) ->
  weight c (hs (fire_due c s now (S f))) <= pred (weight c (hs s)).
Proof.
  intros c now f s I D. rewrite fire_due_S. destruct (fire_next c s now) as [s1|] eqn:E.
  - destruct (fire_next_facts c s now s1 E) as (_ & B2 & _ & _). specialize (B2 (proj1 I)).
    destruct (fire_due_facts c now f s1) as (C1 & _ & _). lia.
  - destruct (fire_next_none c s now E D) as [Hn Hc]. rewrite (unarmed_weight_zero c (hs s) I Hn Hc). lia.
Qed.

Lemma fire_due_progress_wc : forall c t now f s,
  DrainInv c (hs s) -> dl_below now (hs s) ->
  weight c (hs (fire_due (with_clock c t) s now (S f))) <= pred (weight c (hs s)).
Proof.
  intros c t now f s I D. pose proof (fire_due_progress (with_clock c t) now f s I D) as H.
  rewrite !weight_with_clock in H. exact H.
Qed.

(* drain_step: a tick later than every armed deadline preserves the invariants, leaves every deadline
   below [next_bound], strictly decreases the weight unless it is zero already, and reports every
   application request it drops *)
Lemma tick_fst : forall c h now d,
  fst (step c h EvTick now d) = hs (fire_due (with_clock c now) {| hs := h; dr := d; outs := [] |} now TICK_FUEL).
Proof. reflexivity. Qed.
Lemma tick_snd : forall c h now d,
  snd (step c h EvTick now d) = outs (fire_due (with_clock c now) {| hs := h; dr := d; outs := [] |} now TICK_FUEL).
Proof. reflexivity. Qed.

Lemma tick_inv : forall c h now d,
  DrainInv c h -> fresh_draws h d -> not_exhausted c h EvTick now d -> DrainInv c (fst (step c h EvTick now d)).
Proof.
  intros c h now d (SY & NO & EI) F NE. split; [apply step_sync; assumption|]. rewrite tick_fst.
  split; [apply (fire_due_no_wc c now none now TICK_FUEL {| hs := h; dr := d; outs := [] |}); exact NO
         |apply (fire_due_inv (with_clock c now) now TICK_FUEL {| hs := h; dr := d; outs := [] |}); exact EI].
Qed.

Lemma tick_dl : forall c h now d, dl_below now h -> dl_below (next_bound c now) (fst (step c h EvTick now d)).
Proof.
  intros c h now d D. rewrite tick_fst.
  apply (proj1 (proj2 (fire_due_facts_wc c now now TICK_FUEL {| hs := h; dr := d; outs := [] |})) (next_bound c now)); [lia|].
  apply (dl_below_mono now); [unfold next_bound; lia|exact D].
Qed.

Lemma tick_weight : forall c h now d, DrainInv c h -> dl_below now h ->
  weight c (fst (step c h EvTick now d)) <= pred (weight c h).
Proof.
  intros c h now d I D. rewrite tick_fst, TICK_FUEL_S.
  apply (fire_due_progress_wc c now now 63 {| hs := h; dr := d; outs := [] |}); assumption.
Qed.

(* (stated for an arbitrary fuel: with the constant TICK_FUEL in the statement the kernel unfolds
   fire_due 64 levels deep when it compares the two sides) *)
Lemma tick_eocc0 : forall c h now d x f,
  eocc x h = eocc x (hs (fire_due c {| hs := h; dr := d; outs := [] |} now f))
             + fmen x (outs (fire_due c {| hs := h; dr := d; outs := [] |} now f)).
Proof.
  intros c h now d x f.
  pose proof (proj2 (proj2 (fire_due_facts c now f {| hs := h; dr := d; outs := [] |})) x) as A3.
  unfold elive in A3.
  assert (Z : forall a b, a + b = eocc x h + 0 -> eocc x h = a + b) by (intros; lia). apply Z. exact A3.
Qed.
Lemma tick_eocc : forall c h now d x,
  eocc x h = eocc x (fst (step c h EvTick now d)) + fmen x (snd (step c h EvTick now d)).
Proof. intros c h now d x. rewrite tick_fst, tick_snd. apply tick_eocc0. Qed.

Theorem drain_step : forall c h now d,
  DrainInv c h -> dl_below now h -> fresh_draws h d -> not_exhausted c h EvTick now d ->
  let h' := fst (step c h EvTick now d) in
  let o := snd (step c h EvTick now d) in
  DrainInv c h' /\ dl_below (next_bound c now) h' /\ weight c h' <= pred (weight c h) /\
  forall x, eocc x h = eocc x h' + fmen x o.
Proof.
  intros c h now d I D F NE. cbv zeta.
  split; [apply tick_inv; assumption|]. split; [apply tick_dl; assumption|].
  split; [apply tick_weight; assumption|]. intros x. apply tick_eocc.
Qed.

(* ------------------------------------------------------------------------------------------ *)
(* failure reports are terminal events; application requests held *)

Lemma fmen_in : forall x o, 1 <= fmen x o -> exists err, In (OEvent (HRequestFailed x err)) o.
Proof.
  intros x. induction o as [|e t IH]; cbn [fmen]; intros H; [lia|].
  destruct (is_fail x e) eqn:E.
  - destruct IH as (err & Hin); [lia|]. exists err. right. exact Hin.
  - destruct e as [[| | | |y err| |]|]; cbn [is_fail] in E; try discriminate.
    unfold eqn in E. destruct (N.eqb y x) eqn:E2; [|discriminate]. apply N.eqb_eq in E2. subst y.
    exists err. left. reflexivity.
Qed.

Lemma failed_tagged : forall h' x err o, In (OEvent (HRequestFailed x err)) o -> In (x, true) (tagged h' o).
Proof.
  intros h' x err o H. unfold tagged. apply in_flat_map. exists (OEvent (HRequestFailed x err)).
  split; [exact H|]. cbn [about is_terminal]. left. reflexivity.
Qed.

Lemma eocc_ext_rids : forall x h, eocc x h = cnt x (ext_rids h).
Proof.
  intros x h. unfold eocc, ext_rids, cnt. rewrite count_occ_app.
  pose proof (asum_flat_map rc_rid (fun l => filter rc_ext l) x (active h)) as E1.
  pose proof (asum_flat_map pq_rid (fun l => filter pq_ext l) x (pending h)) as E2.
  cbv beta in E1, E2. rewrite <- E1, <- E2. reflexivity.
Qed.

Lemma ext_rids_eocc : forall x h, In x (ext_rids h) <-> 1 <= eocc x h.
Proof. intros x h. rewrite eocc_ext_rids. symmetry. apply cnt_pos_in. Qed.

(* a tick never drops an application request silently (no hypotheses) *)
Theorem tick_no_silent_loss : forall c h now d x, In x (ext_rids h) ->
  In x (ext_rids (fst (step c h EvTick now d))) \/
  In (x, true) (tagged (fst (step c h EvTick now d)) (snd (step c h EvTick now d))).
Proof.
  intros c h now d x Hx. apply ext_rids_eocc in Hx. pose proof (tick_eocc c h now d x) as E.
  destruct (fmen x (snd (step c h EvTick now d))) eqn:Ef.
  - left. apply ext_rids_eocc. lia.
  - right. destruct (fmen_in x (snd (step c h EvTick now d))) as (err & Hin); [lia|]. eapply failed_tagged. exact Hin.
Qed.

(* ------------------------------------------------------------------------------------------ *)
(* the schedule of the ticks: only EvTick events; the first at or after [B] (a bound above every
   armed deadline), each further one later than its predecessor by more than timeout + grid *)

Fixpoint tick_schedule (c : config) (B : N) (evs : list (event * N * draws)) : Prop :=
  match evs with
  | [] => True
  | (e, t, _) :: rest => e = EvTick /\ (B <= t)%N /\ tick_schedule c (next_bound c t) rest
  end.

Lemma run_cons_fst' : forall c h e now d rest,
  fst (run c h ((e, now, d) :: rest)) = fst (run c (fst (step c h e now d)) rest).
Proof. exact run_cons_fst. Qed.

(* DRAIN *)
Theorem drain_inv : forall c ticks h B,
  DrainInv c h -> dl_below B h -> tick_schedule c B ticks -> fresh_run c h ticks ->
  weight c h <= length ticks ->
  let h' := fst (run c h ticks) in
  (active h' = [] /\ pending h' = [] /\ challenges h' = [] /\ nmap h' = [] /\ expected h' = []) /\
  forall x, In x (ext_rids h) -> In (x, true) (run_tagged c h ticks).
Proof.
  intros c. induction ticks as [|[[e t] d] rest IH]; intros h B I D TS F W.
  - cbn [length] in W. cbn [run fst]. split; [apply (weight_zero_nothing_held c); [exact I|lia]|].
    intros x Hx. exfalso. apply ext_rids_eocc in Hx.
    destruct (weight_zero_nothing_held c h I) as (Ha & Hp & _); [lia|].
    unfold eocc in Hx. rewrite Ha, Hp in Hx. cbn [asum] in Hx. lia.
  - cbn [tick_schedule] in TS. destruct TS as (-> & Lt & TS). cbn [fresh_run] in F. destruct F as (F1 & F2 & F3).
    cbn [length] in W.
    destruct (drain_step c h t d I (dl_below_mono B t h Lt D) F1 F2) as (I1 & D1 & W1 & L1).
    cbv zeta. rewrite run_cons_fst'.
    destruct (IH (fst (step c h EvTick t d)) (next_bound c t) I1 D1 TS F3) as [E1 T1]; [lia|].
    cbv zeta in E1, T1. split; [exact E1|].
    intros x Hx. cbn [run_tagged]. apply in_or_app.
    apply ext_rids_eocc in Hx. specialize (L1 x).
    destruct (fmen x (snd (step c h EvTick t d))) eqn:Ef.
    + right. apply T1. apply ext_rids_eocc. lia.
    + left. destruct (fmen_in x (snd (step c h EvTick t d))) as (err & Hin); [lia|].
      eapply failed_tagged. exact Hin.
Qed.

(* an explicit bound on the weight: (requests held) * (1 + retries) + challenges *)
Definition drain_bound (c : config) (h : hstate) : nat :=
  length (all_rids h) * S (N.to_nat (cfg_retries c)) + length (challenges h).

Lemma wl_le : forall c l, wl c l <= length l * wq c.
Proof. intros c. induction l as [|r t IH]; cbn [wl length Nat.mul]; [lia|]. pose proof (wreq_le_wq c r). lia. Qed.

Lemma weight_le_drain_bound : forall c h, weight c h <= drain_bound c h.
Proof.
  intros c h. unfold weight, drain_bound, all_rids. rewrite app_length. fold (wq c).
  assert (A : forall act, asum (wl c) act <= length (act_rids act) * wq c).
  { induction act as [|[na l] t IH]; cbn [asum act_rids flat_map snd]; [lia|].
    fold (act_rids t). rewrite app_length, map_length. pose proof (wl_le c l). lia. }
  assert (P : forall p, asum (wpl c) p <= length (pend_rids p) * wq c).
  { induction p as [|[na l] t IH]; cbn [asum pend_rids flat_map snd]; [lia|].
    fold (pend_rids t). rewrite app_length, map_length. unfold wpl at 1. lia. }
  specialize (A (active h)). specialize (P (pending h)). lia.
Qed.

(* the invariants hold in every reachable state of the repaired configuration (fresh oracle) *)
Theorem reachable_DrainInv : forall c evs, fixed_cfg c -> fresh_run c init_state evs ->
  DrainInv c (fst (run c init_state evs)).
Proof.
  intros c evs FX F. split; [apply run_sync; [exact Sync_init|exact F]|].
  split; [apply run_no_orphans; [apply FX|apply NoOrph_init]|apply expected_exact; exact FX].
Qed.

(* DRAIN for reachable states *)
Theorem drain : forall c evs ticks B,
  fixed_cfg c -> fresh_run c init_state evs ->
  let h := fst (run c init_state evs) in
  dl_below B h -> tick_schedule c B ticks -> fresh_run c h ticks ->
  drain_bound c h <= length ticks ->
  let h' := fst (run c h ticks) in
  (active h' = [] /\ pending h' = [] /\ challenges h' = [] /\ nmap h' = [] /\ expected h' = []) /\
  forall x, In x (ext_rids h) -> In (x, true) (run_tagged c h ticks).
Proof.
  intros c evs ticks B FX F h D TS FT W.
  apply (drain_inv c ticks h B); auto.
  - apply reachable_DrainInv; assumption.
  - pose proof (weight_le_drain_bound c h). lia.
Qed.

(* the hypothesis [dl_below B h] can always be met: every state has a bound above its deadlines *)
Fixpoint maxd {A : Type} (l : list (A * N)) : N :=
  match l with [] => 0%N | (_, d) :: t => N.max d (maxd t) end.
Lemma maxd_lt : forall {A : Type} (l : list (A * N)) B, (maxd l < B)%N -> Forall (fun e => (snd e < B)%N) l.
Proof.
  intros A. induction l as [|[a d] t IH]; intros B H; [constructor|]. cbn [maxd] in H.
  constructor; [cbn [snd]; lia|apply IH; lia].
Qed.
Definition first_safe_tick (h : hstate) : N := (N.max (maxd (nmap h)) (maxd (challenges h)) + 1)%N.
Lemma dl_below_first_safe_tick : forall h, dl_below (first_safe_tick h) h.
Proof. intros h. unfold first_safe_tick. split; apply maxd_lt; lia. Qed.

(* ------------------------------------------------------------------------------------------ *)
(* The hypotheses are satisfiable by a non-trivial reachable state: request 100 is active (random
   packet, session-initiating), a challenge for the same peer is pending, request 101 is queued
   behind it.  Tick 1 re-sends request 100 and fires the challenge, which releases request 101 -
   it is queued again behind the session-initiating request 100; tick 2 fails request 100 and with
   it the queue.  Both application requests get their terminal event. *)
Local Open Scope N_scope.
Definition ex_drain_events : list (event * N * draws) :=
  [ (EvRequest ex_peer 100 7, 0, ex_draws2 50);
    (EvInbound 20 (PMsg 2 (5, 5) 0 (CJunk 0)), 10, ex_draws2 60);
    (EvWhoAreYou (2, 20) (5, 5) (Some (ex_enr 2 20)), 20, ex_draws2 70);
    (EvRequest ex_peer 101 8, 30, ex_draws2 80) ].
Definition ex_drain_ticks : list (event * N * draws) :=
  [ (EvTick, 5000, ex_draws2 100); (EvTick, 10000, ex_draws2 110); (EvTick, 15000, ex_draws2 120);
    (EvTick, 20000, ex_draws2 130); (EvTick, 25000, ex_draws2 140); (EvTick, 30000, ex_draws2 150);
    (EvTick, 35000, ex_draws2 160) ].
Local Close Scope N_scope.

Ltac fresh_tac :=
  vm_compute;
  repeat match goal with
  | |- _ /\ _ => split
  | |- NoDup _ => constructor
  | |- ~ _ => intro
  | |- forall _, _ => intro
  | H : _ \/ _ |- _ => destruct H
  | H : False |- _ => destruct H
  | H : In _ (_ :: _) |- _ => cbn [In] in H
  | H : In _ [] |- _ => destruct H
  | H : _ :: _ = [] |- _ => discriminate H
  | |- True => exact I
  end; try discriminate; subst; try discriminate.

Example ex_drain_fresh : fresh_run (ex_cfg true) init_state ex_drain_events.
Proof. fresh_tac. Qed.

Example ex_drain_state :
  let h := fst (run (ex_cfg true) init_state ex_drain_events) in
  map (fun e => map rc_rid (snd e)) (active h) = [[100%N]] /\
  map (fun e => map pq_rid (snd e)) (pending h) = [[101%N]] /\
  map (fun e => fst (fst e)) (challenges h) = [(2%N, 20%N)] /\
  ext_rids h = [100%N; 101%N] /\ weight (ex_cfg true) h = 6 /\ drain_bound (ex_cfg true) h = 7.
Proof. vm_compute. repeat split. Qed.

Example ex_drain_ticks_fresh :
  fresh_run (ex_cfg true) (fst (run (ex_cfg true) init_state ex_drain_events)) ex_drain_ticks.
Proof. fresh_tac. Qed.

Example ex_drain_hypotheses :
  let c := ex_cfg true in
  let h := fst (run c init_state ex_drain_events) in
  fixed_cfg c /\ fresh_run c init_state ex_drain_events /\
  dl_below 5000 h /\ tick_schedule c 5000 ex_drain_ticks /\ fresh_run c h ex_drain_ticks /\
  drain_bound c h <= length ex_drain_ticks.
Proof.
  cbv zeta. split; [exact ex_cfg_fixed|]. split; [exact ex_drain_fresh|].
  split; [vm_compute; split; repeat constructor|].
  split; [vm_compute; repeat split; discriminate|].
  split; [exact ex_drain_ticks_fresh|]. vm_compute. repeat constructor.
Qed.

(* the theorem applied to it ... *)
Example ex_drain_drains :
  let c := ex_cfg true in
  let h := fst (run c init_state ex_drain_events) in
  let h' := fst (run c h ex_drain_ticks) in
  (active h' = [] /\ pending h' = [] /\ challenges h' = [] /\ nmap h' = [] /\ expected h' = []) /\
  In (100%N, true) (run_tagged c h ex_drain_ticks) /\ In (101%N, true) (run_tagged c h ex_drain_ticks).
Proof.
  cbv zeta. destruct ex_drain_hypotheses as (H1 & H2 & H3 & H4 & H5 & H6). cbv zeta in *.
  destruct (drain (ex_cfg true) ex_drain_events ex_drain_ticks 5000%N H1 H2 H3 H4 H5 H6) as [E T].
  cbv zeta in E, T. split; [exact E|].
  split; apply T; rewrite (proj1 (proj2 (proj2 (proj2 ex_drain_state)))); cbn [In]; auto.
Qed.

(* ... and what the model computes: exactly one terminal event each, within the first two ticks *)
Example ex_drain_trace :
  let c := ex_cfg true in
  let h := fst (run c init_state ex_drain_events) in
  run_tagged c h ex_drain_ticks = [(100%N, true); (101%N, true)] /\
  run_tagged c h (firstn 1 ex_drain_ticks) = [] /\
  run_tagged c h (firstn 2 ex_drain_ticks) = [(100%N, true); (101%N, true)].
Proof. vm_compute. repeat split. Qed.

(* ------------------------------------------------------------------------------------------ *)
(* the final statements *)
Check nothing_armed_nothing_held : forall c h, DrainInv c h -> nmap h = [] -> challenges h = [] ->
  active h = [] /\ pending h = [].
Check weight_zero_nothing_held : forall c h, DrainInv c h -> weight c h = 0 ->
  active h = [] /\ pending h = [] /\ challenges h = [] /\ nmap h = [] /\ expected h = [].
Check tick_no_silent_loss : forall c h now d x, In x (ext_rids h) ->
  In x (ext_rids (fst (step c h EvTick now d))) \/
  In (x, true) (tagged (fst (step c h EvTick now d)) (snd (step c h EvTick now d))).
Check drain_step : forall c h now d,
  DrainInv c h -> dl_below now h -> fresh_draws h d -> not_exhausted c h EvTick now d ->
  let h' := fst (step c h EvTick now d) in
  let o := snd (step c h EvTick now d) in
  DrainInv c h' /\ dl_below (next_bound c now) h' /\ weight c h' <= pred (weight c h) /\
  forall x, eocc x h = eocc x h' + fmen x o.
Check drain_inv : forall c ticks h B,
  DrainInv c h -> dl_below B h -> tick_schedule c B ticks -> fresh_run c h ticks ->
  weight c h <= length ticks ->
  let h' := fst (run c h ticks) in
  (active h' = [] /\ pending h' = [] /\ challenges h' = [] /\ nmap h' = [] /\ expected h' = []) /\
  forall x, In x (ext_rids h) -> In (x, true) (run_tagged c h ticks).
Check weight_le_drain_bound : forall c h, weight c h <= drain_bound c h.
Check reachable_DrainInv : forall c evs, fixed_cfg c -> fresh_run c init_state evs ->
  DrainInv c (fst (run c init_state evs)).
Check dl_below_first_safe_tick : forall h, dl_below (first_safe_tick h) h.
Check drain : forall c evs ticks B,
  fixed_cfg c -> fresh_run c init_state evs ->
  let h := fst (run c init_state evs) in
  dl_below B h -> tick_schedule c B ticks -> fresh_run c h ticks ->
  drain_bound c h <= length ticks ->
  let h' := fst (run c h ticks) in
  (active h' = [] /\ pending h' = [] /\ challenges h' = [] /\ nmap h' = [] /\ expected h' = []) /\
  forall x, In x (ext_rids h) -> In (x, true) (run_tagged c h ticks).
Print Assumptions nothing_armed_nothing_held.
Print Assumptions weight_zero_nothing_held.
Print Assumptions tick_no_silent_loss.
Print Assumptions drain_step.
Print Assumptions drain_inv.
Print Assumptions drain.
Print Assumptions ex_drain_hypotheses.
Print Assumptions ex_drain_drains.
Print Assumptions ex_drain_trace.
