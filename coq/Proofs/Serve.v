(* Proofs about Model/Serve.v (property C14) and the theorem that links it with the NODES filter of
   Model/Nodes.v (property C11: an honest responder is never banned). *)
From Coq Require Import List Arith NArith Bool Lia.
From Discv5V Require Import Generated.Params Lib.ListX Model.KBucket Model.Nodes Model.Serve
  Proofs.Nodes Proofs.KBMembers.
Import ListNotations.
Local Open Scope N_scope.

(* ------------------------------------------------------------------------------------------ *)
(* sort and dedup *)

Lemma In_insert_N x y l : In x (insert_N y l) <-> x = y \/ In x l.
Proof.
  induction l as [|z l IH]; simpl; [intuition|].
  destruct (y <=? z); simpl; [intuition|]. rewrite IH. intuition.
Qed.

Lemma In_sort_N x l : In x (sort_N l) <-> In x l.
Proof.
  induction l as [|y l IH]; simpl; [tauto|]. rewrite In_insert_N, IH. intuition.
Qed.

Lemma In_dedup_N x l : In x (dedup_N l) <-> In x l.
Proof.
  induction l as [|y l IH]; [simpl; tauto|].
  cbn [dedup_N]. destruct l as [|z l'].
  - simpl. tauto.
  - destruct (y =? z) eqn:E.
    + apply N.eqb_eq in E. subst z. rewrite IH. simpl. intuition.
    + cbn [In]. rewrite IH. simpl. intuition.
Qed.

Inductive sortedN : list N -> Prop :=
| sorted_nil : sortedN []
| sorted_one x : sortedN [x]
| sorted_cons x y l : x <= y -> sortedN (y :: l) -> sortedN (x :: y :: l).

Lemma insert_N_sorted y l : sortedN l -> sortedN (insert_N y l).
Proof.
  induction 1 as [|x|x z l Hxz Hs IH]; simpl.
  - constructor.
  - destruct (y <=? x) eqn:E; [apply N.leb_le in E|apply N.leb_gt in E]; repeat constructor; lia.
  - destruct (y <=? x) eqn:E; [apply N.leb_le in E; repeat constructor; auto; lia|].
    apply N.leb_gt in E. simpl in IH. destruct (y <=? z) eqn:E2.
    + apply N.leb_le in E2. constructor; [lia|]. constructor; auto.
    + constructor; [exact Hxz|exact IH].
Qed.

Lemma sort_N_sorted l : sortedN (sort_N l).
Proof. induction l; simpl; [constructor|now apply insert_N_sorted]. Qed.

Lemma sortedN_tail x l : sortedN (x :: l) -> sortedN l.
Proof. inversion 1; subst; [constructor|assumption]. Qed.

Lemma sortedN_head_le x l y : sortedN (x :: l) -> In y l -> x <= y.
Proof.
  revert x. induction l as [|z l IH]; intros x Hs Hy; [destruct Hy|].
  inversion Hs; subst. destruct Hy as [->|Hy]; [assumption|].
  assert (z <= y) by (apply IH; assumption). lia.
Qed.

(* the head of a sorted list is its minimum: 0 is at the head iff it occurs *)
Lemma sorted_head_zero l :
  sortedN l -> (exists r, l = 0 :: r) <-> In 0 l.
Proof.
  intros Hs. split; [intros (r & ->); now left|].
  destruct l as [|x l]; [intros []|]. intros H.
  assert (x = 0); [|subst; eauto].
  destruct H as [->|H]; [reflexivity|]. pose proof (sortedN_head_le _ _ _ Hs H). lia.
Qed.

Lemma dedup_sorted l : sortedN l -> sortedN (dedup_N l).
Proof.
  induction l as [|x l IH]; [constructor|]. intros Hs. cbn [dedup_N].
  destruct l as [|y l']; [constructor|]. pose proof (sortedN_tail _ _ Hs) as Ht.
  destruct (x =? y) eqn:E; [now apply IH|].
  specialize (IH Ht). inversion Hs; subst.
  cbn [dedup_N] in *. destruct l' as [|z l''].
  - constructor; [assumption|constructor].
  - destruct (y =? z) eqn:E2.
    + apply N.eqb_eq in E2. subst z.
      (* dedup (y :: y :: l'') = dedup (y :: l''): its head is y *)
      assert (Hhd : exists r, dedup_N (y :: l'') = y :: r).
      { clear. revert y. induction l'' as [|w l IH]; intros y; [simpl; eauto|].
        cbn [dedup_N]. destruct (y =? w) eqn:E; [apply N.eqb_eq in E; subst; apply IH|eauto]. }
      destruct Hhd as (r & Hr). rewrite Hr in *. constructor; assumption.
    + constructor; assumption.
Qed.

Lemma dedup_head x l : exists r, dedup_N (x :: l) = x :: r.
Proof.
  revert x. induction l as [|w l IH]; intros y; [simpl; eauto|].
  cbn [dedup_N]. destruct (y =? w) eqn:E; [apply N.eqb_eq in E; subst; apply IH|eauto].
Qed.

(* strictly increasing after dedup *)
Inductive strictN : list N -> Prop :=
| strict_nil : strictN []
| strict_one x : strictN [x]
| strict_cons x y l : x < y -> strictN (y :: l) -> strictN (x :: y :: l).

Lemma dedup_strict l : sortedN l -> strictN (dedup_N l).
Proof.
  induction l as [|x l IH]; [constructor|]. intros Hs. cbn [dedup_N].
  destruct l as [|y l']; [constructor|]. pose proof (sortedN_tail _ _ Hs) as Ht.
  destruct (x =? y) eqn:E; [now apply IH|].
  specialize (IH Ht). inversion Hs; subst. apply N.eqb_neq in E.
  destruct (dedup_head y l') as (r & Hr). rewrite Hr in *. constructor; [lia|assumption].
Qed.

Lemma strict_NoDup l : strictN l -> NoDup l.
Proof.
  intros H. assert (Hlt : forall x l, strictN (x :: l) -> forall y, In y l -> x < y).
  { clear. intros x l. revert x. induction l as [|z l IH]; intros x Hs y Hy; [destruct Hy|].
    inversion Hs; subst. destruct Hy as [->|Hy]; [assumption|]. specialize (IH _ H3 _ Hy). lia. }
  induction H as [|x|x y l Hxy Hs IH]; repeat constructor; auto.
  - intros Hin. assert (x < x); [|lia]. apply (Hlt x (y :: l)); [constructor; assumption|exact Hin].
  - inversion IH; assumption.
  - inversion IH; assumption.
Qed.

(* ------------------------------------------------------------------------------------------ *)
(* the splitting loop *)

Lemma split_loop_concat {A} (size : A -> N) l : forall cur ts done,
  concat (split_loop size l cur ts done) = concat done ++ cur ++ l.
Proof.
  induction l as [|x l IH]; intros cur ts done; cbn [split_loop].
  - rewrite concat_app. simpl. now rewrite !app_nil_r.
  - destruct (size x + ts <? SPLIT_LIMIT).
    + rewrite IH. now rewrite <- app_assoc.
    + rewrite IH. rewrite concat_app. simpl. rewrite app_nil_r. now rewrite <- app_assoc.
Qed.

Lemma split_nodes_concat {A} (size : A -> N) l : concat (split_nodes size l) = l.
Proof. unfold split_nodes. now rewrite split_loop_concat. Qed.

Lemma sum_sizes_app {A} (size : A -> N) l1 l2 :
  sum_sizes size (l1 ++ l2) = sum_sizes size l1 + sum_sizes size l2.
Proof. induction l1 as [|x l1 IH]; simpl; [reflexivity|]. rewrite IH. lia. Qed.

(* every packet stays below the splitting limit *)
Lemma split_loop_bound {A} (size : A -> N) l : forall cur ts done,
  (forall x, In x l -> size x < SPLIT_LIMIT) ->
  ts = sum_sizes size cur -> ts < SPLIT_LIMIT ->
  (forall ch, In ch done -> sum_sizes size ch < SPLIT_LIMIT) ->
  forall ch, In ch (split_loop size l cur ts done) -> sum_sizes size ch < SPLIT_LIMIT.
Proof.
  induction l as [|x l IH]; intros cur ts done Hl Hts Hlt Hdone ch Hch; cbn [split_loop] in Hch.
  - apply in_app_iff in Hch. destruct Hch as [Hch|[<-|[]]]; [auto|]. now rewrite <- Hts.
  - destruct (size x + ts <? SPLIT_LIMIT) eqn:E.
    + apply N.ltb_lt in E. eapply (IH (cur ++ [x]) (ts + size x) done); eauto.
      * intros y Hy. apply Hl. now right.
      * rewrite sum_sizes_app. simpl. lia.
      * lia.
    + eapply (IH [x] (size x) (done ++ [cur])); eauto.
      * intros y Hy. apply Hl. now right.
      * simpl. lia.
      * apply Hl. now left.
      * intros c Hc. apply in_app_iff in Hc. destruct Hc as [Hc|[<-|[]]]; [auto|]. now rewrite <- Hts.
Qed.

Lemma split_limit_pos : 0 < SPLIT_LIMIT.
Proof. vm_compute. reflexivity. Qed.

Lemma split_nodes_bound {A} (size : A -> N) l :
  (forall x, In x l -> size x < SPLIT_LIMIT) ->
  forall ch, In ch (split_nodes size l) -> sum_sizes size ch < SPLIT_LIMIT.
Proof.
  intros Hl. unfold split_nodes. apply split_loop_bound; auto.
  - exact split_limit_pos.
  - intros ch [].
Qed.

(* no packet is empty (if the answer is not) *)
Lemma split_loop_nonempty {A} (size : A -> N) l : forall cur ts done,
  (forall x, In x l -> size x < SPLIT_LIMIT) ->
  ts = sum_sizes size cur -> cur <> [] ->
  (forall ch, In ch done -> ch <> []) ->
  forall ch, In ch (split_loop size l cur ts done) -> ch <> [].
Proof.
  induction l as [|x l IH]; intros cur ts done Hl Hts Hne Hdone ch Hch; cbn [split_loop] in Hch.
  - apply in_app_iff in Hch. destruct Hch as [Hch|[<-|[]]]; auto.
  - destruct (size x + ts <? SPLIT_LIMIT).
    + eapply (IH (cur ++ [x]) (ts + size x) done); eauto.
      * intros y Hy. apply Hl. now right.
      * rewrite sum_sizes_app. simpl. lia.
      * destruct cur; discriminate.
    + eapply (IH [x] (size x) (done ++ [cur])); eauto.
      * intros y Hy. apply Hl. now right.
      * simpl. lia.
      * discriminate.
      * intros c Hc. apply in_app_iff in Hc. destruct Hc as [Hc|[<-|[]]]; auto.
Qed.

Lemma split_nodes_nonempty {A} (size : A -> N) l :
  l <> [] -> (forall x, In x l -> size x < SPLIT_LIMIT) ->
  forall ch, In ch (split_nodes size l) -> ch <> [].
Proof.
  intros Hne Hl. destruct l as [|x l]; [congruence|].
  unfold split_nodes. cbn [split_loop].
  assert (Hx : size x + 0 <? SPLIT_LIMIT = true).
  { apply N.ltb_lt. rewrite N.add_0_r. apply Hl. now left. }
  rewrite Hx. apply split_loop_nonempty.
  - intros y Hy. apply Hl. now right.
  - simpl. lia.
  - discriminate.
  - intros ch [].
Qed.

(* ------------------------------------------------------------------------------------------ *)
(* nodes_by_distances: the collection loop *)

Lemma take_upto_in maxn l : forall acc x, In x (fst (take_upto maxn acc l)) -> In x l.
Proof.
  induction l as [|y l IH]; intros acc x; cbn [take_upto]; [auto|].
  destruct (Nat.leb maxn (S acc)); [simpl; tauto|].
  destruct (take_upto maxn (S acc) l) as [r full] eqn:E. cbn [fst].
  intros [->|H]; [now left|]. right. apply (IH (S acc)). now rewrite E.
Qed.

Lemma take_upto_all maxn l : forall acc,
  (acc + length l < maxn)%nat -> take_upto maxn acc l = (l, false).
Proof.
  induction l as [|y l IH]; intros acc H; cbn [take_upto]; [reflexivity|].
  simpl in H. destruct (Nat.leb maxn (S acc)) eqn:E; [apply Nat.leb_le in E; lia|].
  rewrite IH by lia. reflexivity.
Qed.

Lemma take_upto_length maxn l : forall acc,
  (length (fst (take_upto maxn acc l)) + acc <= Nat.max maxn (S acc))%nat /\
  (snd (take_upto maxn acc l) = false ->
   fst (take_upto maxn acc l) = l /\ (l = [] \/ (acc + length l < maxn)%nat)).
Proof.
  induction l as [|y l IH]; intros acc; cbn [take_upto].
  - simpl. split; [lia|auto].
  - destruct (Nat.leb maxn (S acc)) eqn:E.
    + simpl. split; [lia|discriminate].
    + apply Nat.leb_gt in E. destruct (IH (S acc)) as (H1 & H2).
      destruct (take_upto maxn (S acc) l) as [r full]. cbn [fst snd] in *. split; [simpl; lia|].
      intros ->. destruct (H2 eq_refl) as (-> & Hl). split; [reflexivity|]. right.
      destruct Hl as [->|Hl]; simpl; lia.
Qed.

Lemma nbd_collect_sound t maxn ds : forall acc n,
  In n (nbd_collect t ds acc maxn) ->
  exists d, In d ds /\ In n (nodes (get_bucket t (N.to_nat (d - 1)))).
Proof.
  induction ds as [|d ds IH]; intros acc n; cbn [nbd_collect]; [intros []|].
  destruct (take_upto maxn acc (nodes (get_bucket t (N.to_nat (d - 1))))) as [r full] eqn:E.
  assert (Hr : forall x, In x r -> In x (nodes (get_bucket t (N.to_nat (d - 1))))).
  { intros x Hx. apply (take_upto_in maxn _ acc). now rewrite E. }
  destruct full.
  - intros H. exists d. split; [now left|auto].
  - intros H. apply in_app_iff in H. destruct H as [H|H]; [exists d; split; [now left|auto]|].
    destruct (IH _ _ H) as (d' & Hd' & Hn). exists d'. split; [now right|exact Hn].
Qed.

(* at most max(maxn, 1) nodes: the loop pushes before it tests the limit *)
Lemma nbd_collect_length t maxn ds : forall acc,
  (length (nbd_collect t ds acc maxn) + acc <= Nat.max maxn (S acc))%nat.
Proof.
  induction ds as [|d ds IH]; intros acc; cbn [nbd_collect]; [simpl; lia|].
  pose proof (take_upto_length maxn (nodes (get_bucket t (N.to_nat (d - 1)))) acc) as (H1 & H2).
  destruct (take_upto maxn acc (nodes (get_bucket t (N.to_nat (d - 1))))) as [r full].
  cbn [fst snd] in *. destruct full; [exact H1|].
  rewrite app_length. specialize (IH (acc + length r)%nat).
  destruct (H2 eq_refl) as (-> & Hl).
  destruct Hl as [Hl|Hl].
  - rewrite Hl in *. simpl in *. rewrite Nat.add_0_r in *. exact IH.
  - lia.
Qed.

(* everything is returned when fewer than maxn nodes match *)
Lemma nbd_collect_complete t maxn ds : forall acc,
  (acc + length (flat_map (fun d => nodes (get_bucket t (N.to_nat (d - 1)))) ds) < maxn)%nat ->
  nbd_collect t ds acc maxn = flat_map (fun d => nodes (get_bucket t (N.to_nat (d - 1)))) ds.
Proof.
  induction ds as [|d ds IH]; intros acc H; cbn [nbd_collect flat_map]; [reflexivity|].
  cbn [flat_map] in H. rewrite app_length in H.
  rewrite take_upto_all by lia. rewrite IH by lia. reflexivity.
Qed.

Lemma In_valid_distances d ds : In d (valid_distances ds) <-> In d ds /\ 1 <= d <= NUM_BUCKETS.
Proof.
  unfold valid_distances. rewrite filter_In. split.
  - intros (H & Hb). apply andb_prop in Hb. destruct Hb as (Ha & Hb).
    apply N.ltb_lt in Ha. apply N.leb_le in Hb. split; [exact H|lia].
  - intros (H & Ha & Hb). split; [exact H|]. apply andb_true_intro. split; [apply N.ltb_lt|apply N.leb_le]; lia.
Qed.

(* ------------------------------------------------------------------------------------------ *)
(* placement of nodes in buckets, preserved by the pending-application loop *)

Definition placed (t : table) : Prop :=
  forall i x, In x (bmem (get_bucket t i)) -> bucket_index (local t) (fst x) = Some i.

Lemma set_bucket_placed t i b' app :
  placed t -> (forall x, In x (bmem b') -> In x (bmem (get_bucket t i))) -> placed (set_bucket t i b' app).
Proof.
  intros Hp Hb j x Hx. rewrite set_bucket_local.
  destruct (Nat.eq_dec i j) as [<-|Hne].
  - destruct (Nat.lt_ge_cases i (length (buckets t))) as [Hlt|Hge].
    + rewrite get_set_bucket_same in Hx by exact Hlt. apply Hp. auto.
    + rewrite get_set_bucket_overflow in Hx by exact Hge. destruct Hx.
  - rewrite get_set_bucket_other in Hx by exact Hne. apply Hp. exact Hx.
Qed.

Lemma nbd_apply_placed c maxn now ds : forall t count, placed t -> placed (nbd_apply c t ds count maxn now).
Proof.
  induction ds as [|d ds IH]; intros t count Hp; cbn [nbd_apply]; [exact Hp|].
  destruct (b_apply_pending c (get_bucket t (N.to_nat (d - 1))) now) as [b a] eqn:E.
  assert (Hb : forall x, In x (bmem b) -> In x (bmem (get_bucket t (N.to_nat (d - 1))))).
  { intros x Hx. replace b with (fst (b_apply_pending c (get_bucket t (N.to_nat (d - 1))) now)) in Hx by now rewrite E.
    now apply b_apply_pending_mem in Hx. }
  destruct a as [x|].
  - destruct (Nat.leb maxn _); [|apply IH]; now apply set_bucket_placed.
  - apply IH. now apply set_bucket_placed.
Qed.

Lemma nbd_apply_local c maxn now ds : forall t count, local (nbd_apply c t ds count maxn now) = local t.
Proof.
  induction ds as [|d ds IH]; intros t count; cbn [nbd_apply]; [reflexivity|].
  destruct (b_apply_pending c (get_bucket t (N.to_nat (d - 1))) now) as [b a].
  destruct a as [x|]; [destruct (Nat.leb maxn _)|]; try rewrite IH; reflexivity.
Qed.

Lemma placed_distance t i n :
  placed t -> In n (nodes (get_bucket t i)) ->
  log2_distance (local t) (nkey n) = Some (N.of_nat i + 1).
Proof.
  intros Hp Hn. specialize (Hp i (kv n) (bmem_node _ _ Hn)). cbn [kv fst] in Hp.
  unfold bucket_index in Hp. unfold log2_distance.
  destruct (N.lxor (local t) (nkey n) =? 0); [discriminate|].
  inversion Hp. now rewrite N2Nat.id.
Qed.

(* ------------------------------------------------------------------------------------------ *)
(* serve_findnode *)

(* what is sent: the local record iff distance 0 is requested, then the table entries *)
Definition own_part (t : table) (local_val : val) (ds : list N) : list sitem :=
  if mem 0 ds then [{| s_key := local t; s_val := local_val |}] else [].
Definition table_distances (ds : list N) : list N := valid_distances (dedup_N (sort_N ds)).

Lemma mem_In d ds : mem d ds = true <-> In d ds.
Proof.
  unfold mem. rewrite existsb_exists. split.
  - intros (x & Hx & E). apply N.eqb_eq in E. now subst.
  - intros H. exists d. split; [exact H|apply N.eqb_refl].
Qed.

Lemma valid_distances_drop_zero r : valid_distances (0 :: r) = valid_distances r.
Proof. reflexivity. Qed.

Lemma valid_distances_nil_collect t acc maxn : nbd_collect t [] acc maxn = [].
Proof. reflexivity. Qed.

(* the answer as a whole *)
Definition answer (c : config) (t : table) (local_val : val) (requester : N) (ds : list N)
  (maxn : nat) (now : N) : table * list sitem :=
  let vds := table_distances ds in
  let t' := nbd_apply c t vds 0 maxn now in
  (t', own_part t local_val ds
         ++ map item_of_node (filter (fun n => negb (nkey n =? requester)) (nbd_collect t' vds 0 maxn))).

Lemma serve_findnode_answer c t lv requester id ds maxn rsize now :
  let (t', ps) := serve_findnode c t lv requester id ds maxn rsize now in
  t' = fst (answer c t lv requester ds maxn now) /\
  served_records ps = snd (answer c t lv requester ds maxn now).
Proof.
  unfold serve_findnode, answer, table_distances, own_part.
  pose proof (sort_N_sorted ds) as Hs. apply dedup_sorted in Hs.
  pose proof (sorted_head_zero _ Hs) as Hz.
  assert (Hmem : mem 0 ds = true <-> In 0 (dedup_N (sort_N ds))).
  { rewrite mem_In, In_dedup_N, In_sort_N. tauto. }
  set (ds1 := dedup_N (sort_N ds)) in *.
  (* the (own, ds2) split *)
  assert (Hsplit : exists own ds2,
            (match ds1 with
             | d :: r => if d =? 0 then ([{| s_key := local t; s_val := lv |}], r) else ([], ds1)
             | [] => ([], ds1)
             end) = (own, ds2) /\
            own = (if mem 0 ds then [{| s_key := local t; s_val := lv |}] else []) /\
            valid_distances ds2 = valid_distances ds1).
  { destruct ds1 as [|d r].
    - exists [], []. split; [reflexivity|]. split; [|reflexivity].
      destruct (mem 0 ds) eqn:E; [|reflexivity]. destruct (proj1 Hmem eq_refl).
    - destruct (d =? 0) eqn:E.
      + apply N.eqb_eq in E. subst d. exists [{| s_key := local t; s_val := lv |}], r.
        split; [reflexivity|]. split; [|reflexivity].
        assert (mem 0 ds = true) by (apply Hmem; now left). now rewrite H.
      + exists [], (d :: r). split; [reflexivity|]. split; [|reflexivity].
        destruct (mem 0 ds) eqn:E0; [|reflexivity]. pose proof (proj1 Hmem eq_refl) as E1.
        apply Hz in E1. destruct E1 as (r' & Hr'). inversion Hr'. subst. discriminate. }
  destruct Hsplit as (own & ds2 & -> & Hown & Hvd).
  assert (Hfound : exists t' found,
            (match ds2 with
             | [] => (t, [])
             | _ :: _ => let (t', l) := t_nodes_by_distances c t ds2 maxn now in
                         (t', filter (fun n => negb (nkey n =? requester)) l)
             end) = (t', found) /\
            t' = nbd_apply c t (valid_distances ds1) 0 maxn now /\
            found = filter (fun n => negb (nkey n =? requester))
                      (nbd_collect (nbd_apply c t (valid_distances ds1) 0 maxn now) (valid_distances ds1) 0 maxn)).
  { destruct ds2 as [|d2 r2].
    - exists t, []. split; [reflexivity|]. rewrite <- Hvd. simpl. auto.
    - unfold t_nodes_by_distances. rewrite Hvd. eauto. }
  destruct Hfound as (t' & found & -> & Ht' & Hf).
  rewrite <- Hown, <- Hf, <- Ht'. cbn [fst snd].
  set (to_send := own ++ map item_of_node found).
  destruct to_send as [|s0 rest] eqn:Ets.
  - split; [reflexivity|]. reflexivity.
  - split; [reflexivity|]. unfold served_records. rewrite flat_map_concat_map, map_map. cbn [p_nodes].
    rewrite map_id. apply split_nodes_concat.
Qed.

(* the packets of an answer *)
Lemma serve_findnode_packets c t lv requester id ds maxn rsize now :
  let ps := snd (serve_findnode c t lv requester id ds maxn rsize now) in
  let recs := snd (answer c t lv requester ds maxn now) in
  ps <> [] /\
  (forall p, In p ps -> p_id p = id /\ p_total p = N.of_nat (length ps)) /\
  concat (map p_nodes ps) = recs /\
  (recs = [] -> ps = [{| p_id := id; p_total := 1; p_nodes := [] |}]) /\
  (forall p, In p ps -> (forall s, In s recs -> rsize (s_val s) < SPLIT_LIMIT) ->
     sum_sizes (fun s => rsize (s_val s)) (p_nodes p) < SPLIT_LIMIT /\ (recs <> [] -> p_nodes p <> [])).
Proof.
  pose proof (serve_findnode_answer c t lv requester id ds maxn rsize now) as Hans.
  cbv zeta. destruct (serve_findnode c t lv requester id ds maxn rsize now) as [t' ps] eqn:Es.
  destruct Hans as (_ & Hrecs). cbn [snd]. rewrite <- Hrecs. clear Hrecs.
  unfold serve_findnode in Es.
  repeat match type of Es with
         | (let '(_, _) := ?e in _) = _ => destruct e
         end.
  set (to_send := l ++ map item_of_node l1) in *.
  destruct to_send as [|s0 rest] eqn:Ets.
  - inversion Es; subst ps. unfold served_records. cbn [flat_map p_nodes app map concat length].
    split; [discriminate|]. split; [intros p [<-|[]]; split; reflexivity|].
    split; [reflexivity|]. split; [reflexivity|].
    intros p [<-|[]] _. cbn [p_nodes]. split; [exact split_limit_pos|congruence].
  - inversion Es; subst ps. clear Es.
    set (chunks := split_nodes (fun s => rsize (s_val s)) (s0 :: rest)).
    assert (Hcat : concat chunks = s0 :: rest) by apply split_nodes_concat.
    assert (Hserved : served_records (map (fun ch => {| p_id := id; p_total := N.of_nat (length chunks); p_nodes := ch |}) chunks) = s0 :: rest).
    { unfold served_records. rewrite flat_map_concat_map, map_map. cbn [p_nodes]. now rewrite map_id. }
    rewrite Hserved. rewrite map_map. cbn [p_nodes]. rewrite map_id, map_length.
    split; [|split; [|split; [|split]]].
    + destruct chunks; [discriminate|discriminate].
    + intros p Hp. apply in_map_iff in Hp. destruct Hp as (ch & <- & _). auto.
    + exact Hcat.
    + discriminate.
    + intros p Hp Hsz. apply in_map_iff in Hp. destruct Hp as (ch & <- & Hch). cbn [p_nodes]. split.
      * apply (split_nodes_bound (fun s => rsize (s_val s)) (s0 :: rest)); auto.
      * intros _. apply (split_nodes_nonempty (fun s => rsize (s_val s)) (s0 :: rest)); auto. discriminate.
Qed.

(* ------------------------------------------------------------------------------------------ *)
(* sizes *)

Lemma be_len_le2 x : x < 65536 -> be_len x <= 2.
Proof.
  intros H. unfold be_len. destruct (x =? 0) eqn:E; [lia|]. apply N.eqb_neq in E.
  assert (N.log2 x < 16) by (apply N.log2_lt_pow2; lia).
  assert (N.log2 x / 8 <= 1); [|lia].
  apply N.lt_succ_r. apply N.div_lt_upper_bound; lia.
Qed.

Lemma rlp_hdr_le3 x : x < 65536 -> rlp_hdr x <= 3.
Proof. intros H. unfold rlp_hdr. destruct (x <? 56); [lia|]. pose proof (be_len_le2 x H). lia. Qed.

Lemma rlp_uint_size_le2 x : x <= 255 -> rlp_uint_size x <= 2.
Proof.
  intros H. unfold rlp_uint_size. destruct (x <? 128); [lia|].
  unfold be_len. destruct (x =? 0) eqn:E; [lia|]. apply N.eqb_neq in E.
  assert (N.log2 x < 8) by (apply N.log2_lt_pow2; lia).
  assert (N.log2 x / 8 = 0) by (apply N.div_small; lia). lia.
Qed.

Lemma rlp_bytes_size_le bs : (length bs <= 8)%nat -> rlp_bytes_size bs <= 9.
Proof.
  intros H. unfold rlp_bytes_size.
  destruct bs as [|b [|b2 bs']].
  - vm_compute. discriminate.
  - destruct (b <? 128); lia.
  - set (n := N.of_nat (length (b :: b2 :: bs'))). assert (n <= 8) by (unfold n; lia).
    unfold rlp_hdr. destruct (n <? 56) eqn:E; [lia|]. apply N.ltb_ge in E. lia.
Qed.

(* The arithmetic of the 104-byte overhead: a NODES response whose records sum to less than
   MAX_PACKET_SIZE - 104, with a request id of at most 8 bytes and a total of at most 255, fits a
   datagram.  The constants come from Generated/Params.v: if one of them changes in /repo so that
   the margin disappears, this proof breaks. *)
Lemma nodes_packet_fits rsize p :
  sum_sizes (fun s => rsize (s_val s)) (p_nodes p) < SPLIT_LIMIT ->
  (length (p_id p) <= 8)%nat -> p_total p <= 255 ->
  wire_size (nodes_msg_size rsize p) <= MAX_PACKET_SIZE.
Proof.
  intros Hpay Hid Htot. unfold nodes_msg_size, wire_size.
  set (payload := sum_sizes _ _) in *.
  assert (HL : SPLIT_LIMIT = 1176) by (vm_compute; reflexivity).
  assert (HM : MAX_PACKET_SIZE = 1280) by (vm_compute; reflexivity).
  assert (HIV : IV_LENGTH = 16) by reflexivity.
  assert (HSH : STATIC_HEADER_LENGTH = 23) by reflexivity.
  unfold NODE_ID_LENGTH, GCM_TAG_LENGTH. rewrite HM, HIV, HSH. rewrite HL in Hpay.
  pose proof (rlp_bytes_size_le _ Hid) as H1.
  pose proof (rlp_uint_size_le2 _ Htot) as H2.
  assert (H3 : rlp_hdr payload <= 3) by (apply rlp_hdr_le3; lia).
  set (body := rlp_bytes_size (p_id p) + rlp_uint_size (p_total p) + (rlp_hdr payload + payload)).
  assert (Hbody : body <= 1189) by (unfold body; lia).
  assert (H4 : rlp_hdr body <= 3) by (apply rlp_hdr_le3; lia).
  lia.
Qed.

(* the hypothesis on the total is needed: with 256 packets the total takes three bytes and a full
   packet is one byte too long *)
Lemma nodes_packet_total_256_too_long :
  exists rsize p,
    sum_sizes (fun s => rsize (s_val s)) (p_nodes p) < SPLIT_LIMIT /\ (length (p_id p) <= 8)%nat /\
    p_total p = 256 /\ MAX_PACKET_SIZE < wire_size (nodes_msg_size rsize p).
Proof.
  exists (fun _ => 235),
         {| p_id := [200; 1; 2; 3; 4; 5; 6; 7]; p_total := 256;
            p_nodes := repeat {| s_key := 1; s_val := {| vid := 1; vsub := None |} |} 5 |}.
  split; [vm_compute; reflexivity|]. split; [cbn; lia|]. split; [reflexivity|]. vm_compute. reflexivity.
Qed.

(* ------------------------------------------------------------------------------------------ *)
(* C11: the honest responder.  Every record of an honest answer is at a requested distance in the
   sense of the (repaired) filter closure, so the answer passes the filter unchanged. *)

Lemma answer_records_requested c t lv requester ds maxn now :
  placed t ->
  forall s, In s (snd (answer c t lv requester ds maxn now)) ->
    (s_key s = local t /\ In 0 ds) \/
    (exists d, In d ds /\ 1 <= d <= NUM_BUCKETS /\ log2_distance (local t) (s_key s) = Some d /\
               s_key s <> requester).
Proof.
  intros Hp s Hs. unfold answer in Hs. cbn [snd] in Hs. apply in_app_iff in Hs. destruct Hs as [Hs|Hs].
  - left. unfold own_part in Hs. destruct (mem 0 ds) eqn:E; [|destruct Hs].
    destruct Hs as [<-|[]]. split; [reflexivity|now apply mem_In].
  - right. apply in_map_iff in Hs. destruct Hs as (n & <- & Hn). apply filter_In in Hn.
    destruct Hn as (Hn & Hreq). apply nbd_collect_sound in Hn. destruct Hn as (d & Hd & Hn).
    unfold table_distances in Hd. apply In_valid_distances in Hd. destruct Hd as (Hd & Hrange).
    rewrite In_dedup_N, In_sort_N in Hd.
    exists d. split; [exact Hd|]. split; [exact Hrange|].
    pose proof (nbd_apply_placed c maxn now (table_distances ds) t 0 Hp) as Hp'.
    pose proof (placed_distance _ _ _ Hp' Hn) as Hdist.
    rewrite nbd_apply_local in Hdist. cbn [item_of_node s_key]. split.
    + rewrite Hdist. f_equal. rewrite N2Nat.id. lia.
    + apply negb_true_iff in Hreq. now apply N.eqb_neq in Hreq.
Qed.

Lemma requested_passes_closure fx peer ds r :
  fix_d4 fx = true ->
  (e_id r = peer /\ In 0 ds) \/ (exists d, In d ds /\ log2_distance peer (e_id r) = Some d) ->
  dist_requested fx peer ds r = true.
Proof.
  intros H4 [(Hid & H0)|(d & Hd & Hdist)]; unfold dist_requested.
  - rewrite Hid. assert (log2_distance peer peer = None) by now apply log2_distance_none.
    rewrite H. rewrite H4. now apply mem_In.
  - rewrite Hdist. now apply mem_In.
Qed.

(* An honest responder: its table is [t] (every node in the bucket of its distance), it serves the
   request with serve_findnode, the requester runs the filter on every packet with the responder's
   id as the peer and the distances it asked for.  No packet is altered and none leads to a ban. *)
Lemma honest_never_banned fx c t lv requester id ds maxn rsize now (mk : sitem -> enr) :
  fix_d4 fx = true -> placed t -> (forall s, e_id (mk s) = s_key s) ->
  forall p, In p (snd (serve_findnode c t lv requester id ds maxn rsize now)) ->
    filter_response fx (local t) ds (map mk (p_nodes p)) = (map mk (p_nodes p), false).
Proof.
  intros H4 Hp Hmk p Hin.
  pose proof (serve_findnode_packets c t lv requester id ds maxn rsize now) as Hpk. cbv zeta in Hpk.
  destruct Hpk as (_ & _ & Hcat & Hempty & _).
  assert (Hall : forall s, In s (p_nodes p) -> In s (snd (answer c t lv requester ds maxn now))).
  { intros s Hs. rewrite <- Hcat. apply in_concat. exists (p_nodes p). split; [|exact Hs].
    apply in_map. exact Hin. }
  assert (Hreq : forall r, In r (map mk (p_nodes p)) -> dist_requested fx (local t) ds r = true).
  { intros r Hr. apply in_map_iff in Hr. destruct Hr as (s & <- & Hs).
    apply requested_passes_closure; [exact H4|]. rewrite Hmk.
    destruct (answer_records_requested c t lv requester ds maxn now Hp s (Hall s Hs)) as [H|(d & Hd & _ & Hdist & _)];
      [left; exact H|right; eauto]. }
  destruct (is_enr_request ds && negb (fix_enr1 fx)) eqn:Esp.
  - (* the request for [0] under the pinned special branch: the answer is the local record alone *)
    apply andb_prop in Esp. destruct Esp as (Hen & _).
    unfold is_enr_request in Hen. destruct ds as [|d0 [|d1 ds']]; try discriminate.
    apply N.eqb_eq in Hen. subst d0.
    assert (Hone : (length (p_nodes p) <= 1)%nat).
    { assert (Hans : snd (answer c t lv requester [0] maxn now) = [{| s_key := local t; s_val := lv |}]).
      { unfold answer, table_distances, own_part. cbn. reflexivity. }
      rewrite Hans in Hcat. clear Hempty Hall Hreq Hans.
      revert Hcat Hin. generalize (snd (serve_findnode c t lv requester id [0] maxn rsize now)) as ps.
      intros ps Hcat Hin.
      assert (Hlen : (length (p_nodes p) <= length (concat (map p_nodes ps)))%nat).
      { clear - Hin. induction ps as [|q l IH]; [destruct Hin|].
        cbn [map concat]. rewrite app_length. destruct Hin as [->|Hin]; [lia|]. specialize (IH Hin). lia. }
      rewrite Hcat in Hlen. exact Hlen. }
    unfold filter_response. cbn [is_enr_request]. rewrite N.eqb_refl.
    destruct (negb (fix_enr1 fx)); cbn [andb].
    + rewrite map_length. destruct (Nat.ltb 1 (length (p_nodes p))) eqn:E; [apply Nat.ltb_lt in E; lia|reflexivity].
    + rewrite (filter_all_true _ _ Hreq). now rewrite Nat.ltb_irrefl.
  - now apply all_requested_not_banned.
Qed.

(* On the pinned tree the property failed: the lookup for a target adjacent to the peer asks for
   [1; 2; 0], the honest answer contains the peer's own record, and the peer is banned. *)
Lemma honest_banned_pinned :
  exists target peer ds c t lv requester id maxn rsize now p,
    rpc_request_distances target peer 3 = Some ds /\ local t = peer /\ placed t /\
    In p (snd (serve_findnode c t lv requester id ds maxn rsize now)) /\
    snd (filter_response pinned peer ds
           (map (fun s => {| e_vid := vid (s_val s); e_id := s_key s; e_seq := 1; e_udp4 := None;
                             e_udp6 := None; e_sub := None; e_size := 100 |}) (p_nodes p))) = true.
Proof.
  exists 4, 5, [1; 2; 0],
    {| max_incoming := 16; pending_timeout := 60; bfilter := None; tfilter := None |},
    (new_table 5), {| vid := 1; vsub := None |}, 9, [1], 16%nat, (fun _ => 100), 1.
  eexists. split; [vm_compute; reflexivity|]. split; [reflexivity|]. split.
  - intros i x Hx. exfalso. unfold get_bucket, new_table in Hx. cbn [buckets] in Hx.
    assert (Hnth : nth i (repeat empty_bucket NB) empty_bucket = empty_bucket).
    { clear. generalize NB. intros n. revert i. induction n; intros [|i]; simpl; auto. }
    rewrite Hnth in Hx. destruct Hx.
  - split; [vm_compute; left; reflexivity|]. vm_compute. reflexivity.
Qed.
