(* Proofs about the query state machines of Model/Query.v (C09, C10): the well-formedness
   invariant, the effect of one call on every peer entry, and the invariants of runs. *)
From Coq Require Import List NArith Bool Lia Sorted.
From Discv5V Require Import Lib.SortedX Model.Query.
Import ListNotations.
Local Open Scope N_scope.

(* ------------------------------------------------------------------------------------------ *)
(* counting peers by state *)

Definition is_waiting (s : pstate) : bool := match s with Waiting _ => true | _ => false end.
Definition is_nc (s : pstate) : bool := match s with NotContacted => true | _ => false end.

Fixpoint cnt (f : qpeer -> bool) (l : list (N * qpeer)) : N :=
  match l with
  | [] => 0
  | dp :: r => (if f (snd dp) then 1 else 0) + cnt f r
  end.

Definition fW (p : qpeer) : bool := is_waiting (pst p).
Definition fNC (p : qpeer) : bool := is_nc (pst p).
Definition fOK (k : kind) (p : qpeer) : bool := is_succeeded (pst p) && pm k p.

Definition keys_sorted (l : list (N * qpeer)) : Prop := StronglySorted N.lt (map fst l).

(* the invariant of a query *)
Record wf (q : query) : Prop := {
  wf_sorted : keys_sorted (peers q);
  wf_dist : forall d p, In (d, p) (peers q) -> d = N.lxor (pkey p) (target q);
  wf_count : num_waiting q = cnt fW (peers q)
}.

Lemma cnt_app f l1 l2 : cnt f (l1 ++ l2) = cnt f l1 + cnt f l2.
Proof. induction l1; cbn [cnt app]; lia. Qed.

Lemma cnt_zero_forall f l : cnt f l = 0 <-> (forall d p, In (d, p) l -> f p = false).
Proof.
  induction l as [|[d p] r IH]; cbn [cnt snd].
  - split; [intros _ ? ? []|reflexivity].
  - split.
    + intros H d' p' [E|I].
      * inversion E; subst. destruct (f p'); [lia|reflexivity].
      * apply IH in I; [exact I|]. destruct (f p); lia.
    + intros H. rewrite (H d p (or_introl eq_refl)). apply IH. intros; eapply H; right; eauto.
Qed.

Lemma cnt_le_length f l : cnt f l <= N.of_nat (length l).
Proof. induction l as [|x r IH]; cbn [cnt length]; [lia|]. destruct (f (snd x)); lia. Qed.

(* ------------------------------------------------------------------------------------------ *)
(* the map operations *)

Lemma sorted_head_lt d p r d' p' :
  keys_sorted ((d, p) :: r) -> In (d', p') r -> d < d'.
Proof.
  unfold keys_sorted; cbn [map fst]. intros H I. apply StronglySorted_inv in H as [_ F].
  rewrite Forall_forall in F. apply F. apply in_map_iff. exists (d', p'); auto.
Qed.

Lemma sorted_tail x r : keys_sorted (x :: r) -> keys_sorted r.
Proof. unfold keys_sorted; cbn [map]. intros H. apply StronglySorted_inv in H. tauto. Qed.

Lemma sorted_unique l d p1 p2 : keys_sorted l -> In (d, p1) l -> In (d, p2) l -> p1 = p2.
Proof.
  induction l as [|[d0 p0] r IH]; intros S I1 I2; [destruct I1|].
  destruct I1 as [E1|I1], I2 as [E2|I2].
  - congruence.
  - inversion E1; subst. pose proof (sorted_head_lt _ _ _ _ _ S I2). lia.
  - inversion E2; subst. pose proof (sorted_head_lt _ _ _ _ _ S I1). lia.
  - eapply IH; eauto using sorted_tail.
Qed.

Lemma m_get_in d m p : m_get d m = Some p -> In (d, p) m.
Proof.
  induction m as [|[d' p'] r IH]; cbn [m_get]; [discriminate|].
  destruct (N.eqb_spec d d'); intros H.
  - inversion H; subst; left; reflexivity.
  - right; auto.
Qed.

Lemma m_get_none d m : m_get d m = None -> forall p, ~ In (d, p) m.
Proof.
  induction m as [|[d' p'] r IH]; cbn [m_get]; intros H p I; [destruct I|].
  destruct (N.eqb_spec d d'); [discriminate|].
  destruct I as [E|I]; [inversion E; congruence|eapply IH; eauto].
Qed.

Lemma in_m_get d m p : keys_sorted m -> In (d, p) m -> m_get d m = Some p.
Proof.
  intros S I. destruct (m_get d m) eqn:G.
  - f_equal. eapply sorted_unique; eauto using m_get_in.
  - exfalso; eapply m_get_none; eauto.
Qed.

Lemma m_set_keys d p m : map fst (m_set d p m) = map fst m.
Proof.
  induction m as [|[d' p'] r IH]; cbn [m_set map]; [reflexivity|].
  destruct (d =? d'); cbn [map fst]; congruence.
Qed.

Lemma m_set_length d p m : length (m_set d p m) = length m.
Proof. rewrite <- (map_length fst), m_set_keys, map_length; reflexivity. Qed.

Lemma m_set_cnt f d p p' m :
  m_get d m = Some p ->
  cnt f (m_set d p' m) + (if f p then 1 else 0) = cnt f m + (if f p' then 1 else 0).
Proof.
  induction m as [|[d0 p0] r IH]; cbn [m_get m_set]; [discriminate|].
  destruct (N.eqb_spec d d0); intros H.
  - inversion H; subst. cbn [cnt snd]. lia.
  - cbn [cnt snd]. specialize (IH H). lia.
Qed.

(* backward: where an entry of the updated map comes from *)
Lemma m_set_back d p' m d1 x : In (d1, x) (m_set d p' m) -> (d1 = d /\ x = p') \/ In (d1, x) m.
Proof.
  induction m as [|[d0 p0] r IH]; cbn [m_set]; [intros []|].
  destruct (N.eqb_spec d d0); intros [E|I].
  - inversion E; subst; left; auto.
  - right; right; auto.
  - right; left; auto.
  - destruct (IH I); auto. right; right; auto.
Qed.

(* forward: what becomes of an entry *)
Lemma m_set_fwd d p p' m d1 x :
  keys_sorted m -> m_get d m = Some p -> In (d1, x) m ->
  (d1 = d /\ x = p /\ In (d, p') (m_set d p' m)) \/ (d1 <> d /\ In (d1, x) (m_set d p' m)).
Proof.
  intros S G I. destruct (N.eq_dec d1 d) as [->|ne].
  - left. split; [reflexivity|]. split.
    + eapply sorted_unique; eauto using m_get_in.
    + clear I S. induction m as [|[d0 p0] r IH]; cbn [m_get m_set] in *; [discriminate|].
      destruct (N.eqb_spec d d0); [subst; left; reflexivity|right; auto].
  - right. split; [exact ne|]. clear S G.
    induction m as [|[d0 p0] r IH]; cbn [m_set]; [destruct I|].
    destruct (N.eqb_spec d d0); destruct I as [E|I].
    + inversion E; congruence.
    + right; exact I.
    + left; exact E.
    + right; auto.
Qed.

Lemma m_or_insert_back d p m x : In x (m_or_insert d p m) -> x = (d, p) \/ In x m.
Proof.
  induction m as [|[d0 p0] r IH]; cbn [m_or_insert].
  - intros [E|[]]; auto.
  - destruct (d <? d0); [intros [E|I]; auto|].
    destruct (d =? d0); [auto|]. intros [E|I]; [right; left; auto|].
    destruct (IH I); auto. right; right; auto.
Qed.

Lemma m_or_insert_fwd d p m x : In x m -> In x (m_or_insert d p m).
Proof.
  induction m as [|[d0 p0] r IH]; cbn [m_or_insert]; [intros []|].
  destruct (d <? d0); [right; auto|]. destruct (d =? d0); [auto|].
  intros [E|I]; [left; auto|right; auto].
Qed.

Lemma m_or_insert_sorted d p m : keys_sorted m -> keys_sorted (m_or_insert d p m).
Proof.
  unfold keys_sorted. induction m as [|[d0 p0] r IH]; cbn [m_or_insert map fst]; intros S.
  - constructor; constructor.
  - destruct (N.ltb_spec d d0).
    + cbn [map fst]. constructor; [exact S|]. constructor; [exact H|].
      apply StronglySorted_inv in S as [_ F]. eapply Forall_impl; [|exact F]. cbn; intros; lia.
    + destruct (N.eqb_spec d d0); [exact S|].
      cbn [map fst]. apply StronglySorted_inv in S as [S F]. constructor; [auto|].
      rewrite Forall_forall in *. intros y Iy. apply in_map_iff in Iy as [[d1 p1] [<- I1]].
      apply m_or_insert_back in I1 as [E|I1].
      * inversion E; subst. cbn. lia.
      * apply F. apply in_map_iff. exists (d1, p1); auto.
Qed.

Lemma m_or_insert_cnt f d p m : f p = false -> cnt f (m_or_insert d p m) = cnt f m.
Proof.
  intros Hp. induction m as [|[d0 p0] r IH]; cbn [m_or_insert cnt snd].
  - rewrite Hp; reflexivity.
  - destruct (d <? d0); [cbn [cnt snd]; rewrite Hp; lia|].
    destruct (d =? d0); [reflexivity|]. cbn [cnt snd]. lia.
Qed.

(* the number of entries with a given property grows by at most one *)
Lemma m_or_insert_cnt_le f d p m : cnt f (m_or_insert d p m) <= cnt f m + 1.
Proof.
  induction m as [|[d0 p0] r IH]; cbn [m_or_insert cnt snd].
  - destruct (f p); lia.
  - destruct (d <? d0); [cbn [cnt snd]; destruct (f p); lia|].
    destruct (d =? d0); [cbn [cnt snd]; lia|]. cbn [cnt snd]. lia.
Qed.

Lemma m_or_insert_cnt_present f d p m x : In (d, x) m -> keys_sorted m -> cnt f (m_or_insert d p m) = cnt f m.
Proof.
  induction m as [|[d0 p0] r IH]; cbn [m_or_insert]; [intros []|]. intros I S.
  destruct (N.ltb_spec d d0).
  - exfalso. destruct I as [E|I]; [inversion E; lia|].
    pose proof (sorted_head_lt _ _ _ _ _ S I). lia.
  - destruct (N.eqb_spec d d0); [reflexivity|].
    destruct I as [E|I]; [inversion E; congruence|].
    cbn [cnt snd]. rewrite IH; eauto using sorted_tail.
Qed.

Lemma m_insert_back d p m x : In x (m_insert d p m) -> x = (d, p) \/ In x m.
Proof.
  induction m as [|[d0 p0] r IH]; cbn [m_insert].
  - intros [E|[]]; auto.
  - destruct (d <? d0); [intros [E|I]; auto|].
    destruct (d =? d0); [intros [E|I]; auto; right; right; auto|].
    intros [E|I]; [right; left; auto|]. destruct (IH I); auto. right; right; auto.
Qed.

Lemma m_insert_sorted d p m : keys_sorted m -> keys_sorted (m_insert d p m).
Proof.
  unfold keys_sorted. induction m as [|[d0 p0] r IH]; cbn [m_insert map fst]; intros S.
  - constructor; constructor.
  - destruct (N.ltb_spec d d0).
    + cbn [map fst]. constructor; [exact S|]. constructor; [exact H|].
      apply StronglySorted_inv in S as [_ F]. eapply Forall_impl; [|exact F]. cbn; intros; lia.
    + destruct (N.eqb_spec d d0).
      * subst. cbn [map fst]. exact S.
      * cbn [map fst]. apply StronglySorted_inv in S as [S F]. constructor; [auto|].
        rewrite Forall_forall in *. intros y Iy. apply in_map_iff in Iy as [[d1 p1] [<- I1]].
        apply m_insert_back in I1 as [E|I1].
        -- inversion E; subst. cbn. lia.
        -- apply F. apply in_map_iff. exists (d1, p1); auto.
Qed.

Lemma lxor_inj a b t : N.lxor a t = N.lxor b t -> a = b.
Proof.
  intros H. rewrite <- (N.lxor_0_r a), <- (N.lxor_nilpotent t), <- N.lxor_assoc, H,
    N.lxor_assoc, N.lxor_nilpotent, N.lxor_0_r. reflexivity.
Qed.

(* ------------------------------------------------------------------------------------------ *)
(* the loop of [next] *)

Inductive ltrans (now : N) (c : qconfig) (lo : loop_out) (x x' : qpeer) : Prop :=
| lt_same : x' = x -> ltrans now c lo x x'
| lt_emit : pst x = NotContacted -> x' = set_st x (Waiting (now + peer_timeout c)) -> lo = LEmit (pkey x) ->
            ltrans now c lo x x'
| lt_timeout t : pst x = Waiting t -> t <= now -> x' = set_st x Unresponsive -> ltrans now c lo x x'.

Definition lrel now c lo (a b : N * qpeer) : Prop := fst a = fst b /\ ltrans now c lo (snd a) (snd b).

Lemma Forall2_lrel_refl now c lo l : Forall2 (lrel now c lo) l l.
Proof. induction l; constructor; auto. split; [reflexivity|apply lt_same; reflexivity]. Qed.

Definition loop_post (k : kind) (c : qconfig) (ac : bool) (now : N) (l : list (N * qpeer)) (rc : option N)
           (l' : list (N * qpeer)) (o : loop_out) : Prop :=
  match o with
  | LEmit p => ac = false /\ cnt fNC l' + 1 = cnt fNC l /\
               exists d x, In (d, x) l /\ pst x = NotContacted /\ pkey x = p /\
                           In (d, set_st x (Waiting (now + peer_timeout c))) l'
  | LAtCapacity => ac = true /\ cnt fNC l' = cnt fNC l
  | LFinished => cnt fNC l' = cnt fNC l /\ exists c0, rc = Some c0 /\ num_results c <= c0 + cnt (fOK k) l
  | LEnd => cnt fNC l' = cnt fNC l /\ cnt fNC l = 0
  end.

Ltac peerfacts Sp :=
  cbn [cnt snd loop_post] in *; unfold fNC, fW, fOK in *; cbn [set_st pst] in *; rewrite ?Sp in *;
  cbn [is_nc is_waiting is_succeeded andb] in *.

Lemma next_loop_spec k c ac now l :
  forall rc nw l' nw' o,
    next_loop k c ac now l rc nw = Some (l', nw', o) ->
    Forall2 (lrel now c o) l l' /\ nw' + cnt fW l = nw + cnt fW l' /\ loop_post k c ac now l rc l' o.
Proof.
  induction l as [|[d p] r IH]; intros rc nw l' nw' o H.
  - cbn [next_loop] in H. inversion H; subst. cbn [cnt loop_post]. repeat split; constructor.
  - cbn [next_loop] in H.
    (* the shape of a "continue" step *)
    assert (CONT : forall p' rc' nw1,
      match next_loop k c ac now r rc' nw1 with
      | Some (r', nw'', o0) => Some ((d, p') :: r', nw'', o0)
      | None => None
      end = Some (l', nw', o) ->
      exists r', l' = (d, p') :: r' /\ next_loop k c ac now r rc' nw1 = Some (r', nw', o)).
    { intros p' rc' nw1 E. destruct (next_loop k c ac now r rc' nw1) as [[[r' nw''] o0]|]; [|discriminate].
      inversion E; subst. eauto. }
    (* a continue step that leaves the peer's state class unchanged or times it out *)
    assert (STEP : forall p' rc' nw1 r',
      next_loop k c ac now r rc' nw1 = Some (r', nw', o) ->
      ltrans now c o p p' ->
      fNC p' = fNC p -> fNC p = false ->
      nw1 + (if fW p then 1 else 0) = nw + (if fW p' then 1 else 0) ->
      (rc' = None \/ (rc' = rc /\ True) \/ exists c1, rc = Some c1 /\ rc' = Some (c1 + 1) /\ fOK k p = true) ->
      Forall2 (lrel now c o) ((d, p) :: r) ((d, p') :: r') /\
      nw' + cnt fW ((d, p) :: r) = nw + cnt fW ((d, p') :: r') /\
      loop_post k c ac now ((d, p) :: r) rc ((d, p') :: r') o).
    { intros p' rc' nw1 r' H' T N1 N2 W Hrc. apply IH in H' as (F & C & P).
      split; [constructor; [split; [reflexivity|exact T]|exact F]|].
      split; [cbn [cnt snd]; lia|].
      destruct o; cbn [loop_post] in *; cbn [cnt snd]; rewrite N1, N2.
      - destruct P as (A & B & d1 & x1 & I1 & S1 & K1 & I2). split; [auto|]. split; [lia|].
        exists d1, x1. repeat split; auto; right; auto.
      - destruct P; split; [auto|lia].
      - destruct P as (A & c0 & R & L). split; [lia|].
        destruct Hrc as [->|[[-> _]|(c1 & E1 & -> & OK)]]; [discriminate| |].
        + exists c0. split; [auto|]. destruct (fOK k p); lia.
        + inversion R; subst. exists c1. split; [auto|]. rewrite OK. lia.
      - destruct P; split; lia. }
    destruct (pst p) eqn:Sp.
    + (* NotContacted *)
      destruct ac; cbn [negb] in H; inversion H; subst; clear H STEP CONT.
      * split; [apply Forall2_lrel_refl|]. split; [reflexivity|]. cbn [loop_post]. auto.
      * split.
        { constructor; [|apply Forall2_lrel_refl]. split; [reflexivity|]. cbn [snd].
          apply lt_emit; auto. }
        split; [peerfacts Sp; lia|].
        cbn [loop_post]. split; [reflexivity|]. split; [peerfacts Sp; lia|].
        exists d, p. repeat split; auto; left; reflexivity.
    + (* Waiting *)
      destruct (N.leb_spec deadline now).
      * destruct (N.eqb_spec nw 0); [discriminate|].
        apply CONT in H as (r' & -> & H). eapply STEP; eauto.
        -- eapply lt_timeout; eauto.
        -- unfold fNC; cbn [set_st pst]; rewrite Sp; reflexivity.
        -- unfold fNC; rewrite Sp; reflexivity.
        -- unfold fW; cbn [set_st pst]; rewrite Sp; cbn [is_waiting]; lia.
      * destruct ac.
        -- inversion H; subst; clear H.
           split; [apply Forall2_lrel_refl|]. split; [reflexivity|]. cbn [loop_post]. auto.
        -- apply CONT in H as (r' & -> & H). eapply STEP; eauto.
           ++ apply lt_same; reflexivity.
           ++ unfold fNC; rewrite Sp; reflexivity.
           ++ destruct (pm k p); auto.
    + (* Unresponsive *)
      apply CONT in H as (r' & -> & H). eapply STEP; eauto.
      * apply lt_same; reflexivity.
      * unfold fNC; rewrite Sp; reflexivity.
    + (* Failed *)
      apply CONT in H as (r' & -> & H). eapply STEP; eauto.
      * apply lt_same; reflexivity.
      * unfold fNC; rewrite Sp; reflexivity.
    + (* Succeeded *)
      assert (N2 : fNC p = false) by (unfold fNC; rewrite Sp; reflexivity).
      destruct rc as [c1|].
      * destruct (pm k p) eqn:PM.
        -- destruct (N.leb_spec (num_results c) (c1 + 1)).
           ++ inversion H; subst; clear H.
              split; [apply Forall2_lrel_refl|]. split; [reflexivity|]. cbn [loop_post].
              split; [reflexivity|]. exists c1. split; [reflexivity|].
              cbn [cnt snd]. unfold fOK at 1. rewrite Sp, PM. cbn [is_succeeded andb]. lia.
           ++ apply CONT in H as (r' & -> & H). eapply STEP; eauto.
              ** apply lt_same; reflexivity.
              ** right; right. exists c1. repeat split. unfold fOK. rewrite Sp, PM. reflexivity.
        -- apply CONT in H as (r' & -> & H). eapply STEP; eauto. apply lt_same; reflexivity.
      * apply CONT in H as (r' & -> & H). eapply STEP; eauto. apply lt_same; reflexivity.
Qed.

Lemma next_loop_no_panic k c ac now l :
  forall rc nw, cnt fW l <= nw -> next_loop k c ac now l rc nw <> None.
Proof.
  induction l as [|[d p] r IH]; intros rc nw L; cbn [next_loop]; [discriminate|].
  cbn [cnt snd] in L. unfold fW at 1 in L.
  assert (CONT : forall p' rc' nw1, cnt fW r <= nw1 ->
    match next_loop k c ac now r rc' nw1 with
    | Some (r', nw'', o0) => Some ((d, p') :: r', nw'', o0)
    | None => None
    end <> None).
  { intros p' rc' nw1 L1. specialize (IH rc' nw1 L1).
    destruct (next_loop k c ac now r rc' nw1) as [[[? ?] ?]|]; congruence. }
  destruct (pst p) eqn:Sp; cbn [is_waiting] in L.
  - destruct (negb ac); discriminate.
  - destruct (deadline <=? now).
    + destruct (N.eqb_spec nw 0); [lia|]. apply CONT. lia.
    + destruct ac; [discriminate|]. apply CONT. lia.
  - apply CONT; lia.
  - apply CONT; lia.
  - destruct rc as [c1|]; [|apply CONT; lia].
    destruct (pm k p); [|apply CONT; lia].
    destruct (num_results c <=? c1 + 1); [discriminate|apply CONT; lia].
Qed.

(* ------------------------------------------------------------------------------------------ *)
(* incorporating reported peers *)

Definition add_all (k : kind) (t : N) (closer : list (N * bool)) (m : list (N * qpeer)) : list (N * qpeer) :=
  fold_left (fun m r => m_or_insert (N.lxor t (fst r)) (new_peer (fst r) (flag_of k (snd r))) m) closer m.

Lemma incorporate_fold k t nc nr closer : forall m b,
  fst (fold_left (incorporate k t nc nr) closer (m, b)) = add_all k t closer m.
Proof.
  induction closer as [|r cl IH]; intros m b; [reflexivity|].
  cbn [fold_left add_all]. unfold incorporate at 2. cbn [fst snd]. rewrite IH. reflexivity.
Qed.

Lemma add_all_sorted k t closer : forall m, keys_sorted m -> keys_sorted (add_all k t closer m).
Proof.
  induction closer as [|r cl IH]; intros m S; [exact S|].
  cbn [add_all fold_left]. apply IH. apply m_or_insert_sorted; exact S.
Qed.

Lemma add_all_back k t closer : forall m x, In x (add_all k t closer m) ->
  In x m \/ exists r, In r closer /\ x = (N.lxor t (fst r), new_peer (fst r) (flag_of k (snd r))).
Proof.
  induction closer as [|r cl IH]; intros m x I; [left; exact I|].
  cbn [add_all fold_left] in I. apply IH in I as [I|(r' & I' & E)].
  - apply m_or_insert_back in I as [E|I]; [right; exists r; split; [left; reflexivity|exact E]|left; exact I].
  - right; exists r'; split; [right; exact I'|exact E].
Qed.

Lemma add_all_fwd k t closer : forall m x, In x m -> In x (add_all k t closer m).
Proof.
  induction closer as [|r cl IH]; intros m x I; [exact I|].
  cbn [add_all fold_left]. apply IH. apply m_or_insert_fwd; exact I.
Qed.

Lemma add_all_cnt f k t closer : (forall a b, f (new_peer a b) = false) ->
  forall m, cnt f (add_all k t closer m) = cnt f m.
Proof.
  intros Hf. induction closer as [|r cl IH]; intros m; [reflexivity|].
  change (add_all k t (r :: cl) m) with
    (add_all k t cl (m_or_insert (N.lxor t (fst r)) (new_peer (fst r) (flag_of k (snd r))) m)).
  rewrite IH. apply m_or_insert_cnt. apply Hf.
Qed.

Lemma add_all_cnt_le f k t closer : forall m,
  cnt f (add_all k t closer m) <= cnt f m + N.of_nat (length closer).
Proof.
  induction closer as [|r cl IH]; intros m; [cbn; lia|].
  change (add_all k t (r :: cl) m) with
    (add_all k t cl (m_or_insert (N.lxor t (fst r)) (new_peer (fst r) (flag_of k (snd r))) m)).
  cbn [length]. specialize (IH (m_or_insert (N.lxor t (fst r)) (new_peer (fst r) (flag_of k (snd r))) m)).
  pose proof (m_or_insert_cnt_le f (N.lxor t (fst r)) (new_peer (fst r) (flag_of k (snd r))) m). lia.
Qed.

(* ------------------------------------------------------------------------------------------ *)
(* what one call does to a query *)

Definition static (q q' : query) : Prop :=
  qkind q' = qkind q /\ target q' = target q /\ cfg q' = cfg q.

Lemma next_inv q now q' s : next q now = Some (q', s) ->
  (prog q = Finished /\ q' = q /\ s = SFinished) \/
  (prog q <> Finished /\ static q q' /\
   exists lo, next_loop (qkind q) (cfg q) (at_capacity q) now (peers q) (Some 0) (num_waiting q)
              = Some (peers q', num_waiting q', lo) /\
     match lo with
     | LEmit p => s = SWaiting (Some p) /\ prog q' = prog q
     | LAtCapacity => s = SWaitingAtCapacity /\ prog q' = prog q
     | LFinished => s = SFinished /\ prog q' = Finished
     | LEnd => (0 < num_waiting q' /\ s = SWaiting None /\ prog q' = prog q) \/
               (num_waiting q' = 0 /\ s = SFinished /\ prog q' = Finished)
     end).
Proof.
  unfold next. intros H.
  assert (NF : prog q = Finished \/ prog q <> Finished) by (destruct (prog q); auto; right; discriminate).
  destruct NF as [F|NF].
  - left. rewrite F in H. inversion H; subst; auto.
  - right. split; [exact NF|].
    assert (H' : match next_loop (qkind q) (cfg q) (at_capacity q) now (peers q) (Some 0) (num_waiting q) with
                 | Some (ps, nw, o) =>
                   let q' := set_peers q ps nw in
                   match o with
                   | LEmit p => Some (q', SWaiting (Some p))
                   | LAtCapacity => Some (q', SWaitingAtCapacity)
                   | LFinished => Some (set_prog q' Finished, SFinished)
                   | LEnd => if 0 <? nw then Some (q', SWaiting None) else Some (set_prog q' Finished, SFinished)
                   end
                 | None => None
                 end = Some (q', s)).
    { destruct (prog q); [exact H|exact H|congruence]. }
    clear H. destruct (next_loop _ _ _ _ _ _ _) as [[[ps nw] o]|]; [|discriminate].
    cbn zeta in H'. destruct o.
    + inversion H'; subst. split; [repeat split|]. exists (LEmit peer). auto.
    + inversion H'; subst. split; [repeat split|]. exists LAtCapacity. auto.
    + inversion H'; subst. split; [repeat split|]. exists LFinished. auto.
    + destruct (N.ltb_spec 0 nw); inversion H'; subst; (split; [repeat split|]); exists LEnd; cbn.
      * split; [reflexivity|]. left; auto.
      * split; [reflexivity|]. right; repeat split; lia.
Qed.

Lemma Forall2_lrel_keys now c o l l' : Forall2 (lrel now c o) l l' -> map fst l = map fst l'.
Proof. induction 1 as [|a b l l' [E _] _ IH]; cbn [map]; congruence. Qed.

Lemma Forall2_lrel_back now c o l l' : Forall2 (lrel now c o) l l' ->
  forall d x', In (d, x') l' -> exists x, In (d, x) l /\ ltrans now c o x x'.
Proof.
  induction 1 as [|[d0 a] [d1 b] l l' [E T] _ IH]; intros d x' I; [destruct I|].
  cbn [fst snd] in *. subst d1. destruct I as [E|I].
  - inversion E; subst. exists a. split; [left; reflexivity|exact T].
  - destruct (IH _ _ I) as (x & Ix & Tx). exists x. split; [right; exact Ix|exact Tx].
Qed.

Lemma Forall2_lrel_fwd now c o l l' : Forall2 (lrel now c o) l l' ->
  forall d x, In (d, x) l -> exists x', In (d, x') l' /\ ltrans now c o x x'.
Proof.
  induction 1 as [|[d0 a] [d1 b] l l' [E T] _ IH]; intros d x I; [destruct I|].
  cbn [fst snd] in *. subst d1. destruct I as [E|I].
  - inversion E; subst. exists b. split; [left; reflexivity|exact T].
  - destruct (IH _ _ I) as (x' & Ix & Tx). exists x'. split; [right; exact Ix|exact Tx].
Qed.

Lemma ltrans_key now c o x x' : ltrans now c o x x' -> pkey x' = pkey x /\ pmatch x' = pmatch x.
Proof. destruct 1; subst; auto. Qed.

Lemma on_success_inv q node closer q' : on_success q node closer = Some q' ->
  q' = q \/
  (prog q <> Finished /\ prog q' <> Finished /\ static q q' /\
   exists p, m_get (N.lxor node (target q)) (peers q) = Some p /\
     ((exists t, pst p = Waiting t /\ num_waiting q <> 0 /\ num_waiting q' = num_waiting q - 1) \/
      (pst p = Unresponsive /\ num_waiting q' = num_waiting q)) /\
     peers q' = add_all (qkind q) (target q) closer
                  (m_set (N.lxor node (target q))
                         {| pkey := pkey p; preturned := preturned p + N.of_nat (length closer);
                            pmatch := pmatch p; pst := Succeeded |} (peers q))).
Proof.
  unfold on_success. intros H.
  assert (NF : prog q = Finished \/ prog q <> Finished) by (destruct (prog q); auto; right; discriminate).
  destruct NF as [F|NF]; [rewrite F in H; inversion H; subst; auto|].
  set (d := N.lxor node (target q)) in *.
  assert (H' : match m_get d (peers q) with
               | None => Some q
               | Some p =>
                 let continue (nw : N) : option query :=
                   let p' := {| pkey := pkey p; preturned := preturned p + N.of_nat (length closer);
                                pmatch := pmatch p; pst := Succeeded |} in
                   let ps := m_set d p' (peers q) in
                   let num_closest := N.of_nat (length ps) in
                   let '(ps', progress) :=
                     fold_left (incorporate (qkind q) (target q) num_closest (num_results (cfg q))) closer (ps, false) in
                   let pr :=
                     match prog q with
                     | Iterating np =>
                       let np' := if progress then 0 else np + 1 in
                       if parallelism (cfg q) <=? np' then Stalled else Iterating np'
                     | Stalled => if progress then Iterating 0 else Stalled
                     | Finished => Finished
                     end in
                   Some {| qkind := qkind q; target := target q; prog := pr; peers := ps'; num_waiting := nw; cfg := cfg q |} in
                 match pst p with
                 | Waiting _ => if num_waiting q =? 0 then None else continue (num_waiting q - 1)
                 | Unresponsive => continue (num_waiting q)
                 | NotContacted | Failed | Succeeded => Some q
                 end
               end = Some q').
  { destruct (prog q); [exact H|exact H|congruence]. }
  clear H. destruct (m_get d (peers q)) as [p|] eqn:G; [|inversion H'; subst; auto].
  cbn zeta in H'.
  set (p' := {| pkey := pkey p; preturned := preturned p + N.of_nat (length closer);
                pmatch := pmatch p; pst := Succeeded |}) in *.
  pose proof (incorporate_fold (qkind q) (target q) (N.of_nat (length (m_set d p' (peers q))))
                (num_results (cfg q)) closer (m_set d p' (peers q)) false) as FOLD.
  destruct (fold_left _ closer (m_set d p' (peers q), false)) as [ps' pg] eqn:EF.
  cbn [fst] in FOLD.
  assert (PR : forall pr, pr = match prog q with
                     | Iterating np =>
                       let np' := if pg then 0 else np + 1 in
                       if parallelism (cfg q) <=? np' then Stalled else Iterating np'
                     | Stalled => if pg then Iterating 0 else Stalled
                     | Finished => Finished
                     end -> pr <> Finished).
  { intros pr ->. destruct (prog q); [| |congruence].
    - cbn zeta. destruct (parallelism (cfg q) <=? _); discriminate.
    - destruct pg; discriminate. }
  destruct (pst p) eqn:Sp; try (inversion H'; subst; auto; fail).
  - destruct (N.eqb_spec (num_waiting q) 0); [discriminate|].
    inversion H'; subst q'; clear H'. right. cbn [prog peers num_waiting].
    split; [exact NF|]. split; [apply PR; reflexivity|]. split; [repeat split|].
    exists p. split; [reflexivity|]. split; [left; eauto|]. exact FOLD.
  - inversion H'; subst q'; clear H'. right. cbn [prog peers num_waiting].
    split; [exact NF|]. split; [apply PR; reflexivity|]. split; [repeat split|].
    exists p. split; [reflexivity|]. split; [right; auto|]. exact FOLD.
Qed.

Lemma on_failure_inv q node q' : on_failure q node = Some q' ->
  q' = q \/
  (prog q <> Finished /\ prog q' = prog q /\ static q q' /\
   exists p, m_get (N.lxor node (target q)) (peers q) = Some p /\
     ((exists t, pst p = Waiting t /\ num_waiting q <> 0 /\ num_waiting q' = num_waiting q - 1) \/
      (pst p = Unresponsive /\ num_waiting q' = num_waiting q)) /\
     peers q' = m_set (N.lxor node (target q)) (set_st p Failed) (peers q)).
Proof.
  unfold on_failure. intros H.
  assert (NF : prog q = Finished \/ prog q <> Finished) by (destruct (prog q); auto; right; discriminate).
  destruct NF as [F|NF]; [rewrite F in H; inversion H; subst; auto|].
  set (d := N.lxor node (target q)) in *.
  assert (H' : match m_get d (peers q) with
               | None => Some q
               | Some p =>
                 match pst p with
                 | Waiting _ =>
                   if num_waiting q =? 0 then None
                   else Some (set_peers q (m_set d (set_st p Failed) (peers q)) (num_waiting q - 1))
                 | Unresponsive =>
                   match qkind q with
                   | KFindNode => Some (set_peers q (m_set d (set_st p Failed) (peers q)) (num_waiting q))
                   | KPredicate => Some q
                   end
                 | _ => Some q
                 end
               end = Some q').
  { destruct (prog q); [exact H|exact H|congruence]. }
  clear H. destruct (m_get d (peers q)) as [p|] eqn:G; [|inversion H'; subst; auto].
  destruct (pst p) eqn:Sp; try (inversion H'; subst; auto; fail).
  - destruct (N.eqb_spec (num_waiting q) 0); [discriminate|].
    inversion H'; subst q'; clear H'. right. cbn [set_peers prog peers num_waiting].
    split; [exact NF|]. split; [reflexivity|]. split; [repeat split|].
    exists p. split; [reflexivity|]. split; [left; eauto|reflexivity].
  - destruct (qkind q); [|inversion H'; subst; auto].
    inversion H'; subst q'; clear H'. right. cbn [set_peers prog peers num_waiting].
    split; [exact NF|]. split; [reflexivity|]. split; [repeat split|].
    exists p. split; [reflexivity|]. split; [right; auto|reflexivity].
Qed.

(* ------------------------------------------------------------------------------------------ *)
(* one step: invariant, no panic, the fate of every peer entry *)

Lemma cnt_in_pos f l d p : In (d, p) l -> f p = true -> 1 <= cnt f l.
Proof.
  induction l as [|[d0 p0] r IH]; [intros []|]. intros [E|I] Hf; cbn [cnt snd].
  - inversion E; subst. rewrite Hf. lia.
  - specialize (IH I Hf). destruct (f p0); lia.
Qed.

Lemma step_static q e q' o : step q e = Some (q', o) -> static q q'.
Proof.
  destruct e as [now|node closer|node]; cbn [step].
  - destruct (next q now) as [[q1 s]|] eqn:E; [|discriminate]. intros H; inversion H; subst.
    apply next_inv in E as [(_ & -> & _)|(_ & S & _)]; [repeat split|exact S].
  - destruct (on_success q node closer) as [q1|] eqn:E; [|discriminate]. intros H; inversion H; subst.
    apply on_success_inv in E as [->|(_ & _ & S & _)]; [repeat split|exact S].
  - destruct (on_failure q node) as [q1|] eqn:E; [|discriminate]. intros H; inversion H; subst.
    apply on_failure_inv in E as [->|(_ & _ & S & _)]; [repeat split|exact S].
Qed.

Lemma fW_new a b : fW (new_peer a b) = false. Proof. reflexivity. Qed.
Lemma fOK_new k a b : fOK k (new_peer a b) = false. Proof. reflexivity. Qed.

Lemma step_wf q e q' o : wf q -> step q e = Some (q', o) -> wf q'.
Proof.
  intros W H. pose proof (step_static _ _ _ _ H) as (SK & ST & SC).
  destruct e as [now|node closer|node]; cbn [step] in H.
  - destruct (next q now) as [[q1 s]|] eqn:E; [|discriminate]. inversion H; subst; clear H.
    apply next_inv in E as [(_ & -> & _)|(NF & _ & lo & L & _)]; [exact W|].
    apply next_loop_spec in L as (F & C & _). destruct W as [WS WD WC]. constructor.
    + unfold keys_sorted. rewrite <- (Forall2_lrel_keys _ _ _ _ _ F). exact WS.
    + intros d p I. destruct (Forall2_lrel_back _ _ _ _ _ F _ _ I) as (x & Ix & T).
      apply ltrans_key in T as [-> _]. rewrite ST. auto.
    + lia.
  - destruct (on_success q node closer) as [q1|] eqn:E; [|discriminate]. inversion H; subst; clear H.
    apply on_success_inv in E as [->|(NF & _ & _ & p & G & NW & P)]; [exact W|].
    destruct W as [WS WD WC]. pose proof (m_get_in _ _ _ G) as Ip.
    set (d := N.lxor node (target q)) in *.
    set (p' := {| pkey := pkey p; preturned := preturned p + N.of_nat (length closer);
                  pmatch := pmatch p; pst := Succeeded |}) in *.
    constructor; rewrite P.
    + apply add_all_sorted. unfold keys_sorted. rewrite m_set_keys. exact WS.
    + intros d1 x I. rewrite ST. apply add_all_back in I as [I|(r & _ & E)].
      * apply m_set_back in I as [[-> ->]|I]; [apply (WD _ _ Ip)|auto].
      * inversion E; subst. cbn [new_peer pkey]. apply N.lxor_comm.
    + rewrite (add_all_cnt fW); [|apply fW_new].
      pose proof (m_set_cnt fW d p p' (peers q) G) as MC.
      assert (Fp' : fW p' = false) by reflexivity. rewrite Fp' in MC.
      destruct NW as [(t & Sp & N0 & ->)|(Sp & ->)];
        (assert (Fp : fW p = is_waiting (pst p)) by reflexivity); rewrite Sp in Fp; cbn [is_waiting] in Fp;
        rewrite Fp in MC; lia.
  - destruct (on_failure q node) as [q1|] eqn:E; [|discriminate]. inversion H; subst; clear H.
    apply on_failure_inv in E as [->|(NF & _ & _ & p & G & NW & P)]; [exact W|].
    destruct W as [WS WD WC]. pose proof (m_get_in _ _ _ G) as Ip.
    set (d := N.lxor node (target q)) in *.
    constructor; rewrite P.
    + unfold keys_sorted. rewrite m_set_keys. exact WS.
    + intros d1 x I. rewrite ST.
      apply m_set_back in I as [[-> ->]|I]; [apply (WD _ _ Ip)|auto].
    + pose proof (m_set_cnt fW d p (set_st p Failed) (peers q) G) as MC.
      assert (Fp' : fW (set_st p Failed) = false) by reflexivity. rewrite Fp' in MC.
      destruct NW as [(t & Sp & N0 & ->)|(Sp & ->)];
        (assert (Fp : fW p = is_waiting (pst p)) by reflexivity); rewrite Sp in Fp; cbn [is_waiting] in Fp;
        rewrite Fp in MC; lia.
Qed.

Lemma step_no_panic q e : wf q -> step q e <> None.
Proof.
  intros [WS WD WC]. destruct e as [now|node closer|node]; cbn [step].
  - unfold next. destruct (prog q); try discriminate;
      (pose proof (next_loop_no_panic (qkind q) (cfg q) (at_capacity q) now (peers q) (Some 0) (num_waiting q)) as NP;
       destruct (next_loop _ _ _ _ _ _ _) as [[[ps nw] o]|]; [|exfalso; apply NP; [lia|reflexivity]];
       destruct o; try discriminate; destruct (0 <? nw); discriminate).
  - unfold on_success.
    assert (A : forall p, m_get (N.lxor node (target q)) (peers q) = Some p -> forall t, pst p = Waiting t -> num_waiting q <> 0).
    { intros p G t Sp. apply m_get_in in G. pose proof (cnt_in_pos fW _ _ _ G). unfold fW at 1 in H.
      rewrite Sp in H. specialize (H eq_refl). lia. }
    destruct (prog q); try discriminate;
      (destruct (m_get _ (peers q)) as [p|]; [|discriminate]; specialize (A p eq_refl);
       destruct (pst p); try discriminate;
       [destruct (N.eqb_spec (num_waiting q) 0); [exfalso; eapply A; eauto|]|];
       cbn zeta; destruct (fold_left _ _ _); discriminate).
  - unfold on_failure.
    assert (A : forall p, m_get (N.lxor node (target q)) (peers q) = Some p -> forall t, pst p = Waiting t -> num_waiting q <> 0).
    { intros p G t Sp. apply m_get_in in G. pose proof (cnt_in_pos fW _ _ _ G). unfold fW at 1 in H.
      rewrite Sp in H. specialize (H eq_refl). lia. }
    destruct (prog q); try discriminate;
      (destruct (m_get _ (peers q)) as [p|]; [|discriminate]; specialize (A p eq_refl);
       destruct (pst p); try discriminate;
       [destruct (N.eqb_spec (num_waiting q) 0); [exfalso; eapply A; eauto|discriminate]
       |destruct (qkind q); discriminate]).
Qed.

(* what a call does to one peer entry *)
Inductive trans (e : event) (o : out) (x x' : qpeer) : Prop :=
| tr_same : pst x' = pst x -> trans e o x x'
| tr_emit t : pst x = NotContacted -> pst x' = Waiting t -> o = ONext (SWaiting (Some (pkey x))) -> trans e o x x'
| tr_timeout t : pst x = Waiting t -> pst x' = Unresponsive -> trans e o x x'
| tr_fail : pst x <> NotContacted -> pst x' = Failed -> trans e o x x'
| tr_succ c : pst x <> NotContacted -> pst x' = Succeeded -> e = ESuccess (pkey x) c -> trans e o x x'.

Definition same_id (x x' : qpeer) : Prop := pkey x' = pkey x /\ pmatch x' = pmatch x.

Lemma ltrans_trans now c lo s x x' :
  ltrans now c lo x x' -> (forall p, lo = LEmit p -> s = SWaiting (Some p)) ->
  same_id x x' /\ trans (ENext now) (ONext s) x x'.
Proof.
  intros T HS. destruct T as [->|Sx -> E|t Sx Lt ->].
  - split; [split; reflexivity|apply tr_same; reflexivity].
  - split; [split; reflexivity|]. eapply tr_emit; [exact Sx|reflexivity|]. rewrite (HS _ E). reflexivity.
  - split; [split; reflexivity|]. eapply tr_timeout; [exact Sx|reflexivity].
Qed.

Lemma next_inv_emit q q' s lo :
  match lo with
  | LEmit p => s = SWaiting (Some p) /\ prog q' = prog q
  | LAtCapacity => s = SWaitingAtCapacity /\ prog q' = prog q
  | LFinished => s = SFinished /\ prog q' = Finished
  | LEnd => (0 < num_waiting q' /\ s = SWaiting None /\ prog q' = prog q) \/
            (num_waiting q' = 0 /\ s = SFinished /\ prog q' = Finished)
  end ->
  (forall p, lo = LEmit p -> s = SWaiting (Some p)) /\ (forall p, s = SWaiting (Some p) -> lo = LEmit p).
Proof.
  destruct lo; intros H; split; intros p E; try discriminate.
  - inversion E; subst; tauto.
  - destruct H as [-> _]. inversion E; reflexivity.
  - destruct H as [-> _]; discriminate.
  - destruct H as [-> _]; discriminate.
  - destruct H as [(_ & -> & _)|(_ & -> & _)]; discriminate.
Qed.

Lemma step_back q e q' o : wf q -> step q e = Some (q', o) ->
  forall d x', In (d, x') (peers q') ->
    (exists x, In (d, x) (peers q) /\ same_id x x' /\ trans e o x x') \/
    (pst x' = NotContacted /\ exists node c f, e = ESuccess node c /\ In (pkey x', f) c /\
                                               pmatch x' = flag_of (qkind q) f).
Proof.
  intros W H d x' I. destruct e as [now|node closer|node]; cbn [step] in H.
  - destruct (next q now) as [[q1 s]|] eqn:E; [|discriminate]. inversion H; subst; clear H. left.
    apply next_inv in E as [(_ & -> & _)|(NF & _ & lo & L & M)].
    + exists x'. split; [exact I|]. split; [split; reflexivity|apply tr_same; reflexivity].
    + apply next_loop_spec in L as (F & _ & _).
      destruct (Forall2_lrel_back _ _ _ _ _ F _ _ I) as (x & Ix & T).
      exists x. split; [exact Ix|]. eapply ltrans_trans; [exact T|]. apply (next_inv_emit _ _ _ _ M).
  - destruct (on_success q node closer) as [q1|] eqn:E; [|discriminate]. inversion H; subst; clear H.
    apply on_success_inv in E as [->|(NF & _ & _ & p & G & NW & P)].
    + left. exists x'. split; [exact I|]. split; [split; reflexivity|apply tr_same; reflexivity].
    + rewrite P in I. apply add_all_back in I as [I|(r & Ir & E)].
      * left. apply m_set_back in I as [[-> ->]|I].
        -- exists p. split; [eapply m_get_in; eauto|]. split; [split; reflexivity|].
           pose proof (m_get_in _ _ _ G) as Ip. apply (wf_dist _ W) in Ip.
           apply lxor_inj in Ip. subst node.
           eapply tr_succ; [|reflexivity|reflexivity].
           destruct NW as [(t & -> & _)|(-> & _)]; discriminate.
        -- exists x'. split; [exact I|]. split; [split; reflexivity|apply tr_same; reflexivity].
      * right. inversion E; subst. cbn [new_peer pst pkey pmatch]. split; [reflexivity|].
        exists node, closer, (snd r). split; [reflexivity|]. split; [|reflexivity].
        destruct r; exact Ir.
  - destruct (on_failure q node) as [q1|] eqn:E; [|discriminate]. inversion H; subst; clear H. left.
    apply on_failure_inv in E as [->|(NF & _ & _ & p & G & NW & P)].
    + exists x'. split; [exact I|]. split; [split; reflexivity|apply tr_same; reflexivity].
    + rewrite P in I. apply m_set_back in I as [[-> ->]|I].
      * exists p. split; [eapply m_get_in; eauto|]. split; [split; reflexivity|].
        apply tr_fail; [|reflexivity]. destruct NW as [(t & -> & _)|(-> & _)]; discriminate.
      * exists x'. split; [exact I|]. split; [split; reflexivity|apply tr_same; reflexivity].
Qed.

Lemma step_fwd q e q' o : wf q -> step q e = Some (q', o) ->
  forall d x, In (d, x) (peers q) -> exists x', In (d, x') (peers q') /\ same_id x x' /\ trans e o x x'.
Proof.
  intros W H d x I. destruct e as [now|node closer|node]; cbn [step] in H.
  - destruct (next q now) as [[q1 s]|] eqn:E; [|discriminate]. inversion H; subst; clear H.
    apply next_inv in E as [(_ & -> & _)|(NF & _ & lo & L & M)].
    + exists x. split; [exact I|]. split; [split; reflexivity|apply tr_same; reflexivity].
    + apply next_loop_spec in L as (F & _ & _).
      destruct (Forall2_lrel_fwd _ _ _ _ _ F _ _ I) as (x' & Ix & T).
      exists x'. split; [exact Ix|]. eapply ltrans_trans; [exact T|]. apply (next_inv_emit _ _ _ _ M).
  - destruct (on_success q node closer) as [q1|] eqn:E; [|discriminate]. inversion H; subst; clear H.
    apply on_success_inv in E as [->|(NF & _ & _ & p & G & NW & P)].
    + exists x. split; [exact I|]. split; [split; reflexivity|apply tr_same; reflexivity].
    + rewrite P.
      destruct (m_set_fwd _ _ {| pkey := pkey p; preturned := preturned p + N.of_nat (length closer);
                                 pmatch := pmatch p; pst := Succeeded |} _ _ _ (wf_sorted _ W) G I)
        as [(-> & -> & I')|(ne & I')].
      * eexists. split; [apply add_all_fwd; exact I'|]. split; [split; reflexivity|].
        pose proof (m_get_in _ _ _ G) as Ip. apply (wf_dist _ W) in Ip.
        apply lxor_inj in Ip. subst node.
        eapply tr_succ; [|reflexivity|reflexivity].
        destruct NW as [(t & -> & _)|(-> & _)]; discriminate.
      * exists x. split; [apply add_all_fwd; exact I'|]. split; [split; reflexivity|apply tr_same; reflexivity].
  - destruct (on_failure q node) as [q1|] eqn:E; [|discriminate]. inversion H; subst; clear H.
    apply on_failure_inv in E as [->|(NF & _ & _ & p & G & NW & P)].
    + exists x. split; [exact I|]. split; [split; reflexivity|apply tr_same; reflexivity].
    + rewrite P.
      destruct (m_set_fwd _ _ (set_st p Failed) _ _ _ (wf_sorted _ W) G I) as [(-> & -> & I')|(ne & I')].
      * eexists. split; [exact I'|]. split; [split; reflexivity|].
        apply tr_fail; [|reflexivity]. destruct NW as [(t & -> & _)|(-> & _)]; discriminate.
      * exists x. split; [exact I'|]. split; [split; reflexivity|apply tr_same; reflexivity].
Qed.

(* next hands out a peer: it was NotContacted and no longer is; the query was not at capacity *)
Lemma next_emit q now q' p : next q now = Some (q', SWaiting (Some p)) ->
  prog q <> Finished /\ prog q' = prog q /\ at_capacity q = false /\ cnt fNC (peers q') + 1 = cnt fNC (peers q) /\
  exists d x x', In (d, x) (peers q) /\ In (d, x') (peers q') /\ pkey x = p /\ pkey x' = p /\
                 pst x = NotContacted /\ pst x' <> NotContacted.
Proof.
  intros E. apply next_inv in E as [(_ & _ & D)|(NF & _ & lo & L & M)]; [discriminate|].
  split; [exact NF|].
  pose proof (proj2 (next_inv_emit _ _ _ _ M) p eq_refl). subst lo.
  split; [exact (proj2 M)|].
  apply next_loop_spec in L as (_ & _ & P). cbn [loop_post] in P.
  destruct P as (AC & B & d & x & I & Sx & Kx & I'). split; [exact AC|]. split; [exact B|].
  exists d, x, (set_st x (Waiting (now + peer_timeout (cfg q)))). repeat split; auto. discriminate.
Qed.

(* next does not hand out a peer: the number of NotContacted peers is unchanged *)
Lemma next_no_emit q now q' s : next q now = Some (q', s) -> (forall p, s <> SWaiting (Some p)) ->
  cnt fNC (peers q') = cnt fNC (peers q).
Proof.
  intros E NS. apply next_inv in E as [(_ & -> & _)|(NF & _ & lo & L & M)]; [reflexivity|].
  apply next_loop_spec in L as (_ & _ & P). destruct lo; cbn [loop_post] in P.
  - destruct M as [-> _]. exfalso; eapply NS; reflexivity.
  - tauto.
  - tauto.
  - tauto.
Qed.

(* capacity *)
Lemma capacity_lemma q now q' p : next q now = Some (q', SWaiting (Some p)) ->
  match prog q with
  | Iterating _ => num_waiting q < parallelism (cfg q)
  | Stalled => num_waiting q < num_results (cfg q)
  | Finished => False
  end.
Proof.
  intros E. apply next_emit in E as (NF & _ & AC & _). unfold at_capacity in AC.
  destruct (prog q); [apply N.leb_gt in AC; lia|apply N.leb_gt in AC; lia|congruence].
Qed.

Lemma on_failure_budget q node q' : on_failure q node = Some q' -> cnt fNC (peers q') = cnt fNC (peers q).
Proof.
  intros E. apply on_failure_inv in E as [->|(NF & _ & _ & p & G & NW & P)]; [reflexivity|].
  rewrite P. pose proof (m_set_cnt fNC _ p (set_st p Failed) (peers q) G) as MC.
  assert (Fp' : fNC (set_st p Failed) = false) by reflexivity. rewrite Fp' in MC.
  destruct NW as [(t & Sp & _)|(Sp & _)];
    (assert (Fp : fNC p = is_nc (pst p)) by reflexivity); rewrite Sp in Fp; cbn [is_nc] in Fp;
    rewrite Fp in MC; lia.
Qed.

Lemma on_success_budget q node closer q' : on_success q node closer = Some q' ->
  cnt fNC (peers q') <= cnt fNC (peers q) + N.of_nat (length closer).
Proof.
  intros E. apply on_success_inv in E as [->|(NF & _ & _ & p & G & NW & P)]; [lia|].
  rewrite P. etransitivity; [apply add_all_cnt_le|].
  match goal with |- cnt fNC (m_set ?d ?p' _) + _ <= _ =>
    pose proof (m_set_cnt fNC d p p' (peers q) G) as MC;
    assert (Fp' : fNC p' = false) by reflexivity; rewrite Fp' in MC end.
  destruct NW as [(t & Sp & _)|(Sp & _)];
    (assert (Fp : fNC p = is_nc (pst p)) by reflexivity); rewrite Sp in Fp; cbn [is_nc] in Fp;
    rewrite Fp in MC; lia.
Qed.

(* a finished query has enough results or has contacted every peer it holds *)
Definition fin_inv (q : query) : Prop :=
  prog q = Finished ->
  num_results (cfg q) <= cnt (fOK (qkind q)) (peers q) \/ cnt fNC (peers q) = 0.

Lemma lrel_cnt_ok k now c o l l' : Forall2 (lrel now c o) l l' -> cnt (fOK k) l' = cnt (fOK k) l.
Proof.
  induction 1 as [|[d a] [d' b] l l' [_ T] _ IH]; [reflexivity|]. cbn [cnt snd] in *. rewrite IH. f_equal.
  destruct T as [->|Sx -> _|t Sx _ ->]; [reflexivity| |]; unfold fOK; cbn [set_st pst]; rewrite Sx; reflexivity.
Qed.

Lemma step_fin q e q' o : step q e = Some (q', o) -> fin_inv q -> fin_inv q'.
Proof.
  intros H FI. pose proof (step_static _ _ _ _ H) as (SK & ST & SC).
  destruct e as [now|node closer|node]; cbn [step] in H.
  - destruct (next q now) as [[q1 s]|] eqn:E; [|discriminate]. inversion H; subst; clear H.
    apply next_inv in E as [(_ & -> & _)|(NF & _ & lo & L & M)]; [exact FI|].
    apply next_loop_spec in L as (F & _ & P). intros Fin. rewrite SK, SC.
    destruct lo; cbn [loop_post] in P.
    + destruct M as [_ M]; congruence.
    + destruct M as [_ M]; congruence.
    + left. destruct P as (_ & c0 & R & L). inversion R; subst. rewrite (lrel_cnt_ok _ _ _ _ _ _ F). lia.
    + right. lia.
  - destruct (on_success q node closer) as [q1|] eqn:E; [|discriminate]. inversion H; subst; clear H.
    apply on_success_inv in E as [->|(_ & NF & _)]; [exact FI|]. intros Fin; congruence.
  - destruct (on_failure q node) as [q1|] eqn:E; [|discriminate]. inversion H; subst; clear H.
    apply on_failure_inv in E as [->|(NF & Pr & _)]; [exact FI|]. intros Fin; congruence.
Qed.

(* ------------------------------------------------------------------------------------------ *)
(* runs *)

Lemma run_app a b q :
  run (a ++ b) q =
  match run a q with
  | Some (q1, o1) => match run b q1 with Some (q2, o2) => Some (q2, o1 ++ o2) | None => None end
  | None => None
  end.
Proof.
  revert q. induction a as [|e a IH]; intros q; cbn [app run].
  - destruct (run b q) as [[q2 o2]|]; reflexivity.
  - destruct (step q e) as [[q' o]|]; [|reflexivity]. rewrite IH.
    destruct (run a q') as [[q1 o1]|]; [|reflexivity].
    destruct (run b q1) as [[q2 o2]|]; reflexivity.
Qed.

Lemma run_snoc_inv evs e q0 q os : run (evs ++ [e]) q0 = Some (q, os) ->
  exists q1 os1 o, run evs q0 = Some (q1, os1) /\ step q1 e = Some (q, o) /\ os = os1 ++ [o].
Proof.
  rewrite run_app. destruct (run evs q0) as [[q1 os1]|]; [|discriminate]. cbn [run].
  destruct (step q1 e) as [[q2 o]|] eqn:S; [|discriminate]. intros H; inversion H; subst.
  exists q1, os1, o. auto.
Qed.

Lemma run_cons_inv e evs q0 q os : run (e :: evs) q0 = Some (q, os) ->
  exists q1 o os1, step q0 e = Some (q1, o) /\ run evs q1 = Some (q, os1) /\ os = o :: os1.
Proof.
  cbn [run]. destruct (step q0 e) as [[q1 o]|] eqn:S; [|discriminate].
  destruct (run evs q1) as [[q2 os1]|] eqn:R; [|discriminate]. intros H; inversion H; subst.
  exists q1, o, os1. auto.
Qed.

Lemma emitted_app a b : emitted (a ++ b) = emitted a ++ emitted b.
Proof.
  induction a as [|o a IH]; [reflexivity|]. cbn [app emitted].
  destruct o as [[[p|]| |]|]; cbn [app]; rewrite ?IH; reflexivity.
Qed.

Lemma reported_app a b : reported (a ++ b) = reported a ++ reported b.
Proof.
  induction a as [|e a IH]; [reflexivity|]. cbn [app reported].
  destruct e; rewrite ?IH, ?app_assoc; reflexivity.
Qed.

Lemma run_wf evs : forall q0 q os, wf q0 -> run evs q0 = Some (q, os) -> wf q.
Proof.
  induction evs as [|e evs IH]; intros q0 q os W H.
  - inversion H; subst; exact W.
  - apply run_cons_inv in H as (q1 & o & os1 & S & R & _). eapply IH; [|exact R]. eapply step_wf; eauto.
Qed.

Lemma run_no_panic evs : forall q0, wf q0 -> run evs q0 <> None.
Proof.
  induction evs as [|e evs IH]; intros q0 W; cbn [run]; [discriminate|].
  pose proof (step_no_panic q0 e W). destruct (step q0 e) as [[q1 o]|] eqn:S; [|congruence].
  specialize (IH q1 (step_wf _ _ _ _ W S)). destruct (run evs q1) as [[? ?]|]; congruence.
Qed.

Lemma run_static evs : forall q0 q os, run evs q0 = Some (q, os) -> static q0 q.
Proof.
  induction evs as [|e evs IH]; intros q0 q os H.
  - inversion H; subst; repeat split.
  - apply run_cons_inv in H as (q1 & o & os1 & S & R & _).
    apply step_static in S as (A & B & C). apply IH in R as (A' & B' & C').
    repeat split; congruence.
Qed.

Lemma run_fin evs : forall q0 q os, fin_inv q0 -> run evs q0 = Some (q, os) -> fin_inv q.
Proof.
  induction evs as [|e evs IH]; intros q0 q os W H.
  - inversion H; subst; exact W.
  - apply run_cons_inv in H as (q1 & o & os1 & S & R & _). eapply IH; [|exact R]. eapply step_fin; eauto.
Qed.

(* ------------------------------------------------------------------------------------------ *)
(* the initial state *)

Definition init_fold (k : kind) (t : N) (l : list (N * bool)) (m : list (N * qpeer)) : list (N * qpeer) :=
  fold_left (fun m kf => m_insert (N.lxor (fst kf) t) (new_peer (fst kf) (flag_of k (snd kf))) m) l m.

Lemma init_fold_sorted k t l : forall m, keys_sorted m -> keys_sorted (init_fold k t l m).
Proof.
  induction l as [|r l IH]; intros m S; [exact S|]. cbn [init_fold fold_left]. apply IH.
  apply m_insert_sorted; exact S.
Qed.

Lemma init_fold_back k t l : forall m x, In x (init_fold k t l m) ->
  In x m \/ exists r, In r l /\ x = (N.lxor (fst r) t, new_peer (fst r) (flag_of k (snd r))).
Proof.
  induction l as [|r l IH]; intros m x I; [left; exact I|].
  cbn [init_fold fold_left] in I. apply IH in I as [I|(r' & I' & E)].
  - apply m_insert_back in I as [E|I]; [right; exists r; split; [left; reflexivity|exact E]|left; exact I].
  - right; exists r'; split; [right; exact I'|exact E].
Qed.

(* what the run theorems need to know about the initial state: [init] are the candidates *)
Record init_ok (q0 : query) (init : list (N * bool)) : Prop := {
  io_wf : wf q0;
  io_nc : forall d x, In (d, x) (peers q0) -> pst x = NotContacted;
  io_key : forall d x, In (d, x) (peers q0) -> In (pkey x) (map fst init);
  io_flag : qkind q0 = KPredicate -> forall d x, In (d, x) (peers q0) -> pmatch x = true -> In (pkey x, true) init;
  io_prog : prog q0 <> Finished /\ prog q0 <> Stalled
}.

Lemma with_config_init k c t known :
  init_ok (with_config k c t known) (firstn (N.to_nat (num_results c)) known).
Proof.
  set (init := firstn (N.to_nat (num_results c)) known).
  assert (B : forall d x, In (d, x) (peers (with_config k c t known)) ->
              exists r, In r init /\ d = N.lxor (fst r) t /\ x = new_peer (fst r) (flag_of k (snd r))).
  { intros d x I. apply init_fold_back in I as [[]|(r & Ir & E)]. inversion E; subst. eauto. }
  constructor.
  - constructor.
    + apply init_fold_sorted. constructor.
    + intros d x I. apply B in I as (r & _ & -> & ->). reflexivity.
    + cbn [with_config num_waiting]. symmetry. apply cnt_zero_forall. intros d x I.
      apply B in I as (r & _ & _ & ->). reflexivity.
  - intros d x I. apply B in I as (r & _ & _ & ->). reflexivity.
  - intros d x I. apply B in I as (r & Ir & _ & ->). cbn [new_peer pkey]. apply in_map; exact Ir.
  - intros K d x I PM. apply B in I as (r & Ir & _ & ->). cbn [with_config qkind] in K. subst k.
    cbn [new_peer pkey pmatch flag_of] in *. destruct r as [a b]; cbn [fst snd] in *. subst b. exact Ir.
  - cbn [with_config prog]. split; discriminate.
Qed.

(* ------------------------------------------------------------------------------------------ *)
(* the invariant of a run: where peers come from, who was contacted, who answered *)

Record hinv (q0 : query) (init : list (N * bool)) (evs : list event) (os : list out) (q : query) : Prop := {
  h_key : forall d x, In (d, x) (peers q) -> In (pkey x) (map fst init) \/ In (pkey x) (map fst (reported evs));
  h_contacted : forall d x, In (d, x) (peers q) -> pst x <> NotContacted -> In (pkey x) (emitted os);
  h_emitted : forall p, In p (emitted os) -> exists d x, In (d, x) (peers q) /\ pkey x = p /\ pst x <> NotContacted;
  h_nodup : NoDup (emitted os);
  h_succ : forall d x, In (d, x) (peers q) -> pst x = Succeeded ->
           exists evs1 c evs2 q1 os1, evs = evs1 ++ ESuccess (pkey x) c :: evs2 /\
                                      run evs1 q0 = Some (q1, os1) /\ In (pkey x) (emitted os1);
  h_flag : qkind q0 = KPredicate -> forall d x, In (d, x) (peers q) -> pmatch x = true ->
           In (pkey x, true) init \/ In (pkey x, true) (reported evs)
}.

Lemma NoDup_snoc {A} (l : list A) a : NoDup l -> ~ In a l -> NoDup (l ++ [a]).
Proof.
  induction 1 as [|b l Nb _ IH]; intros NI; cbn [app]; [constructor; [intros []|constructor]|].
  constructor.
  - intros I. apply in_app_or in I as [I|[E|[]]]; [auto|]. subst. apply NI. left; reflexivity.
  - apply IH. intros I. apply NI. right; exact I.
Qed.

Lemma trans_nc e o x x' : trans e o x x' -> pst x <> NotContacted -> pst x' <> NotContacted.
Proof. destruct 1 as [E|t A B _|t A B|A B|c A B _]; intros N; congruence. Qed.

Lemma run_hinv q0 init : init_ok q0 init ->
  forall evs q os, run evs q0 = Some (q, os) -> hinv q0 init evs os q.
Proof.
  intros IO evs. induction evs as [|e evs IH] using rev_ind; intros q os R.
  - inversion R; subst. constructor.
    + intros d x I. left. eapply io_key; eauto.
    + intros d x I N. exfalso; apply N. eapply io_nc; eauto.
    + intros p [].
    + constructor.
    + intros d x I S. rewrite (io_nc _ _ IO _ _ I) in S. discriminate.
    + intros K d x I PM. left. eapply io_flag; eauto.
  - apply run_snoc_inv in R as (q1 & os1 & o & R1 & S & ->).
    specialize (IH _ _ R1). pose proof (run_wf _ _ _ _ (io_wf _ _ IO) R1) as W1.
    pose proof (run_static _ _ _ _ R1) as (K1 & _ & _).
    destruct IH as [HK HC HE HN HS HF].
    assert (EM : emitted (os1 ++ [o]) = emitted os1 ++ emitted [o]) by apply emitted_app.
    constructor.
    + (* origin of the keys *)
      intros d x' I. rewrite reported_app, map_app.
      destruct (step_back _ _ _ _ W1 S _ _ I) as [(x & Ix & [Kx _] & _)|(_ & node & c & f & -> & Ic & _)].
      * rewrite Kx. destruct (HK _ _ Ix); [left; auto|right; apply in_or_app; left; auto].
      * right. apply in_or_app. right. cbn [reported]. rewrite app_nil_r.
        apply in_map_iff. exists (pkey x', f). auto.
    + (* contacted peers were handed out by next *)
      intros d x' I N. rewrite EM. apply in_or_app.
      destruct (step_back _ _ _ _ W1 S _ _ I) as [(x & Ix & [Kx _] & T)|(NC & _)]; [|congruence].
      rewrite Kx. destruct T as [E|t A B ->|t A B|A B|c A B _].
      * left. apply (HC _ _ Ix). congruence.
      * right. left. reflexivity.
      * left. apply (HC _ _ Ix). congruence.
      * left. apply (HC _ _ Ix). exact A.
      * left. apply (HC _ _ Ix). exact A.
    + (* peers handed out are no longer NotContacted *)
      intros p I. rewrite EM in I. apply in_app_or in I as [I|I].
      * destruct (HE _ I) as (d & x & Ix & Kx & N).
        destruct (step_fwd _ _ _ _ W1 S _ _ Ix) as (x' & Ix' & [Kx' _] & T).
        exists d, x'. split; [exact Ix'|]. split; [congruence|]. eapply trans_nc; eauto.
      * destruct o as [[[p'|]| |]|]; cbn [emitted] in I; try destruct I as [<-|[]]; try destruct I.
        destruct e as [now| |]; cbn [step] in S.
        -- destruct (next q1 now) as [[q2 s]|] eqn:E; [|discriminate]. inversion S; subst.
           apply next_emit in E as (_ & _ & _ & _ & d & x & x' & _ & Ix' & _ & Kx' & _ & N). eauto.
        -- destruct (on_success q1 peer closer); inversion S.
        -- destruct (on_failure q1 peer); inversion S.
    + (* nobody is handed out twice *)
      rewrite EM. destruct o as [[[p|]| |]|]; cbn [emitted]; rewrite ?app_nil_r; try exact HN.
      apply NoDup_snoc; [exact HN|]. intros I.
      destruct e as [now| |]; cbn [step] in S.
      * destruct (next q1 now) as [[q2 s]|] eqn:E; [|discriminate]. inversion S; subst.
        apply next_emit in E as (_ & _ & _ & _ & d & x & x' & Ix & _ & Kx & _ & NCx & _).
        destruct (HE _ I) as (d2 & x2 & Ix2 & Kx2 & N2).
        pose proof (wf_dist _ W1 _ _ Ix) as D1. pose proof (wf_dist _ W1 _ _ Ix2) as D2.
        rewrite Kx in D1. rewrite Kx2 in D2. subst d d2.
        pose proof (sorted_unique _ _ _ _ (wf_sorted _ W1) Ix Ix2). subst x2. congruence.
      * destruct (on_success q1 peer closer); inversion S.
      * destruct (on_failure q1 peer); inversion S.
    + (* Succeeded is reached by a success delivered after the peer was handed out *)
      intros d x' I Sx'.
      destruct (step_back _ _ _ _ W1 S _ _ I) as [(x & Ix & [Kx _] & T)|(NC & _)]; [|congruence].
      rewrite Kx. destruct T as [E|t A B _|t A B|A B|c A B ->]; try congruence.
      * rewrite Sx' in E. symmetry in E.
        destruct (HS _ _ Ix E) as (evs1 & c & evs2 & q2 & os2 & -> & R2 & I2).
        exists evs1, c, (evs2 ++ [e]), q2, os2. split; [|auto]. rewrite <- app_assoc. reflexivity.
      * exists evs, c, [], q1, os1. split; [reflexivity|]. split; [exact R1|]. apply (HC _ _ Ix A).
    + (* predicate flags come from the candidates and the reports *)
      intros K d x' I PM. rewrite reported_app.
      destruct (step_back _ _ _ _ W1 S _ _ I) as [(x & Ix & [Kx Mx] & _)|(_ & node & c & f & -> & Ic & Fl)].
      * rewrite Kx. rewrite Mx in PM. destruct (HF K _ _ Ix PM); [left; auto|right; apply in_or_app; left; auto].
      * right. apply in_or_app. right. cbn [reported]. rewrite app_nil_r.
        rewrite K1, K in Fl. cbn [flag_of] in Fl. rewrite PM in Fl. subst f. exact Ic.
Qed.

(* ------------------------------------------------------------------------------------------ *)
(* the bound on the requests in flight *)

Lemma lrel_cnt_sum now c o l l' : Forall2 (lrel now c o) l l' ->
  cnt fW l' + cnt fNC l' <= cnt fW l + cnt fNC l.
Proof.
  induction 1 as [|[d a] [d' b] l l' [_ T] _ IH]; [reflexivity|]. cbn [cnt snd] in *.
  assert (A : (if fW b then 1 else 0) + (if fNC b then 1 else 0) <= (if fW a then 1 else 0) + (if fNC a then 1 else 0)).
  { destruct T as [->|Sx -> _|t Sx _ ->]; [lia| |]; unfold fW, fNC; cbn [set_st pst]; rewrite Sx; cbn; lia. }
  lia.
Qed.

Lemma step_bound q e q' o (B : Prop) : wf q -> step q e = Some (q', o) ->
  num_waiting q <= parallelism (cfg q) \/ (B /\ num_waiting q <= num_results (cfg q)) ->
  num_waiting q' <= parallelism (cfg q) \/ ((B \/ is_stalled q = true) /\ num_waiting q' <= num_results (cfg q)).
Proof.
  intros W H HB.
  assert (MONO : num_waiting q' <= num_waiting q ->
          num_waiting q' <= parallelism (cfg q) \/ ((B \/ is_stalled q = true) /\ num_waiting q' <= num_results (cfg q))).
  { intros L. destruct HB as [HB|[HB1 HB2]]; [left; lia|right; split; [auto|lia]]. }
  destruct e as [now|node closer|node]; cbn [step] in H.
  - destruct (next q now) as [[q1 s]|] eqn:E; [|discriminate]. inversion H; subst; clear H.
    pose proof E as E0.
    apply next_inv in E as [(_ & -> & _)|(NF & _ & lo & L & M)]; [apply MONO; lia|].
    apply next_loop_spec in L as (F & C & P). pose proof (lrel_cnt_sum _ _ _ _ _ F) as SUM.
    pose proof (wf_count _ W) as WC.
    destruct lo; cbn [loop_post] in P; try (apply MONO; lia).
    destruct M as [-> _]. pose proof (capacity_lemma _ _ _ _ E0) as CAP.
    destruct P as (_ & NC & _). unfold is_stalled.
    destruct (prog q); [left; lia|right; split; [auto|lia]|contradiction].
  - destruct (on_success q node closer) as [q1|] eqn:E; [|discriminate]. inversion H; subst; clear H.
    apply on_success_inv in E as [->|(_ & _ & _ & p & _ & NW & _)]; [apply MONO; lia|].
    apply MONO. destruct NW as [(t & _ & _ & ->)|(_ & ->)]; lia.
  - destruct (on_failure q node) as [q1|] eqn:E; [|discriminate]. inversion H; subst; clear H.
    apply on_failure_inv in E as [->|(_ & _ & _ & p & _ & NW & _)]; [apply MONO; lia|].
    apply MONO. destruct NW as [(t & _ & _ & ->)|(_ & ->)]; lia.
Qed.

Lemma run_bound evs : forall q0 q os (b : bool), wf q0 ->
  num_waiting q0 <= parallelism (cfg q0) \/ (b = true /\ num_waiting q0 <= num_results (cfg q0)) ->
  run evs q0 = Some (q, os) ->
  num_waiting q <= parallelism (cfg q0) \/
  ((b || ever_stalled evs q0) = true /\ num_waiting q <= num_results (cfg q0)).
Proof.
  induction evs as [|e evs IH]; intros q0 q os b W HB R.
  - inversion R; subst. destruct HB as [HB|[-> HB]]; [left; exact HB|right; split; [reflexivity|exact HB]].
  - apply run_cons_inv in R as (q1 & o & os1 & S & R & _).
    pose proof (step_static _ _ _ _ S) as (_ & _ & SC).
    pose proof (step_bound _ _ _ _ (b = true) W S HB) as HB1.
    assert (HB1' : num_waiting q1 <= parallelism (cfg q1) \/
                   ((b || is_stalled q0) = true /\ num_waiting q1 <= num_results (cfg q1))).
    { rewrite SC. destruct HB1 as [HB1|[HB1 HB2]]; [left; exact HB1|right; split; [|exact HB2]].
      destruct HB1 as [-> | ->]; [reflexivity|apply orb_true_r]. }
    pose proof (IH q1 q os1 _ (step_wf _ _ _ _ W S) HB1' R) as IH'. rewrite SC in IH'.
    cbn [ever_stalled]. rewrite S. rewrite <- orb_assoc in IH'. exact IH'.
Qed.

(* ------------------------------------------------------------------------------------------ *)
(* the result *)

Lemma In_firstn {A} n (l : list A) x : In x (firstn n l) -> In x l.
Proof.
  revert l; induction n as [|n IH]; intros [|a l]; cbn [firstn]; try (intros []; fail).
  intros [E|I]; [left; exact E|right; auto].
Qed.

Lemma SS_firstn {A} (R : A -> A -> Prop) n l : StronglySorted R l -> StronglySorted R (firstn n l).
Proof.
  revert l; induction n as [|n IH]; intros [|a l] S; cbn [firstn]; try constructor.
  - apply IH. apply StronglySorted_inv in S; tauto.
  - apply StronglySorted_inv in S as [_ F]. rewrite Forall_forall in *. intros y I. apply F.
    eapply In_firstn; eauto.
Qed.

Lemma SS_map_inv {A B} (R : B -> B -> Prop) (f : A -> B) l :
  StronglySorted R (map f l) -> StronglySorted (fun x y => R (f x) (f y)) l.
Proof.
  induction l as [|a l IH]; cbn [map]; intros S; constructor.
  - apply IH. apply StronglySorted_inv in S; tauto.
  - apply StronglySorted_inv in S as [_ F]. rewrite Forall_forall in *. intros y I. apply F.
    apply in_map; exact I.
Qed.

Definition ok_entry (k : kind) (dp : N * qpeer) : bool := is_succeeded (pst (snd dp)) && pm k (snd dp).
Definition closer_to (t a b : N) : Prop := N.lxor a t < N.lxor b t.

Lemma into_result_in q p : In p (into_result q) ->
  exists d x, In (d, x) (peers q) /\ pkey x = p /\ pst x = Succeeded /\ pm (qkind q) x = true.
Proof.
  unfold into_result. intros I. apply In_firstn in I. apply in_map_iff in I as ([d x] & <- & I).
  apply filter_In in I as [I F]. cbn [snd] in F. apply andb_prop in F as [F1 F2].
  exists d, x. repeat split; auto. destruct (pst x); try discriminate; reflexivity.
Qed.

Lemma into_result_length q : (length (into_result q) <= N.to_nat (num_results (cfg q)))%nat.
Proof. unfold into_result. apply firstn_le_length. Qed.

Lemma into_result_sorted q : wf q -> StronglySorted (closer_to (target q)) (into_result q).
Proof.
  intros [WS WD _]. unfold into_result. apply SS_firstn. apply SS_map.
  eapply SS_impl_in; [|apply SS_filter; apply (SS_map_inv N.lt fst); exact WS].
  intros [d1 x1] [d2 x2] I1 I2 L. apply filter_In in I1 as [I1 _]. apply filter_In in I2 as [I2 _].
  cbn [fst snd] in *. unfold closer_to. rewrite <- (WD _ _ I1), <- (WD _ _ I2). exact L.
Qed.

Lemma into_result_nodup q : wf q -> NoDup (into_result q).
Proof.
  intros W. eapply SS_NoDup; [|apply into_result_sorted; exact W].
  intros x. unfold closer_to. lia.
Qed.

Lemma cnt_filter_length k l :
  cnt (fOK k) l = N.of_nat (length (filter (fun dp => is_succeeded (pst (snd dp)) && pm k (snd dp)) l)).
Proof.
  induction l as [|[d x] r IH]; [reflexivity|]. cbn [cnt filter snd]. unfold fOK at 1.
  destruct (is_succeeded (pst x) && pm k x); cbn [length]; lia.
Qed.

Lemma into_result_full q :
  num_results (cfg q) <= cnt (fOK (qkind q)) (peers q) ->
  length (into_result q) = N.to_nat (num_results (cfg q)).
Proof.
  intros L. unfold into_result. rewrite firstn_length, map_length.
  rewrite cnt_filter_length in L. lia.
Qed.

Lemma complete_when_short_lemma q : fin_inv q -> prog q = Finished ->
  (length (into_result q) < N.to_nat (num_results (cfg q)))%nat ->
  forall d x, In (d, x) (peers q) -> pst x <> NotContacted.
Proof.
  intros FI Fin Short d x I. destruct (FI Fin) as [Full|Z].
  - apply into_result_full in Full. lia.
  - pose proof (proj1 (cnt_zero_forall fNC (peers q)) Z _ _ I) as NC. unfold fNC in NC.
    intros E. rewrite E in NC. discriminate.
Qed.

(* ------------------------------------------------------------------------------------------ *)
(* statements in terms of the model's own vocabulary, for the property files *)

Lemma cnt_filter f l : cnt f l = N.of_nat (length (filter (fun dp => f (snd dp)) l)).
Proof.
  induction l as [|[d x] r IH]; [reflexivity|]. cbn [cnt filter snd].
  destruct (f x); cbn [length]; lia.
Qed.

Definition q_init (k : kind) (c : qconfig) (t : N) (known : list (N * bool)) : query := with_config k c t known.
Definition candidates (c : qconfig) (known : list (N * bool)) : list (N * bool) :=
  firstn (N.to_nat (num_results c)) known.

Lemma waiting_count k c t known evs :
  exists q os, run evs (with_config k c t known) = Some (q, os) /\
    num_waiting q = N.of_nat (length (filter (fun dp => is_waiting (pst (snd dp))) (peers q))).
Proof.
  pose proof (io_wf _ _ (with_config_init k c t known)) as W.
  destruct (run evs (with_config k c t known)) as [[q os]|] eqn:R.
  - exists q, os. split; [reflexivity|]. rewrite (wf_count _ (run_wf _ _ _ _ W R)). apply (cnt_filter fW).
  - exfalso. eapply run_no_panic; eauto.
Qed.

Lemma inflight_bound k c t known evs q os :
  run evs (with_config k c t known) = Some (q, os) ->
  num_waiting q <= parallelism c \/
  (ever_stalled evs (with_config k c t known) = true /\ num_waiting q <= num_results c).
Proof.
  intros R. pose proof (io_wf _ _ (with_config_init k c t known)) as W.
  apply (run_bound evs _ _ _ false W) in R; [exact R|]. left. cbn. lia.
Qed.

Lemma contact_once k c t known evs q os :
  run evs (with_config k c t known) = Some (q, os) ->
  NoDup (emitted os) /\
  forall p, In p (emitted os) -> In p (map fst (candidates c known)) \/ In p (map fst (reported evs)).
Proof.
  intros R. pose proof (run_hinv _ _ (with_config_init k c t known) _ _ _ R) as [HK _ HE HN _ _].
  split; [exact HN|]. intros p I. destruct (HE _ I) as (d & x & Ix & <- & _). eapply HK; eauto.
Qed.

Lemma emitted_bounded k c t known evs q os :
  run evs (with_config k c t known) = Some (q, os) ->
  (length (emitted os) <= length (candidates c known) + length (reported evs))%nat.
Proof.
  intros R. destruct (contact_once _ _ _ _ _ _ _ R) as [ND IN].
  rewrite <- (map_length fst (candidates c known)), <- (map_length fst (reported evs)), <- app_length.
  apply NoDup_incl_length; [exact ND|]. intros p I. apply in_or_app. auto.
Qed.

Lemma result_sound k c t known evs q os :
  run evs (with_config k c t known) = Some (q, os) ->
  forall p, In p (into_result q) ->
    exists evs1 closer evs2 q1 os1,
      evs = evs1 ++ ESuccess p closer :: evs2 /\
      run evs1 (with_config k c t known) = Some (q1, os1) /\ In p (emitted os1).
Proof.
  intros R p I. pose proof (run_hinv _ _ (with_config_init k c t known) _ _ _ R) as [_ _ _ _ HS _].
  apply into_result_in in I as (d & x & Ix & <- & Sx & _). eapply HS; eauto.
Qed.

Lemma result_shape k c t known evs q os :
  run evs (with_config k c t known) = Some (q, os) ->
  (length (into_result q) <= N.to_nat (num_results c))%nat /\
  StronglySorted (closer_to t) (into_result q) /\ NoDup (into_result q).
Proof.
  intros R. pose proof (run_wf _ _ _ _ (io_wf _ _ (with_config_init k c t known)) R) as W.
  pose proof (run_static _ _ _ _ R) as (_ & ST & SC). cbn [with_config target cfg] in ST, SC.
  split; [rewrite <- SC; apply into_result_length|]. split; [rewrite <- ST; apply into_result_sorted; exact W|].
  apply into_result_nodup; exact W.
Qed.

Lemma result_predicate c t known evs q os :
  run evs (with_config KPredicate c t known) = Some (q, os) ->
  forall p, In p (into_result q) -> In (p, true) (candidates c known) \/ In (p, true) (reported evs).
Proof.
  intros R p I. pose proof (run_hinv _ _ (with_config_init KPredicate c t known) _ _ _ R) as [_ _ _ _ _ HF].
  pose proof (run_static _ _ _ _ R) as (SK & _ & _). cbn [with_config qkind] in SK.
  apply into_result_in in I as (d & x & Ix & <- & _ & PM). rewrite SK in PM. cbn [pm] in PM.
  eapply HF; eauto.
Qed.

(* every candidate that entered the query stays in it *)
Lemma run_fwd evs : forall q0 q os, wf q0 -> run evs q0 = Some (q, os) ->
  forall d x, In (d, x) (peers q0) -> exists x', In (d, x') (peers q) /\ pkey x' = pkey x.
Proof.
  induction evs as [|e evs IH]; intros q0 q os W R d x I.
  - inversion R; subst. eauto.
  - apply run_cons_inv in R as (q1 & o & os1 & S & R & _).
    destruct (step_fwd _ _ _ _ W S _ _ I) as (x1 & I1 & [K1 _] & _).
    destruct (IH _ _ _ (step_wf _ _ _ _ W S) R _ _ I1) as (x' & I' & K'). exists x'. split; [exact I'|congruence].
Qed.

Lemma m_insert_fwd_key d p m d1 x : In (d1, x) m -> exists x', In (d1, x') (m_insert d p m) /\ (x' = x \/ (d1 = d /\ x' = p)).
Proof.
  induction m as [|[d0 p0] r IH]; [intros []|]. cbn [m_insert]. intros I.
  destruct (d <? d0); [exists x; split; [right; exact I|auto]|].
  destruct (N.eqb_spec d d0).
  - subst d0. destruct I as [E|I].
    + inversion E; subst. exists p. split; [left; reflexivity|auto].
    + exists x. split; [right; exact I|auto].
  - destruct I as [E|I].
    + exists x. split; [left; exact E|auto].
    + destruct (IH I) as (x' & I' & H'). exists x'. split; [right; exact I'|exact H'].
Qed.

Lemma m_insert_head d p m : In (d, p) (m_insert d p m).
Proof.
  induction m as [|[d0 p0] r IH]; cbn [m_insert]; [left; reflexivity|].
  destruct (d <? d0); [left; reflexivity|]. destruct (d =? d0); [left; reflexivity|right; exact IH].
Qed.

Lemma init_fold_present k t l : forall m,
  (forall r, In r l -> exists x, In (N.lxor (fst r) t, x) (init_fold k t l m) /\ pkey x = fst r) /\
  (forall d x, In (d, x) m -> pkey x = N.lxor d t -> exists x', In (d, x') (init_fold k t l m) /\ pkey x' = pkey x).
Proof.
  induction l as [|r0 l IH]; intros m.
  - split; [intros r []|]. intros d x I _. exists x; auto.
  - cbn [init_fold fold_left].
    set (m1 := m_insert (N.lxor (fst r0) t) (new_peer (fst r0) (flag_of k (snd r0))) m).
    destruct (IH m1) as [IH1 IH2]. split.
    + intros r [<-|I]; [|apply IH1; exact I].
      destruct (IH2 (N.lxor (fst r0) t) (new_peer (fst r0) (flag_of k (snd r0)))) as (x' & I' & K').
      * apply m_insert_head.
      * cbn [new_peer pkey]. rewrite N.lxor_assoc, N.lxor_nilpotent, N.lxor_0_r. reflexivity.
      * exists x'. split; [exact I'|exact K'].
    + intros d x I Kx. destruct (m_insert_fwd_key (N.lxor (fst r0) t) (new_peer (fst r0) (flag_of k (snd r0))) m _ _ I)
        as (x1 & I1 & [->|[-> ->]]).
      * apply IH2; auto.
      * destruct (IH2 _ _ I1) as (x' & I' & K').
        -- cbn [new_peer pkey]. rewrite N.lxor_assoc, N.lxor_nilpotent, N.lxor_0_r. reflexivity.
        -- exists x'. split; [exact I'|]. rewrite K'. cbn [new_peer pkey].
           rewrite Kx, N.lxor_assoc, N.lxor_nilpotent, N.lxor_0_r. reflexivity.
Qed.

(* the query finished by itself with a short result: everything it holds was handed out by next,
   in particular every one of the candidates it was created with *)
Lemma complete_when_short k c t known evs q os :
  run evs (with_config k c t known) = Some (q, os) ->
  prog q = Finished ->
  (length (into_result q) < N.to_nat (num_results c))%nat ->
  (forall d x, In (d, x) (peers q) -> pst x <> NotContacted /\ In (pkey x) (emitted os)) /\
  (forall r, In r (candidates c known) -> In (fst r) (emitted os)).
Proof.
  intros R Fin Short.
  pose proof (with_config_init k c t known) as IO. pose proof (io_wf _ _ IO) as W0.
  pose proof (run_hinv _ _ IO _ _ _ R) as [_ HC _ _ _ _].
  pose proof (run_static _ _ _ _ R) as (_ & _ & SC). cbn [with_config cfg] in SC.
  assert (FI : fin_inv q).
  { eapply run_fin; [|exact R]. intros F. cbn in F. discriminate. }
  assert (A : forall d x, In (d, x) (peers q) -> pst x <> NotContacted).
  { apply complete_when_short_lemma; auto. rewrite SC. exact Short. }
  split.
  - intros d x I. split; [eauto|]. eapply HC; eauto.
  - intros r Ir. destruct (proj1 (init_fold_present k t (candidates c known) []) r Ir) as (x & Ix & Kx).
    destruct (run_fwd _ _ _ _ W0 R _ _ Ix) as (x' & Ix' & Kx'). rewrite <- Kx, <- Kx'.
    eapply HC; eauto.
Qed.

(* design observation: with_config keeps only the first num_results candidates (.take(num_results));
   a seed beyond them is never contacted even when the query finishes by itself with a short result *)
Lemma seed_truncation_witness :
  exists k c t known evs q os,
    run evs (with_config k c t known) = Some (q, os) /\ prog q = Finished /\
    (length (into_result q) < N.to_nat (num_results c))%nat /\
    exists r, In r known /\ ~ In (fst r) (emitted os).
Proof.
  exists KFindNode, {| parallelism := 1; num_results := 1; peer_timeout := 10 |}, 0,
         [(1, true); (2, true)], [ENext 0; EFailure 1; ENext 1].
  eexists. eexists. split; [vm_compute; reflexivity|]. split; [reflexivity|]. split; [vm_compute; lia|].
  exists (2, true). split; [right; left; reflexivity|]. cbn. intros [E|[]]. discriminate.
Qed.
