(* C16: with the IP filters of src/kbucket/filter.rs installed, no bucket ever holds more than
   MAX_NODES_PER_SUBNET_BUCKET nodes and the table (pending nodes included) never more than
   MAX_NODES_PER_SUBNET_TABLE entries whose IPv4 addresses share a /24. *)
From Coq Require Import List Arith NArith Lia Bool Permutation Sorted.
From Discv5V Require Import Generated.Params Lib.ListX Lib.ListY Lib.SortedX Model.KBucket
  Proofs.KBucketInv Proofs.KBucketTable Proofs.KBucketPending Proofs.KBucketEntries.
Import ListNotations.

Definition in_sub (s : N) (v : val) : bool :=
  match vsub v with Some s' => N.eqb s' s | None => false end.

(* the limits, from the Rust constants *)
Definition LT : nat := N.to_nat MAX_NODES_PER_SUBNET_TABLE.
Definition LB : nat := N.to_nat MAX_NODES_PER_SUBNET_BUCKET.

Definition SubB (b : bucket) : Prop := forall s, count (in_sub s) (values (nodes b)) <= LB.

(* table_values = the values of all nodes and of all pending nodes *)
Definition SubnetInv (t : table) : Prop :=
  forall s, count (in_sub s) (table_values t) <= LT /\
            forall i, count (in_sub s) (values (nodes (get_bucket t i))) <= LB.

(* ------------------------------------------------------------------------------------------ *)
(* The filter *)

(* values without an IPv4 address are never refused *)
Theorem no_ip_unaffected limit v others : vsub v = None -> ip_filter limit v others = true.
Proof. intros H. unfold ip_filter. rewrite H. reflexivity. Qed.

Lemma ip_filter_loop_count v s limit : forall others cnt,
  cnt < limit -> ip_filter_loop v s others cnt limit = true ->
  cnt + count (fun o => negb (val_eqb o v) && in_sub s o) others < limit.
Proof.
  induction others as [|o others IH]; intros cnt Hc H; cbn [ip_filter_loop] in H.
  - unfold count. simpl. lia.
  - rewrite count_cons. destruct (val_eqb o v); cbn [negb andb].
    + specialize (IH cnt Hc H). lia.
    + unfold in_sub at 1. destruct (vsub o) as [s'|].
      * destruct (N.eqb s' s).
        -- destruct (Nat.leb_spec limit (S cnt)) as [L|L]; [discriminate|]. specialize (IH (S cnt) L H). lia.
        -- destruct (Nat.leb limit cnt); [discriminate|]. specialize (IH cnt Hc H). lia.
      * destruct (Nat.leb limit cnt); [discriminate|]. specialize (IH cnt Hc H). lia.
Qed.

Lemma ip_filter_count limit v others s :
  0 < limit -> ip_filter limit v others = true -> vsub v = Some s ->
  count (fun o => negb (val_eqb o v) && in_sub s o) others < limit.
Proof.
  intros Hl H Hs. unfold ip_filter in H. rewrite Hs in H.
  apply (ip_filter_loop_count v s limit others 0 Hl H).
Qed.

Lemma LT_pos : 0 < LT. Proof. vm_compute. lia. Qed.
Lemma LB_pos : 0 < LB. Proof. vm_compute. lia. Qed.

Lemma in_sub_eq s v : in_sub s v = true -> vsub v = Some s.
Proof. unfold in_sub. destruct (vsub v) as [s'|]; [|discriminate]. intros H. apply N.eqb_eq in H. congruence. Qed.

(* ------------------------------------------------------------------------------------------ *)
(* Generic counting *)

Lemma count_incl_nodup {A} (p : A -> bool) l l' : NoDup l -> incl l l' -> count p l <= count p l'.
Proof.
  intros Hn Hi. unfold count. apply NoDup_incl_length.
  - clear Hi. induction Hn as [|x l Hx _ IH]; simpl; [constructor|]. destruct (p x); [|exact IH].
    constructor; [|exact IH]. intros H. apply filter_In in H. tauto.
  - intros x Hx. apply filter_In in Hx. apply filter_In. split; [apply Hi|]; tauto.
Qed.

Lemma count_split {A} (p q : A -> bool) l :
  count p l = count p (filter q l) + count p (filter (fun x => negb (q x)) l).
Proof. rewrite <- count_app. apply count_perm. apply Permutation_sym, filter_split_perm. Qed.

Lemma count_mono {A} (p q : A -> bool) l :
  (forall x, In x l -> p x = true -> q x = true) -> count p l <= count q l.
Proof.
  induction l as [|x l IH]; intros H; [unfold count; simpl; lia|]. rewrite !count_cons.
  assert (count p l <= count q l) by (apply IH; intros; apply H; [right|]; assumption).
  destruct (p x) eqn:E; [rewrite (H x (or_introl eq_refl) E)|]; destruct (q x); lia.
Qed.

Lemma count_filter {A} (p q : A -> bool) l : count p (filter q l) = count (fun x => q x && p x) l.
Proof.
  induction l as [|x l IH]; [reflexivity|]. simpl. rewrite count_cons. destruct (q x); simpl.
  - rewrite count_cons, IH. reflexivity.
  - exact IH.
Qed.

Lemma count_pos {A} (p : A -> bool) l x : In x l -> p x = true -> 1 <= count p l.
Proof.
  induction l as [|y l IH]; intros [].
  - subst y. intros E. rewrite count_cons, E. lia.
  - intros E. rewrite count_cons. specialize (IH H E). lia.
Qed.

Lemma nodup_key_filter {B} (k : N) (l : list (N * B)) :
  NoDup (map fst l) ->
  filter (fun e => N.eqb (fst e) k) l = [] \/ exists x, filter (fun e => N.eqb (fst e) k) l = [(k, x)].
Proof.
  induction l as [|[k' x] l IH]; intros Hn; [left; reflexivity|]. simpl in *. inversion Hn; subst.
  destruct (N.eqb_spec k' k) as [E|E].
  - subst k'. right. exists x. f_equal.
    assert (forall e, In e l -> N.eqb (fst e) k = false).
    { intros e He. apply N.eqb_neq. intros E. apply H1. rewrite <- E. apply in_map. exact He. }
    clear - H. induction l as [|e l IH]; [reflexivity|]. simpl. rewrite (H e (or_introl eq_refl)).
    apply IH. intros; apply H; right; assumption.
  - apply IH. assumption.
Qed.

Section Subnet.
Variable owner : N -> N.            (* the key a value belongs to (a record's node id) *)
Variable subof : N -> option N.     (* the /24 of a value is determined by the value *)

Definition WF (e : N * val) : Prop :=
  owner (vid (snd e)) = fst e /\ vsub (snd e) = subof (vid (snd e)).

(* the heart of the table-level argument, on entry lists with duplicate-free keys *)
Lemma table_count_step (E E' : list (N * val)) k v s :
  NoDup (map fst E') -> incl E' ((k, v) :: E) ->
  (forall e, In e E -> WF e) -> WF (k, v) ->
  count (fun e => in_sub s (snd e)) E <= LT ->
  (ip_filter LT v (map snd E) = true \/ exists w, In (k, w) E /\ vid w = vid v) ->
  count (fun e => in_sub s (snd e)) E' <= LT.
Proof.
  intros Hn' Hincl Hwf Hwfv Hc Hpass.
  set (p := fun e : N * val => in_sub s (snd e)) in *.
  set (isk := fun e : N * val => N.eqb (fst e) k).
  assert (Hn'e : NoDup E') by (eapply NoDup_map_inv; exact Hn').
  assert (Hrest : count p (filter (fun e => negb (isk e)) E') <= count p (filter (fun e => negb (isk e)) E)).
  { apply count_incl_nodup.
    - clear - Hn'e. induction Hn'e as [|x l Hx _ IH]; simpl; [constructor|]. destruct (negb (isk x)); [|exact IH].
      constructor; [|exact IH]. intros H. apply filter_In in H. tauto.
    - intros e He. apply filter_In in He. destruct He as [He Hk]. apply filter_In. split; [|exact Hk].
      destruct (Hincl e He) as [<-|H]; [|exact H]. unfold isk in Hk. simpl in Hk. rewrite N.eqb_refl in Hk. discriminate. }
  assert (HE : count p (filter (fun e => negb (isk e)) E) <= count p E).
  { rewrite (count_split p isk E). lia. }
  rewrite (count_split p isk E').
  destruct (nodup_key_filter k E' Hn') as [F|[x F]]; fold isk in F; rewrite F.
  - unfold count at 1. simpl. lia.
  - assert (Hin : In (k, x) E') by (assert (H : In (k, x) (filter isk E')) by (rewrite F; left; reflexivity); apply filter_In in H; tauto).
    destruct (Hincl _ Hin) as [Ex|Hx].
    + inversion Ex; subst x. rewrite count_cons. change (count p []) with 0.
      destruct (p (k, v)) eqn:Pv; [|lia].
      apply in_sub_eq in Pv. simpl in Pv.
      destruct Hpass as [Hpass|(w & Hw & Evid)].
      * pose proof (ip_filter_count LT v (map snd E) s LT_pos Hpass Pv) as Hlt.
        rewrite count_map in Hlt.
        assert (count p (filter (fun e => negb (isk e)) E) <=
                count (fun x => negb (val_eqb (snd x) v) && in_sub s (snd x)) E).
        { rewrite count_filter. apply count_mono. intros e He H. apply andb_true_iff in H. destruct H as [H1 H2].
          unfold p in H2. rewrite H2, andb_true_r. apply negb_true_iff. unfold val_eqb. apply N.eqb_neq. intros Ev.
          destruct (Hwf e He) as [Ho _]. destruct Hwfv as [Hov _]. simpl in Hov.
          rewrite Ev, Hov in Ho. unfold isk in H1. rewrite <- Ho, N.eqb_refl in H1. discriminate. }
        lia.
      * assert (Pw : p (k, w) = true).
        { unfold p, in_sub. simpl. destruct (Hwf _ Hw) as [_ Hs]. destruct Hwfv as [_ Hsv]. simpl in *.
          rewrite Hs, Evid, <- Hsv, Pv. apply N.eqb_refl. }
        assert (1 <= count p (filter isk E)).
        { apply (count_pos p _ (k, w)); [|exact Pw]. apply filter_In. split; [exact Hw|]. unfold isk. simpl. apply N.eqb_refl. }
        rewrite (count_split p isk E) in Hc. lia.
    + (* the entry at key k is an old one: everything is old *)
      assert (Hi : incl E' E).
      { intros e He. destruct (Hincl e He) as [<-|H]; [|exact H].
        assert (H : In (k, v) (filter isk E')) by (apply filter_In; split; [exact He|unfold isk; simpl; apply N.eqb_refl]).
        rewrite F in H. destruct H as [H|[]]. rewrite <- H. exact Hx. }
      rewrite <- F, <- (count_split p isk E'). pose proof (count_incl_nodup p E' E Hn'e Hi). lia.
Qed.

(* ------------------------------------------------------------------------------------------ *)
(* Bucket level *)

Variable c : config.
Hypothesis Hbf : bfilter c = Some ip_bucket_filter.
Hypothesis Htf : tfilter c = Some ip_table_filter.

Definition OwnB (b : bucket) : Prop := forall e, In e (bentries b) -> WF e.

Lemma sub_place (L L0 L' : list node) n :
  (forall m, In m L -> WF (ent m)) -> WF (ent n) -> ~ In (nkey n) (map nkey L) ->
  ip_bucket_filter (nval n) (values L) = true ->
  (forall s, count (in_sub s) (values L) <= LB) ->
  Permutation L' (n :: L0) ->
  (forall s, count (in_sub s) (values L0) <= count (in_sub s) (values L)) ->
  forall s, count (in_sub s) (values L') <= LB.
Proof.
  intros Hwf Hwfn Hnin Hf Hc Hp Hsub s.
  unfold values in *. rewrite (count_perm _ _ _ (Permutation_map nval Hp)). simpl map. rewrite count_cons.
  destruct (in_sub s (nval n)) eqn:Pn; [|specialize (Hc s); specialize (Hsub s); lia].
  apply in_sub_eq in Pn.
  pose proof (ip_filter_count LB (nval n) (map nval L) s LB_pos Hf Pn) as Hlt.
  assert (E : count (fun o => negb (val_eqb o (nval n)) && in_sub s o) (map nval L) = count (in_sub s) (map nval L)).
  { apply count_ext. intros o Ho. apply in_map_iff in Ho. destruct Ho as (m & <- & Hm).
    assert (val_eqb (nval m) (nval n) = false) as ->; [|reflexivity].
    unfold val_eqb. apply N.eqb_neq. intros Ev. apply Hnin.
    destruct (Hwf m Hm) as [Ho _]. destruct Hwfn as [Hon _]. simpl in *.
    rewrite Ev, Hon in Ho. rewrite Ho. apply in_map. exact Hm. }
  specialize (Hsub s). lia.
Qed.

Lemma run_bfilter v others : run_filter (bfilter c) v others = ip_bucket_filter v others.
Proof. rewrite Hbf. reflexivity. Qed.

Lemma b_insert_sub b n0 now :
  (forall m, In m (nodes b) -> WF (ent m)) -> WF (ent n0) -> SubB b ->
  SubB (fst (b_insert c b n0 now)).
Proof.
  intros Hwf Hwfn HS.
  pose proof (b_insert_spec c b n0 now) as S. cbv zeta in S.
  destruct (snd (b_insert c b n0 now)); try (rewrite S; exact HS).
  - destruct S as (S1 & _ & _ & S4 & S5). rewrite run_bfilter in S5. apply position_none in S4.
    unfold SubB. eapply (sub_place (nodes b) (nodes b) _ (set_stamp n0 now)); eauto.
  - destruct S as (S1 & _). unfold SubB. rewrite S1. exact HS.
Qed.

Lemma b_apply_pending_sub T loc i b now :
  BInv c T loc i b -> OwnB b -> SubB b -> SubB (fst (b_apply_pending c b now)).
Proof.
  intros HB Hwf HS.
  pose proof (apply_pending_spec c b now) as S. cbv zeta in S.
  destruct (snd (b_apply_pending c b now)) as [[ins ev]|].
  - destruct S as (p & S1 & _ & _ & _ & S4 & S5). rewrite run_bfilter in S4.
    destruct (binv_pend_facts _ _ _ _ _ _ HB S1) as [_ Hnin].
    assert (Hwfn : forall m, In m (nodes b) -> WF (ent m)) by (intros m Hm; apply Hwf, in_bentries_node; exact Hm).
    assert (Hwfp : WF (ent (set_stamp (pn p) now))) by (apply Hwf, (in_bentries_pend b p S1)).
    destruct ev as [e|].
    + destruct S5 as (_ & h & rest & E1 & _ & _ & S6).
      unfold SubB. eapply (sub_place (nodes b) rest _ (set_stamp (pn p) now)); eauto.
      intros s. rewrite E1. unfold values. simpl map. rewrite count_cons. lia.
    + destruct S5 as (_ & S6).
      unfold SubB. eapply (sub_place (nodes b) (nodes b) _ (set_stamp (pn p) now)); eauto.
  - destruct S as (S1 & _). unfold SubB. rewrite S1. exact HS.
Qed.

Lemma sub_remove_at pos (l : list node) s :
  count (in_sub s) (values (remove_at pos l)) <= count (in_sub s) (values l).
Proof. unfold values. rewrite map_remove_at. apply count_remove_at_le. Qed.

Lemma b_update_status_sub b k conn dir now :
  OwnB b -> SubB b -> SubB (fst (b_update_status c b k conn dir now)).
Proof.
  intros Hwf HS. unfold b_update_status. destruct (position k (nodes b)) as [pos|] eqn:Hpos.
  - destruct (position_some _ _ _ Hpos) as (old & Hn & Hk). rewrite Hn. cbv zeta.
    match goal with |- context [b_insert c ?b1 ?n now] => set (bb := b1); set (nn := n) end.
    assert (H1 : SubB (fst (b_insert c bb nn now))).
    { apply b_insert_sub.
      - intros m Hm. apply Hwf, in_bentries_node. eapply In_remove_at. exact Hm.
      - apply (Hwf (ent old)), in_bentries_node. eapply nth_error_In. exact Hn.
      - intros s. simpl. pose proof (sub_remove_at pos (nodes b) s). specialize (HS s). lia. }
    destruct (b_insert c bb nn now) as [b2 r]. simpl in H1. destruct r; exact H1.
  - destruct (pend b) as [p|] eqn:Ep; [|exact HS].
    destruct (N.eqb (nkey (pn p)) k); exact HS.
Qed.

Lemma b_update_value_sub T loc i b k v :
  BInv c T loc i b -> OwnB b -> WF (k, v) -> SubB b -> SubB (fst (b_update_value c b k v)).
Proof.
  intros HB Hwf Hwfv HS. unfold b_update_value. destruct (position k (nodes b)) as [pos|] eqn:Hpos.
  - destruct (position_some _ _ _ Hpos) as (old & Hn & Hk). rewrite Hn.
    destruct (val_eqb (nval old) v); [exact HS|]. cbv zeta.
    destruct (negb (run_filter (bfilter c) v (values (remove_at pos (nodes b))))) eqn:Hf; simpl fst.
    + intros s. simpl. pose proof (sub_remove_at pos (nodes b) s). specialize (HS s). lia.
    + apply negb_false_iff in Hf. rewrite run_bfilter in Hf.
      unfold SubB. simpl nodes.
      eapply (sub_place (remove_at pos (nodes b)) (remove_at pos (nodes b)) _ (set_val old v)).
      * intros m Hm. apply Hwf, in_bentries_node. eapply In_remove_at. exact Hm.
      * unfold ent. simpl. rewrite Hk. exact Hwfv.
      * simpl. rewrite Hk. intros Hin.
        pose proof (remove_at_perm _ _ _ Hn) as Hp. apply (Permutation_map nkey) in Hp. simpl in Hp.
        pose proof (bi_nodup _ _ _ _ _ HB) as Hnd. rewrite bkeys_eq in Hnd. apply NoDup_app_remove_r in Hnd.
        apply (Permutation_NoDup Hp) in Hnd. apply NoDup_cons_iff in Hnd. destruct Hnd as [Hx _]. apply Hx. rewrite Hk. exact Hin.
      * exact Hf.
      * intros s. pose proof (sub_remove_at pos (nodes b) s). specialize (HS s). lia.
      * apply insert_at_perm.
      * intros s. lia.
  - destruct (pend b) as [p|] eqn:Ep; [|exact HS].
    destruct (N.eqb (nkey (pn p)) k); exact HS.
Qed.

(* ------------------------------------------------------------------------------------------ *)
(* Bucket transitions *)

Definition Good (loc : N) (i : nat) (b : bucket) : Prop := BInv c None loc i b /\ OwnB b /\ SubB b.
Definition XOK (loc : N) (i : nat) (X : list (N * val)) : Prop :=
  forall e, In e X -> WF e /\ bucket_index loc (fst e) = Some i.
Definition BT (loc : N) (i : nat) (X : list (N * val)) (b b' : bucket) : Prop :=
  XOK loc i X -> Good loc i b -> Good loc i b' /\ incl (bentries b') (X ++ bentries b).

Lemma ownb_incl loc i X b b' : XOK loc i X -> OwnB b -> incl (bentries b') (X ++ bentries b) -> OwnB b'.
Proof.
  intros HX Hb Hi e He. apply Hi in He. apply in_app_or in He. destruct He as [He|He]; [apply (HX e He)|apply Hb; exact He].
Qed.

Lemma bt_refl loc i X b : BT loc i X b b.
Proof. intros _ HG. split; [exact HG|]. apply incl_appr, incl_refl. Qed.

Lemma bt_trans loc i X b b' b'' : BT loc i X b b' -> BT loc i X b' b'' -> BT loc i X b b''.
Proof.
  intros H1 H2 HX HG. destruct (H1 HX HG) as [HG' I1]. destruct (H2 HX HG') as [HG'' I2].
  split; [exact HG''|]. intros e He. apply I2 in He. apply in_app_or in He.
  destruct He as [He|He]; [apply in_or_app; left; exact He|apply I1; exact He].
Qed.

Lemma bt_weaken loc i X b b' : BT loc i [] b b' -> BT loc i X b b'.
Proof.
  intros H _ HG. destruct (H (fun e (He : In e []) => match He with end) HG) as [HG' I1].
  split; [exact HG'|]. apply incl_appr. exact I1.
Qed.

Lemma bt_insert loc i b n0 now : BT loc i [ent n0] b (fst (b_insert c b n0 now)).
Proof.
  intros HX (HB & HO & HS). destruct (HX (ent n0) (or_introl eq_refl)) as [Hwf Hidx].
  assert (Hi : incl (bentries (fst (b_insert c b n0 now))) ([ent n0] ++ bentries b)) by apply b_insert_entries.
  split; [|exact Hi]. split; [|split].
  - apply (b_insert_inv c None None loc i b n0 now HB I Hidx).
  - eapply ownb_incl; eassumption.
  - apply b_insert_sub; [|exact Hwf|exact HS]. intros m Hm. apply HO, in_bentries_node. exact Hm.
Qed.

Lemma bt_apply loc i b now : BT loc i [] b (fst (b_apply_pending c b now)).
Proof.
  intros HX (HB & HO & HS).
  assert (Hi : incl (bentries (fst (b_apply_pending c b now))) ([] ++ bentries b)) by apply b_apply_pending_entries.
  split; [|exact Hi]. split; [|split].
  - apply (b_apply_pending_inv c None None loc i b now HB I).
  - eapply ownb_incl; eassumption.
  - eapply b_apply_pending_sub; eassumption.
Qed.

Lemma bt_status loc i b k conn dir now : BT loc i [] b (fst (b_update_status c b k conn dir now)).
Proof.
  intros HX (HB & HO & HS).
  assert (Hi : incl (bentries (fst (b_update_status c b k conn dir now))) ([] ++ bentries b)) by apply b_update_status_entries.
  split; [|exact Hi]. split; [|split].
  - apply (b_update_status_inv c None None loc i b k conn dir now HB I).
  - eapply ownb_incl; eassumption.
  - apply b_update_status_sub; assumption.
Qed.

Lemma bt_value loc i b k v : BT loc i [(k, v)] b (fst (b_update_value c b k v)).
Proof.
  intros HX (HB & HO & HS). destruct (HX (k, v) (or_introl eq_refl)) as [Hwf Hidx].
  assert (Hi : incl (bentries (fst (b_update_value c b k v))) ([(k, v)] ++ bentries b)) by apply b_update_value_entries.
  split; [|exact Hi]. split; [|split].
  - apply (b_update_value_inv c None loc i b k v HB).
  - eapply ownb_incl; eassumption.
  - eapply b_update_value_sub; eassumption.
Qed.

Lemma bt_remove loc i b k now : BT loc i [] b (fst (b_remove c b k now)).
Proof.
  unfold b_remove. destruct (position k (nodes b)) as [pos|] eqn:Hpos; [|apply bt_refl].
  destruct (position_some _ _ _ Hpos) as (old & Hn & Hk). cbv zeta. simpl fst.
  eapply bt_trans; [|apply bt_apply].
  intros HX (HB & HO & HS).
  match goal with |- Good _ _ ?b1 /\ _ => set (bb := b1) end.
  assert (Hi : incl (bentries bb) ([] ++ bentries b)).
  { apply bentries_incl; simpl.
    - intros n Hn'. apply in_bentries_node. eapply In_remove_at. exact Hn'.
    - intros p Hp. apply in_bentries_pend. exact Hp. }
  split; [|exact Hi]. split; [|split].
  - eapply binv_remove with (b := b) (pos := pos) (old := old); [exact HB|exact Hn|reflexivity|reflexivity|].
    right; reflexivity.
  - eapply ownb_incl; eassumption.
  - intros s. simpl. pose proof (sub_remove_at pos (nodes b) s). specialize (HS s). lia.
Qed.

Lemma bt_update_pending loc i b conn inc : BT loc i [] b (b_update_pending b conn inc).
Proof.
  intros HX (HB & HO & HS).
  assert (Hi : incl (bentries (b_update_pending b conn inc)) ([] ++ bentries b)) by apply b_update_pending_entries.
  split; [|exact Hi]. split; [|split].
  - apply b_update_pending_inv. exact HB.
  - eapply ownb_incl; eassumption.
  - unfold b_update_pending. destruct (pend b); exact HS.
Qed.

Lemma bt_force_ready loc i b p now :
  pend b = Some p ->
  BT loc i [] b {| nodes := nodes b; fcp := fcp b; pend := Some {| pn := pn p; preplace := now |} |}.
Proof.
  intros Ep HX (HB & HO & HS).
  match goal with |- Good _ _ ?b1 /\ _ => set (bb := b1) end.
  assert (Hi : incl (bentries bb) ([] ++ bentries b)).
  { apply bentries_incl; simpl.
    - intros n Hn'. apply in_bentries_node. exact Hn'.
    - intros p' Hp'. inversion Hp'; subst p'. simpl. apply (in_bentries_pend b p Ep). }
  split; [|exact Hi]. split; [|split].
  - destruct (binv_pend_facts _ _ _ _ _ _ HB Ep) as [Hpidx Hpnin].
    eapply binv_set_pend; [exact HB|reflexivity|reflexivity|].
    simpl. intros p' Hp'. inversion Hp'; subst p'. simpl. split; assumption.
  - eapply ownb_incl; eassumption.
  - exact HS.
Qed.

(* ------------------------------------------------------------------------------------------ *)
(* Table level *)

Definition TCInv (t : table) : Prop :=
  TInv c t /\ (forall e, In e (tentries t) -> WF e) /\ SubnetInv t.

Lemma tc_good t j : TCInv t -> Good (local t) j (get_bucket t j).
Proof.
  intros (HT & HW & HS). split; [apply HT|]. split.
  - intros e He. apply HW. apply in_tentries. exists j. exact He.
  - intros s. apply (HS s).
Qed.

Lemma passes_cases t k v :
  TCInv t -> passes_table_filter c t k v = true ->
  ip_filter LT v (map snd (tentries t)) = true \/ exists w, In (k, w) (tentries t) /\ vid w = vid v.
Proof.
  intros HT H. unfold passes_table_filter in H. rewrite Htf in H.
  destruct (bucket_index (local t) k) as [i|] eqn:Ei.
  - pose proof (get_position k (nodes (get_bucket t i))) as G.
    destruct (get k (nodes (get_bucket t i))) as [n|] eqn:Eg.
    + destruct (val_eqb (nval n) v) eqn:Ev.
      * right. exists (nval n). split; [|apply N.eqb_eq; exact Ev].
        destruct G as (pos & Hp & Hn). destruct (position_some _ _ _ Hp) as (old & Hn' & Hk).
        rewrite Hn in Hn'. inversion Hn'; subst old.
        apply in_tentries. exists i. rewrite <- Hk. apply (in_bentries_node _ n). eapply nth_error_In. exact Hn.
      * left. rewrite <- table_values_entries. exact H.
    + left. rewrite <- table_values_entries. exact H.
  - left. rewrite <- table_values_entries. exact H.
Qed.

Lemma tc_general t t' i X :
  TCInv t -> length (buckets t') = NB -> local t' = local t ->
  (forall j, BT (local t) j (if Nat.eqb j i then X else []) (get_bucket t j) (get_bucket t' j)) ->
  XOK (local t) i X ->
  (X = [] \/ exists k v, X = [(k, v)] /\ passes_table_filter c t k v = true) ->
  TCInv t'.
Proof.
  intros HT Hlen Hloc HBT HX Hcond.
  assert (HG : forall j, Good (local t) j (get_bucket t' j) /\
                         incl (bentries (get_bucket t' j)) ((if Nat.eqb j i then X else []) ++ bentries (get_bucket t j))).
  { intros j. apply HBT; [|apply tc_good; exact HT].
    destruct (Nat.eqb_spec j i) as [->|_]; [exact HX|intros e []]. }
  assert (HT' : TInv c t').
  { split; [exact Hlen|]. intros j. rewrite Hloc. apply (HG j). }
  assert (Hincl : incl (tentries t') (X ++ tentries t)).
  { intros e He. apply in_tentries in He. destruct He as [j He]. apply (proj2 (HG j)) in He.
    apply in_app_or in He. apply in_or_app. destruct He as [He|He].
    - left. destruct (Nat.eqb j i); [exact He|destruct He].
    - right. apply in_tentries. exists j. exact He. }
  assert (Hnd : NoDup (map fst (tentries t'))).
  { rewrite <- table_keys_entries. eapply TInv_NoDup_keys. exact HT'. }
  destruct HT as (HT & HW & HS).
  split; [exact HT'|]. split.
  - intros e He. apply Hincl in He. apply in_app_or in He. destruct He as [He|He]; [apply (HX e He)|apply HW; exact He].
  - intros s. split; [|intros j; apply (proj2 (proj2 (proj1 (HG j))))].
    rewrite table_values_entries, count_map.
    pose proof (proj1 (HS s)) as Hc. rewrite table_values_entries, count_map in Hc.
    destruct Hcond as [->|(k & v & -> & Hpass)].
    + simpl in Hincl. pose proof (count_incl_nodup (fun e => in_sub s (snd e)) _ _ (NoDup_map_inv _ _ Hnd) Hincl). lia.
    + eapply (table_count_step (tentries t) (tentries t') k v s); try eassumption.
      * apply (HX (k, v)). left. reflexivity.
      * apply passes_cases; [split; [exact HT|split; [exact HW|exact HS]]|exact Hpass].
Qed.

Lemma tc_set t i X b' app :
  TCInv t -> BT (local t) i X (get_bucket t i) b' -> XOK (local t) i X ->
  (X = [] \/ exists k v, X = [(k, v)] /\ passes_table_filter c t k v = true) ->
  TCInv (set_bucket t i b' app).
Proof.
  intros HT HB HX Hc. apply (tc_general t _ i X HT); try assumption.
  - simpl. rewrite upd_at_length. apply HT.
  - reflexivity.
  - intros j. rewrite get_set_bucket. destruct (Nat.eqb_spec i j) as [E|E].
    + subst j. rewrite Nat.eqb_refl. simpl. destruct (Nat.ltb i (length (buckets t))); [exact HB|apply bt_refl].
    + simpl. apply bt_refl.
Qed.

Lemma bt_applied t i now X b' :
  BT (local t) i X (fst (applied_bucket c t i now)) b' -> BT (local t) i X (get_bucket t i) b'.
Proof.
  intros H. eapply bt_trans; [|exact H]. rewrite applied_bucket_fst. apply bt_weaken, bt_apply.
Qed.

Section Ops.
Variable now : N.

Lemma t_update_node_status_sub t k conn dir :
  TCInv t -> TCInv (fst (t_update_node_status c t k conn dir now)).
Proof.
  intros HT. unfold t_update_node_status.
  destruct (bucket_index (local t) k) as [i|] eqn:Ei; [|exact HT].
  pose proof (bt_applied t i now [] ) as HA.
  destruct (applied_bucket c t i now) as [b app]. simpl in HA.
  pose proof (bt_status (local t) i b k conn dir now) as HB.
  destruct (b_update_status c b k conn dir now) as [b' r]. simpl in *.
  apply (tc_set t i []); auto. intros e [].
Qed.

Lemma t_remove_sub t k : TCInv t -> TCInv (fst (t_remove c t k now)).
Proof.
  intros HT. unfold t_remove.
  destruct (bucket_index (local t) k) as [i|] eqn:Ei; [|exact HT].
  pose proof (bt_applied t i now [] ) as HA.
  destruct (applied_bucket c t i now) as [b app]. simpl in HA.
  pose proof (bt_remove (local t) i b k now) as HB.
  destruct (b_remove c b k now) as [b' r]. simpl in *.
  apply (tc_set t i []); auto. intros e [].
Qed.

Lemma xok_one t k v i : WF (k, v) -> bucket_index (local t) k = Some i -> XOK (local t) i [(k, v)].
Proof. intros H1 H2 e [<-|[]]. split; assumption. Qed.

Lemma t_insert_or_update_sub t k v conn inc :
  TCInv t -> WF (k, v) -> TCInv (fst (t_insert_or_update c t k v conn inc now)).
Proof.
  intros HT Hwf. unfold t_insert_or_update.
  destruct (bucket_index (local t) k) as [i|] eqn:Ei; [|exact HT].
  pose proof (bt_applied t i now [] ) as HA0.
  pose proof (bt_applied t i now [(k, v)]) as HA.
  destruct (applied_bucket c t i now) as [b app]. simpl in HA, HA0.
  destruct (passes_table_filter c t k v) eqn:Hpass; simpl negb; cbv iota.
  - assert (Hset : forall b', BT (local t) i [(k, v)] b b' -> TCInv (set_bucket t i b' app)).
    { intros b' Hb'. apply (tc_set t i [(k, v)]); auto.
      - apply xok_one; assumption.
      - right. exists k, v. split; [reflexivity|exact Hpass]. }
    destruct (position k (nodes b)).
    + pose proof (bt_status (local t) i b k conn (Some inc) now) as H1.
      destruct (b_update_status c b k conn (Some inc) now) as [b1 sr]. simpl in H1.
      pose proof (bt_value (local t) i b1 k v) as H2.
      assert (HS1 : TCInv (set_bucket t i b1 app)) by (apply Hset, bt_weaken, H1).
      assert (HS2 : TCInv (set_bucket t i (fst (b_update_value c b1 k v)) app)).
      { apply Hset. eapply bt_trans; [apply bt_weaken, H1|exact H2]. }
      destruct sr; try exact HS1; (destruct (b_update_value c b1 k v) as [b2 vr]; exact HS2).
    + match goal with |- context [b_insert c b ?n now] =>
        pose proof (bt_insert (local t) i b n now) as H1; destruct (b_insert c b n now) as [b' r] end.
      simpl in *. apply Hset. exact H1.
  - simpl. apply (tc_set t i []); auto; [|intros e []].
    apply HA0. apply bt_remove.
Qed.

Lemma t_update_node_sub t k v state :
  TCInv t -> WF (k, v) -> TCInv (fst (t_update_node c t k v state now)).
Proof.
  intros HT Hwf. unfold t_update_node.
  destruct (bucket_index (local t) k) as [i|] eqn:Ei; [|exact HT].
  pose proof (bt_applied t i now [] ) as HA0.
  pose proof (bt_applied t i now [(k, v)]) as HA.
  destruct (applied_bucket c t i now) as [b app]. simpl in HA, HA0.
  destruct (passes_table_filter c t k v) eqn:Hpass; simpl negb; cbv iota.
  - assert (Hset : forall b', BT (local t) i [(k, v)] b b' -> TCInv (set_bucket t i b' app)).
    { intros b' Hb'. apply (tc_set t i [(k, v)]); auto.
      - apply xok_one; assumption.
      - right. exists k, v. split; [reflexivity|exact Hpass]. }
    pose proof (bt_value (local t) i b k v) as H1.
    destruct (b_update_value c b k v) as [b1 ur]. simpl in H1.
    assert (HS1 : TCInv (set_bucket t i b1 app)) by (apply Hset, H1).
    assert (HS2 : TCInv (set_bucket t i
              (fst (match state with Some s => b_update_status c b1 k s None now | None => (b1, UNotModified) end)) app)).
    { apply Hset. eapply bt_trans; [exact H1|]. destruct state as [s|]; [apply bt_weaken, bt_status|apply bt_refl]. }
    destruct ur; try exact HS1;
      (destruct (match state with Some s => b_update_status c b1 k s None now | None => (b1, UNotModified) end)
         as [b2 sr]; exact HS2).
  - simpl. apply (tc_set t i []); auto; [|intros e []].
    apply HA0. apply bt_remove.
Qed.

Definition not_raw_insert (a : entry_action) : Prop :=
  match a with AInsert _ _ _ => False | _ => True end.

Lemma t_entry_sub t k a :
  TCInv t -> not_raw_insert a -> TCInv (fst (t_entry c t k a now)).
Proof.
  intros HT Ha. unfold t_entry.
  destruct (bucket_index (local t) k) as [i|] eqn:Ei; [|exact HT].
  pose proof (bt_applied t i now [] ) as HA.
  destruct (applied_bucket c t i now) as [b app]. simpl in HA.
  assert (Hset : forall b', BT (local t) i [] b b' -> TCInv (set_bucket t i b' app)).
  { intros b' Hb'. apply (tc_set t i []); auto. intros e []. }
  pose proof (Hset _ (bt_remove (local t) i b k now)) as HR.
  pose proof (Hset _ (bt_refl (local t) i [] b)) as H0.
  destruct (classify b k) as [cc ii|cc ii| |]; destruct a as [|v conn inc|conn dir| |conn inc];
    try exact H0; try exact HR; try (destruct Ha; fail).
  - pose proof (bt_status (local t) i b k conn dir now) as H1.
    destruct (b_update_status c b k conn dir now) as [b' r]. simpl in *. apply Hset. exact H1.
  - simpl. apply Hset. apply bt_update_pending.
Qed.

Lemma t_iter_sub t : TCInv t -> TCInv (fst (t_iter c t now)).
Proof.
  intros HT. destruct (t_iter_buckets c now t) as [Eb El].
  apply (tc_general t _ 0 [] HT).
  - rewrite Eb, map_length. apply HT.
  - exact El.
  - intros j. assert (E : get_bucket (fst (t_iter c t now)) j = fst (b_apply_pending c (get_bucket t j) now)).
    { unfold get_bucket. rewrite Eb. rewrite <- (apply_pending_empty c now) at 1.
      apply (map_nth (fun b => fst (b_apply_pending c b now))). }
    rewrite E. destruct (Nat.eqb j 0); apply bt_apply.
  - intros e [].
  - left; reflexivity.
Qed.

Lemma t_take_applied_sub t : TCInv t -> TCInv (fst (t_take_applied t)).
Proof.
  intros HT. unfold t_take_applied. destruct (applied t); [exact HT|]. simpl.
  apply (tc_general t _ 0 [] HT); try reflexivity.
  - apply HT.
  - intros j. destruct (Nat.eqb j 0); apply bt_refl.
  - intros e [].
  - left; reflexivity.
Qed.

Lemma nbd_apply_sub ds : forall t cnt maxn, TCInv t -> TCInv (nbd_apply c t ds cnt maxn now).
Proof.
  induction ds as [|d ds IH]; intros t cnt maxn HT; [exact HT|]. cbn [nbd_apply].
  pose proof (bt_apply (local t) (N.to_nat (d - 1)) (get_bucket t (N.to_nat (d - 1))) now) as HB.
  destruct (b_apply_pending c (get_bucket t (N.to_nat (d - 1))) now) as [b a]. simpl in HB.
  assert (Hset : forall app, TCInv (set_bucket t (N.to_nat (d - 1)) b app)).
  { intros app. apply (tc_set t _ []); auto. intros e []. }
  destruct a as [x|].
  - destruct (Nat.leb maxn (cnt + length (nodes b))); [|apply IH]; apply Hset.
  - apply IH. apply Hset.
Qed.

Lemma closest_walk_sub target order : forall t,
  TCInv t -> TCInv (fst (closest_walk c t target order now)).
Proof.
  induction order as [|i order IH]; intros t HT; [exact HT|]. cbn [closest_walk].
  pose proof (bt_applied t i now [] ) as HA.
  destruct (applied_bucket c t i now) as [b app]. simpl in HA.
  assert (H1 : TCInv (set_bucket t i b app)).
  { apply (tc_set t i []); auto; [apply HA, bt_refl|intros e []]. }
  specialize (IH _ H1).
  destruct (closest_walk c (set_bucket t i b app) target order now) as [t2 out]. exact IH.
Qed.

Lemma t_force_ready_sub t i : TCInv t -> TCInv (t_force_ready t i now).
Proof.
  intros HT. unfold t_force_ready. destruct (pend (get_bucket t i)) as [p|] eqn:Ep; [|exact HT].
  apply (tc_set t i []); auto; [|intros e []]. apply bt_force_ready. exact Ep.
Qed.

(* well-formedness of the (key, value) pairs an operation carries; the raw Entry API insertion
   (AbsentEntry::insert), documented as bypassing the filters, is excluded *)
Definition op_ok (o : op) : Prop :=
  match o with
  | OInsertOrUpdate k v _ _ => WF (k, v)
  | OUpdateNode k v _ => WF (k, v)
  | OEntry _ a => not_raw_insert a
  | _ => True
  end.

Lemma step_sub fixed t o : TCInv t -> op_ok o -> TCInv (fst (step fixed c t o now)).
Proof.
  intros HT Hok. destruct o; simpl in *.
  - pose proof (t_insert_or_update_sub t k v conn inc HT Hok). destruct (t_insert_or_update c t k v conn inc now); assumption.
  - pose proof (t_update_node_status_sub t k conn dir HT). destruct (t_update_node_status c t k conn dir now); assumption.
  - pose proof (t_update_node_sub t k v state HT Hok). destruct (t_update_node c t k v state now); assumption.
  - pose proof (t_remove_sub t k HT). destruct (t_remove c t k now); assumption.
  - pose proof (t_entry_sub t k a HT Hok). destruct (t_entry c t k a now); assumption.
  - pose proof (t_iter_sub t HT). destruct (t_iter c t now); assumption.
  - pose proof (t_take_applied_sub t HT). destruct (t_take_applied t); assumption.
  - unfold t_nodes_by_distances. simpl. apply nbd_apply_sub. exact HT.
  - pose proof (closest_walk_sub target (bucket_order fixed (N.lxor (local t) target)) t HT) as H.
    unfold t_closest. destruct (closest_walk c t target _ now); assumption.
  - apply t_force_ready_sub. exact HT.
Qed.

End Ops.

Lemma tc_new loc : TCInv (new_table loc).
Proof.
  split; [apply TInv_new|].
  assert (E : forall n, flat_map bentries (repeat empty_bucket n) = []) by (induction n; simpl; auto).
  assert (E2 : forall n, flat_map bucket_values (repeat empty_bucket n) = []) by (induction n; simpl; auto).
  split.
  - unfold tentries, new_table. cbn [buckets]. rewrite E. intros e [].
  - intros s. split.
    + unfold table_values, new_table. cbn [buckets]. rewrite E2. unfold count. simpl. lia.
    + intros i.
      assert (Eb : get_bucket (new_table loc) i = empty_bucket).
      { unfold get_bucket, new_table. cbn [buckets]. generalize NB. intros n. revert i.
        induction n as [|n IH]; intros [|i]; simpl; auto. }
      rewrite Eb. unfold count. simpl. lia.
Qed.

Theorem run_sub fixed ops : forall t,
  TCInv t -> Forall (fun x => op_ok (fst x)) ops -> TCInv (fst (run fixed c t ops)).
Proof.
  induction ops as [|[o now] ops IH]; intros t HT Hok; [exact HT|]. cbn [run].
  inversion Hok; subst. simpl in H1.
  pose proof (step_sub now fixed t o HT H1) as HS.
  destruct (step fixed c t o now) as [t1 r]. simpl in HS. specialize (IH t1 HS H2).
  destruct (run fixed c t1 ops) as [t2 rs]. exact IH.
Qed.

End Subnet.

(* ------------------------------------------------------------------------------------------ *)
(* The theorems *)

(* One step: the subnet limits, the C07 invariant and the well-formedness of the stored records
   are preserved by every operation except the raw Entry-API insertion. *)
Theorem step_subnet owner subof c fixed t o now :
  bfilter c = Some ip_bucket_filter -> tfilter c = Some ip_table_filter ->
  TCInv owner subof c t -> op_ok owner subof o ->
  TCInv owner subof c (fst (step fixed c t o now)).
Proof. intros Hb Ht. apply step_sub; assumption. Qed.

(* All reachable tables: whatever the order of insertions, record updates, status changes,
   removals, iterations (which promote pending nodes) and times *)
Theorem reachable_subnet owner subof c fixed loc ops :
  bfilter c = Some ip_bucket_filter -> tfilter c = Some ip_table_filter ->
  Forall (fun x => op_ok owner subof (fst x)) ops ->
  SubnetInv (fst (run fixed c (new_table loc) ops)).
Proof.
  intros Hb Ht Hok. apply (run_sub owner subof c Hb Ht fixed ops (new_table loc)); [apply tc_new|exact Hok].
Qed.
