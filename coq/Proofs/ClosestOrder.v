(* C08, part 1: the sequence of bucket indices produced by ClosestBucketsIter.
   - closed form of the (repaired) iteration: highest set bit first, then the remaining set bits in
     descending order, then the clear bits in ascending order;
   - hence it is a permutation of 0..NB-1 and strongly sorted by [before d];
   - the pinned (unrepaired) iteration yields bucket 0 twice whenever bit 0 of d is set or d <= 1. *)
From Coq Require Import List Arith NArith Lia Bool Permutation Sorted.
From Discv5V Require Import Generated.Params Lib.ListX Lib.NBits Model.KBucket.
Import ListNotations.

Definition setb (d : N) (j : nat) : bool := N.testbit d (N.of_nat j).
Definition clrb (d : N) (j : nat) : bool := negb (N.testbit d (N.of_nat j)).

Definition ins (d : N) (i : nat) : list nat := rev (filter (setb d) (seq 0 i)).
Definition outs (d : N) (j n : nat) : list nat := filter (clrb d) (seq j n).

Lemma ins_S d j : ins d (S j) = if setb d j then j :: ins d j else ins d j.
Proof.
  unfold ins. rewrite seq_S, filter_app, rev_app_distr. simpl.
  destruct (setb d j); reflexivity.
Qed.

Lemma next_in_ins d i :
  match next_in d i with
  | Some j => j < i /\ ins d i = j :: ins d j
  | None => ins d i = []
  end.
Proof.
  induction i as [|j IH]; simpl; [reflexivity|].
  rewrite ins_S. unfold setb.
  destruct (N.testbit d (N.of_nat j)).
  - split; [lia|reflexivity].
  - destruct (next_in d j) as [k|]; [|exact IH].
    destruct IH as [H1 H2]. split; [lia|exact H2].
Qed.

Lemma outs_S d j n :
  outs d j (S n) = if N.testbit d (N.of_nat j) then outs d (S j) n else j :: outs d (S j) n.
Proof. unfold outs. simpl. unfold clrb at 1. destruct (N.testbit d (N.of_nat j)); reflexivity. Qed.

Lemma next_out_from_outs d n : forall j,
  match next_out_from d j n with
  | None => outs d j n = []
  | Some k => exists m, k = j + m /\ m < n /\ outs d j n = k :: outs d (S k) (n - S m)
  end.
Proof.
  induction n as [|n IH]; intros j; [reflexivity|].
  cbn [next_out_from]. rewrite outs_S.
  destruct (N.testbit d (N.of_nat j)) eqn:E.
  - specialize (IH (S j)). destruct (next_out_from d (S j) n) as [k|].
    + destruct IH as (m & H1 & H2 & H3). exists (S m). repeat split; try lia. exact H3.
    + exact IH.
  - exists 0. split; [lia|]. split; [lia|]. rewrite Nat.sub_1_r. reflexivity.
Qed.

(* running from ZoomOut: the clear bits above i, ascending; independent of [fixed] *)
Lemma crun_zoomout fx d : forall n i f,
  NB - S i = n -> n < f ->
  crun fx d (CZoomOut i) f = outs d (S i) n.
Proof.
  induction n as [n IH] using lt_wf_ind. intros i f Hn Hf.
  destruct f as [|f]; [lia|]. cbn [crun cnext]. unfold next_out. rewrite Hn.
  pose proof (next_out_from_outs d n (S i)) as H.
  destruct (next_out_from d (S i) n) as [k|].
  - destruct H as (m & H1 & H2 & H3). rewrite H3. f_equal.
    apply IH; lia.
  - rewrite H. reflexivity.
Qed.

(* the clear bits from 0: what follows the zoom-in phase *)
Definition tail_part (d : N) : list nat := outs d 0 NB.

Lemma NB_pos : 0 < NB.
Proof. vm_compute. lia. Qed.

Lemma NB_N : N.of_nat NB = NUM_BUCKETS.
Proof. reflexivity. Qed.

Lemma log2_lt_NB d : d <> 0%N -> (d < 2 ^ NUM_BUCKETS)%N -> N.to_nat (N.log2 d) < NB.
Proof.
  intros Hd Hlt. assert (N.log2 d < NUM_BUCKETS)%N by (apply N.log2_lt_pow2; [lia|exact Hlt]).
  pose proof NB_N. lia.
Qed.

Lemma tail_part_unfold d :
  tail_part d = if setb d 0 then outs d 1 (NB - 1) else 0 :: outs d 1 (NB - 1).
Proof.
  unfold tail_part, outs. pose proof NB_pos. destruct NB as [|n]; [lia|].
  simpl. rewrite Nat.sub_0_r. unfold clrb at 1, setb. simpl.
  destruct (N.testbit d 0); reflexivity.
Qed.

From Discv5V Require Import Lib.SortedX.

Definition beforeN (d : N) (i j : nat) : Prop := before d (N.of_nat i) (N.of_nat j).

Lemma in_ins d i k : In k (ins d i) <-> k < i /\ setb d k = true.
Proof.
  unfold ins. rewrite <- in_rev, filter_In, in_seq. intuition lia.
Qed.

Lemma in_outs d j n k : In k (outs d j n) <-> (j <= k < j + n) /\ setb d k = false.
Proof.
  unfold outs. rewrite filter_In, in_seq. unfold clrb, setb.
  destruct (N.testbit d (N.of_nat k)); simpl; intuition congruence.
Qed.

Lemma ins_sorted d i : StronglySorted (beforeN d) (ins d i).
Proof.
  unfold ins.
  apply SS_impl_in with (R := fun x y => y < x).
  - intros x y Hx Hy Hlt. apply in_rev, filter_In in Hx. apply in_rev, filter_In in Hy.
    left. unfold setb in *. repeat split; try tauto. lia.
  - apply (SS_rev lt). apply SS_filter. apply SS_seq.
Qed.

Lemma outs_sorted d j n : StronglySorted (beforeN d) (outs d j n).
Proof.
  unfold outs.
  apply SS_impl_in with (R := lt).
  - intros x y Hx Hy Hlt. apply filter_In in Hx. apply filter_In in Hy.
    right. right. unfold clrb in *.
    destruct Hx as [_ Hx], Hy as [_ Hy]. apply negb_true_iff in Hx, Hy.
    repeat split; try assumption. lia.
  - apply SS_filter. apply SS_seq.
Qed.

Lemma tail_part_filter d : tail_part d = filter (fun x => negb (setb d x)) (seq 0 NB).
Proof. unfold tail_part, outs, clrb, setb. reflexivity. Qed.

(* From here on [outs] is only used through its lemmas.  Making it opaque also fixes the order in
   which the kernel unfolds constants: comparing [tail_part d] with [outs d 0 NB] by unfolding
   [outs] first walks a 256-level tree of if-then-else without sharing. *)
Global Opaque outs.

(* zoom-in phase of the repaired iterator, started at a bucket that has just been yielded *)
Lemma crun_zoomin d : forall i f,
  i + NB + 2 <= f ->
  (i = 0 -> setb d 0 = true) ->
  crun true d (CZoomIn i) f = ins d i ++ tail_part d.
Proof.
  induction i as [i IH] using lt_wf_ind. intros f Hf H0.
  destruct f as [|f]; [lia|]. cbn [crun cnext].
  pose proof (next_in_ins d i) as Hn.
  destruct (next_in d i) as [j|].
  - destruct Hn as [Hlt Hins]. rewrite Hins. cbn [app]. f_equal.
    apply IH; try lia.
    intros ->.
    assert (In 0 (ins d i)) as H by (rewrite Hins; left; reflexivity).
    unfold ins in H. apply in_rev in H. apply filter_In in H. tauto.
  - rewrite Hn. cbn [app].
    destruct (Nat.eqb i 0) eqn:Ei.
    + apply Nat.eqb_eq in Ei. subst i. cbn [andb].
      pose proof (crun_zoomout true d (NB - 1) 0 (S f)) as Hz.
      cbn [crun cnext] in Hz. rewrite Hz by lia.
      rewrite tail_part_unfold, (H0 eq_refl). reflexivity.
    + cbn [andb]. apply Nat.eqb_neq in Ei.
      rewrite (crun_zoomout true d (NB - 1) 0 f) by lia.
      rewrite tail_part_unfold.
      destruct (setb d 0) eqn:B; [|reflexivity]. exfalso.
      assert (In 0 (filter (setb d) (seq 0 i))) as H
        by (apply filter_In; split; [apply in_seq; lia|exact B]).
      unfold ins in Hn. apply (f_equal (@rev nat)) in Hn. rewrite rev_involutive in Hn.
      simpl in Hn. rewrite Hn in H. destruct H.
Qed.

(* closed form of the repaired iteration *)
Definition order_spec (d : N) : list nat :=
  if N.eqb d 0 then seq 0 NB
  else let h := N.to_nat (N.log2 d) in h :: ins d h ++ tail_part d.

Lemma order_zero : bucket_order true 0 = seq 0 NB.
Proof. vm_compute. reflexivity. Qed.

Theorem bucket_order_closed_form d :
  (d < 2 ^ NUM_BUCKETS)%N -> bucket_order true d = order_spec d.
Proof.
  intros Hd. unfold order_spec. destruct (N.eqb d 0) eqn:E.
  - apply N.eqb_eq in E. subst d. apply order_zero.
  - apply N.eqb_neq in E. unfold bucket_order, cstart.
    apply N.eqb_neq in E. rewrite E. apply N.eqb_neq in E.
    set (h := N.to_nat (N.log2 d)).
    assert (Hh : h < NB) by (apply log2_lt_NB; assumption).
    replace (2 * NB + 2) with (S (2 * NB + 1)) by lia. cbn [crun cnext]. f_equal.
    apply crun_zoomin; [lia|].
    intros Hz. unfold setb. simpl.
    assert (N.log2 d = 0%N) as Hl by (unfold h in Hz; lia).
    rewrite <- Hl. apply N.bit_log2. exact E.
Qed.

(* ------------------------------------------------------------------------------------------ *)
(* Permutation and order *)

Lemma set_bits_split d :
  d <> 0%N -> (d < 2 ^ NUM_BUCKETS)%N ->
  let h := N.to_nat (N.log2 d) in
  filter (setb d) (seq 0 NB) = filter (setb d) (seq 0 h) ++ [h].
Proof.
  intros Hd Hlt h.
  assert (Hh : h < NB) by (apply log2_lt_NB; assumption).
  replace NB with (h + S (NB - S h)) by lia.
  rewrite seq_app, filter_app. f_equal. simpl.
  assert (setb d h = true) as ->.
  { unfold setb, h. rewrite N2Nat.id. apply N.bit_log2. exact Hd. }
  f_equal.
  assert (forall l, (forall k, In k l -> h < k) -> filter (setb d) l = []) as Hnil.
  { induction l as [|a l IH]; simpl; intros Hl; [reflexivity|].
    assert (setb d a = false) as ->.
    { unfold setb. apply N.bits_above_log2. specialize (Hl a (or_introl eq_refl)). unfold h in Hl. lia. }
    apply IH. intros k Hk. apply Hl. right. exact Hk. }
  apply Hnil. intros k Hk. apply in_seq in Hk. lia.
Qed.

Theorem order_spec_perm d :
  (d < 2 ^ NUM_BUCKETS)%N -> Permutation (order_spec d) (seq 0 NB).
Proof.
  intros Hlt. unfold order_spec. destruct (N.eqb d 0) eqn:E; [reflexivity|].
  apply N.eqb_neq in E. set (h := N.to_nat (N.log2 d)).
  eapply Permutation_trans; [|apply (filter_split_perm (setb d))].
  change (h :: ins d h ++ tail_part d) with ((h :: ins d h) ++ tail_part d).
  apply Permutation_app; [|rewrite tail_part_filter; reflexivity].
  rewrite (set_bits_split d E Hlt). fold h. unfold ins.
  eapply Permutation_trans; [apply Permutation_cons_append|].
  apply Permutation_app; [|reflexivity]. apply Permutation_sym, Permutation_rev.
Qed.

Lemma seq_sorted_zero n : StronglySorted (beforeN 0) (seq 0 n).
Proof.
  apply SS_impl_in with (R := lt); [|apply SS_seq].
  intros x y _ _ H. right. right. rewrite !N.bits_0. repeat split; lia.
Qed.

Lemma order_nonzero_sorted d h :
  setb d h = true ->
  StronglySorted (beforeN d) (h :: ins d h ++ tail_part d).
Proof.
  intros Hset.
  constructor.
  + apply SS_app; [apply ins_sorted|apply outs_sorted|].
    intros x y Hx Hy. apply in_ins in Hx. apply in_outs in Hy.
    right. left. unfold setb in *. tauto.
  + apply Forall_app. split; apply Forall_forall; intros k Hk.
    * apply in_ins in Hk. left. unfold setb in *. repeat split; try tauto. lia.
    * apply in_outs in Hk. right. left. unfold setb in *. tauto.
Qed.

Theorem order_spec_sorted d :
  (d < 2 ^ NUM_BUCKETS)%N -> StronglySorted (beforeN d) (order_spec d).
Proof.
  intros Hlt. unfold order_spec. destruct (N.eqb d 0) eqn:E.
  - apply N.eqb_eq in E. subst d. apply seq_sorted_zero.
  - apply N.eqb_neq in E. apply order_nonzero_sorted.
    unfold setb. rewrite N2Nat.id. apply N.bit_log2. exact E.
Qed.

(* The pinned (unrepaired) iteration: bucket 0 is yielded twice whenever bit 0 of d is set. *)
Fixpoint nodupb (l : list nat) : bool :=
  match l with [] => true | x :: r => negb (existsb (Nat.eqb x) r) && nodupb r end.

Lemma NoDup_nodupb l : NoDup l -> nodupb l = true.
Proof.
  induction 1 as [|x l Hn _ IH]; simpl; [reflexivity|]. rewrite IH, andb_true_r.
  apply negb_true_iff. destruct (existsb (Nat.eqb x) l) eqn:E; [|reflexivity].
  apply existsb_exists in E. destruct E as (y & Hy & Hxy). apply Nat.eqb_eq in Hxy. subst. contradiction.
Qed.

Lemma pinned_order_refuted :
  exists d, (d < 2 ^ NUM_BUCKETS)%N /\ ~ NoDup (bucket_order false d).
Proof.
  exists 3%N. split; [reflexivity|].
  intro H. apply NoDup_nodupb in H. vm_compute in H. discriminate.
Qed.
