(* Lemmas about the RLP model (Model/Rlp.v): round trips (decode after encode), totality (no
   Panic, no EFuel), and canonicity (an accepted byte string is the encoding of what it decodes to). *)
From Coq Require Import List Arith NArith Bool Lia.
From Discv5V Require Import Model.Rlp.
Import ListNotations.
Local Open Scope N_scope.
Local Open Scope res_scope.

Definition byte_ok (b : N) : Prop := b < 256.
Definition bytes_ok (l : bytes) : Prop := Forall byte_ok l.

(* ------------------------------------------------------------------------------------------ *)
(* lists, len, split_at *)

Lemma len_nil : len [] = 0.
Proof. reflexivity. Qed.

Lemma len_cons : forall x l, len (x :: l) = len l + 1.
Proof. intros. unfold len. cbn [length]. lia. Qed.

Lemma len_app : forall a b, len (a ++ b) = len a + len b.
Proof. intros. unfold len. rewrite app_length. lia. Qed.

Lemma len_0 : forall l, len l = 0 -> l = [].
Proof. intros [|x l] H; [reflexivity|]. rewrite len_cons in H. lia. Qed.

Lemma len_to_nat : forall l, N.to_nat (len l) = length l.
Proof. intros. unfold len. lia. Qed.

Lemma firstn_app_exact : forall A (a b : list A), firstn (length a) (a ++ b) = a.
Proof. intros. rewrite firstn_app, Nat.sub_diag, firstn_all. cbn. apply app_nil_r. Qed.

Lemma skipn_app_exact : forall A (a b : list A), skipn (length a) (a ++ b) = b.
Proof. intros. rewrite skipn_app, Nat.sub_diag, skipn_all. reflexivity. Qed.

Lemma split_at_app : forall a b, split_at (len a) (a ++ b) = Some (a, b).
Proof.
  intros. unfold split_at. rewrite len_app.
  destruct (N.ltb_spec (len a + len b) (len a)); [lia|].
  rewrite len_to_nat, firstn_app_exact, skipn_app_exact. reflexivity.
Qed.

Lemma split_at_app_n : forall n a b, n = len a -> split_at n (a ++ b) = Some (a, b).
Proof. intros; subst; apply split_at_app. Qed.

Lemma split_at_some : forall n buf a b,
  split_at n buf = Some (a, b) -> buf = a ++ b /\ len a = n.
Proof.
  unfold split_at. intros n buf a b H.
  destruct (N.ltb_spec (len buf) n); [discriminate|]. inversion H; subst; clear H.
  split; [symmetry; apply firstn_skipn|].
  unfold len in *. rewrite firstn_length. lia.
Qed.

Lemma split_at_none : forall n buf, split_at n buf = None -> len buf < n.
Proof. unfold split_at. intros n buf H. destruct (N.ltb_spec (len buf) n); [assumption|discriminate]. Qed.

Lemma split_at_le : forall n buf, n <= len buf -> exists a b, split_at n buf = Some (a, b).
Proof.
  intros. unfold split_at. destruct (N.ltb_spec (len buf) n); [lia|]. eauto.
Qed.

Lemma bytes_ok_app : forall a b, bytes_ok (a ++ b) <-> bytes_ok a /\ bytes_ok b.
Proof. intros. apply Forall_app. Qed.

Lemma bytes_eqb_eq : forall a b, bytes_eqb a b = true <-> a = b.
Proof.
  induction a as [|x a IH]; intros [|y b]; cbn; split; intro H; try discriminate; try reflexivity.
  - apply andb_true_iff in H. destruct H as [H1 H2]. apply N.eqb_eq in H1. apply IH in H2. congruence.
  - inversion H; subst. rewrite N.eqb_refl. cbn. apply IH. reflexivity.
Qed.

(* ------------------------------------------------------------------------------------------ *)
(* big-endian arithmetic *)

Lemma be_to_N_acc : forall l a,
  fold_left (fun a b => a * 256 + b) l a = a * 256 ^ len l + be_to_N l.
Proof.
  unfold be_to_N. induction l as [|x l IH]; intro a.
  - change (len []) with 0. cbn [fold_left]. rewrite N.pow_0_r. lia.
  - cbn [fold_left]. rewrite IH. rewrite (IH (0 * 256 + x)). rewrite len_cons.
    rewrite N.pow_add_r. cbn. lia.
Qed.

Lemma be_to_N_cons : forall x l, be_to_N (x :: l) = x * 256 ^ len l + be_to_N l.
Proof. intros. unfold be_to_N at 1. cbn [fold_left]. rewrite be_to_N_acc. lia. Qed.

Lemma be_to_N_snoc : forall l b, be_to_N (l ++ [b]) = be_to_N l * 256 + b.
Proof. intros. unfold be_to_N. rewrite fold_left_app. reflexivity. Qed.

Lemma be_to_N_zero_cons : forall l, be_to_N (0 :: l) = be_to_N l.
Proof. intros. rewrite be_to_N_cons. lia. Qed.

Lemma be_to_N_drop_zeros : forall l, be_to_N (drop_zeros l) = be_to_N l.
Proof.
  induction l as [|x l IH]; [reflexivity|].
  cbn [drop_zeros]. destruct x; [|reflexivity]. rewrite IH, be_to_N_zero_cons. reflexivity.
Qed.

Lemma be_to_N_bound : forall l, bytes_ok l -> be_to_N l < 256 ^ len l.
Proof.
  induction l as [|b l IH] using rev_ind; intro H.
  - cbn. lia.
  - apply bytes_ok_app in H. destruct H as [Hl Hb]. inversion Hb; subst. unfold byte_ok in *.
    rewrite be_to_N_snoc, len_app. specialize (IH Hl).
    replace (len [b]) with 1 by reflexivity. rewrite N.pow_add_r. cbn. lia.
Qed.

Lemma be_bytes_length : forall n x, length (be_bytes n x) = n.
Proof. induction n; intro x; cbn; [reflexivity|]. rewrite app_length, IHn. cbn. lia. Qed.

Lemma be_bytes_ok : forall n x, bytes_ok (be_bytes n x).
Proof.
  induction n; intro x; cbn; [constructor|].
  apply bytes_ok_app. split; [apply IHn|]. constructor; [|constructor].
  unfold byte_ok. apply N.mod_lt. lia.
Qed.

Lemma be_to_N_be_bytes : forall n x, be_to_N (be_bytes n x) = x mod 256 ^ N.of_nat n.
Proof.
  induction n; intro x.
  - cbn. rewrite N.mod_1_r. reflexivity.
  - cbn [be_bytes]. rewrite be_to_N_snoc, IHn.
    rewrite Nat2N.inj_succ, N.pow_succ_r'.
    rewrite N.mod_mul_r by (try apply N.pow_nonzero; lia). lia.
Qed.

Lemma be_to_N_be_bytes_small : forall n x, x < 256 ^ N.of_nat n -> be_to_N (be_bytes n x) = x.
Proof. intros. rewrite be_to_N_be_bytes. apply N.mod_small. assumption. Qed.

Lemma drop_zeros_suffix : forall l, exists k, l = repeat 0 k ++ drop_zeros l.
Proof.
  induction l as [|x l [k IH]]; [exists O; reflexivity|].
  cbn [drop_zeros]. destruct x.
  - exists (S k). cbn. f_equal. assumption.
  - exists O. reflexivity.
Qed.

Lemma drop_zeros_length : forall l, (length (drop_zeros l) <= length l)%nat.
Proof.
  intro l. destruct (drop_zeros_suffix l) as [k H]. rewrite H at 2. rewrite app_length. lia.
Qed.

Lemma drop_zeros_ok : forall l, bytes_ok l -> bytes_ok (drop_zeros l).
Proof.
  intros l H. destruct (drop_zeros_suffix l) as [k E]. rewrite E in H.
  apply bytes_ok_app in H. tauto.
Qed.

Lemma drop_zeros_head : forall l, drop_zeros l = [] \/ exists b t, drop_zeros l = b :: t /\ b <> 0.
Proof.
  induction l as [|x l IH]; [left; reflexivity|].
  cbn [drop_zeros]. destruct x; [assumption|]. right. eexists _, _. split; [reflexivity|lia].
Qed.

Lemma drop_zeros_nonzero_head : forall b t, b <> 0 -> drop_zeros (b :: t) = b :: t.
Proof. intros b t H. destruct b; [congruence|reflexivity]. Qed.

Lemma drop_zeros_repeat : forall k l, drop_zeros (repeat 0 k ++ l) = drop_zeros l.
Proof. induction k; intro l; [reflexivity|]. cbn. apply IHk. Qed.

(* the facts about to_be_bytes_trimmed used below *)
Lemma be_trimmed_value : forall w x, x < 256 ^ N.of_nat w -> be_to_N (be_trimmed w x) = x.
Proof. intros. unfold be_trimmed. rewrite be_to_N_drop_zeros. apply be_to_N_be_bytes_small. assumption. Qed.

Lemma be_trimmed_length : forall w x, (length (be_trimmed w x) <= w)%nat.
Proof. intros. unfold be_trimmed. etransitivity; [apply drop_zeros_length|]. rewrite be_bytes_length. lia. Qed.

Lemma be_trimmed_ok : forall w x, bytes_ok (be_trimmed w x).
Proof. intros. apply drop_zeros_ok, be_bytes_ok. Qed.

Lemma be_trimmed_head : forall w x, 0 < x -> x < 256 ^ N.of_nat w ->
  exists b t, be_trimmed w x = b :: t /\ b <> 0.
Proof.
  intros w x H0 H. destruct (drop_zeros_head (be_bytes w x)) as [E|E]; [|exact E].
  exfalso. pose proof (be_trimmed_value w x H) as V. unfold be_trimmed in V. rewrite E in V. cbn in V. lia.
Qed.

Lemma be_trimmed_single : forall w x b, be_trimmed w x = [b] -> x < 256 ^ N.of_nat w -> b = x.
Proof.
  intros w x b E H. pose proof (be_trimmed_value w x H) as V. rewrite E in V. cbn in V. lia.
Qed.

Lemma be_bytes_zero : forall n, be_bytes n 0 = repeat 0 n.
Proof.
  induction n; [reflexivity|]. cbn [be_bytes]. replace (0 / 256) with 0 by reflexivity.
  rewrite IHn. replace (0 mod 256) with 0 by reflexivity.
  change [0] with (repeat 0 1). rewrite <- repeat_app. f_equal. lia.
Qed.

Lemma div256 : forall a b, b < 256 -> (a * 256 + b) / 256 = a.
Proof. intros. rewrite N.div_add_l by lia. rewrite N.div_small by assumption. lia. Qed.
Lemma mod256 : forall a b, b < 256 -> (a * 256 + b) mod 256 = b.
Proof. intros. rewrite N.add_comm, N.mod_add by lia. apply N.mod_small. assumption. Qed.

(* to_be_bytes of from_be_bytes: left padding with zeros *)
Lemma be_bytes_be_to_N : forall l n, bytes_ok l -> (length l <= n)%nat ->
  be_bytes n (be_to_N l) = repeat 0 (n - length l) ++ l.
Proof.
  induction l as [|b l IH] using rev_ind; intros n Hok Hlen.
  - cbn [be_to_N fold_left length]. rewrite be_bytes_zero, Nat.sub_0_r, app_nil_r. reflexivity.
  - apply bytes_ok_app in Hok. destruct Hok as [Hl Hb]. inversion Hb; subst. unfold byte_ok in *.
    rewrite app_length in *. cbn [length] in *.
    destruct n as [|n]; [lia|]. cbn [be_bytes]. rewrite be_to_N_snoc.
    rewrite div256, mod256 by assumption.
    rewrite IH by (assumption || lia). rewrite <- app_assoc. do 2 f_equal. lia.
Qed.

Lemma be_trimmed_be_to_N : forall w b t, bytes_ok (b :: t) -> b <> 0 -> (length (b :: t) <= w)%nat ->
  be_trimmed w (be_to_N (b :: t)) = b :: t.
Proof.
  intros w b t Hok Hb Hlen. unfold be_trimmed. rewrite be_bytes_be_to_N by assumption.
  rewrite drop_zeros_repeat. apply drop_zeros_nonzero_head. assumption.
Qed.

Lemma pow256_8 : 256 ^ N.of_nat 8 = 18446744073709551616.
Proof. reflexivity. Qed.
Lemma pow256_2 : 256 ^ N.of_nat 2 = 65536.
Proof. reflexivity. Qed.

Lemma be_to_N_lower : forall b t, b <> 0 -> 256 ^ len t <= be_to_N (b :: t).
Proof.
  intros. rewrite be_to_N_cons.
  assert (1 * 256 ^ len t <= b * 256 ^ len t) by (apply N.mul_le_mono_r; lia). lia.
Qed.

(* ------------------------------------------------------------------------------------------ *)
(* static_left_pad *)

Lemma static_left_pad_trimmed : forall w x, x < 256 ^ N.of_nat w ->
  static_left_pad w (be_trimmed w x) = Ok x.
Proof.
  intros w x H. unfold static_left_pad.
  pose proof (be_trimmed_length w x) as L.
  destruct (Nat.ltb_spec w (length (be_trimmed w x))); [lia|].
  destruct (N.eq_dec x 0) as [->|Hx].
  - unfold be_trimmed. rewrite be_bytes_zero. replace (drop_zeros (repeat 0 w)) with (@nil N); [reflexivity|].
    rewrite <- (app_nil_r (repeat 0 w)), drop_zeros_repeat. reflexivity.
  - destruct (be_trimmed_head w x) as (b & t & E & Hb); [lia|assumption|].
    pose proof (be_trimmed_value w x H) as V. rewrite E in *.
    destruct (N.eqb_spec b 0); [congruence|]. rewrite V. reflexivity.
Qed.

Lemma static_left_pad_single : forall w x, (1 <= w)%nat -> x <> 0 -> static_left_pad w [x] = Ok x.
Proof.
  intros w x Hw Hx. unfold static_left_pad. destruct (Nat.ltb_spec w (length [x])); [cbn in *; lia|].
  destruct (N.eqb_spec x 0); [congruence|]. unfold be_to_N. cbn. reflexivity.
Qed.

Lemma static_left_pad_not_panic : forall w d, static_left_pad w d <> Panic.
Proof.
  intros w d. unfold static_left_pad. destruct (Nat.ltb w (length d)); [discriminate|].
  destruct d; [discriminate|]. destruct (n =? 0); discriminate.
Qed.

Lemma static_left_pad_not_fuel : forall w d, static_left_pad w d <> Err EFuel.
Proof.
  intros w d. unfold static_left_pad. destruct (Nat.ltb w (length d)); [discriminate|].
  destruct d; [discriminate|]. destruct (n =? 0); discriminate.
Qed.

(* canonical: what static_left_pad accepts is the trimmed big-endian form of the value *)
Lemma static_left_pad_ok : forall w d v, bytes_ok d -> static_left_pad w d = Ok v ->
  d = be_trimmed w v /\ v < 256 ^ N.of_nat w.
Proof.
  intros w d v Hok. unfold static_left_pad.
  destruct (Nat.ltb_spec w (length d)); [discriminate|].
  destruct d as [|b t].
  - intro E; inversion E; subst. split.
    + unfold be_trimmed. rewrite be_bytes_zero. rewrite <- (app_nil_r (repeat 0 w)), drop_zeros_repeat. reflexivity.
    + apply N.neq_0_lt_0, N.pow_nonzero. lia.
  - destruct (N.eqb_spec b 0); [discriminate|]. intro E; inversion E; subst. split.
    + symmetry. apply be_trimmed_be_to_N; assumption.
    + eapply N.lt_le_trans; [apply be_to_N_bound; assumption|].
      apply N.pow_le_mono_r; [lia|]. unfold len. lia.
Qed.

(* ------------------------------------------------------------------------------------------ *)
(* headers: decode after encode *)

Ltac ltb_cases :=
  repeat match goal with
  | |- context [N.ltb ?a ?b] => destruct (N.ltb_spec a b); try lia
  | |- context [N.leb ?a ?b] => destruct (N.leb_spec a b); try lia
  | |- context [N.eqb ?a ?b] => destruct (N.eqb_spec a b); try lia
  end.

Lemma encode_header_long : forall list pl, 56 <= pl -> pl < 2 ^ 64 ->
  exists b t, be_trimmed 8 pl = b :: t /\ b <> 0 /\ (length (b :: t) <= 8)%nat /\
              be_to_N (b :: t) = pl /\ bytes_ok (b :: t) /\
              encode_header list pl = ((if list then 247 else 183) + len (b :: t)) :: b :: t.
Proof.
  intros list pl H1 H2. assert (H3 : pl < 256 ^ N.of_nat 8) by (rewrite pow256_8; exact H2).
  destruct (be_trimmed_head 8 pl) as (b & t & E & Hb); [lia|assumption|].
  exists b, t. repeat split; try assumption.
  - rewrite <- E. apply be_trimmed_length.
  - rewrite <- E. apply be_trimmed_value. assumption.
  - rewrite <- E. apply be_trimmed_ok.
  - unfold encode_header. destruct (N.ltb_spec pl 56); [lia|]. rewrite E. reflexivity.
Qed.

(* a list header, or a string header that is not in front of a single byte below 0x80 *)
Lemma decode_header_encode_gen : forall list pl payload,
  pl < 2 ^ 64 ->
  (list = false -> pl = 1 -> exists c t, payload = c :: t /\ 128 <= c) ->
  decode_header (encode_header list pl ++ payload) = check_remaining list pl payload.
Proof.
  intros list pl payload H64 Hsingle.
  destruct (N.ltb_spec pl 56) as [Hs|Hl].
  - (* short form *)
    unfold encode_header. destruct (N.ltb_spec pl 56); [|lia]. cbn [app].
    unfold decode_header. destruct list.
    + destruct (N.ltb_spec (192 + pl) 128); [lia|]. destruct (N.ltb_spec (192 + pl) 184); [lia|].
      destruct (N.ltb_spec (192 + pl) 192); [lia|]. destruct (N.leb_spec 248 (192 + pl)); [lia|].
      cbn [orb]. replace (192 + pl - 192) with pl by lia. reflexivity.
    + destruct (N.ltb_spec (128 + pl) 128); [lia|]. destruct (N.ltb_spec (128 + pl) 184); [|lia].
      replace (128 + pl - 128) with pl in * by lia.
      destruct (N.eqb_spec pl 1); [|reflexivity].
      subst pl. destruct (Hsingle eq_refl eq_refl) as (c & t & -> & Hc).
      destruct (N.ltb_spec c 128); [lia|]. reflexivity.
  - (* long form *)
    destruct (encode_header_long list pl Hl H64) as (b & t & E & Hb & Hlen & Hv & Hok & ->).
    cbn [app]. unfold decode_header.
    assert (Hlen' : 1 <= len (b :: t) <= 8) by (unfold len; cbn [length] in *; lia).
    set (code := (if list then 247 else 183) + len (b :: t)).
    assert (Hcode : if list then 248 <= code <= 255 else 184 <= code <= 191)
      by (unfold code; destruct list; lia).
    destruct (N.ltb_spec code 128); [destruct list; lia|].
    destruct (N.ltb_spec code 184); [destruct list; lia|].
    assert (Hor : (code <? 192) || (248 <=? code) = true).
    { destruct list; [destruct (N.leb_spec 248 code); [apply orb_true_r|lia]
                     |destruct (N.ltb_spec code 192); [reflexivity|lia]]. }
    rewrite Hor.
    assert (Hl2 : (248 <=? code) = list).
    { destruct list; [destruct (N.leb_spec 248 code); [reflexivity|lia]
                     |destruct (N.leb_spec 248 code); [lia|reflexivity]]. }
    rewrite Hl2.
    replace (N.to_nat (code - (if list then 247 else 183))) with (length (b :: t))
      by (unfold code, len; destruct list; lia).
    change (b :: t ++ payload) with ((b :: t) ++ payload).
    destruct (Nat.ltb_spec (length ((b :: t) ++ payload)) (length (b :: t))); [rewrite app_length in *; lia|].
    rewrite firstn_app_exact, skipn_app_exact.
    unfold static_left_pad. destruct (Nat.ltb_spec 8 (length (b :: t))); [lia|].
    destruct (N.eqb_spec b 0); [congruence|]. cbn [bind]. rewrite Hv.
    destruct (N.ltb_spec pl 56); [lia|]. reflexivity.
Qed.

Lemma decode_header_encode : forall list pl payload,
  pl < 2 ^ 64 -> pl <= len payload ->
  (list = false -> pl = 1 -> exists c t, payload = c :: t /\ 128 <= c) ->
  decode_header (encode_header list pl ++ payload) = Ok ({| hlist := list; hlen := pl |}, payload).
Proof.
  intros. rewrite decode_header_encode_gen by assumption. unfold check_remaining.
  destruct (N.ltb_spec (len payload) pl); [lia|reflexivity].
Qed.

Lemma decode_header_encode_short : forall pl payload,
  pl < 2 ^ 64 -> len payload < pl ->
  decode_header (encode_header true pl ++ payload) = Err EInputTooShort.
Proof.
  intros. rewrite decode_header_encode_gen; [|assumption|discriminate]. unfold check_remaining.
  destruct (N.ltb_spec (len payload) pl); [reflexivity|lia].
Qed.

Lemma decode_header_encode_list : forall pl payload,
  pl < 2 ^ 64 -> pl <= len payload ->
  decode_header (encode_header true pl ++ payload) = Ok ({| hlist := true; hlen := pl |}, payload).
Proof. intros. apply decode_header_encode; try assumption. discriminate. Qed.

Lemma encode_header_nonempty : forall list pl, exists b t, encode_header list pl = b :: t.
Proof. intros. unfold encode_header. destruct (pl <? 56); eauto. Qed.

Lemma length_of_length_spec : forall list pl, length_of_length pl = len (encode_header list pl).
Proof.
  intros. unfold length_of_length, encode_header. destruct (pl <? 56); [reflexivity|].
  rewrite len_cons. lia.
Qed.

(* byte strings *)
Lemma decode_bytes_encode : forall s rest, bytes_ok s -> len s < 2 ^ 64 ->
  decode_bytes (encode_bytes s ++ rest) false = Ok (s, rest).
Proof.
  intros s rest Hok H64. unfold decode_bytes.
  assert (Hgen : forall s, len s < 2 ^ 64 ->
            (len s = 1 -> exists c t, s ++ rest = c :: t /\ 128 <= c) ->
            bind (decode_header ((encode_header false (len s) ++ s) ++ rest))
              (fun x => let '(h, rest0) := x in
                 if negb (Bool.eqb (hlist h) false) then Err EUnexpectedList
                 else match split_at (hlen h) rest0 with Some r => Ok r | None => Panic end)
            = Ok (s, rest)).
  { intros s0 H0 Hs. rewrite <- app_assoc. rewrite decode_header_encode; try assumption.
    - cbn [bind hlist hlen Bool.eqb negb]. rewrite split_at_app. reflexivity.
    - rewrite len_app. lia.
    - intros _ H1. apply Hs. assumption. }
  unfold encode_bytes. destruct s as [|b [|b' s']].
  - apply Hgen; [assumption|]. cbn. intro; discriminate.
  - destruct (N.ltb_spec b 128).
    + (* the byte is its own encoding *)
      cbn [app]. unfold decode_header. destruct (N.ltb_spec b 128); [|lia].
      unfold check_remaining. rewrite len_cons. destruct (N.ltb_spec (len rest + 1) 1); [lia|].
      cbn [bind hlist hlen Bool.eqb negb]. change (b :: rest) with ([b] ++ rest).
      rewrite (split_at_app_n 1 [b] rest) by reflexivity. reflexivity.
    + apply (Hgen [b]); [assumption|]. intros _. exists b, rest. split; [reflexivity|assumption].
  - apply Hgen; [assumption|]. rewrite !len_cons. intro; lia.
Qed.

Lemma decode_list_payload_encode : forall payload rest, len payload < 2 ^ 64 ->
  decode_bytes ((encode_header true (len payload) ++ payload) ++ rest) true = Ok (payload, rest).
Proof.
  intros. unfold decode_bytes. rewrite <- app_assoc.
  rewrite decode_header_encode_list; [|assumption|rewrite len_app; lia].
  cbn [bind hlist hlen Bool.eqb negb]. rewrite split_at_app. reflexivity.
Qed.

(* integers *)
Lemma encode_uint_nonempty : forall w x, exists b t, encode_uint w x = b :: t.
Proof. intros. unfold encode_uint. destruct (x =? 0); [eauto|]. destruct (x <? 128); eauto. Qed.

Lemma decode_uint_encode : forall w x rest, (w <= 8)%nat -> x < 256 ^ N.of_nat w ->
  decode_uint w (encode_uint w x ++ rest) = Ok (x, rest).
Proof.
  intros w x rest Hw Hx. unfold decode_uint, encode_uint.
  destruct (N.eqb_spec x 0) as [->|Hx0].
  - (* 0x80: the empty string *)
    cbn [app]. unfold decode_bytes, decode_header. cbn [N.ltb N.compare Pos.compare Pos.compare_cont].
    change (128 <? 128) with false. change (128 <? 184) with true. cbn beta iota.
    change (128 - 128 =? 1) with false. cbn beta iota.
    unfold check_remaining. change (128 - 128) with 0. destruct (N.ltb_spec (len rest) 0); [lia|].
    cbn [bind hlist hlen Bool.eqb negb]. unfold split_at. destruct (N.ltb_spec (len rest) 0); [lia|].
    cbn [N.to_nat firstn skipn]. unfold static_left_pad. cbn [length].
    destruct (Nat.ltb_spec w 0); [lia|]. reflexivity.
  - destruct (N.ltb_spec x 128) as [Hs|Hb].
    + (* a single byte below 0x80 *)
      cbn [app]. unfold decode_bytes, decode_header. destruct (N.ltb_spec x 128); [|lia].
      unfold check_remaining. rewrite len_cons. destruct (N.ltb_spec (len rest + 1) 1); [lia|].
      cbn [bind hlist hlen Bool.eqb negb]. change (x :: rest) with ([x] ++ rest).
      rewrite (split_at_app_n 1 [x] rest) by reflexivity.
      assert (w <> O). { intro; subst w. cbn in Hx. lia. }
      cbn [bind]. rewrite static_left_pad_single by (assumption || lia). reflexivity.
    + (* 0x80 + length, big-endian bytes *)
      destruct (be_trimmed_head w x) as (b & t & E & Hb0); [lia|assumption|].
      pose proof (be_trimmed_length w x) as L. pose proof (be_trimmed_value w x Hx) as V.
      pose proof (be_trimmed_ok w x) as O. rewrite E in *.
      assert (Hlen : 1 <= len (b :: t) <= 8) by (unfold len; cbn [length] in *; lia).
      change (((128 + len (b :: t)) :: b :: t) ++ rest) with ((128 + len (b :: t)) :: ((b :: t) ++ rest)).
      unfold decode_bytes, decode_header.
      destruct (N.ltb_spec (128 + len (b :: t)) 128); [lia|].
      destruct (N.ltb_spec (128 + len (b :: t)) 184); [|lia].
      replace (128 + len (b :: t) - 128) with (len (b :: t)) by lia.
      assert (Hcr : check_remaining false (len (b :: t)) ((b :: t) ++ rest)
                    = Ok ({| hlist := false; hlen := len (b :: t) |}, (b :: t) ++ rest)).
      { unfold check_remaining. rewrite len_app. destruct (N.ltb_spec (len (b :: t) + len rest) (len (b :: t))); [lia|reflexivity]. }
      assert (Hfin : bind (check_remaining false (len (b :: t)) ((b :: t) ++ rest))
                (fun x0 => let '(h, rest0) := x0 in
                   if negb (Bool.eqb (hlist h) false) then Err EUnexpectedList
                   else match split_at (hlen h) rest0 with Some r => Ok r | None => Panic end)
              = Ok (b :: t, rest)).
      { rewrite Hcr. cbn [bind hlist hlen Bool.eqb negb]. rewrite split_at_app. reflexivity. }
      assert (Hpad : static_left_pad w (b :: t) = Ok x).
      { rewrite <- E. apply static_left_pad_trimmed. assumption. }
      destruct (N.eqb_spec (len (b :: t)) 1) as [H1|H1].
      * (* one byte: it must be >= 0x80 *)
        destruct t as [|? ?]; [|rewrite !len_cons in H1; lia].
        assert (b = x) by (apply (be_trimmed_single w x b E Hx)). subst b.
        cbn [app]. destruct (N.ltb_spec x 128); [lia|].
        change (x :: rest) with ([x] ++ rest). rewrite Hfin. cbn [bind]. rewrite Hpad. reflexivity.
      * rewrite Hfin. cbn [bind]. rewrite Hpad. reflexivity.
Qed.

Lemma encode_uint_length_pos : forall w x, (1 <= length (encode_uint w x))%nat.
Proof. intros. destruct (encode_uint_nonempty w x) as (b & t & ->). cbn. lia. Qed.

(* lists of u64 *)
Lemma decode_u64_items_encode : forall ds fuel,
  Forall (fun d => d < 2 ^ 64) ds ->
  (length (concat (map (encode_uint 8) ds)) <= fuel)%nat ->
  decode_u64_items fuel (concat (map (encode_uint 8) ds)) = Ok ds.
Proof.
  induction ds as [|d ds IH]; intros fuel Hds Hfuel.
  - cbn. destruct fuel; reflexivity.
  - inversion Hds; subst. cbn [map concat] in *.
    destruct (encode_uint_nonempty 8 d) as (b & t & E).
    rewrite app_length in Hfuel. pose proof (encode_uint_length_pos 8 d).
    destruct fuel as [|f]; [lia|].
    remember (concat (map (encode_uint 8) ds)) as tail.
    assert (Hne : exists b' t', encode_uint 8 d ++ tail = b' :: t') by (rewrite E; cbn; eauto).
    destruct Hne as (b' & t' & Hne). cbn [decode_u64_items]. rewrite Hne. rewrite <- Hne.
    rewrite decode_uint_encode; [|lia|rewrite pow256_8; assumption].
    cbn [bind]. subst tail. rewrite IH; [reflexivity|assumption|lia].
Qed.

Lemma decode_u64_list_encode : forall ds rest,
  Forall (fun d => d < 2 ^ 64) ds ->
  len (concat (map (encode_uint 8) ds)) < 2 ^ 64 ->
  decode_u64_list (encode_u64_list ds ++ rest) = Ok (ds, rest).
Proof.
  intros ds rest Hds H64. unfold decode_u64_list, encode_u64_list, encode_list.
  rewrite decode_list_payload_encode by assumption. cbn [bind].
  rewrite decode_u64_items_encode; [reflexivity|assumption|lia].
Qed.

(* ------------------------------------------------------------------------------------------ *)
(* totality and what a successful decoding says about its input *)

Lemma check_remaining_ok : forall list pl buf h rest,
  check_remaining list pl buf = Ok (h, rest) ->
  h = {| hlist := list; hlen := pl |} /\ rest = buf /\ pl <= len buf.
Proof.
  unfold check_remaining. intros list pl buf h rest H.
  destruct (N.ltb_spec (len buf) pl); [discriminate|]. inversion H; subst. auto.
Qed.

Lemma check_remaining_not_panic : forall list pl buf, check_remaining list pl buf <> Panic.
Proof. unfold check_remaining. intros. destruct (len buf <? pl); discriminate. Qed.

Lemma check_remaining_not_fuel : forall list pl buf, check_remaining list pl buf <> Err EFuel.
Proof. unfold check_remaining. intros. destruct (len buf <? pl); discriminate. Qed.

Lemma bind_not_panic : forall A B (r : res A) (f : A -> res B),
  r <> Panic -> (forall a, r = Ok a -> f a <> Panic) -> bind r f <> Panic.
Proof. intros A B [a|e|] f H1 H2; cbn; [apply H2; reflexivity|discriminate|congruence]. Qed.

Lemma bind_not_fuel : forall A B (r : res A) (f : A -> res B),
  r <> Err EFuel -> (forall a, r = Ok a -> f a <> Err EFuel) -> bind r f <> Err EFuel.
Proof. intros A B [a|e|] f H1 H2; cbn [bind]; [apply H2; reflexivity|intro E; apply H1; congruence|discriminate]. Qed.

Lemma bind_ok : forall A B (r : res A) (f : A -> res B) b,
  bind r f = Ok b -> exists a, r = Ok a /\ f a = Ok b.
Proof. intros A B [a|e|] f b H; cbn in H; [eauto|discriminate|discriminate]. Qed.

Lemma decode_header_not_panic : forall buf, decode_header buf <> Panic.
Proof.
  intros [|b rest]; cbn [decode_header]; [discriminate|].
  destruct (b <? 128); [apply check_remaining_not_panic|].
  destruct (b <? 184).
  - destruct (b - 128 =? 1); [|apply check_remaining_not_panic].
    destruct rest; [discriminate|]. destruct (n <? 128); [discriminate|apply check_remaining_not_panic].
  - destruct ((b <? 192) || (248 <=? b)); [|apply check_remaining_not_panic].
    destruct (Nat.ltb _ _); [discriminate|].
    apply bind_not_panic; [apply static_left_pad_not_panic|].
    intros l _. destruct (l <? 56); [discriminate|apply check_remaining_not_panic].
Qed.

Lemma decode_header_not_fuel : forall buf, decode_header buf <> Err EFuel.
Proof.
  intros [|b rest]; cbn [decode_header]; [discriminate|].
  destruct (b <? 128); [apply check_remaining_not_fuel|].
  destruct (b <? 184).
  - destruct (b - 128 =? 1); [|apply check_remaining_not_fuel].
    destruct rest; [discriminate|]. destruct (n <? 128); [discriminate|apply check_remaining_not_fuel].
  - destruct ((b <? 192) || (248 <=? b)); [|apply check_remaining_not_fuel].
    destruct (Nat.ltb _ _); [discriminate|].
    apply bind_not_fuel; [apply static_left_pad_not_fuel|].
    intros l _. destruct (l <? 56); [discriminate|apply check_remaining_not_fuel].
Qed.

(* Header::decode guarantees [payload_length <= remaining] and consumes a suffix-preserving
   prefix: the rest is a suffix of the input, and it is the whole input only for a single byte *)
Lemma decode_header_ok : forall buf h rest,
  decode_header buf = Ok (h, rest) ->
  hlen h <= len rest /\
  ((exists b, buf = b :: skipn 1 buf /\ b < 128 /\ h = {| hlist := false; hlen := 1 |} /\ rest = buf)
   \/ (exists hd, buf = hd ++ rest /\ (1 <= length hd)%nat)).
Proof.
  intros [|b rest0] h rest; cbn [decode_header]; [discriminate|].
  destruct (N.ltb_spec b 128).
  - intro H0. apply check_remaining_ok in H0. destruct H0 as (-> & -> & Hle). cbn [hlen]. split; [assumption|].
    left. exists b. cbn. auto.
  - destruct (b <? 184).
    + assert (Hcr : check_remaining false (b - 128) rest0 = Ok (h, rest) ->
                    hlen h <= len rest /\ exists hd, b :: rest0 = hd ++ rest /\ (1 <= length hd)%nat).
      { intro H1. apply check_remaining_ok in H1. destruct H1 as (-> & -> & Hle). split; [assumption|].
        exists [b]. cbn. split; [reflexivity|lia]. }
      destruct (b - 128 =? 1).
      * destruct rest0 as [|c t]; [discriminate|]. destruct (c <? 128); [discriminate|].
        intro H1. apply Hcr in H1. destruct H1; auto.
      * intro H1. apply Hcr in H1. destruct H1; auto.
    + destruct ((b <? 192) || (248 <=? b)).
      * set (lol := N.to_nat (b - (if 248 <=? b then 247 else 183))).
        destruct (Nat.ltb_spec (length rest0) lol); [discriminate|].
        intro H1. apply bind_ok in H1. destruct H1 as (l & _ & H1).
        destruct (l <? 56); [discriminate|].
        apply check_remaining_ok in H1. destruct H1 as (-> & -> & Hle). split; [assumption|]. right.
        exists (b :: firstn lol rest0). cbn [app length]. rewrite firstn_skipn. split; [reflexivity|lia].
      * intro H1. apply check_remaining_ok in H1. destruct H1 as (-> & -> & Hle). split; [assumption|]. right.
        exists [b]. cbn. split; [reflexivity|lia].
Qed.

Lemma decode_bytes_not_panic : forall buf il, decode_bytes buf il <> Panic.
Proof.
  intros buf il. unfold decode_bytes. apply bind_not_panic; [apply decode_header_not_panic|].
  intros [h rest] H. destruct (negb _); [destruct il; discriminate|].
  apply decode_header_ok in H. destruct H as [Hle _].
  destruct (split_at_le _ _ Hle) as (a & b & ->). discriminate.
Qed.

Lemma decode_bytes_not_fuel : forall buf il, decode_bytes buf il <> Err EFuel.
Proof.
  intros buf il. unfold decode_bytes. apply bind_not_fuel; [apply decode_header_not_fuel|].
  intros [h rest] H. destruct (negb _); [destruct il; discriminate|].
  destruct (split_at _ _); discriminate.
Qed.

(* a successful decode_bytes consumes at least one byte; the payload and the rest are parts of the input *)
Lemma decode_bytes_ok : forall buf il s rest,
  decode_bytes buf il = Ok (s, rest) ->
  exists hd, buf = hd ++ s ++ rest /\ (1 <= length hd + length s)%nat.
Proof.
  intros buf il s rest H. unfold decode_bytes in H. apply bind_ok in H.
  destruct H as ([h rest0] & Hh & H). destruct (negb _); [destruct il; discriminate|].
  destruct (split_at (hlen h) rest0) as [[a b]|] eqn:Hs; [|discriminate]. inversion H; subst; clear H.
  apply split_at_some in Hs. destruct Hs as [-> Hlen].
  apply decode_header_ok in Hh. destruct Hh as [_ [(b & Hb & _ & -> & Hr)|(hd & -> & Hhd)]].
  - exists []. cbn [app length]. split; [congruence|]. cbn [hlen] in Hlen.
    destruct s; [cbn in Hlen; lia|cbn; lia].
  - exists hd. split; [reflexivity|lia].
Qed.

Lemma decode_bytes_shorter : forall buf il s rest,
  decode_bytes buf il = Ok (s, rest) -> (length rest < length buf)%nat.
Proof.
  intros buf il s rest H. apply decode_bytes_ok in H. destruct H as (hd & -> & Hl).
  rewrite !app_length. lia.
Qed.

Lemma decode_uint_not_panic : forall w buf, decode_uint w buf <> Panic.
Proof.
  intros. unfold decode_uint. apply bind_not_panic; [apply decode_bytes_not_panic|].
  intros [bs rest] _. apply bind_not_panic; [apply static_left_pad_not_panic|]. discriminate.
Qed.

Lemma decode_uint_not_fuel : forall w buf, decode_uint w buf <> Err EFuel.
Proof.
  intros. unfold decode_uint. apply bind_not_fuel; [apply decode_bytes_not_fuel|].
  intros [bs rest] _. apply bind_not_fuel; [apply static_left_pad_not_fuel|]. discriminate.
Qed.

Lemma decode_uint_shorter : forall w buf v rest,
  decode_uint w buf = Ok (v, rest) -> (length rest < length buf)%nat.
Proof.
  intros w buf v rest H. unfold decode_uint in H. apply bind_ok in H.
  destruct H as ([bs r] & H1 & H2). apply bind_ok in H2. destruct H2 as (x & _ & H2).
  inversion H2; subst. eapply decode_bytes_shorter; eassumption.
Qed.

Lemma decode_u64_items_not_panic : forall fuel payload, decode_u64_items fuel payload <> Panic.
Proof.
  induction fuel; intros [|b t]; cbn [decode_u64_items]; try discriminate.
  apply bind_not_panic; [apply decode_uint_not_panic|].
  intros [v rest] _. apply bind_not_panic; [apply IHfuel|]. discriminate.
Qed.

Lemma decode_u64_items_not_fuel : forall fuel payload,
  (length payload <= fuel)%nat -> decode_u64_items fuel payload <> Err EFuel.
Proof.
  induction fuel; intros [|b t] Hf; cbn [decode_u64_items]; try discriminate.
  - cbn in Hf. lia.
  - apply bind_not_fuel; [apply decode_uint_not_fuel|].
    intros [v rest] H. apply decode_uint_shorter in H.
    apply bind_not_fuel; [apply IHfuel; cbn [length] in *; lia|]. discriminate.
Qed.

Lemma decode_u64_list_not_panic : forall buf, decode_u64_list buf <> Panic.
Proof.
  intros. unfold decode_u64_list. apply bind_not_panic; [apply decode_bytes_not_panic|].
  intros [p rest] _. apply bind_not_panic; [apply decode_u64_items_not_panic|]. discriminate.
Qed.

Lemma decode_u64_list_not_fuel : forall buf, decode_u64_list buf <> Err EFuel.
Proof.
  intros. unfold decode_u64_list. apply bind_not_fuel; [apply decode_bytes_not_fuel|].
  intros [p rest] _. apply bind_not_fuel; [apply decode_u64_items_not_fuel; lia|]. discriminate.
Qed.

(* ------------------------------------------------------------------------------------------ *)
(* canonicity: an accepted input is the encoding of what was decoded from it *)

Lemma decode_header_canonical : forall buf h rest, bytes_ok buf ->
  decode_header buf = Ok (h, rest) ->
  (exists b, b < 128 /\ buf = b :: skipn 1 buf /\ h = {| hlist := false; hlen := 1 |} /\ rest = buf)
  \/ (buf = encode_header (hlist h) (hlen h) ++ rest /\ hlen h < 2 ^ 64 /\
      (hlist h = false -> hlen h = 1 -> exists c t, rest = c :: t /\ 128 <= c)).
Proof.
  intros [|b rest0] h rest Hok; cbn [decode_header]; [discriminate|].
  inversion Hok as [|? ? Hb Hok0]; subst. unfold byte_ok in Hb.
  destruct (N.ltb_spec b 128).
  - intro Hq0. apply check_remaining_ok in Hq0. destruct Hq0 as (-> & -> & Hle).
    left. exists b. cbn. auto.
  - destruct (N.ltb_spec b 184).
    + assert (Hcr : check_remaining false (b - 128) rest0 = Ok (h, rest) ->
                    b :: rest0 = encode_header (hlist h) (hlen h) ++ rest /\ hlen h < 2 ^ 64 /\ hlen h = b - 128 /\ rest = rest0 /\ hlist h = false).
      { intro Hq1. apply check_remaining_ok in Hq1. destruct Hq1 as (-> & -> & Hle). cbn [hlist hlen].
        unfold encode_header. destruct (N.ltb_spec (b - 128) 56); [|lia].
        replace (128 + (b - 128)) with b by lia. repeat split; try reflexivity.
        change (2 ^ 64) with 18446744073709551616. lia. }
      destruct (N.eqb_spec (b - 128) 1).
      * destruct rest0 as [|c t]; [discriminate|]. destruct (N.ltb_spec c 128); [discriminate|].
        intros. match goal with Hx : check_remaining _ _ _ = Ok _ |- _ => apply Hcr in Hx; destruct Hx as (E & H64 & Hl & -> & Hlist) end.
        right. repeat split; try assumption. intros _ _. eauto.
      * intros. match goal with Hx : check_remaining _ _ _ = Ok _ |- _ => apply Hcr in Hx; destruct Hx as (E & H64 & Hl & -> & Hlist) end.
        right. repeat split; try assumption. intros _ Hq2. lia.
    + destruct (N.ltb_spec b 192) as [H192|H192]; cbn [orb].
      * (* long string *)
        destruct (N.leb_spec 248 b); [lia|].
        set (lol := N.to_nat (b - 183)).
        destruct (Nat.ltb_spec (length rest0) lol); [discriminate|].
        intro Hq3. apply bind_ok in Hq3. destruct Hq3 as (l & Hpad & Hq3).
        destruct (N.ltb_spec l 56); [discriminate|].
        apply check_remaining_ok in Hq3. destruct Hq3 as (-> & -> & Hle). cbn [hlist hlen]. right.
        assert (Hokf : bytes_ok (firstn lol rest0)).
        { rewrite <- (firstn_skipn lol rest0) in Hok0. apply bytes_ok_app in Hok0. tauto. }
        apply static_left_pad_ok in Hpad; [|assumption]. destruct Hpad as [Ef Hl64]. rewrite pow256_8 in Hl64.
        repeat split; [|exact Hl64|intros _ ?; lia].
        unfold encode_header. destruct (N.ltb_spec l 56); [lia|]. rewrite <- Ef.
        cbn [app]. f_equal; [|symmetry; apply firstn_skipn].
        unfold len. rewrite firstn_length. subst lol. lia.
      * destruct (N.leb_spec 248 b).
        -- (* long list *)
           set (lol := N.to_nat (b - 247)).
           destruct (Nat.ltb_spec (length rest0) lol); [discriminate|].
           intro Hq3. apply bind_ok in Hq3. destruct Hq3 as (l & Hpad & Hq3).
           destruct (N.ltb_spec l 56); [discriminate|].
           apply check_remaining_ok in Hq3. destruct Hq3 as (-> & -> & Hle). cbn [hlist hlen]. right.
           assert (Hokf : bytes_ok (firstn lol rest0)).
           { rewrite <- (firstn_skipn lol rest0) in Hok0. apply bytes_ok_app in Hok0. tauto. }
           apply static_left_pad_ok in Hpad; [|assumption]. destruct Hpad as [Ef Hl64]. rewrite pow256_8 in Hl64.
           repeat split; [|exact Hl64|discriminate].
           unfold encode_header. destruct (N.ltb_spec l 56); [lia|]. rewrite <- Ef.
           cbn [app]. f_equal; [|symmetry; apply firstn_skipn].
           unfold len. rewrite firstn_length. subst lol. lia.
        -- (* short list *)
           intro Hq3. apply check_remaining_ok in Hq3. destruct Hq3 as (-> & -> & Hle). cbn [hlist hlen]. right.
           unfold encode_header. destruct (N.ltb_spec (b - 192) 56); [|lia].
           replace (192 + (b - 192)) with b by lia. repeat split; [|discriminate].
           change (2 ^ 64) with 18446744073709551616. lia.
Qed.

Lemma decode_bytes_canonical : forall buf il s rest, bytes_ok buf ->
  decode_bytes buf il = Ok (s, rest) ->
  buf = (if il then encode_header true (len s) ++ s else encode_bytes s) ++ rest /\ len s < 2 ^ 64.
Proof.
  intros buf il s rest Hok H. unfold decode_bytes in H. apply bind_ok in H.
  destruct H as ([h rest0] & Hh & H).
  destruct (Bool.eqb (hlist h) il) eqn:Hil; cbn [negb] in H; [|destruct il; discriminate].
  apply Bool.eqb_prop in Hil.
  destruct (split_at (hlen h) rest0) as [[a b]|] eqn:Hs; [|discriminate]. inversion H; subst a b; clear H.
  apply split_at_some in Hs. destruct Hs as [-> Hlen].
  apply decode_header_canonical in Hh; [|assumption].
  destruct Hh as [(b & Hb & E & -> & Er)|(E & H64 & Hsingle)].
  - (* single byte *)
    cbn [hlist hlen] in *. subst il.
    destruct s as [|c [|? ?]]; try (cbn in Hlen; lia).
    split; [|cbn; change (2 ^ 64) with 18446744073709551616; lia].
    rewrite <- Er in E. cbn [app] in E. inversion E; subst c.
    cbn [encode_bytes]. destruct (N.ltb_spec b 128); [|lia]. rewrite Er at 1. reflexivity.
  - rewrite Hlen. split; [|assumption]. rewrite E. subst il. rewrite <- Hlen.
    destruct (hlist h) eqn:Hl.
    + rewrite app_assoc. reflexivity.
    + rewrite app_assoc. f_equal. unfold encode_bytes. destruct s as [|c [|? ?]]; try reflexivity.
      specialize (Hsingle eq_refl). rewrite <- Hlen in Hsingle. specialize (Hsingle eq_refl).
      destruct Hsingle as (c' & t & Ec & Hc). cbn [app] in Ec. inversion Ec; subst c'.
      destruct (N.ltb_spec c 128); [lia|]. reflexivity.
Qed.

Lemma decode_bytes_ok_parts : forall buf il s rest, bytes_ok buf ->
  decode_bytes buf il = Ok (s, rest) -> bytes_ok s /\ bytes_ok rest.
Proof.
  intros buf il s rest Hok H. apply decode_bytes_ok in H. destruct H as (hd & -> & _).
  apply bytes_ok_app in Hok. destruct Hok as [_ Hok]. apply bytes_ok_app in Hok. exact Hok.
Qed.

Lemma be_trimmed_small : forall w x, 0 < x -> x < 256 -> x < 256 ^ N.of_nat w -> be_trimmed w x = [x].
Proof.
  intros w x H0 H256 Hw. destruct (be_trimmed_head w x H0 Hw) as (b & t & E & Hb).
  pose proof (be_trimmed_value w x Hw) as V. rewrite E in V.
  pose proof (be_to_N_lower b t Hb) as L. rewrite V in L.
  destruct t as [|c t].
  - rewrite E. f_equal. cbn in V. lia.
  - exfalso. rewrite len_cons, N.pow_add_r in L. cbn in L.
    assert (256 ^ len t <> 0) by (apply N.pow_nonzero; lia). lia.
Qed.

Lemma encode_bytes_trimmed : forall w x, (w <= 8)%nat -> x < 256 ^ N.of_nat w ->
  encode_bytes (be_trimmed w x) = encode_uint w x.
Proof.
  intros w x Hw Hx. unfold encode_uint.
  destruct (N.eqb_spec x 0) as [->|Hx0].
  - unfold be_trimmed. rewrite be_bytes_zero, <- (app_nil_r (repeat 0 w)), drop_zeros_repeat. reflexivity.
  - destruct (N.ltb_spec x 128).
    + rewrite be_trimmed_small by lia. cbn [encode_bytes]. destruct (N.ltb_spec x 128); [reflexivity|lia].
    + destruct (be_trimmed_head w x) as (b & t & E & Hb); [lia|assumption|].
      pose proof (be_trimmed_length w x) as L. rewrite E in *.
      destruct t as [|c t].
      * assert (b = x) by (apply (be_trimmed_single w x b E Hx)). subst b.
        cbn [encode_bytes]. destruct (N.ltb_spec x 128); [lia|]. reflexivity.
      * cbn [encode_bytes]. unfold encode_header.
        assert (len (b :: c :: t) <= 8) by (unfold len; cbn [length] in *; lia).
        destruct (N.ltb_spec (len (b :: c :: t)) 56); [|lia]. reflexivity.
Qed.

Lemma decode_uint_canonical : forall w buf v rest, bytes_ok buf -> (w <= 8)%nat ->
  decode_uint w buf = Ok (v, rest) -> buf = encode_uint w v ++ rest /\ v < 256 ^ N.of_nat w.
Proof.
  intros w buf v rest Hok Hw H. unfold decode_uint in H. apply bind_ok in H.
  destruct H as ([s r] & Hb & H). apply bind_ok in H. destruct H as (x & Hpad & H). inversion H; subst x r; clear H.
  pose proof (decode_bytes_ok_parts _ _ _ _ Hok Hb) as [Hs _].
  apply decode_bytes_canonical in Hb; [|assumption]. destruct Hb as [-> _].
  apply static_left_pad_ok in Hpad; [|assumption]. destruct Hpad as [-> Hv].
  split; [|assumption]. rewrite encode_bytes_trimmed by assumption. reflexivity.
Qed.

Lemma decode_uint_rest_ok : forall w buf v rest, bytes_ok buf ->
  decode_uint w buf = Ok (v, rest) -> bytes_ok rest.
Proof.
  intros w buf v rest Hok H. unfold decode_uint in H. apply bind_ok in H.
  destruct H as ([s r] & Hb & H). apply bind_ok in H. destruct H as (x & _ & H). inversion H; subst.
  eapply decode_bytes_ok_parts; eassumption.
Qed.

Lemma decode_u64_items_canonical : forall fuel payload ds, bytes_ok payload ->
  decode_u64_items fuel payload = Ok ds ->
  payload = concat (map (encode_uint 8) ds) /\ Forall (fun d => d < 2 ^ 64) ds.
Proof.
  induction fuel; intros [|b t] ds Hok H; cbn [decode_u64_items] in H; try discriminate;
    try (inversion H; subst; split; [reflexivity|constructor]).
  apply bind_ok in H. destruct H as ([v rest] & Hu & H). apply bind_ok in H.
  destruct H as (vs & Hrec & H). inversion H; subst ds; clear H.
  pose proof (decode_uint_rest_ok _ _ _ _ Hok Hu) as Hr.
  apply decode_uint_canonical in Hu; [|assumption|lia]. destruct Hu as [E Hv]. rewrite pow256_8 in Hv.
  apply IHfuel in Hrec; [|assumption]. destruct Hrec as [-> Hvs].
  split; [exact E|constructor; assumption].
Qed.

Lemma decode_u64_list_canonical : forall buf ds rest, bytes_ok buf ->
  decode_u64_list buf = Ok (ds, rest) ->
  buf = encode_u64_list ds ++ rest /\ Forall (fun d => d < 2 ^ 64) ds.
Proof.
  intros buf ds rest Hok H. unfold decode_u64_list in H. apply bind_ok in H.
  destruct H as ([p r] & Hb & H). apply bind_ok in H. destruct H as (vs & Hi & H). inversion H; subst vs r; clear H.
  pose proof (decode_bytes_ok_parts _ _ _ _ Hok Hb) as [Hp _].
  apply decode_bytes_canonical in Hb; [|assumption]. destruct Hb as [-> _].
  apply decode_u64_items_canonical in Hi; [|assumption]. destruct Hi as [-> Hds].
  split; [reflexivity|assumption].
Qed.
