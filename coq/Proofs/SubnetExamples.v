(* C16: non-vacuity.  An operation list that satisfies the hypotheses of the theorem (every value is
   used with one key, the raw Entry insertion is not used), reaches both limits exactly, and shows
   the refusals. *)
From Coq Require Import List Arith NArith Lia Bool.
From Discv5V Require Import Generated.Params Lib.ListX Model.KBucket
  Proofs.KBucketInv Proofs.KBucketTable Proofs.KBucketPending Proofs.Subnet.
Import ListNotations.
Local Open Scope N_scope.

Definition sx_cfg : config :=
  {| max_incoming := 16; pending_timeout := 100;
     bfilter := Some ip_bucket_filter; tfilter := Some ip_table_filter |}.
(* a record: its id is its key; keys below 5000 are in the /24 number 7, key 5000 has no IPv4 address,
   the others are in /24 number 9 *)
Definition sx_sub (k : N) : option N := if k <? 5000 then Some 7 else if k =? 5000 then None else Some 9.
Definition sx_val (k : N) : val := {| vid := k; vsub := sx_sub k |}.
Definition sx_ins (k : N) : op := OInsertOrUpdate k (sx_val k) true false.

(* local id 0.  32,33,34 fall into bucket 5: the third is refused by the bucket filter.
   Then two per bucket in buckets 6..9 bring the /24 to 10 table entries; the 11th (2048, bucket 11)
   is refused by the table filter; a node without IPv4 address and a node of another /24 are accepted. *)
Definition sx_ops : list (op * N) :=
  map (fun k => (sx_ins k, 1)) [32; 33; 34; 64; 65; 128; 129; 256; 257; 512; 513; 2048; 5000; 5001].

Example sx_ops_ok : Forall (fun x => op_ok (fun vid => vid) sx_sub (fst x)) sx_ops.
Proof. repeat constructor. Qed.

Example sx_results :
  map (fun r => match r with RIns x => x | _ => TFailed FKeyNonExistent end)
      (snd (run true sx_cfg (new_table 0) sx_ops)) =
  [TInserted; TInserted; TFailed FBucketFilter; TInserted; TInserted; TInserted; TInserted;
   TInserted; TInserted; TInserted; TInserted; TFailed FTableFilter; TInserted; TInserted].
Proof. vm_compute. reflexivity. Qed.

Example sx_limits_reached :
  let t := fst (run true sx_cfg (new_table 0) sx_ops) in
  count (in_sub 7) (table_values t) = LT /\
  count (in_sub 7) (values (nodes (get_bucket t 5))) = LB.
Proof. vm_compute. split; reflexivity. Qed.

Example sx_inv : SubnetInv (fst (run true sx_cfg (new_table 0) sx_ops)).
Proof. apply (reachable_subnet (fun vid => vid) sx_sub); [reflexivity|reflexivity|exact sx_ops_ok]. Qed.

(* The two well-formedness hypotheses on the values are needed: the filters skip every stored value
   equal to the offered one ([o == v] in filter.rs; equality of [vid] in the model).

   (1) [owner]: if one value (same vid) is offered under several keys, the skip rule hides all its
       copies: three nodes of one /24 end up in one bucket. *)
Definition sx_same : val := {| vid := 1; vsub := Some 7 |}.
Example sx_owner_needed :
  let t := fst (run true sx_cfg (new_table 0)
                   (map (fun k => (OInsertOrUpdate k sx_same true false, 1)) [32; 33; 34])) in
  count (in_sub 7) (values (nodes (get_bucket t 5))) = 3%nat /\ (LB < 3)%nat.
Proof. vm_compute. split; [reflexivity|lia]. Qed.

(* (2) [subof] (the /24 is a function of the value): insert_or_update treats an offered value with
       the vid of the stored one as a duplicate and skips the table filter; if the stored node is
       evicted by the promotion of a pending node in the same call, the offered value is inserted
       (here: as the new pending node).  With equal records that only restores an entry that was
       counted before; with a different /24 under the same vid it would add an eleventh entry. *)
Definition sx_cfg0 : config :=
  {| max_incoming := 16; pending_timeout := 0;
     bfilter := Some ip_bucket_filter; tfilter := Some ip_table_filter |}.
Definition sx_noip (k : N) : val := {| vid := k; vsub := None |}.
Definition sx_ops_b : list (op * N) :=
  map (fun k => (OInsertOrUpdate k {| vid := k; vsub := Some 9 |} true false, 1))
      [64; 65; 128; 129; 256; 257; 512; 513; 1024; 1025] ++
  map (fun k => (OInsertOrUpdate k (sx_noip k) false false, 2)) [32; 33] ++
  map (fun k => (OInsertOrUpdate k (sx_noip k) true false, 3)) [34;35;36;37;38;39;40;41;42;43;44;45;46;47] ++
  [(OInsertOrUpdate 48 (sx_noip 48) true false, 4);
   (OInsertOrUpdate 32 {| vid := 32; vsub := Some 9 |} true false, 5)].
Example sx_subof_needed :
  let t := fst (run true sx_cfg0 (new_table 0) sx_ops_b) in
  count (in_sub 9) (table_values t) = 11%nat /\ (LT < 11)%nat.
Proof. vm_compute. split; [reflexivity|lia]. Qed.
