(* Gap-closing proofs for C09 / C10 about Model/Query.v:
   G1 (C10)  every id a lookup LEARNED OF - its initial candidates and the ids reported by the
             on_success calls that had an effect - is held by the query from then on, and was
             contacted if the lookup finished by itself with a short result;
   G2 (C09)  the pool hands the result of a query out EXACTLY once (as long as next_id did not wrap);
   G3 (C09)  a poll starts every query or makes progress, so a query that was added but never
             polled also leaves the pool (no hypothesis on [started]). *)
From Coq Require Import List Arith NArith Bool Lia Sorted.
From Discv5V Require Import Model.Query Proofs.Query Proofs.QueryPool.
Import ListNotations.
Local Open Scope N_scope.

(* ========================================================================================== *)
(* G1: learned of => held => contacted *)

(* the on_success call for [p] has an effect in state [q]: exactly the cases in which
   Model.Query.on_success does not return the state unchanged (the query is not Finished, the peer
   is in closest_peers, and it is Waiting or Unresponsive) *)
Definition success_accepted (q : query) (p : N) : bool :=
  negb (is_finished q) &&
  match m_get (N.lxor p (target q)) (peers q) with
  | Some x => match pst x with Waiting _ | Unresponsive => true | _ => false end
  | None => false
  end.

Lemma success_accepted_spec q p : success_accepted q p = true <->
  prog q <> Finished /\
  exists x, m_get (N.lxor p (target q)) (peers q) = Some x /\
            ((exists t, pst x = Waiting t) \/ pst x = Unresponsive).
Proof.
  unfold success_accepted, is_finished. split.
  - intros A. apply andb_prop in A as [A1 A2]. split; [destruct (prog q); [discriminate|discriminate|discriminate A1]|].
    destruct (m_get _ (peers q)) as [x|]; [|discriminate]. exists x. split; [reflexivity|].
    destruct (pst x); try discriminate; eauto.
  - intros (NF & x & -> & S). apply andb_true_intro. split.
    + destruct (prog q); [reflexivity|reflexivity|congruence].
    + destruct S as [(t & ->)| ->]; reflexivity.
Qed.

(* a call that is not accepted leaves the query unchanged: "learned of" = the accepted calls *)
Lemma on_success_rejected q p closer : success_accepted q p = false -> on_success q p closer = Some q.
Proof.
  unfold success_accepted, is_finished, on_success. intros A.
  destruct (prog q); cbn [negb andb] in A; try reflexivity;
    (destruct (m_get _ (peers q)) as [x|]; [|reflexivity]; destruct (pst x); try reflexivity; discriminate).
Qed.

(* an accepted call incorporates the reported ids *)
Lemma on_success_accepted q p closer q' :
  success_accepted q p = true -> on_success q p closer = Some q' ->
  exists x, m_get (N.lxor p (target q)) (peers q) = Some x /\
    peers q' = add_all (qkind q) (target q) closer
                 (m_set (N.lxor p (target q))
                        {| pkey := pkey x; preturned := preturned x + N.of_nat (length closer);
                           pmatch := pmatch x; pst := Succeeded |} (peers q)).
Proof.
  unfold success_accepted, is_finished, on_success. intros A H.
  destruct (m_get (N.lxor p (target q)) (peers q)) as [x|] eqn:G;
    [|rewrite andb_false_r in A; discriminate].
  exists x. split; [reflexivity|].
  set (d := N.lxor p (target q)) in *.
  set (x' := {| pkey := pkey x; preturned := preturned x + N.of_nat (length closer);
                pmatch := pmatch x; pst := Succeeded |}) in *.
  pose proof (incorporate_fold (qkind q) (target q) (N.of_nat (length (m_set d x' (peers q))))
                (num_results (cfg q)) closer (m_set d x' (peers q)) false) as FOLD.
  destruct (prog q); cbn [negb andb] in A; try discriminate;
    (destruct (pst x); try discriminate; cbn zeta in H;
     try (destruct (num_waiting q =? 0); [discriminate|]);
     destruct (fold_left _ closer (m_set d x' (peers q), false)) as [ps' pg];
     inversion H; subst q'; cbn [peers]; exact FOLD).
Qed.

Lemma m_or_insert_present d p m : exists x, In (d, x) (m_or_insert d p m).
Proof.
  induction m as [|[d0 p0] r IH]; cbn [m_or_insert].
  - exists p. left; reflexivity.
  - destruct (d <? d0); [exists p; left; reflexivity|].
    destruct (N.eqb_spec d d0); [subst; exists p0; left; reflexivity|].
    destruct IH as (x & I). exists x. right; exact I.
Qed.

Lemma add_all_present k t closer : forall m r, In r closer ->
  exists x, In (N.lxor t (fst r), x) (add_all k t closer m).
Proof.
  induction closer as [|r0 cl IH]; intros m r I; [destruct I|].
  change (add_all k t (r0 :: cl) m) with
    (add_all k t cl (m_or_insert (N.lxor t (fst r0)) (new_peer (fst r0) (flag_of k (snd r0))) m)).
  destruct I as [<-|I]; [|apply IH; exact I].
  destruct (m_or_insert_present (N.lxor t (fst r0)) (new_peer (fst r0) (flag_of k (snd r0))) m) as (x & Ix).
  exists x. apply add_all_fwd. exact Ix.
Qed.

(* in a well-formed query an entry is found under its own distance only: the id determines it *)
Lemma wf_key_of_dist q d x id : wf q -> In (d, x) (peers q) -> d = N.lxor (target q) id -> pkey x = id.
Proof.
  intros W I E. pose proof (wf_dist _ W _ _ I) as D. rewrite E, (N.lxor_comm (target q) id) in D.
  symmetry. eapply lxor_inj; exact D.
Qed.

(* an accepted on_success call puts every reported id into closest_peers (or finds it there) *)
Lemma accepted_held_step q p closer q' :
  wf q -> success_accepted q p = true -> on_success q p closer = Some q' ->
  forall r, In r closer -> exists d x, In (d, x) (peers q') /\ pkey x = fst r.
Proof.
  intros W A H r Ir.
  assert (S : step q (ESuccess p closer) = Some (q', OUnit)) by (cbn [step]; rewrite H; reflexivity).
  pose proof (step_wf _ _ _ _ W S) as W'. pose proof (step_static _ _ _ _ S) as (_ & ST & _).
  destruct (on_success_accepted _ _ _ _ A H) as (x0 & _ & P).
  destruct (add_all_present (qkind q) (target q) closer
              (m_set (N.lxor p (target q))
                 {| pkey := pkey x0; preturned := preturned x0 + N.of_nat (length closer);
                    pmatch := pmatch x0; pst := Succeeded |} (peers q)) r Ir) as (x & Ix).
  rewrite <- P in Ix. exists (N.lxor (target q) (fst r)), x. split; [exact Ix|].
  eapply wf_key_of_dist; [exact W'|exact Ix|]. rewrite ST. reflexivity.
Qed.

(* ... and the query holds it from then on *)
Lemma accepted_held q0 evs q os :
  wf q0 -> run evs q0 = Some (q, os) ->
  forall evs1 p closer evs2 q1 os1,
    evs = evs1 ++ ESuccess p closer :: evs2 ->
    run evs1 q0 = Some (q1, os1) -> success_accepted q1 p = true ->
    forall r, In r closer -> exists d x, In (d, x) (peers q) /\ pkey x = fst r.
Proof.
  intros W0 R evs1 p closer evs2 q1 os1 -> R1 A r Ir.
  rewrite run_app, R1 in R. cbn [run step] in R.
  destruct (on_success q1 p closer) as [q2|] eqn:E; [|discriminate].
  destruct (run evs2 q2) as [[q3 os2]|] eqn:R2; [|discriminate]. inversion R; subst; clear R.
  pose proof (run_wf _ _ _ _ W0 R1) as W1.
  assert (S : step q1 (ESuccess p closer) = Some (q2, OUnit)) by (cbn [step]; rewrite E; reflexivity).
  pose proof (step_wf _ _ _ _ W1 S) as W2.
  destruct (accepted_held_step _ _ _ _ W1 A E r Ir) as (d & x & Ix & Kx).
  destruct (run_fwd _ _ _ _ W2 R2 _ _ Ix) as (x' & Ix' & Kx'). exists d, x'. split; [exact Ix'|congruence].
Qed.

(* G1: the lookup finished by itself with a short result: every id reported to it in an
   on_success call that had an effect was handed out by next (contacted) *)
Lemma reported_contacted k c t known evs q os :
  run evs (with_config k c t known) = Some (q, os) ->
  prog q = Finished ->
  (length (into_result q) < N.to_nat (num_results c))%nat ->
  forall evs1 p closer evs2 q1 os1,
    evs = evs1 ++ ESuccess p closer :: evs2 ->
    run evs1 (with_config k c t known) = Some (q1, os1) -> success_accepted q1 p = true ->
    forall r, In r closer -> In (fst r) (emitted os).
Proof.
  intros R Fin Short evs1 p closer evs2 q1 os1 E R1 A r Ir.
  pose proof (io_wf _ _ (with_config_init k c t known)) as W0.
  destruct (accepted_held _ _ _ _ W0 R _ _ _ _ _ _ E R1 A r Ir) as (d & x & Ix & <-).
  apply (proj1 (complete_when_short _ _ _ _ _ _ _ R Fin Short) d x Ix).
Qed.

(* ---- the set form: everything the lookup learned of ---- *)

(* the ids reported by the on_success calls of a run that had an effect *)
Fixpoint learned_from (evs : list event) (q : query) : list N :=
  match evs with
  | [] => []
  | e :: r =>
    (match e with
     | ESuccess p closer => if success_accepted q p then map fst closer else []
     | _ => []
     end) ++
    match step q e with Some (q', _) => learned_from r q' | None => [] end
  end.

(* the ids the lookup learned of: its initial candidates (.take(num_results)) and the ids reported
   by effective on_success calls *)
Definition learned (k : kind) (c : qconfig) (t : N) (known : list (N * bool)) (evs : list event) : list N :=
  map fst (candidates c known) ++ learned_from evs (with_config k c t known).

Lemma learned_from_app a b q :
  learned_from (a ++ b) q =
  learned_from a q ++ match run a q with Some (q1, _) => learned_from b q1 | None => [] end.
Proof.
  revert q. induction a as [|e a IH]; intros q; cbn [app learned_from run]; [reflexivity|].
  destruct (step q e) as [[q' o]|]; [|rewrite !app_nil_r; reflexivity].
  rewrite IH, <- !app_assoc. destruct (run a q') as [[q1 o1]|]; reflexivity.
Qed.

(* learned_from is exactly: reported in an accepted call *)
Lemma learned_from_spec evs : forall q0 q os, run evs q0 = Some (q, os) -> forall id,
  In id (learned_from evs q0) <->
  exists evs1 p closer evs2 q1 os1,
    evs = evs1 ++ ESuccess p closer :: evs2 /\ run evs1 q0 = Some (q1, os1) /\
    success_accepted q1 p = true /\ In id (map fst closer).
Proof.
  induction evs as [|e evs IH]; intros q0 q os R id.
  - cbn [learned_from]. split; [intros []|]. intros (evs1 & p & closer & evs2 & _ & _ & E & _).
    destruct evs1; discriminate.
  - apply run_cons_inv in R as (qa & o & osa & S & R & _). cbn [learned_from]. rewrite S. split.
    + intros I. apply in_app_or in I as [I|I].
      * destruct e as [now|p closer|p]; try destruct I.
        destruct (success_accepted q0 p) eqn:A; [|destruct I].
        exists [], p, closer, evs, q0, []. repeat split; auto.
      * apply (IH _ _ _ R) in I as (evs1 & p & closer & evs2 & q1 & os1 & -> & R1 & A & Ic).
        exists (e :: evs1), p, closer, evs2, q1, (o :: os1). split; [reflexivity|]. split; [|auto].
        cbn [run]. rewrite S, R1. reflexivity.
    + intros (evs1 & p & closer & evs2 & q1 & os1 & E & R1 & A & Ic). apply in_or_app.
      destruct evs1 as [|e1 evs1].
      * cbn [app] in E. inversion E; subst. inversion R1; subst. left. rewrite A. exact Ic.
      * cbn [app] in E. inversion E; subst. right.
        apply run_cons_inv in R1 as (qb & ob & osb & Sb & R1 & ->). rewrite S in Sb. inversion Sb; subst.
        apply (IH _ _ _ R). exists evs1, p, closer, evs2, q1, osb. auto.
Qed.

(* at any point of any run, the ids the lookup learned of are exactly the ids it holds *)
Lemma learned_exact k c t known evs q os :
  run evs (with_config k c t known) = Some (q, os) ->
  forall id, In id (learned k c t known evs) <-> exists d x, In (d, x) (peers q) /\ pkey x = id.
Proof.
  pose proof (with_config_init k c t known) as IO. pose proof (io_wf _ _ IO) as W0.
  intros R id. unfold learned. split.
  - intros I. apply in_app_or in I as [I|I].
    + apply in_map_iff in I as (r & <- & Ir).
      destruct (proj1 (init_fold_present k t (candidates c known) []) r Ir) as (x & Ix & Kx).
      destruct (run_fwd _ _ _ _ W0 R _ _ Ix) as (x' & Ix' & Kx'). exists (N.lxor (fst r) t), x'.
      split; [exact Ix'|congruence].
    + apply (learned_from_spec _ _ _ _ R) in I as (evs1 & p & closer & evs2 & q1 & os1 & E & R1 & A & Ic).
      apply in_map_iff in Ic as (r & <- & Ir). eapply accepted_held; eauto.
  - revert q os R. induction evs as [|e evs IH] using rev_ind; intros q os R (d & x & Ix & Kx).
    + inversion R; subst. apply in_or_app. left. eapply io_key; eauto.
    + apply run_snoc_inv in R as (q1 & os1 & o & R1 & S & ->).
      pose proof (run_wf _ _ _ _ W0 R1) as W1.
      assert (OLD : (exists d1 x1, In (d1, x1) (peers q1) /\ pkey x1 = id) ->
                    In id (map fst (candidates c known) ++ learned_from (evs ++ [e]) (with_config k c t known))).
      { intros H. apply (IH _ _ R1) in H. apply in_app_or in H as [H|H]; apply in_or_app; [left; exact H|right].
        rewrite learned_from_app. apply in_or_app. left; exact H. }
      destruct (step_back _ _ _ _ W1 S _ _ Ix) as [(x1 & Ix1 & [K1 _] & _)|(_ & node & cl & f & -> & Ic & _)].
      * apply OLD. exists d, x1. split; [exact Ix1|congruence].
      * destruct (success_accepted q1 node) eqn:A.
        -- apply in_or_app. right. rewrite learned_from_app, R1. apply in_or_app. right.
           cbn [learned_from]. rewrite A. apply in_or_app. left.
           apply in_map_iff. exists (pkey x, f). split; [exact Kx|exact Ic].
        -- cbn [step] in S. rewrite (on_success_rejected _ _ cl A) in S. inversion S; subst.
           apply OLD. eauto.
Qed.

(* G1, set form: the lookup finished by itself with a short result: every id it learned of was
   contacted *)
Lemma learned_contacted k c t known evs q os :
  run evs (with_config k c t known) = Some (q, os) ->
  prog q = Finished ->
  (length (into_result q) < N.to_nat (num_results c))%nat ->
  forall id, In id (learned k c t known evs) -> In id (emitted os).
Proof.
  intros R Fin Short id I. apply (learned_exact _ _ _ _ _ _ _ R) in I as (d & x & Ix & <-).
  apply (proj1 (complete_when_short _ _ _ _ _ _ _ R Fin Short) d x Ix).
Qed.

(* conversely (any run): only ids the lookup learned of are ever contacted *)
Lemma contacted_learned k c t known evs q os :
  run evs (with_config k c t known) = Some (q, os) ->
  forall id, In id (emitted os) -> In id (learned k c t known evs).
Proof.
  intros R id I. apply (learned_exact _ _ _ _ _ _ _ R).
  destruct (h_emitted _ _ _ _ _ (run_hinv _ _ (with_config_init k c t known) _ _ _ R) _ I) as (d & x & Ix & Kx & _).
  eauto.
Qed.

(* ========================================================================================== *)
(* G2: the result of a query is handed out exactly once *)

Definition is_add_event (e : pevent) : bool := match e with PAdd _ _ _ _ => true | _ => false end.
Definition adds (evs : list pevent) : N := N.of_nat (length (filter is_add_event evs)).

(* [n] adds so far, none of which wrapped next_id: the ids handed out are 0 .. n-1, once each;
   a query still in the pool has not been handed out, a query that left it was handed out once *)
Record exact_inv (p : pool) (nterm nadd : N -> nat) (n : N) : Prop := {
  ei_next : next_id p = n mod USIZE;
  ei_le : n <= USIZE;
  ei_ids : forall i, In i (ids (queries p)) -> i < n;
  ei_add : forall i, nadd i = if i <? n then 1%nat else 0%nat;
  ei_in : forall i, In i (ids (queries p)) -> (nterm i + 1)%nat = nadd i;
  ei_out : forall i, ~ In i (ids (queries p)) -> nterm i = nadd i
}.

Lemma pstep_exact p e p' o nterm nadd n : ppinv p -> pstep p e = Some (p', o) ->
  exact_inv p nterm nadd n -> n + (if is_add_event e then 1 else 0) <= USIZE ->
  exact_inv p' (fun i => (nterm i + if is_terminal i o then 1 else 0)%nat)
               (fun i => (nadd i + if is_added i o then 1 else 0)%nat)
               (n + (if is_add_event e then 1 else 0)).
Proof.
  intros PI H [EN EL EI EA EIN EOUT] LE.
  (* events that leave the ids, next_id and the add count unchanged and output no terminal/added *)
  assert (SAME : next_id p' = next_id p -> ids (queries p') = ids (queries p) ->
                 (forall i, is_terminal i o = false) -> (forall i, is_added i o = false) ->
                 is_add_event e = false ->
                 exact_inv p' (fun i => (nterm i + if is_terminal i o then 1 else 0)%nat)
                              (fun i => (nadd i + if is_added i o then 1 else 0)%nat)
                              (n + (if is_add_event e then 1 else 0))).
  { intros NX ID T A AE. rewrite AE, N.add_0_r.
    constructor; try rewrite ID; try rewrite NX; auto; intros i; rewrite ?T, ?A, ?Nat.add_0_r; auto. }
  destruct e as [k c t known|now order|j node closer|j node]; cbn [pstep is_add_event] in *.
  - (* add *)
    unfold pool_add in H. inversion H; subst; clear H SAME. cbn [queries next_id is_terminal is_added].
    assert (NL : n < USIZE) by lia. rewrite (N.mod_small _ _ NL) in EN.
    assert (NI : ~ In (next_id p) (ids (queries p))) by (intros I; apply EI in I; lia).
    rewrite EN in *. constructor; cbn [queries next_id]; rewrite ?(q_insert_ids_absent _ _ _ NI).
    + reflexivity.
    + exact LE.
    + intros i I. apply in_app_or in I as [I|[<-|[]]]; [apply EI in I; lia|lia].
    + intros i. rewrite EA. destruct (N.eqb_spec i n), (N.ltb_spec i n), (N.ltb_spec i (n + 1)); lia.
    + intros i I. apply in_app_or in I as [I|[<-|[]]].
      * rewrite <- (EIN i I). pose proof (EI i I). destruct (N.eqb_spec i n); lia.
      * rewrite N.eqb_refl, <- (EOUT n NI). lia.
    + intros i NIi. assert (NIp : ~ In i (ids (queries p))) by (intros I; apply NIi; apply in_or_app; left; exact I).
      rewrite (EOUT i NIp). destruct (N.eqb_spec i n); [|lia]. exfalso. apply NIi. apply in_or_app. right; left; auto.
  - (* poll *)
    destruct (pool_poll p now order) as [[p1 s]|] eqn:E; [|discriminate]. inversion H; subst; clear H.
    destruct (pool_poll_spec _ _ _ _ _ PI E) as (_ & NX & _ & OUT & _).
    assert (TERM : forall j x, (s = PFinished j x \/ s = PTimeout j x) ->
                   In j (ids (queries p)) -> ~ In j (ids (queries p')) ->
                   (forall i, i <> j -> (In i (ids (queries p')) <-> In i (ids (queries p)))) ->
                   (forall i, is_terminal i (POPoll s) = (i =? j)) ->
                   exact_inv p' (fun i => (nterm i + if is_terminal i (POPoll s) then 1 else 0)%nat)
                                (fun i => (nadd i + if is_added i (POPoll s) then 1 else 0)%nat) (n + 0)).
    { intros j x _ IN NIN OTH T. rewrite N.add_0_r. cbn [is_added].
      constructor; try rewrite NX; auto.
      - intros i I. destruct (N.eq_dec i j); [subst; contradiction|]. apply EI. apply (OTH i); auto.
      - intros i. rewrite Nat.add_0_r. apply EA.
      - intros i I. rewrite T. destruct (N.eqb_spec i j); [subst; contradiction|].
        rewrite !Nat.add_0_r. apply EIN. apply (OTH i); auto.
      - intros i NI. rewrite T, Nat.add_0_r. destruct (N.eqb_spec i j).
        + subst. apply EIN. exact IN.
        + rewrite Nat.add_0_r. apply EOUT. intros I. apply NI. apply (OTH i); auto. }
    destruct s as [|[[j peer]|]|j x|j x].
    + destruct OUT as (_ & _ & ID). apply SAME; auto.
    + destruct OUT as (_ & ID & _). apply SAME; auto.
    + destruct OUT as (_ & ID). apply SAME; auto.
    + destruct OUT as (_ & IN & NIN & OTH & _). eapply TERM; eauto.
    + destruct OUT as (_ & IN & NIN & OTH & _). eapply TERM; eauto.
  - unfold pool_on_success in H. destruct (q_find j (queries p)) as [x|] eqn:F.
    + destruct (on_success (qiter x) node closer); [|discriminate]. inversion H; subst. apply SAME; auto.
      cbn [queries]. apply q_insert_ids_present. eapply q_find_some_ids; eauto.
    + inversion H; subst. apply SAME; auto.
  - unfold pool_on_failure in H. destruct (q_find j (queries p)) as [x|] eqn:F.
    + destruct (on_failure (qiter x) node); [|discriminate]. inversion H; subst. apply SAME; auto.
      cbn [queries]. apply q_insert_ids_present. eapply q_find_some_ids; eauto.
    + inversion H; subst. apply SAME; auto.
Qed.

Lemma adds_cons e evs : adds (e :: evs) = (if is_add_event e then 1 else 0) + adds evs.
Proof. unfold adds. cbn [filter]. destruct (is_add_event e); cbn [length]; lia. Qed.

Lemma prun_exact evs : forall p p' os nterm nadd n, ppinv p -> prun evs p = Some (p', os) ->
  exact_inv p nterm nadd n -> n + adds evs <= USIZE ->
  exact_inv p' (fun i => (nterm i + count_out (is_terminal i) os)%nat)
               (fun i => (nadd i + count_out (is_added i) os)%nat) (n + adds evs).
Proof.
  induction evs as [|e evs IH]; intros p p' os nterm nadd n PI H EI LE; cbn [prun] in H.
  - inversion H; subst. unfold adds, count_out. cbn [filter length N.of_nat]. rewrite N.add_0_r.
    destruct EI as [A B C D E F]. constructor; auto; intros i; rewrite ?Nat.add_0_r; auto.
  - destruct (pstep p e) as [[p1 o]|] eqn:S; [|discriminate].
    destruct (prun evs p1) as [[p2 os1]|] eqn:R; [|discriminate]. inversion H; subst; clear H.
    rewrite adds_cons in *.
    assert (LE1 : n + (if is_add_event e then 1 else 0) <= USIZE) by lia.
    pose proof (pstep_exact _ _ _ _ _ _ _ PI S EI LE1) as EI1.
    assert (LE2 : n + (if is_add_event e then 1 else 0) + adds evs <= USIZE) by lia.
    pose proof (IH _ _ _ _ _ _ (pstep_inv _ _ _ _ PI S) R EI1 LE2) as [A B C D E F].
    rewrite N.add_assoc.
    assert (CT : forall f, count_out f (o :: os1) = ((if f o then 1 else 0) + count_out f os1)%nat).
    { intros f. unfold count_out. cbn [filter]. destruct (f o); reflexivity. }
    constructor; auto; intros i; rewrite !CT, !Nat.add_assoc; auto.
Qed.

(* G2: as long as next_id has not wrapped (at most 2^64 adds), in any run of the pool ... *)
Lemma result_exactly_once timeout evs p os :
  prun evs (pool_new timeout) = Some (p, os) -> adds evs <= USIZE ->
  forall i,
    (* (a) an id is returned by add at most once: the ids are 0, 1, ..., adds - 1 *)
    count_out (is_added i) os = (if i <? adds evs then 1%nat else 0%nat) /\
    (* a query still in the pool was added and its result has not been handed out *)
    (In i (ids (queries p)) -> count_out (is_added i) os = 1%nat /\ count_out (is_terminal i) os = 0%nat) /\
    (* (b) a query that is not in the pool was handed out as often as it was added: (c) once, if added *)
    (~ In i (ids (queries p)) -> count_out (is_terminal i) os = count_out (is_added i) os).
Proof.
  intros R LE.
  assert (EI0 : exact_inv (pool_new timeout) (fun _ => 0%nat) (fun _ => 0%nat) 0).
  { constructor; cbn [pool_new next_id queries ids map].
    - reflexivity.
    - unfold USIZE; lia.
    - intros i [].
    - intros i. destruct (N.ltb_spec i 0); [lia|reflexivity].
    - intros i [].
    - reflexivity. }
  pose proof (prun_exact _ _ _ _ _ _ _ (pool_new_inv timeout) R EI0) as EI. rewrite N.add_0_l in EI.
  destruct (EI LE) as [_ _ C D E F]. cbn beta in *. intros i. split; [apply D|]. split.
  - intros I. specialize (E i I). specialize (C i I). specialize (D i).
    apply N.ltb_lt in C. rewrite C in D. cbn [Nat.add] in *. lia.
  - intros NI. apply (F i NI).
Qed.

(* (a) separately *)
Lemma added_at_most_once timeout evs p os i :
  prun evs (pool_new timeout) = Some (p, os) -> adds evs <= USIZE ->
  (count_out (is_added i) os <= 1)%nat.
Proof.
  intros R LE. destruct (result_exactly_once _ _ _ _ R LE i) as (A & _). rewrite A.
  destruct (i <? adds evs); lia.
Qed.

(* (c) exactly once *)
Lemma result_exactly_once_c timeout evs p os i :
  prun evs (pool_new timeout) = Some (p, os) -> adds evs <= USIZE ->
  (0 < count_out (is_added i) os)%nat ->
  (In i (ids (queries p)) -> count_out (is_terminal i) os = 0%nat) /\
  (~ In i (ids (queries p)) -> count_out (is_terminal i) os = 1%nat).
Proof.
  intros R LE POS. destruct (result_exactly_once _ _ _ _ R LE i) as (A & B & C).
  pose proof (added_at_most_once _ _ _ _ i R LE). split.
  - intros I. apply (B I).
  - intros NI. rewrite (C NI). lia.
Qed.

(* Without the hypothesis the equality is false: the 2^64+1-th add returns id 0 again
   (next_id.wrapping_add(1)), and if query 0 is still in the pool, HashMap::insert replaces it; its
   result is then never handed out (and count_out (is_added 0) = 2).  The witness needs 2^64 events
   and is not built; the mechanism is this fact about one add (in any pool state): *)
Lemma pool_add_replaces_live p x k c t known :
  q_find (next_id p) (queries p) = Some x ->
  let (p', id) := pool_add p k c t known in
  id = next_id p /\
  ids (queries p') = ids (queries p) /\
  q_find id (queries p') = Some {| qiter := with_config k c t known; started := None |} /\
  (forall j, j <> id -> q_find j (queries p') = q_find j (queries p)).
Proof.
  intros F. unfold pool_add. cbn [queries]. split; [reflexivity|]. split.
  - apply q_insert_ids_present. eapply q_find_some_ids; eauto.
  - split; [apply q_find_insert_same|]. intros j ne. apply q_find_insert_other; exact ne.
Qed.

(* ... and next_id does wrap *)
Lemma pool_add_wraps p k c t known :
  next_id p = USIZE - 1 -> next_id (fst (pool_add p k c t known)) = 0.
Proof. intros E. unfold pool_add. cbn [fst next_id]. rewrite E. reflexivity. Qed.

(* ========================================================================================== *)
(* G3: a poll starts every query or makes progress; un-started queries are drained too *)

(* started.or(Some(now)) *)
Definition or_now (s : option N) (now : N) : N := match s with Some s0 => s0 | None => now end.

(* a scan that runs to the end has visited, hence started, every query of [order] *)
Lemma poll_scan_none_started now timeout order : forall qs qs',
  pinv qs -> poll_scan now timeout order qs = Some (qs', ScNone) ->
  forall i x, In i order -> q_find i qs = Some x ->
    exists x', q_find i qs' = Some x' /\ started x' = Some (or_now (started x) now).
Proof.
  induction order as [|j rest IH]; intros qs qs' PI H i x I F; [destruct I|]. cbn [poll_scan] in H.
  destruct (q_find j qs) as [y|] eqn:Fj.
  - destruct (next (qiter y) now) as [[q1 s]|] eqn:E; [|discriminate].
    set (st := match started y with Some s0 => s0 | None => now end) in *.
    set (x1 := {| qiter := q1; started := Some st |}) in *.
    set (qs1 := q_insert j x1 qs) in *.
    assert (PI1 : pinv qs1).
    { apply pinv_insert; [exact PI|]. cbn [x1 qiter]. eapply (qreach_step _ (ENext now)).
      - eapply pi_reach; [exact PI|apply q_find_in; exact Fj].
      - cbn [step]. rewrite E. reflexivity. }
    assert (CONT : poll_scan now timeout rest qs1 = Some (qs', ScNone) ->
              exists x', q_find i qs' = Some x' /\ started x' = Some (or_now (started x) now)).
    { intros H'. destruct (N.eq_dec i j) as [->|ne].
      - rewrite F in Fj. inversion Fj; subst y.
        destruct (poll_scan_spec _ _ _ _ _ _ PI1 H') as (_ & _ & _ & ST & _).
        destruct (ST j x1 (q_find_insert_same _ _ _)) as (x' & F' & S'). exists x'. split; [exact F'|].
        cbn [x1 started] in S'. destruct S' as [S'|[S' _]]; [|discriminate]. rewrite S'. reflexivity.
      - destruct I as [->|I]; [congruence|]. eapply (IH _ _ PI1 H' i x I).
        unfold qs1. rewrite q_find_insert_other; auto. }
    destruct s as [[pp|]| |]; try (inversion H; fail);
      (destruct (timeout <=? now - st); [inversion H|apply CONT; exact H]).
  - destruct I as [->|I]; [congruence|]. eapply IH; eauto.
Qed.

(* every query of the pool after a poll was in the pool before, with the same start time if it had one *)
Lemma pool_poll_back p now order p' out : ppinv p -> pool_poll p now order = Some (p', out) ->
  forall j x', q_find j (queries p') = Some x' ->
    exists x, q_find j (queries p) = Some x /\
              (started x' = started x \/ (started x = None /\ started x' = Some now)).
Proof.
  intros PI H j x' F'. destruct (pool_mu_poll _ _ _ _ _ PI H) as (_ & _ & SUB).
  destruct (pool_poll_spec _ _ _ _ _ PI H) as (_ & _ & _ & _ & ST).
  destruct (q_find j (queries p)) as [x|] eqn:F.
  - exists x. split; [reflexivity|]. destruct (ST _ _ F) as [G|(x'' & G & S)]; congruence.
  - exfalso. apply q_find_none in F. apply F. apply SUB. eapply q_find_some_ids; eauto.
Qed.

(* G3, one poll: if poll has nothing to report (Idle / Waiting(None)) every query left in the pool
   has a start time - the one it had, else [now]; any other outcome is progress *)
Lemma poll_starts_or_progresses p now order p' out :
  ppinv p -> pool_poll p now order = Some (p', out) ->
  match out with
  | PIdle | PWaiting None =>
    forall i x', q_find i (queries p') = Some x' ->
      exists x, q_find i (queries p) = Some x /\ started x' = Some (or_now (started x) now)
  | PWaiting (Some _) | PFinished _ _ | PTimeout _ _ => mu (queries p') < mu (queries p)
  end.
Proof.
  intros PI H. destruct (pool_mu_poll _ _ _ _ _ PI H) as (_ & LT & _).
  assert (NONE : (out = PIdle \/ out = PWaiting None) ->
            forall i x', q_find i (queries p') = Some x' ->
              exists x, q_find i (queries p) = Some x /\ started x' = Some (or_now (started x) now)).
  { intros O i x' F'. destruct (pool_poll_back _ _ _ _ _ PI H _ _ F') as (x & F & _).
    exists x. split; [exact F|]. unfold pool_poll in H. unfold ppinv in PI.
    destruct (poll_scan now (query_timeout p) (visit_order order (queries p)) (queries p)) as [[qs sc]|] eqn:SC;
      [|discriminate].
    destruct sc as [|j|j peer|j].
    - pose proof (poll_scan_none_started _ _ _ _ _ PI SC i x (visit_order_complete order _ _ _ F) F)
        as (x'' & F'' & S'').
      assert (Q : queries p' = qs) by (destruct qs; inversion H; reflexivity).
      rewrite Q in F'. congruence.
    - destruct (q_find j qs); inversion H; subst; destruct O; discriminate.
    - inversion H; subst; destruct O; discriminate.
    - destruct (q_find j qs); inversion H; subst; destruct O; discriminate. }
  destruct out as [|[[j peer]|]|j y|j y]; auto.
Qed.

Lemma prun_app a b p :
  prun (a ++ b) p =
  match prun a p with
  | Some (p1, o1) => match prun b p1 with Some (p2, o2) => Some (p2, o1 ++ o2) | None => None end
  | None => None
  end.
Proof.
  revert p. induction a as [|e a IH]; intros p; cbn [app prun].
  - destruct (prun b p) as [[p2 o2]|]; reflexivity.
  - destruct (pstep p e) as [[p' o]|]; [|reflexivity]. rewrite IH.
    destruct (prun a p') as [[p1 o1]|]; [|reflexivity].
    destruct (prun b p1) as [[p2 o2]|]; reflexivity.
Qed.

(* every start time recorded in the pool is at most T *)
Definition starts_le (T : N) (p : pool) : Prop :=
  forall j x s, q_find j (queries p) = Some x -> started x = Some s -> s <= T.
(* every query of the pool has been started, not later than T *)
Definition all_started_le (T : N) (p : pool) : Prop :=
  forall j x, q_find j (queries p) = Some x -> exists s, started x = Some s /\ s <= T.

Lemma poll_starts_le T p now order p' out : ppinv p -> pool_poll p now order = Some (p', out) ->
  now <= T -> starts_le T p -> starts_le T p'.
Proof.
  intros PI H L SL j x' s F' St. destruct (pool_poll_back _ _ _ _ _ PI H _ _ F') as (x & F & [S|[_ S]]).
  - eapply SL; [exact F|congruence].
  - rewrite S in St. inversion St; subst. exact L.
Qed.

Lemma poll_all_started T p now order p' out : ppinv p -> pool_poll p now order = Some (p', out) ->
  all_started_le T p -> all_started_le T p'.
Proof.
  intros PI H AS j x' F'. destruct (pool_poll_back _ _ _ _ _ PI H _ _ F') as (x & F & S).
  destruct (AS _ _ F) as (s & St & L). exists s. split; [|exact L].
  destruct S as [S|[S _]]; congruence.
Qed.

Lemma polls_cons_inv now order l p p' os : prun (polls ((now, order) :: l)) p = Some (p', os) ->
  exists p1 out os1, pool_poll p now order = Some (p1, out) /\ prun (polls l) p1 = Some (p', os1).
Proof.
  cbn [polls map prun pstep fst snd]. destruct (pool_poll p now order) as [[p1 out]|] eqn:E; [|discriminate].
  fold (polls l). destruct (prun (polls l) p1) as [[p2 os1]|] eqn:R; [|discriminate]. intros H; inversion H; subst.
  exists p1, out, os1. split; [reflexivity|exact R].
Qed.

(* polls keep the invariant and the timeout, do not increase the weight, do not un-start queries *)
Lemma polls_props l : forall p p' os T, ppinv p -> prun (polls l) p = Some (p', os) ->
  ppinv p' /\ query_timeout p' = query_timeout p /\ mu (queries p') <= mu (queries p) /\
  (all_started_le T p -> all_started_le T p').
Proof.
  induction l as [|[now order] l IH]; intros p p' os T PI R.
  - inversion R; subst. split; [exact PI|]. split; [reflexivity|]. split; [lia|auto].
  - apply polls_cons_inv in R as (p1 & out & os1 & E & R1).
    destruct (pool_poll_spec _ _ _ _ _ PI E) as (PI1 & _ & QT & _).
    destruct (pool_mu_poll _ _ _ _ _ PI E) as (LE & _).
    destruct (IH _ _ _ T PI1 R1) as (A & B & C & D).
    split; [exact A|]. split; [congruence|]. split; [lia|].
    intros AS. apply D. exact (poll_all_started T p now order p1 out PI E AS).
Qed.

(* more polls than the weight, at times up to T: afterwards every query of the pool is started *)
Lemma polls_start l : forall p p' os T, ppinv p -> starts_le T p ->
  (forall no, In no l -> fst no <= T) ->
  prun (polls l) p = Some (p', os) ->
  mu (queries p) < N.of_nat (length l) ->
  all_started_le T p'.
Proof.
  induction l as [|[now order] l IH]; intros p p' os T PI SL TL R M; cbn [length] in M; [lia|].
  apply polls_cons_inv in R as (p1 & out & os1 & E & R1).
  destruct (pool_poll_spec _ _ _ _ _ PI E) as (PI1 & _).
  assert (L : now <= T) by (apply (TL (now, order)); left; reflexivity).
  pose proof (poll_starts_le _ _ _ _ _ _ PI E L SL) as SL1.
  pose proof (poll_starts_or_progresses _ _ _ _ _ PI E) as SP.
  assert (STARTED : (forall i x', q_find i (queries p1) = Some x' ->
            exists x, q_find i (queries p) = Some x /\ started x' = Some (or_now (started x) now)) ->
            all_started_le T p').
  { intros ST. apply (polls_props _ _ _ _ T PI1 R1). intros j x' F'.
    destruct (ST _ _ F') as (x & F & S). exists (or_now (started x) now). split; [exact S|].
    eapply SL1; eauto. }
  assert (PROG : mu (queries p1) < mu (queries p) -> all_started_le T p').
  { intros LT. eapply (IH _ _ _ _ PI1 SL1); [|exact R1|lia]. intros no I. apply TL. right; exact I. }
  destruct out as [|[[j peer]|]|j y|j y]; auto.
Qed.

(* G3, drain without any hypothesis on [started]: a clock that does not run backwards.  T bounds
   the start times already recorded and the times of the first list of polls (more polls than the
   weight of the pool: they start every query); the second list of polls comes at least the query
   timeout after T (again more polls than the weight): no query is left in the pool. *)
Lemma pool_drains_unstarted l1 l2 p p' os T i :
  ppinv p -> starts_le T p ->
  (forall no, In no l1 -> fst no <= T) ->
  (forall no, In no l2 -> T + query_timeout p <= fst no) ->
  prun (polls (l1 ++ l2)) p = Some (p', os) ->
  mu (queries p) < N.of_nat (length l1) ->
  mu (queries p) < N.of_nat (length l2) ->
  q_find i (queries p') = None.
Proof.
  intros PI SL T1 T2 R M1 M2. unfold polls in R. rewrite map_app, prun_app in R. fold (polls l1) (polls l2) in R.
  destruct (prun (polls l1) p) as [[p1 o1]|] eqn:R1; [|discriminate].
  destruct (prun (polls l2) p1) as [[p2 o2]|] eqn:R2; [|discriminate]. inversion R; subst; clear R.
  pose proof (polls_start _ _ _ _ _ PI SL T1 R1 M1) as AS.
  destruct (polls_props _ _ _ _ T PI R1) as (PI1 & QT & MU & _).
  destruct (q_find i (queries p1)) as [x|] eqn:F; [|eapply polls_absent; eauto].
  destruct (AS _ _ F) as (s & St & L).
  eapply (pool_drains l2 p1 p' o2 i x s PI1 F St); [|exact R2|lia].
  intros no I. rewrite QT. specialize (T2 no I). lia.
Qed.

Lemma q_find_all_none qs : (forall i, q_find i qs = None) -> qs = [].
Proof.
  destruct qs as [|[j y] r]; [reflexivity|]. intros H. specialize (H j). cbn [q_find] in H.
  rewrite N.eqb_refl in H. discriminate.
Qed.

Lemma pool_empties_unstarted l1 l2 p p' os T :
  ppinv p -> starts_le T p ->
  (forall no, In no l1 -> fst no <= T) ->
  (forall no, In no l2 -> T + query_timeout p <= fst no) ->
  prun (polls (l1 ++ l2)) p = Some (p', os) ->
  mu (queries p) < N.of_nat (length l1) ->
  mu (queries p) < N.of_nat (length l2) ->
  queries p' = [].
Proof.
  intros. apply q_find_all_none. intros i. eapply pool_drains_unstarted; eauto.
Qed.
