(* C06, the clauses a gap audit found missing in Proofs/Rpc.v:
   R1  the forward statement of "IPv6 addresses of the IPv4-mapped/compatible forms decode to
       their IPv4 value by design": decode (encode m) = Ok (collapse m) for every message that is
       well formed except that a PONG may carry any 16-byte address;
   R2  the round trip in the other direction as a corollary of decode_msg_canonical:
       encode (decode bs) = bs, except for a PONG whose IPv6 address was collapsed.
   New lemmas only; nothing of Model/Rlp.v, Model/Rpc.v, Proofs/Rlp.v, Proofs/Rpc.v is changed. *)
From Coq Require Import List Arith NArith Bool Lia.
From Discv5V Require Import Generated.Params Model.Rlp Model.Rpc Proofs.Rlp Proofs.Rpc.
Import ListNotations.
Local Open Scope N_scope.
Local Open Scope res_scope.

(* an address of the right size, whatever its form *)
Definition wf_ip_lax (ip : ipaddr) : Prop :=
  match ip with
  | IP4 o => length o = 4%nat /\ bytes_ok o
  | IP6 o => length o = 16%nat /\ bytes_ok o
  end.

Lemma wf_ip_is_lax : forall ip, wf_ip ip -> wf_ip_lax ip.
Proof. intros [o|o]; cbn; tauto. Qed.

Section RpcGap.
  Variable enr : Type.
  Variable enr_encode : enr -> bytes.
  Variable enr_decode : bytes -> option enr.

  Local Notation msg := (msg enr).
  Local Notation encode_msg := (encode_msg enr enr_encode).
  Local Notation encode_body := (encode_body enr enr_encode).
  Local Notation decode_msg := (decode_msg enr enr_encode enr_decode).
  Local Notation decode_body := (decode_body enr enr_encode enr_decode).
  Local Notation collapse := (collapse enr).
  Local Notation Hround := (enr_round_trip enr enr_encode enr_decode).
  Local Notation Hcanon := (enr_canonical enr enr_encode enr_decode).
  Local Notation Hlists := (enr_only_lists enr enr_decode).

  (* what the address field of a PONG decodes to *)
  Lemma ip_of_bytes_collapse : forall ip, wf_ip_lax ip -> ip_of_bytes (ip_octets ip) = Ok (collapse_ip ip).
  Proof.
    intros [o|o]; cbn [wf_ip_lax ip_octets collapse_ip]; unfold ip_of_bytes.
    - intros [-> _]. reflexivity.
    - intros [-> _]. cbn [Nat.eqb]. destruct (is_loopback6 o); [reflexivity|].
      destruct (to_ipv4 o); reflexivity.
  Qed.

  (* [wf_msg] of Proofs/Rpc.v with the address condition of PONG relaxed to "4 or 16 bytes" *)
  Definition wf_msg_lax (m : msg) : Prop :=
    bytes_ok (msg_id m) /\ len (msg_id m) <= REQUEST_ID_MAX_LEN /\
    len (encode_msg m) < 2 ^ 64 /\
    match m with
    | Ping _ enr_seq => enr_seq < 2 ^ 64
    | Pong _ enr_seq ip port => enr_seq < 2 ^ 64 /\ wf_ip_lax ip /\ 1 <= port <= 65535
    | FindNode _ distances => Forall (fun d => d <= FINDNODE_MAX_DISTANCE) distances
    | Nodes _ total _ => total < 2 ^ 64
    | TalkReq _ protocol request => bytes_ok protocol /\ bytes_ok request
    | TalkResp _ response => bytes_ok response
    end.

  Lemma wf_msg_is_lax : forall m, wf_msg enr enr_encode m -> wf_msg_lax m.
  Proof.
    intros m (H1 & H2 & H3 & H4). split; [exact H1|]. split; [exact H2|]. split; [exact H3|].
    destruct m; try exact H4. destruct H4 as (Ha & Hb & Hc).
    split; [exact Ha|]. split; [apply wf_ip_is_lax; exact Hb|exact Hc].
  Qed.

  (* R1, PONG: no premise on the record codec *)
  Theorem decode_encode_pong_collapse : forall fixed id s ip p,
    wf_msg_lax (Pong id s ip p) ->
    decode_msg fixed (encode_msg (Pong id s ip p)) = Ok (Pong id s (collapse_ip ip) p).
  Proof.
    intros fixed id s ip p (Hidok & Hid & H64 & Hs & Hip & Hp). cbn [msg_id] in *.
    rewrite encode_msg_len in H64.
    unfold Rpc.encode_msg. rewrite decode_msg_frame by (try lia; apply body_len_ge_2).
    cbn [encode_body msg_type] in *. rewrite !len_app in H64. rewrite two64 in *.
    assert (Hid64 : len id < 18446744073709551616) by (unfold REQUEST_ID_MAX_LEN in Hid; lia).
    unfold Rpc.decode_body.
    rewrite decode_bytes_encode by (try rewrite two64; assumption). cbn [bind].
    rewrite request_id_ok by assumption. cbn [bind N.eqb Pos.eqb].
    rewrite decode_uint_encode by (try lia; rewrite pow256_8; assumption). cbn [bind].
    assert (Hipb : bytes_ok (ip_octets ip) /\ len (ip_octets ip) < 18446744073709551616).
    { destruct ip as [o|o]; cbn [wf_ip_lax ip_octets] in *; unfold len; destruct Hip as [-> ?];
        (split; [assumption|cbn; lia]). }
    rewrite decode_bytes_encode by (try rewrite two64; tauto). cbn [bind].
    rewrite ip_of_bytes_collapse by assumption. cbn [bind].
    rewrite <- (app_nil_r (encode_uint 2 p)).
    rewrite decode_uint_encode by (try lia; rewrite pow256_2; lia). cbn [bind].
    destruct (N.eqb_spec p 0); [lia|]. reflexivity.
  Qed.

  (* the instance of the property text: an IPv4-mapped / IPv4-compatible address other than ::1
     decodes to its IPv4 value *)
  Theorem decode_encode_pong_mapped : forall fixed id s o v4 p,
    bytes_ok id -> len id <= REQUEST_ID_MAX_LEN -> s < 2 ^ 64 -> 1 <= p <= 65535 ->
    length o = 16%nat -> bytes_ok o -> len (encode_msg (Pong id s (IP6 o) p)) < 2 ^ 64 ->
    is_loopback6 o = false -> to_ipv4 o = Some v4 ->
    decode_msg fixed (encode_msg (Pong id s (IP6 o) p)) = Ok (Pong id s (IP4 v4) p).
  Proof.
    intros fixed id s o v4 p Hidok Hid Hs Hp Hlen Hok H64 Hlb Hv4.
    rewrite decode_encode_pong_collapse.
    - cbn [collapse_ip]. rewrite Hlb, Hv4. reflexivity.
    - unfold wf_msg_lax. cbn [msg_id wf_ip_lax]. tauto.
  Qed.

  (* R1, every message *)
  Theorem decode_encode_msg_collapse : Hround -> Hlists ->
    forall fixed m, wf_msg_lax m -> decode_msg fixed (encode_msg m) = Ok (collapse m).
  Proof.
    intros Hr Hl fixed m Hwf.
    destruct m as [id s|id s ip p|id ds|id t ns|id p r|id r];
      try (cbn [Rpc.collapse]; apply (decode_encode_msg enr enr_encode enr_decode Hr Hl); exact Hwf).
    cbn [Rpc.collapse]. apply decode_encode_pong_collapse. exact Hwf.
  Qed.

  (* the collapse is the identity exactly on the messages that are well formed in the strict sense *)
  Lemma collapse_wf : forall m, wf_msg enr enr_encode m -> collapse m = m.
  Proof.
    intros m (_ & _ & _ & H). destruct m as [id s|id s ip p|id ds|id t ns|id p r|id r]; try reflexivity.
    destruct H as (_ & Hip & _). cbn [Rpc.collapse]. f_equal.
    destruct ip as [o|o]; [reflexivity|]. cbn [wf_ip collapse_ip] in *.
    destruct Hip as (_ & _ & [-> | ->]); [reflexivity|]. destruct (is_loopback6 o); reflexivity.
  Qed.

  (* ---------------------------------------------------------------------------------------- *)
  (* R2: encode after decode *)

  Lemma collapse_ip_cases : forall ip,
    collapse_ip ip = ip \/
    exists o v4, ip = IP6 o /\ is_loopback6 o = false /\ to_ipv4 o = Some v4 /\ collapse_ip ip = IP4 v4.
  Proof.
    intros [o|o]; [left; reflexivity|]. cbn [collapse_ip].
    destruct (is_loopback6 o) eqn:Hlb; [left; reflexivity|].
    destruct (to_ipv4 o) as [v4|] eqn:Hv4; [|left; reflexivity].
    right. exists o, v4. auto.
  Qed.

  Theorem encode_decode_msg : Hcanon -> forall bs m, bytes_ok bs ->
    decode_msg true bs = Ok m ->
    encode_msg m = bs \/
    exists id s o v4 p, m = Pong id s (IP4 v4) p /\ is_loopback6 o = false /\ to_ipv4 o = Some v4 /\
                        length o = 16%nat /\ bs = encode_msg (Pong id s (IP6 o) p).
  Proof.
    intros Hc bs m Hok H.
    destruct (decode_msg_canonical enr enr_encode enr_decode Hc bs m Hok H) as (m' & -> & Hacc & Hcol).
    destruct m' as [id s|id s ip p|id ds|id t ns|id p r|id r]; cbn [Rpc.collapse] in Hcol;
      try (left; rewrite <- Hcol; reflexivity).
    destruct (collapse_ip_cases ip) as [E|(o & v4 & -> & Hlb & Hv4 & E)].
    - left. rewrite <- Hcol, E. reflexivity.
    - right. exists id, s, o, v4, p. rewrite E in Hcol.
      destruct Hacc as (_ & _ & _ & Hlen). auto.
  Qed.

  (* every message but a PONG with an IPv4 address re-encodes to the accepted bytes *)
  Theorem encode_decode_msg_exact : Hcanon -> forall bs m, bytes_ok bs ->
    decode_msg true bs = Ok m ->
    match m with Pong _ _ (IP4 _) _ => False | _ => True end ->
    encode_msg m = bs.
  Proof.
    intros Hc bs m Hok H Hm.
    destruct (encode_decode_msg Hc bs m Hok H) as [E|(id & s & o & v4 & p & -> & _)]; [exact E|].
    contradiction.
  Qed.

  (* ... and a PONG with an IPv4 address has exactly the two possible origins: its own encoding, or
     the encoding with one of the 16-byte forms of that address *)
  Theorem encode_decode_pong4 : Hcanon -> forall bs id s v4 p, bytes_ok bs ->
    decode_msg true bs = Ok (Pong id s (IP4 v4) p) ->
    bs = encode_msg (Pong id s (IP4 v4) p) \/
    exists o, length o = 16%nat /\ is_loopback6 o = false /\ to_ipv4 o = Some v4 /\
              bs = encode_msg (Pong id s (IP6 o) p).
  Proof.
    intros Hc bs id s v4 p Hok H.
    destruct (encode_decode_msg Hc bs _ Hok H) as [E|(id' & s' & o & v4' & p' & Em & Hlb & Hv4 & Hlen & Ebs)];
      [left; symmetry; exact E|].
    right. inversion Em; subst. exists o. auto.
  Qed.

End RpcGap.

(* the hypotheses of R1 are satisfiable: a PONG carrying ::ffff:10.0.0.1 *)
Definition mapped_10_0_0_1 : bytes := [0;0;0;0;0;0;0;0;0;0;255;255;10;0;0;1].

Example pong_mapped_example :
  wf_msg_lax bool toy_encode (Pong [1; 2] 7 (IP6 mapped_10_0_0_1) 30303) /\
  is_loopback6 mapped_10_0_0_1 = false /\ to_ipv4 mapped_10_0_0_1 = Some [10; 0; 0; 1] /\
  ~ wf_msg bool toy_encode (Pong [1; 2] 7 (IP6 mapped_10_0_0_1) 30303) /\
  decode_msg bool toy_encode toy_decode true
    (encode_msg bool toy_encode (Pong [1; 2] 7 (IP6 mapped_10_0_0_1) 30303))
  = Ok (Pong [1; 2] 7 (IP4 [10; 0; 0; 1]) 30303).
Proof.
  split.
  { unfold wf_msg_lax. cbn [msg_id wf_ip_lax]. split; [repeat constructor|].
    split; [vm_compute; discriminate|]. split; [vm_compute; reflexivity|].
    split; [vm_compute; reflexivity|]. split; [|split; vm_compute; discriminate].
    split; [reflexivity|]. unfold mapped_10_0_0_1. repeat constructor. }
  split; [reflexivity|]. split; [reflexivity|]. split; [|vm_compute; reflexivity].
  intros (_ & _ & _ & _ & (_ & _ & [H|H]) & _); vm_compute in H; discriminate.
Qed.
