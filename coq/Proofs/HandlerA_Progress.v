(* C04, progress part: refutation record for the pinned behaviour (D2a), bounded retransmission by
   timeouts, and the no-orphans invariant. *)
From Coq Require Import List Arith NArith Bool Lia.
From Discv5V Require Import Model.Handler Proofs.HandlerInv Proofs.HandlerA_Ledger.
Import ListNotations.
Local Open Scope N_scope.

(* ------------------------------------------------------------------------------------------ *)
(* D2a: both sides dial each other.  We send request 100 to P (random packet); P's own random packet
   arrives and the application answers with a WHOAREYOU (challenge for P); request 101 is queued
   behind the challenge; P's WHOAREYOU for request 100 arrives and we answer with a handshake (a
   session is inserted; request 101 stays queued, the challenge is still pending); P's handshake
   answering our challenge arrives while the session exists (update branch of new_session).  On
   the pinned tree nothing releases request 101: after the answer to request 100 no timer is armed
   at all. *)
Definition ex_kd2 : key := mk_key 77 1 62 2 1 false.
Definition ex_orphan_events : list (event * N * draws) :=
  [ (EvRequest ex_peer 100 7, 0, ex_draws 50);
    (EvInbound 20 (PMsg 2 (5, 5) 0 (CJunk 0)), 10, ex_draws 55);
    (EvWhoAreYou (2, 20) (5, 5) (Some (ex_enr 2 20)), 20, ex_draws 60);
    (EvRequest ex_peer 101 8, 30, ex_draws 65);
    (EvInbound 20 (PWho (50, 51) 1 1 9), 40, ex_draws 70);
    (EvInbound 20 (PHs 2 (8, 8) 3 (Sig 2 62 77 1) 77 true None (CEnc ex_kd2 (8, 8) (MReq 500 1) 3)), 50, ex_draws 80);
    (EvInbound 20 (PMsg 2 (9, 9) 4 (CEnc ex_kd2 (9, 9) (MResp 100 (ROther 1)) 4)), 60, ex_draws 90) ].

Theorem pinned_orphan_refuted :
  exists c evs na, fix_d2a c = false /\
    let h := fst (run c init_state evs) in
    (exists q l, alist_get na (pending h) = Some (q :: l)) /\
    challenges h = [] /\ active h = [] /\ nmap h = [].
Proof.
  exists (ex_cfg false), ex_orphan_events, (2, 20). split; [reflexivity|].
  vm_compute. split; [eauto|]. repeat split.
Qed.

(* with the repair the same events release request 101 when P's handshake arrives *)
Example fixed_no_orphan :
  let h := fst (run (ex_cfg true) init_state ex_orphan_events) in
  pending h = [] /\ map rc_rid (concat (map snd (active h))) = [101].
Proof. vm_compute. split; reflexivity. Qed.

(* ------------------------------------------------------------------------------------------ *)
(* no_orphans: in every reachable state (with the D2a repair) a node address with queued requests
   has an armed timer that will release or fail them: a pending challenge for that address, or - no
   session yet - an active request to it that initiates a session (rc_init).  This is exactly the
   condition under which send_request queues a request.
   Together with it: every stored request is stored under the node address of its contact, and its
   transmission counter satisfies 1 <= rc_retries <= max 1 cfg_retries (timeout_bounded). *)
Local Close Scope N_scope.

From Discv5V Require Import Proofs.HandlerA_Nonce.   (* alist_get_set & co *)

Definition sess_none (h : hstate) (na : naddr) : Prop := alist_get na (sessions h) = None.
Definition has_init (h : hstate) (na : naddr) : Prop :=
  exists l, alist_get na (active h) = Some l /\ existsb rc_init l = true.

(* the keys of the session cache are pairwise distinct (an expired entry is removed by key) *)
Definition SessND (h : hstate) : Prop := NoDup (map fst (sessions h)).

(* [cred]: the node address of a session-initiating request that was taken out of the active
   requests and is about to be re-inserted or failed *)
Definition AwaitC (cred : option naddr) (h : hstate) (na : naddr) : Prop :=
  has_challenge h na = true \/ (sess_none h na /\ (cred = Some na \/ has_init h na)).
Definition Awaiting (h : hstate) (na : naddr) : Prop := AwaitC None h na.

(* per-request facts *)
Definition Qreq (c : config) (na : naddr) (r : rcall) : Prop :=
  c_naddr (rc_contact r) = na /\ (1 <= rc_retries r)%N /\ (rc_retries r <= N.max 1 (cfg_retries c))%N.
Definition AQ (c : config) (act : list (naddr * list rcall)) : Prop :=
  Forall (fun e => Forall (Qreq c (fst e)) (snd e)) act.

(* [E]: node addresses whose queue is about to be released or failed *)
Definition NOC (c : config) (cred : option naddr) (E : naddr -> Prop) (h : hstate) : Prop :=
  AQ c (active h) /\ NoDup (map fst (pending h)) /\
  (forall na, ~ E na -> alist_get na (pending h) = None \/ AwaitC cred h na) /\ SessND h.
Definition none : naddr -> Prop := fun _ => False.
Definition NoOrph (c : config) (h : hstate) : Prop := NOC c None none h.

Lemma naddr_dec : forall a b : naddr, a = b \/ a <> b.
Proof. intros a b. destruct (naddr_eqb a b) eqn:E; [left; apply naddr_eqb_spec; exact E|right; apply naddr_eqb_neq; exact E]. Qed.

Lemma NOC_weaken : forall c cred (E E' : naddr -> Prop) h, (forall na, E na -> E' na) -> NOC c cred E h -> NOC c cred E' h.
Proof.
  intros c cred E E' h H (A & B & C & D). split; [exact A|split; [exact B|split; [|exact D]]]. intros na Hn. apply C. auto.
Qed.
(* the invariant does not depend on the clock of the environment *)
Lemma NOC_with_clock : forall c t cred E h, NOC (with_clock c t) cred E h = NOC c cred E h.
Proof. reflexivity. Qed.

(* states that agree on the relevant parts *)
Definition same_no (h' h : hstate) : Prop :=
  active h' = active h /\ pending h' = pending h /\ challenges h' = challenges h /\
  (forall na, sess_none h na -> sess_none h' na) /\ (SessND h -> SessND h').

Lemma has_challenge_same : forall h h' na, challenges h' = challenges h -> has_challenge h' na = has_challenge h na.
Proof. intros h h' na E. unfold has_challenge. rewrite E. reflexivity. Qed.

Lemma NOC_same : forall c cred E h h', same_no h' h -> NOC c cred E h -> NOC c cred E h'.
Proof.
  intros c cred E h h' (E1 & E2 & E3 & E4 & E5) (A & B & C & D).
  split; [rewrite E1; exact A|split; [rewrite E2; exact B|split; [|apply E5; exact D]]].
  intros na Hn. rewrite E2. destruct (C na Hn) as [H|H]; [left; exact H|right].
  destruct H as [H|[H1 H2]]; [left; rewrite (has_challenge_same h h' na E3); exact H|right].
  split; [apply E4; exact H1|]. destruct H2 as [H2|H2]; [left; exact H2|right]. unfold has_init in *. rewrite E1. exact H2.
Qed.

Lemma same_no_refl : forall h, same_no h h.
Proof. intros h. split; [|split; [|split; [|split]]]; auto. Qed.
Lemma same_no_trans : forall h1 h2 h3, same_no h1 h2 -> same_no h2 h3 -> same_no h1 h3.
Proof.
  intros h1 h2 h3 (A1 & A2 & A3 & A4 & A5) (B1 & B2 & B3 & B4 & B5).
  split; [congruence|split; [congruence|split; [congruence|split]]].
  - intros na H. apply A4, B4, H.
  - intros H. apply A5, B5, H.
Qed.
(* states that differ only in parts the invariant does not look at *)
Lemma same_no_sess : forall h' h, active h' = active h -> pending h' = pending h -> challenges h' = challenges h ->
  sessions h' = sessions h -> same_no h' h.
Proof.
  intros h' h E1 E2 E3 E4. split; [exact E1|split; [exact E2|split; [exact E3|]]].
  unfold sess_none, SessND. rewrite E4. auto.
Qed.

Lemma sess_remove_no : forall h na, same_no (sess_remove h na) h.
Proof.
  intros h na. split; [reflexivity|split; [reflexivity|split; [reflexivity|split]]].
  - intros na' H. unfold sess_none in *. cbn [sess_remove set_sessions sessions].
    apply alist_get_none. apply alist_get_none in H. intros Hin. apply H.
    apply in_map_iff in Hin. destruct Hin as (x & Hx & Hin). apply alist_remove_in in Hin. apply in_map_iff. eauto.
  - intros D. unfold SessND in *. cbn [sess_remove set_sessions sessions]. apply alist_remove_keys_nodup. exact D.
Qed.

Lemma sess_get_no : forall c h na, same_no (fst (sess_get c h na)) h.
Proof.
  intros c h na. unfold sess_get. destruct (alist_get na (sessions h)) as [se|] eqn:G; [|apply same_no_refl].
  destruct (sess_expired c se); cbn [fst]; [exact (sess_remove_no h na)|].
  split; [reflexivity|split; [reflexivity|split; [reflexivity|split]]].
  - intros na' H. unfold sess_none in *. cbn [set_sessions sessions].
    rewrite alist_get_app. destruct (naddr_eqb na' na) eqn:E.
    + apply naddr_eqb_spec in E. subst. congruence.
    + rewrite alist_get_remove_other by assumption. rewrite H. cbn [alist_get]. rewrite E. reflexivity.
  - intros D. unfold SessND in *. cbn [set_sessions sessions]. rewrite map_app. cbn [map fst].
    apply NoDup_snoc; [apply alist_remove_keys_nodup; exact D|apply alist_remove_key_gone; exact D].
Qed.

Lemma sess_put_no : forall h na se, alist_get na (sessions h) <> None -> same_no (sess_put h na se) h.
Proof.
  intros h na se G. split; [reflexivity|split; [reflexivity|split; [reflexivity|split]]].
  - intros na' H. unfold sess_none in *. cbn [sess_put set_sessions sessions].
    rewrite alist_get_set. destruct (naddr_eqb na' na) eqn:E; [|exact H]. apply naddr_eqb_spec in E. subst. contradiction.
  - intros D. unfold SessND in *. cbn [sess_put set_sessions sessions].
    destruct (alist_get na (sessions h)) as [s0|] eqn:G0; [|contradiction]. rewrite (alist_set_keys _ _ _ _ G0). exact D.
Qed.

Lemma remove_expired_sessions_no : forall c s, same_no (hs (remove_expired_sessions c s)) (hs s).
Proof.
  intros c s. rewrite remove_expired_sessions_hs. destruct (drop_expired_split c (sessions (hs s))) as (pre & H1 & _).
  set (suf := snd (drop_expired c (sessions (hs s)))) in *.
  split; [reflexivity|split; [reflexivity|split; [reflexivity|split]]].
  - intros na H. unfold sess_none in *. cbn [set_sessions sessions]. rewrite H1, alist_get_app in H.
    destruct (alist_get na pre); [discriminate|exact H].
  - intros D. unfold SessND in *. cbn [set_sessions sessions]. rewrite H1, map_app in D.
    clear H1. induction pre as [|x t IH]; [exact D|]. apply IH. cbn [map app] in D. inversion D; assumption.
Qed.

Lemma alist_get_tl_none : forall {A} (l : list (naddr * A)) k, alist_get k l = None -> alist_get k (tl l) = None.
Proof.
  intros A l k H. destruct l as [|[k0 v0] t]; [exact H|]. cbn [tl]. cbn [alist_get] in H.
  destruct (naddr_eqb k k0); [discriminate|exact H].
Qed.

Lemma sess_insert_none : forall c h na se na', na' <> na -> sess_none h na' -> sess_none (sess_insert c h na se) na'.
Proof.
  intros c h na se na' Hne H. unfold sess_none in *. cbn [sess_insert set_sessions sessions].
  generalize (touch se (cfg_clock c)). clear se. intros se.
  assert (X : alist_get na' (alist_remove na (sessions h) ++ [(na, se)]) = None).
  { rewrite alist_get_app. rewrite alist_get_remove_other by (apply naddr_eqb_neq; exact Hne). rewrite H.
    cbn [alist_get]. apply naddr_eqb_neq in Hne. rewrite Hne. reflexivity. }
  destruct (Nat.ltb (cfg_capacity c) (length (alist_remove na (sessions h) ++ [(na, se)]))); [|exact X].
  apply alist_get_tl_none. exact X.
Qed.

Lemma sess_insert_nd : forall c h na se, SessND h -> SessND (sess_insert c h na se).
Proof.
  intros c h na se D. unfold SessND in *. cbn [sess_insert set_sessions sessions].
  generalize (touch se (cfg_clock c)). clear se. intros se.
  assert (X : NoDup (map fst (alist_remove na (sessions h) ++ [(na, se)]))).
  { rewrite map_app. cbn [map fst].
    apply NoDup_snoc; [apply alist_remove_keys_nodup; exact D|apply alist_remove_key_gone; exact D]. }
  destruct (Nat.ltb (cfg_capacity c) (length (alist_remove na (sessions h) ++ [(na, se)]))); [|exact X].
  destruct (alist_remove na (sessions h) ++ [(na, se)]) as [|x t]; [exact X|]. cbn [tl]. cbn [map] in X.
  inversion X; assumption.
Qed.

(* stored requests *)
Lemma AQ_get : forall c act na l, AQ c act -> alist_get na act = Some l -> Forall (Qreq c na) l.
Proof. intros c act na l H G. apply alist_get_in in G. unfold AQ in H. rewrite Forall_forall in H. apply (H _ G). Qed.
Lemma AQ_set : forall c act na l', AQ c act -> Forall (Qreq c na) l' -> AQ c (alist_set na l' act).
Proof. intros c act na l' H Hl. apply Forall_alist_set; assumption. Qed.
Lemma AQ_remove : forall c act na, AQ c act -> AQ c (alist_remove na act).
Proof. intros c act na H. apply Forall_alist_remove. exact H. Qed.
Lemma AQ_put : forall c act na l', AQ c act -> Forall (Qreq c na) l' -> AQ c (put_list na l' act).
Proof. intros c act na l' H Hl. unfold put_list. destruct l'; [apply AQ_remove|apply AQ_set]; assumption. Qed.
Lemma AQ_insert : forall c h na r now, AQ c (active h) -> Qreq c na r -> AQ c (active (ar_insert c h na r now)).
Proof.
  intros c h na r now H Hr. unfold ar_insert. cbn [set_active active].
  destruct (alist_get na (active h)) as [l|] eqn:G.
  - apply AQ_set; [exact H|]. apply Forall_app. split; [eapply AQ_get; eauto|constructor; [exact Hr|constructor]].
  - apply Forall_app. split; [exact H|]. constructor; [|constructor]. cbn [fst snd]. constructor; [exact Hr|constructor].
Qed.

Lemma existsb_remove_first : forall {A} (q p : A -> bool) l r l',
  remove_first p l = Some (r, l') -> existsb q l = q r || existsb q l'.
Proof.
  intros A q p. induction l as [|a t IH]; cbn [remove_first]; intros r l' H; [discriminate|].
  destruct (p a).
  - inversion H; subst. reflexivity.
  - destruct (remove_first p t) as [[y t']|]; [|discriminate]. inversion H; subst.
    cbn [existsb]. rewrite (IH _ _ eq_refl). destruct (q a); destruct (q r); reflexivity.
Qed.

Lemma has_init_insert : forall c h na r now na', has_init h na' -> has_init (ar_insert c h na r now) na'.
Proof.
  intros c h na r now na' (l & G & Hx). unfold has_init, ar_insert. cbn [set_active active].
  destruct (alist_get na (active h)) as [l0|] eqn:G0.
  - rewrite alist_get_set. destruct (naddr_eqb na' na) eqn:E.
    + apply naddr_eqb_spec in E. subst na'. rewrite G in G0. inversion G0; subst. exists (l0 ++ [r]). split; [reflexivity|].
      rewrite existsb_app, Hx. reflexivity.
    + exists l. auto.
  - rewrite alist_get_app, G. exists l. auto.
Qed.
Lemma has_init_insert_new : forall c h na r now, rc_init r = true -> has_init (ar_insert c h na r now) na.
Proof.
  intros c h na r now Hr. unfold has_init, ar_insert. cbn [set_active active].
  destruct (alist_get na (active h)) as [l0|] eqn:G0.
  - rewrite alist_get_set, naddr_eqb_refl. exists (l0 ++ [r]). split; [reflexivity|].
    rewrite existsb_app. cbn [existsb]. rewrite Hr. destruct (existsb rc_init l0); reflexivity.
  - rewrite alist_get_app, G0. cbn [alist_get]. rewrite naddr_eqb_refl. exists [r]. split; [reflexivity|].
    cbn [existsb]. rewrite Hr. reflexivity.
Qed.

Lemma alist_get_put_other : forall act na l' na', naddr_eqb na' na = false ->
  alist_get na' (put_list na l' act) = alist_get na' act.
Proof.
  intros act na l' na' E. unfold put_list. destruct l'.
  - apply alist_get_remove_other. exact E.
  - rewrite alist_get_set, E. reflexivity.
Qed.

(* taking a request out *)
Lemma has_init_take : forall h na l p r l' nm na',
  alist_get na (active h) = Some l -> remove_first p l = Some (r, l') ->
  has_init h na' ->
  (na' = na /\ rc_init r = true) \/ has_init (set_active h (put_list na l' (active h)) nm) na'.
Proof.
  intros h na l p r l' nm na' G R (l0 & G0 & Hx). destruct (naddr_eqb na' na) eqn:E.
  - apply naddr_eqb_spec in E. subst na'. rewrite G in G0. inversion G0; subst l0.
    rewrite (existsb_remove_first rc_init p l r l' R) in Hx. destruct (rc_init r) eqn:Hr; [left; auto|right].
    cbn [orb] in Hx. unfold has_init. cbn [set_active active]. unfold put_list. destruct l' as [|x l']; [discriminate|].
    rewrite alist_get_set, naddr_eqb_refl. exists (x :: l'). auto.
  - right. unfold has_init. cbn [set_active active]. rewrite alist_get_put_other by assumption. exists l0. auto.
Qed.

Definition cred_of (na : naddr) (r : rcall) : option naddr := if rc_init r then Some na else None.

Lemma NOC_take : forall c E h na l p r l' nm,
  NOC c None E h -> alist_get na (active h) = Some l -> remove_first p l = Some (r, l') ->
  NOC c (cred_of na r) E (set_active h (put_list na l' (active h)) nm) /\ Qreq c na r.
Proof.
  intros c E h na l p r l' nm (A & B & C & D) G R.
  destruct (remove_first_Forall _ _ _ _ _ R (AQ_get _ _ _ _ A G)) as [Hr Hl']. split; [|exact Hr].
  split; [|split; [exact B|split; [|exact D]]]; cbn [set_active active pending].
  - apply AQ_put; assumption.
  - intros na' Hn. destruct (C na' Hn) as [H|H]; [left; exact H|right].
    destruct H as [H|[H1 [H2|H2]]]; [left; exact H|discriminate|right]. split; [exact H1|].
    destruct (has_init_take h na l p r l' nm na' G R H2) as [[E1 E2]|H3]; [left|right; exact H3].
    subst na'. unfold cred_of. rewrite E2. reflexivity.
Qed.

(* putting a request (back) in *)
Lemma NOC_insert : forall c cred E h na r now,
  NOC c cred E h -> Qreq c na r -> (cred = None \/ (cred = Some na /\ rc_init r = true)) ->
  NOC c None E (ar_insert c h na r now).
Proof.
  intros c cred E h na r now (A & B & C & D) Hr Hc. split; [apply AQ_insert; assumption|split; [exact B|split; [|exact D]]].
  intros na' Hn. destruct (C na' Hn) as [H|H]; [left; exact H|right].
  destruct H as [H|[H1 H2]]; [left; exact H|right]. split; [exact H1|]. right.
  destruct H2 as [H2|H2].
  - destruct Hc as [Hc|[Hc1 Hc2]]; [congruence|]. rewrite Hc1 in H2. inversion H2; subst na'.
    apply has_init_insert_new. exact Hc2.
  - apply has_init_insert. exact H2.
Qed.

Lemma NOC_cred_drop : forall c cred (E : naddr -> Prop) h na, (cred = None \/ cred = Some na) ->
  NOC c cred E h -> NOC c None (fun a => E a \/ a = na) h.
Proof.
  intros c cred E h na Hc (A & B & C & D). split; [exact A|split; [exact B|split; [|exact D]]]. intros na' Hn.
  destruct (C na') as [H|H]; [tauto|left; exact H|right].
  destruct H as [H|[H1 [H2|H2]]]; [left; exact H| |right; split; [exact H1|right; exact H2]].
  destruct Hc as [Hc|Hc]; [congruence|]. rewrite Hc in H2. inversion H2; subst. tauto.
Qed.

(* ------------------------------------------------------------------------------------------ *)
(* one lemma per model function *)

Lemma sess_get_some : forall c h na h2 se, sess_get c h na = (h2, Some se) -> alist_get na (sessions h2) <> None.
Proof.
  intros c h na h2 se H. apply sess_get_some_inv in H. destruct H as (s0 & _ & _ & _ & ->).
  cbn [set_sessions sessions]. rewrite alist_get_app.
  destruct (alist_get na (alist_remove na (sessions h))); [discriminate|]. cbn [alist_get]. rewrite naddr_eqb_refl. discriminate.
Qed.
(* nothing found: afterwards there is no session (an expired one has been removed) *)
Lemma sess_get_none : forall c h na h2, SessND h -> sess_get c h na = (h2, None) -> sess_none h2 na.
Proof.
  intros c h na h2 D H. apply sess_get_none_inv in H. destruct H as [-> _].
  unfold sess_none. cbn [set_sessions sessions]. apply alist_get_remove_same. exact D.
Qed.

Lemma is_awaiting_session_no : forall c s na, SessND (hs s) ->
  same_no (hs (fst (is_awaiting_session c s na))) (hs s) /\
  (snd (is_awaiting_session c s na) = true ->
     sess_none (hs (fst (is_awaiting_session c s na))) na /\ has_init (hs (fst (is_awaiting_session c s na))) na).
Proof.
  intros c s na D. unfold is_awaiting_session. pose proof (sess_get_no c (hs s) na) as H.
  destruct (sess_get c (hs s) na) as [h se] eqn:G. cbn [fst] in H. destruct se as [se|]; cbn [fst snd with_hs hs].
  - split; [exact H|discriminate].
  - split; [exact H|]. intros Hx. apply (sess_get_none c _ _ _ D) in G. split; [exact G|].
    unfold has_init. destruct (alist_get na (active h)) as [l|]; [|discriminate]. exists l. auto.
Qed.

Lemma NOC_push_pending : forall c E h na q, NOC c None E h -> AwaitC None h na -> NOC c None E (push_pending h na q).
Proof.
  intros c E h na q (A & B & C & D) Hw. unfold push_pending.
  assert (W : forall p, AwaitC None (set_pending h p) na) by (intros p; exact Hw).
  destruct (alist_get na (pending h)) as [l|] eqn:G.
  - split; [exact A|split; [|split; [|exact D]]]; cbn [set_pending pending active].
    + rewrite (alist_set_keys _ _ _ _ G). exact B.
    + intros na' Hn. rewrite alist_get_set. destruct (naddr_eqb na' na) eqn:E1.
      * apply naddr_eqb_spec in E1. subst na'. right. exact Hw.
      * destruct (C na' Hn) as [H|H]; [left; exact H|right; exact H].
  - split; [exact A|split; [|split; [|exact D]]]; cbn [set_pending pending active].
    + apply alist_keys_app_new; assumption.
    + intros na' Hn. rewrite alist_get_app. destruct (C na' Hn) as [H|H]; [|right; exact H].
      rewrite H. cbn [alist_get]. destruct (naddr_eqb na' na) eqn:E1; [|left; reflexivity].
      apply naddr_eqb_spec in E1. subst na'. right. exact Hw.
Qed.

Lemma NOC_with_same : forall c cred E s h, same_no h (hs s) -> NOC c cred E (hs s) -> NOC c cred E (hs (with_hs s h)).
Proof. intros c cred E s h H. cbn [with_hs hs]. apply NOC_same. exact H. Qed.

Lemma Qreq_new : forall c ct p ext rid body init,
  Qreq c (c_naddr ct) {| rc_contact := ct; rc_pkt := p; rc_ext := ext; rc_rid := rid; rc_body := body;
                         rc_hs_sent := false; rc_retries := 1; rc_remaining := None; rc_init := init |}.
Proof. intros. unfold Qreq. cbn [rc_contact rc_retries]. repeat split; lia. Qed.

Lemma send_request_no : forall c E s ct ext rid body now,
  NOC c None E (hs s) -> NOC c None E (hs (fst (send_request c s ct ext rid body now))).
Proof.
  intros c E s ct ext rid body now H. unfold send_request.
  destruct (existsb (N.eqb (c_addr ct)) (cfg_listen c)); [exact H|].
  assert (H1 : let r := (if has_challenge (hs s) (c_naddr ct) then (s, true) else is_awaiting_session c s (c_naddr ct)) in
               same_no (hs (fst r)) (hs s) /\ (snd r = true -> AwaitC None (hs (fst r)) (c_naddr ct))).
  { destruct (has_challenge (hs s) (c_naddr ct)) eqn:Hc; cbn [fst snd].
    - split; [apply same_no_refl|]. intros _. left. exact Hc.
    - destruct (is_awaiting_session_no c s (c_naddr ct)) as [X1 X2]; [apply H|]. split; [exact X1|]. intros Hx. right.
      destruct (X2 Hx) as [Y1 Y2]. split; [exact Y1|right; exact Y2]. }
  destruct (if has_challenge (hs s) (c_naddr ct) then (s, true) else is_awaiting_session c s (c_naddr ct))
    as [s1 aw]. cbn [fst snd] in H1. destruct H1 as [H1 H1'].
  assert (H2 : NOC c None E (hs s1)) by (eapply NOC_same; eauto).
  destruct aw; cbn [fst].
  - cbn [with_hs hs]. apply NOC_push_pending; [exact H2|]. apply H1'. reflexivity.
  - pose proof (sess_get_no c (hs s1) (c_naddr ct)) as H4. pose proof (sess_get_some c (hs s1) (c_naddr ct)) as H4'.
    destruct (sess_get c (hs s1) (c_naddr ct)) as [h2 se]. cbn [fst] in H4.
    assert (H3 : NOC c None E h2) by (eapply NOC_same; eauto).
    destruct se as [se|].
    + specialize (H4' _ _ eq_refl).
      pose proof (encrypt_message_hs c (with_hs s1 h2) (c_naddr ct) se (MReq rid body)) as H5.
      destruct (encrypt_message c (with_hs s1 h2) (c_naddr ct) se (MReq rid body)) as [[s3 se'] p].
      cbn [fst with_hs hs] in H5. cbn [fst with_hs hs send emit].
      apply (NOC_insert c None); [|apply Qreq_new|left; reflexivity].
      cbn [add_expected with_hs hs]. eapply NOC_same; [|exact H3]. rewrite H5.
      destruct (sess_put_no h2 (c_naddr ct) se' H4') as (P1 & P2 & P3 & P4 & P5).
      split; [exact P1|split; [exact P2|split; [exact P3|split; [exact P4|exact P5]]]].
    + destruct (pop_pk (dr (with_hs s1 h2))) as [[[[cn r] aad] x4] d']. cbn [fst with_hs hs send emit].
      apply (NOC_insert c None); [|apply Qreq_new|left; reflexivity].
      cbn [add_expected with_hs hs]. eapply NOC_same; [|exact H3]. repeat split; auto.
Qed.

Lemma send_pending_fold_no : forall c E now l s0, NOC c None E (hs s0) ->
  NOC c None E (hs (fold_left (fun s q =>
      let (s', ok) := send_request c s (pq_contact q) (pq_ext q) (pq_rid q) (pq_body q) now in
      if ok then s'
      else if pq_ext q then emit s' (OEvent (HRequestFailed (pq_rid q) ERR_SELF_REQUEST)) else s') l s0)).
Proof.
  intros c E now l s0 H. apply (fold_left_inv (fun s => NOC c None E (hs s))); [|exact H].
  intros s' q _ Hs'. pose proof (send_request_no c E s' (pq_contact q) (pq_ext q) (pq_rid q) (pq_body q) now Hs') as X.
  destruct (send_request c s' (pq_contact q) (pq_ext q) (pq_rid q) (pq_body q) now) as [s'' ok].
  cbn [fst] in X. destruct ok; [exact X|]. destruct (pq_ext q); exact X.
Qed.

Lemma NOC_remove_pending : forall c (E : naddr -> Prop) h na,
  NOC c None (fun a => E a \/ a = na) h -> NOC c None E (set_pending h (alist_remove na (pending h))).
Proof.
  intros c E h na (A & B & C & D). split; [exact A|split; [|split; [|exact D]]]; cbn [set_pending pending active].
  - apply alist_remove_keys_nodup. exact B.
  - intros na' Hn. destruct (naddr_eqb na' na) eqn:E1.
    + apply naddr_eqb_spec in E1. subst na'. left. apply alist_get_remove_same. exact B.
    + rewrite alist_get_remove_other by assumption. apply naddr_eqb_neq in E1. apply (C na'). tauto.
Qed.

Lemma NOC_pending_none : forall c (E : naddr -> Prop) h na,
  NOC c None (fun a => E a \/ a = na) h -> alist_get na (pending h) = None -> NOC c None E h.
Proof.
  intros c E h na (A & B & C & D) G. split; [exact A|split; [exact B|split; [|exact D]]]. intros na' Hn.
  destruct (naddr_dec na' na) as [->|Hne]; [left; exact G|]. apply C. tauto.
Qed.

Lemma send_pending_requests_no : forall c (E : naddr -> Prop) s na now,
  NOC c None (fun a => E a \/ a = na) (hs s) -> NOC c None E (hs (send_pending_requests c s na now)).
Proof.
  intros c E s na now H. unfold send_pending_requests.
  destruct (alist_get na (pending (hs s))) as [l|] eqn:G.
  - apply send_pending_fold_no. cbn [with_hs hs]. apply NOC_remove_pending. exact H.
  - eapply NOC_pending_none; eauto.
Qed.

Lemma NOC_remove_requests : forall c E h na h3 reqs,
  NOC c None E h -> alist_get na (pending h) = None -> ar_remove_requests h na = (h3, reqs) -> NOC c None E h3.
Proof.
  intros c E h na h3 reqs (A & B & C & D) G R. unfold ar_remove_requests in R.
  destruct (alist_get na (active h)) as [l|] eqn:G1; injection R as <- <-;
    [|split; [exact A|split; [exact B|split; [exact C|exact D]]]].
  split; [apply AQ_remove; exact A|split; [exact B|split; [|exact D]]]. cbn [set_active active pending].
  intros na' Hn. destruct (naddr_dec na' na) as [->|Hne]; [left; exact G|].
  destruct (C na' Hn) as [H|H]; [left; exact H|right].
  destruct H as [H|[H1 [H2|H2]]]; [left; exact H|discriminate|right]. split; [exact H1|right].
  destruct H2 as (l0 & G0 & Hx). exists l0. split; [|exact Hx]. cbn [set_active active].
  rewrite alist_get_remove_other; [exact G0|apply naddr_eqb_neq; exact Hne].
Qed.

Lemma fold_emit_hs_eq : forall {B} (f : st -> B -> st) (l : list B) (s0 : st),
  (forall s b, hs (f s b) = hs s) -> hs (fold_left f l s0) = hs s0.
Proof.
  intros B f l. induction l as [|b t IH]; intros s0 H; cbn [fold_left]; [reflexivity|]. rewrite IH by assumption. apply H.
Qed.

Lemma fail_session_no : forall c (E : naddr -> Prop) s na err rm,
  NOC c None (fun a => E a \/ a = na) (hs s) -> NOC c None E (hs (fail_session c s na err rm)).
Proof.
  intros c E s na err rm H. unfold fail_session.
  set (s1 := if rm then let s0 := remove_expired_sessions c s in with_hs s0 (sess_remove (hs s0) na) else s).
  assert (H1 : NOC c None (fun a => E a \/ a = na) (hs s1)).
  { subst s1. destruct rm; [|exact H]. cbv zeta. apply NOC_with_same; [apply sess_remove_no|].
    eapply NOC_same; [apply remove_expired_sessions_no|exact H]. }
  clearbody s1.
  set (s2 := match alist_get na (pending (hs s1)) with Some l => _ | None => s1 end).
  assert (H2 : NOC c None E (hs s2) /\ alist_get na (pending (hs s2)) = None).
  { subst s2. destruct (alist_get na (pending (hs s1))) as [l|] eqn:G.
    - rewrite fold_emit_hs_eq by (intros s0 q; destruct (pq_ext q); reflexivity). cbn [with_hs hs].
      split; [apply NOC_remove_pending; exact H1|]. cbn [set_pending pending]. apply alist_get_remove_same. apply H1.
    - split; [eapply NOC_pending_none; eauto|exact G]. }
  clearbody s2. destruct H2 as [H2 G2].
  destruct (ar_remove_requests (hs s2) na) as [h3 reqs] eqn:R.
  pose proof (NOC_remove_requests c E _ _ _ _ H2 G2 R) as H3.
  apply (fold_left_inv (fun s' => NOC c None E (hs s'))).
  - intros s' r _ Hs'. cbn [remove_expected with_hs hs]. eapply NOC_same; [|destruct (rc_ext r); exact Hs'].
    destruct (rc_ext r); repeat split; auto.
  - exact H3.
Qed.

Lemma fail_request_no : forall c (E : naddr -> Prop) cred s na r err rm,
  Qreq c na r -> (cred = None \/ cred = Some na) -> NOC c cred E (hs s) ->
  NOC c None E (hs (fail_request c s r err rm)).
Proof.
  intros c E cred s na r err rm (Hq & _) Hc H. unfold fail_request. rewrite Hq. apply fail_session_no.
  eapply NOC_same; [|eapply NOC_cred_drop; eauto]. destruct (rc_ext r); apply same_no_refl.
Qed.

Lemma upd_pkt_Q : forall c na old p l done, Forall (Qreq c na) l -> Forall (Qreq c na) (upd_pkt old p l done).
Proof.
  intros c na old p. induction l as [|r t IH]; intros done H; cbn [upd_pkt]; [constructor|].
  inversion H; subst. destruct (negb done && nonce_eqb (rc_nonce r) old); constructor; auto.
Qed.
Lemma upd_pkt_init : forall old p l done, existsb rc_init (upd_pkt old p l done) = existsb rc_init l.
Proof.
  intros old p. induction l as [|r t IH]; intros done; cbn [upd_pkt existsb]; [reflexivity|].
  destruct (negb done && nonce_eqb (rc_nonce r) old); cbn [existsb rc_init]; rewrite IH; reflexivity.
Qed.

Lemma NOC_update_packet : forall c cred E h old p now, NOC c cred E h -> NOC c cred E (ar_update_packet c h old p now).
Proof.
  intros c cred E h old p now H. rewrite ar_update_packet_eq.
  destruct (nmap_get old (nmap h)) as [na|]; [|exact H]. cbv zeta.
  destruct (alist_get na (active h)) as [l|] eqn:G; [|exact H].
  destruct H as (A & B & C & D). split; [|split; [exact B|split; [|exact D]]]; cbn [set_active active pending].
  - apply AQ_set; [exact A|]. apply upd_pkt_Q. eapply AQ_get; eauto.
  - intros na' Hn. destruct (C na' Hn) as [H|H]; [left; exact H|right].
    destruct H as [H|[H1 H2]]; [left; exact H|right]. split; [exact H1|]. destruct H2 as [H2|H2]; [left; exact H2|right].
    destruct H2 as (l0 & G0 & Hx). unfold has_init. cbn [set_active active]. rewrite alist_get_set.
    destruct (naddr_eqb na' na) eqn:E1.
    + apply naddr_eqb_spec in E1. subst na'. rewrite G in G0. inversion G0; subst l0.
      exists (upd_pkt old p l false). split; [reflexivity|]. rewrite upd_pkt_init. exact Hx.
    + exists l0. auto.
Qed.

Lemma replay_active_requests_no : forall c E s na skip now,
  NOC c None E (hs s) -> NOC c None E (hs (replay_active_requests c s na skip now)).
Proof.
  intros c E s na skip now H. unfold replay_active_requests.
  pose proof (sess_get_no c (hs s) na) as H1. pose proof (sess_get_some c (hs s) na) as H1'.
  destruct (sess_get c (hs s) na) as [h1 se]. cbn [fst] in H1.
  destruct se as [se0|]; [|cbn [with_hs hs]; eapply NOC_same; eauto].
  specialize (H1' _ _ eq_refl).
  match goal with |- context [fold_left ?f ?l (with_hs s h1, se0, [])] =>
    assert (X : hs (fst (fst (fold_left f l (with_hs s h1, se0, [])))) = h1) end.
  { apply (fold_left_inv (fun acc : st * session * list (nonce * packet) => hs (fst (fst acc)) = h1)).
    - intros [[s' se'] pk] r _ Ha. cbn [fst] in Ha.
      pose proof (encrypt_message_hs c s' na se' (MReq (rc_rid r) (rc_body r))) as Y.
      destruct (encrypt_message c s' na se' (MReq (rc_rid r) (rc_body r))) as [[s'' se''] p].
      cbn [fst] in *. congruence.
    - reflexivity. }
  match goal with |- context [fold_left ?f ?l (with_hs s h1, se0, [])] =>
    destruct (fold_left f l (with_hs s h1, se0, [])) as [[s2 se2] pkts] end.
  cbn [fst] in X.
  apply (fold_left_inv (fun s' => NOC c None E (hs s'))).
  - intros s' x _ Hs'. cbn [send emit with_hs hs]. apply NOC_update_packet. exact Hs'.
  - cbn [with_hs hs]. rewrite X. eapply NOC_same; [apply sess_put_no; exact H1'|]. eapply NOC_same; eauto.
Qed.

Lemma NOC_sess_insert : forall c (E : naddr -> Prop) h na se,
  NOC c None (fun a => E a \/ a = na) h -> NOC c None (fun a => E a \/ a = na) (sess_insert c h na se).
Proof.
  intros c E h na se (A & B & C & D). split; [exact A|split; [exact B|split; [|apply sess_insert_nd; exact D]]]. intros na' Hn.
  destruct (C na' Hn) as [H|H]; [left; exact H|right].
  destruct H as [H|[H1 H2]]; [left; exact H|right]. split; [|exact H2].
  apply sess_insert_none; [tauto|exact H1].
Qed.

Lemma new_session_no : forall c (E : naddr -> Prop) s na se skip now, fix_d2a c = true ->
  NOC c None (fun a => E a \/ a = na) (hs s) -> NOC c None E (hs (new_session c s na se skip now)).
Proof.
  intros c E s na se skip now D2 H. unfold new_session.
  assert (H0 : NOC c None (fun a => E a \/ a = na) (hs (remove_expired_sessions c s))).
  { eapply NOC_same; [apply remove_expired_sessions_no|exact H]. }
  clear H. revert H0. generalize (remove_expired_sessions c s). clear s. intros s H.
  pose proof (sess_get_no c (hs s) na) as H1. pose proof (sess_get_some c (hs s) na) as H1'.
  destruct (sess_get c (hs s) na) as [h1 cur]. cbn [fst] in H1.
  assert (H2 : NOC c None (fun a => E a \/ a = na) h1) by (eapply NOC_same; eauto).
  destruct cur as [cs|].
  - specialize (H1' _ _ eq_refl). rewrite D2. apply send_pending_requests_no, replay_active_requests_no.
    cbn [with_hs hs]. eapply NOC_same; [apply sess_put_no; exact H1'|exact H2].
  - apply send_pending_requests_no. cbn [with_hs hs]. apply NOC_sess_insert. exact H2.
Qed.

Lemma handle_request_timeout_no : forall c E s na r now,
  Qreq c na r -> NOC c (cred_of na r) E (hs s) -> NOC c None E (hs (handle_request_timeout c s na r now)).
Proof.
  intros c E s na r now Hq H. unfold handle_request_timeout.
  destruct (N.leb (cfg_retries c) (rc_retries r)) eqn:Hl.
  - eapply (fail_request_no c E (cred_of na r) _ na); [exact Hq| |].
    + unfold cred_of. destruct (rc_init r); auto.
    + cbn [remove_expected with_hs hs]. eapply NOC_same; [|exact H]. repeat split; auto.
  - cbn [send emit with_hs hs]. eapply NOC_insert; [exact H| |].
    + destruct Hq as (Q1 & Q2 & Q3). unfold Qreq. cbn [rc_contact rc_retries]. apply N.leb_gt in Hl.
      repeat split; [exact Q1|lia|lia].
    + cbn [rc_init]. unfold cred_of. destruct (rc_init r); auto.
Qed.

Lemma send_response_no : forall c E s na rid rb, NOC c None E (hs s) -> NOC c None E (hs (send_response c s na rid rb)).
Proof.
  intros c E s na rid rb H. unfold send_response.
  pose proof (sess_get_no c (hs s) na) as H1. pose proof (sess_get_some c (hs s) na) as H1'.
  destruct (sess_get c (hs s) na) as [h1 se]. cbn [fst] in H1.
  destruct se as [se|]; [|cbn [with_hs hs]; eapply NOC_same; eauto].
  specialize (H1' _ _ eq_refl).
  pose proof (encrypt_message_hs c (with_hs s h1) na se (MResp rid rb)) as Y.
  destruct (encrypt_message c (with_hs s h1) na se (MResp rid rb)) as [[s2 se'] p].
  cbn [fst with_hs hs] in Y. cbn [send emit with_hs hs]. rewrite Y.
  eapply NOC_same; [apply sess_put_no; exact H1'|]. eapply NOC_same; eauto.
Qed.

Lemma has_challenge_app : forall h na l, has_challenge h na = true -> has_challenge (set_challenges h (challenges h ++ l)) na = true.
Proof. intros h na l H. unfold has_challenge in *. cbn [set_challenges challenges]. rewrite existsb_app, H. reflexivity. Qed.

Lemma NOC_add_challenge : forall c cred E h x, NOC c cred E h -> NOC c cred E (set_challenges h (challenges h ++ [x])).
Proof.
  intros c cred E h x (A & B & C & D). split; [exact A|split; [exact B|split; [|exact D]]]. intros na' Hn.
  destruct (C na' Hn) as [H|H]; [left; exact H|right].
  destruct H as [H|H]; [left; apply has_challenge_app; exact H|right; exact H].
Qed.

Lemma send_challenge_no : forall c E s na n known now, NOC c None E (hs s) -> NOC c None E (hs (send_challenge c s na n known now)).
Proof.
  intros c E s na n known now H. unfold send_challenge.
  destruct (has_challenge (hs s) na); [exact H|].
  destruct (pop_pk (dr s)) as [[[[idn x2] cd] x4] d'].
  cbn [send emit with_hs hs add_expected].
  match goal with |- NOC _ _ _ (set_challenges ?h0 (challenges ?h0 ++ [?x])) => apply (NOC_add_challenge c None E h0 x) end.
  eapply NOC_same; [|exact H]. repeat split; auto.
Qed.

(* taking a request out while a session exists for its address: the queue does not depend on it *)
Lemma NOC_take_sess : forall c E h na l p r l' nm,
  NOC c None E h -> alist_get na (sessions h) <> None ->
  alist_get na (active h) = Some l -> remove_first p l = Some (r, l') ->
  NOC c None E (set_active h (put_list na l' (active h)) nm) /\ Qreq c na r.
Proof.
  intros c E h na l p r l' nm H Hs G R. destruct (NOC_take c E h na l p r l' nm H G R) as [(A & B & C & D) Hq].
  split; [|exact Hq]. split; [exact A|split; [exact B|split; [|exact D]]]. intros na' Hn.
  destruct (C na' Hn) as [X|X]; [left; exact X|right].
  destruct X as [X|[X1 [X2|X2]]]; [left; exact X| |right; split; [exact X1|right; exact X2]].
  exfalso. unfold cred_of in X2. destruct (rc_init r); [|discriminate]. inversion X2; subst na'.
  apply Hs. exact X1.
Qed.

Lemma ar_remove_request_no : forall c E h na rid h1 r,
  NOC c None E h -> alist_get na (sessions h) <> None -> ar_remove_request h na rid = (h1, Some r) ->
  NOC c None E h1 /\ Qreq c na r /\ sessions h1 = sessions h.
Proof.
  intros c E h na rid h1 r H Hs R. unfold ar_remove_request in R.
  destruct (alist_get na (active h)) as [l|] eqn:G; [|discriminate].
  destruct (remove_first (fun r0 => N.eqb (rc_rid r0) rid) l) as [[r0 l']|] eqn:R1; [|discriminate].
  inversion R; subst. destruct (NOC_take_sess c E h na l _ r l' (nmap_remove (rc_nonce r) (nmap h)) H Hs G R1) as [X Y].
  split; [exact X|split; [exact Y|reflexivity]].
Qed.

Lemma handle_response_no : forall c E s na rid rb now,
  alist_get na (sessions (hs s)) <> None ->
  NOC c None E (hs s) -> NOC c None E (hs (handle_response c s na rid rb now)).
Proof.
  intros c E s na rid rb now Hs H. unfold handle_response.
  destruct (ar_remove_request (hs s) na rid) as [h1 found] eqn:R.
  destruct found as [r|]; [|exact H].
  destruct (ar_remove_request_no c E _ _ _ _ _ H Hs R) as (H1 & Hq & _).
  assert (RI : forall rem ev, NOC c None E (hs (emit (with_hs (with_hs s h1)
             (ar_insert c (hs (with_hs s h1)) na
                {| rc_contact := rc_contact r; rc_pkt := rc_pkt r; rc_ext := rc_ext r; rc_rid := rc_rid r;
                   rc_body := rc_body r; rc_hs_sent := rc_hs_sent r; rc_retries := rc_retries r;
                   rc_remaining := rem; rc_init := rc_init r |} now)) ev))).
  { intros rem ev. cbn [emit with_hs hs]. eapply NOC_insert; [exact H1|exact Hq|left; reflexivity]. }
  assert (F : forall ev, NOC c None E (hs (emit (remove_expected (with_hs s h1) (snd na)) ev))).
  { intros ev. cbn [emit remove_expected with_hs hs]. eapply NOC_same; [|exact H1]. repeat split; auto. }
  cbv zeta. destruct rb as [total recs|tag]; [|apply F].
  destruct (N.ltb 1 total); [|apply F].
  destruct (rc_remaining r) as [rem|]; [|apply RI].
  destruct (negb (N.eqb (rem - 1) 0)); [apply RI|apply F].
Qed.

Lemma NOC_drop_E : forall c cred (E : naddr -> Prop) h na, NOC c cred E h -> NOC c cred (fun a => E a \/ a = na) h.
Proof. intros c cred E h na. apply NOC_weaken. tauto. Qed.

Lemma sess_put_get : forall h na se, alist_get na (sessions (sess_put h na se)) <> None.
Proof. intros h na se. cbn [sess_put set_sessions sessions]. rewrite alist_get_set, naddr_eqb_refl. discriminate. Qed.

Lemma handle_message_no : forall c E s na n aad ct now,
  NOC c None E (hs s) -> NOC c None E (hs (handle_message c s na n aad ct now)).
Proof.
  intros c E s na n aad ct now H. unfold handle_message.
  pose proof (sess_get_no c (hs s) na) as H1. pose proof (sess_get_some c (hs s) na) as H1'.
  destruct (sess_get c (hs s) na) as [h1 se]. cbn [fst] in H1.
  destruct se as [se|]; [|cbn [emit with_hs hs]; eapply NOC_same; eauto].
  specialize (H1' _ _ eq_refl).
  destruct (decrypt_message se n aad ct) as [se' m].
  set (s2 := with_hs (with_hs s h1) (sess_put (hs (with_hs s h1)) na se')).
  assert (H2 : NOC c None E (hs s2) /\ alist_get na (sessions (hs s2)) <> None).
  { subst s2. cbn [with_hs hs]. split; [|apply sess_put_get].
    eapply NOC_same; [apply sess_put_no; exact H1'|]. eapply NOC_same; eauto. }
  clearbody s2. destruct H2 as [H2 Hs2].
  destruct m as [[rid body|rid rb|j]|].
  - exact H2.
  - assert (HR : NOC c None E (hs (handle_response c s2 na rid rb now))) by (apply handle_response_no; assumption).
    destruct (s_await se') as [arid|]; [|exact HR].
    destruct (N.eqb rid arid); [|exact HR].
    match goal with |- context [fail_session c ?x na ERR_INVALID_REMOTE_ENR true] => set (s3 := x) end.
    assert (H3 : NOC c None E (hs s3)).
    { subst s3.
      match goal with |- NOC _ _ _ (hs (if fix_d2b c then ?a else ?b)) =>
        assert (H3 : NOC c None E (hs b) /\ alist_get na (sessions (hs b)) <> None) end.
      { cbn [with_hs hs]. split; [|apply sess_put_get]. eapply NOC_same; [apply sess_put_no; exact Hs2|exact H2]. }
      destruct H3 as [H3 Hs3]. destruct (fix_d2b c); [|exact H3].
      match goal with |- context [ar_remove_request ?h na rid] =>
        destruct (ar_remove_request h na rid) as [h4 found] eqn:R end.
      destruct found as [r|]; [|exact H3].
      destruct (ar_remove_request_no c E _ _ _ _ _ H3 Hs3 R) as (H4 & _ & _).
      cbn [remove_expected with_hs hs]. eapply NOC_same; [|exact H4]. repeat split; auto. }
    clearbody s3.
    assert (HF : forall s', hs s' = hs s3 -> NOC c None E (hs (fail_session c s' na ERR_INVALID_REMOTE_ENR true))).
    { intros s' Es'. apply fail_session_no. rewrite Es'. apply NOC_drop_E. exact H3. }
    destruct rb as [total recs|tag]; [|apply HF; reflexivity].
    destruct (rev recs) as [|e t]; [apply HF; reflexivity|].
    destruct (verify_enr e na); [exact H3|]. apply HF. reflexivity.
  - exact H2.
  - match goal with |- context [has_challenge (hs ?x) na] => assert (H3 : NOC c None E (hs x)) end.
    { apply fail_session_no, NOC_drop_E. exact H2. }
    destruct (has_challenge _ na); exact H3.
Qed.

Lemma has_challenge_remove_other : forall l na na', na' <> na ->
  existsb (fun x : naddr * chall * N => naddr_eqb (fst (fst x)) na') (chall_remove na l)
  = existsb (fun x : naddr * chall * N => naddr_eqb (fst (fst x)) na') l.
Proof.
  induction l as [|[[a ch] d] t IH]; intros na na' Hne; cbn [chall_remove existsb]; [reflexivity|].
  destruct (naddr_eqb a na) eqn:E1; cbn [existsb fst].
  - apply naddr_eqb_spec in E1. subst a. apply not_eq_sym in Hne. apply naddr_eqb_neq in Hne. rewrite Hne. reflexivity.
  - rewrite IH by assumption. reflexivity.
Qed.

Lemma NOC_chall_remove : forall c (E : naddr -> Prop) h na,
  NOC c None E h -> NOC c None (fun a => E a \/ a = na) (set_challenges h (chall_remove na (challenges h))).
Proof.
  intros c E h na (A & B & C & D). split; [exact A|split; [exact B|split; [|exact D]]]. intros na' Hn.
  destruct (C na') as [H|H]; [tauto|left; exact H|right].
  destruct H as [H|H]; [left|right; exact H]. unfold has_challenge in *. cbn [set_challenges challenges].
  rewrite has_challenge_remove_other; [exact H|tauto].
Qed.

Lemma handle_auth_message_no : forall c E s na n aad sg eph eph_ok rec ct now, fix_d2a c = true ->
  NOC c None E (hs s) -> NOC c None E (hs (handle_auth_message c s na n aad sg eph eph_ok rec ct now)).
Proof.
  intros c E s na n aad sg eph eph_ok rec ct now D2 H. unfold handle_auth_message.
  destruct (chall_get na (challenges (hs s))) as [ch|] eqn:G; [|exact H].
  pose proof (NOC_chall_remove c E (hs s) na H) as H1.
  set (s1 := with_hs s (set_challenges (hs s) (chall_remove na (challenges (hs s))))) in *.
  change (set_challenges (hs s) (chall_remove na (challenges (hs s)))) with (hs s1) in H1. clearbody s1.
  destruct (establish c (fst na) ch sg eph eph_ok rec) as [se e| |].
  - apply handle_message_no, new_session_no; [exact D2|].
    eapply NOC_same; [|exact H1]. destruct (verify_enr e na); repeat split; auto.
  - cbn [with_hs hs]. destruct H1 as (A & B & C & D). split; [exact A|split; [exact B|split; [|exact D]]]. intros na' Hn.
    destruct (naddr_dec na' na) as [->|Hne].
    + right. left. unfold has_challenge. cbn [set_challenges challenges]. rewrite existsb_app. cbn [existsb fst].
      rewrite naddr_eqb_refl. destruct (existsb _ (challenges (hs s1))); reflexivity.
    + destruct (C na') as [X|X]; [tauto|left; exact X|right].
      destruct X as [X|X]; [left; apply has_challenge_app; exact X|right; exact X].
  - apply fail_session_no. eapply NOC_same; [|exact H1]. destruct (fix_d6 c); repeat split; auto.
Qed.

Lemma NOC_put_same : forall c E h na l nm, NOC c None E h -> alist_get na (active h) = Some l ->
  NOC c None E (set_active h (put_list na l (active h)) nm).
Proof.
  intros c E h na l nm (A & B & C & D) G. split; [|split; [exact B|split; [|exact D]]]; cbn [set_active active pending].
  - apply AQ_put; [exact A|]. eapply AQ_get; eauto.
  - intros na' Hn. destruct (C na' Hn) as [H|H]; [left; exact H|right].
    destruct H as [H|[H1 [H2|H2]]]; [left; exact H|discriminate|right]. split; [exact H1|right].
    destruct H2 as (l0 & G0 & Hx). unfold has_init. cbn [set_active active].
    destruct (naddr_eqb na' na) eqn:E1.
    + apply naddr_eqb_spec in E1. subst na'. rewrite G in G0. inversion G0; subst l0.
      unfold put_list. destruct l as [|x l]; [discriminate|]. rewrite alist_get_set, naddr_eqb_refl. eauto.
    + rewrite alist_get_put_other by assumption. eauto.
Qed.

Lemma NOC_remove_by_nonce : forall c E h n h1 found,
  NOC c None E h -> ar_remove_by_nonce h n = (h1, found) ->
  match found with
  | Some (na, r) => NOC c (cred_of na r) E h1 /\ Qreq c na r
  | None => NOC c None E h1
  end.
Proof.
  intros c E h n h1 found H R. unfold ar_remove_by_nonce in R.
  destruct (nmap_get n (nmap h)) as [na|]; [|inversion R; subst; exact H].
  destruct (alist_get na (active h)) as [l|] eqn:G.
  2:{ inversion R; subst. eapply NOC_same; [|exact H]. repeat split; auto. }
  destruct (remove_first (fun r => nonce_eqb (rc_nonce r) n) l) as [[r l']|] eqn:R1; inversion R; subst.
  - eapply NOC_take; eauto.
  - apply NOC_put_same; assumption.
Qed.

Lemma handle_challenge_no : forall c E s src n seq cd now, fix_d2a c = true ->
  NOC c None E (hs s) -> NOC c None E (hs (handle_challenge c s src n seq cd now)).
Proof.
  intros c E s src n seq cd now D2 H. unfold handle_challenge.
  destruct (nmap_get n (nmap (hs s))) as [na0|]; [|exact H].
  destruct (ar_remove_by_nonce (hs s) n) as [h1 found] eqn:R.
  pose proof (NOC_remove_by_nonce c E _ _ _ _ H R) as H1.
  destruct found as [[na r]|]; [|exact H1]. destruct H1 as [H1 Hq].
  assert (Hc : cred_of na r = None \/ (cred_of na r = Some na /\ rc_init r = true)).
  { unfold cred_of. destruct (rc_init r); auto. }
  assert (Hc' : cred_of na r = None \/ cred_of na r = Some na) by tauto.
  destruct (negb (N.eqb (snd na) src)).
  { cbn [with_hs hs]. eapply NOC_insert; eauto. }
  destruct (rc_hs_sent r || c_ed (rc_contact r)).
  { eapply (fail_request_no c E (cred_of na r) _ na); [exact Hq|exact Hc'|].
    eapply NOC_same; [|exact H1]. destruct (fix_d6 c); repeat split; auto. }
  destruct (pop_pk (dr (with_hs s h1))) as [[[[cn rr] aad] eph] d'].
  pose proof Hq as (Hna & Hq2 & Hq3). rewrite Hna. cbn [with_hs hs].
  destruct (c_enr (rc_contact r)) as [e|].
  - apply new_session_no; [exact D2|]. cbn [emit send with_hs hs].
    eapply NOC_insert; [eapply NOC_cred_drop; [exact Hc'|exact H1]| |left; reflexivity].
    unfold Qreq. cbn [rc_contact rc_retries]. auto.
  - destruct (pop_rid _) as [irid d''].
    match goal with |- context [send_request c ?s5 ?ct false irid 0%N now] =>
      pose proof (send_request_no c E s5 ct false irid 0%N now) as X;
      destruct (send_request c s5 ct false irid 0%N now) as [s6 ok] end.
    cbn [fst] in X. apply new_session_no; [exact D2|]. apply NOC_drop_E. apply X. cbn [emit send with_hs hs].
    eapply NOC_insert; [exact H1| |].
    + unfold Qreq. cbn [rc_contact rc_retries]. auto.
    + cbn [rc_init]. exact Hc.
Qed.

Lemma fire_request_no : forall c E s n na now, NOC c None E (hs s) -> NOC c None E (hs (fire_request c s n na now)).
Proof.
  intros c E s n na now H. unfold fire_request.
  assert (H0 : NOC c None E (hs (with_hs s (set_active (hs s) (active (hs s)) (nmap_remove n (nmap (hs s))))))).
  { cbn [with_hs hs]. eapply NOC_same; [|exact H]. repeat split; auto. }
  destruct (alist_get na (active (hs s))) as [l|] eqn:G; [|exact H0].
  destruct (remove_first (fun r => nonce_eqb (rc_nonce r) n) l) as [[r l']|] eqn:R; [|exact H0].
  destruct (NOC_take c E (hs s) na l _ r l' (nmap_remove n (nmap (hs s))) H G R) as [H1 Hq].
  apply handle_request_timeout_no; [exact Hq|exact H1].
Qed.

Lemma fire_challenge_no : forall c E s na now, NOC c None E (hs s) -> NOC c None E (hs (fire_challenge c s na now)).
Proof.
  intros c E s na now H. unfold fire_challenge. apply send_pending_requests_no.
  cbn [remove_expected with_hs hs]. eapply NOC_same; [|apply NOC_chall_remove; exact H]. repeat split; auto.
Qed.

Lemma fire_group_no : forall c E g s d ft, NOC c None E (hs s) -> NOC c None E (hs (fire_group c s g d ft)).
Proof.
  intros c E g s d ft H. unfold fire_group. apply (fold_left_inv (fun s => NOC c None E (hs s))); [|exact H].
  intros s' x _ Hs'. destruct (nmap_deadline (fst x) (nmap (hs s'))) as [d'|]; [|exact Hs'].
  destruct (N.eqb d' d); [|exact Hs']. apply fire_request_no. exact Hs'.
Qed.

Lemma fire_due_no : forall c E now fuel s, NOC c None E (hs s) -> NOC c None E (hs (fire_due c s now fuel)).
Proof.
  intros c E now. induction fuel as [|f IH]; intros s H; cbn [fire_due]; [exact H|].
  assert (FR : forall d, NOC c None E (hs (match group_of d (nmap (hs s)) with
      | _ :: _ :: _ =>
        let (rev_order, d') := pop_rev (dr s) in
        fire_group (with_clock c (fire_time c d now)) {| hs := hs s; dr := d'; outs := outs s |}
          (if rev_order then rev (group_of d (nmap (hs s))) else group_of d (nmap (hs s))) d (fire_time c d now)
      | _ => fire_group (with_clock c (fire_time c d now)) s (group_of d (nmap (hs s))) d (fire_time c d now)
      end))).
  { intros d. rewrite <- (NOC_with_clock c (fire_time c d now)).
    destruct (group_of d (nmap (hs s))) as [|x [|y g]]; try (apply fire_group_no; exact H).
    destruct (pop_rev (dr s)) as [ro d']. apply fire_group_no. exact H. }
  assert (FC : forall cna cd, NOC c None E (hs (fire_challenge (with_clock c (fire_time c cd now)) s cna (fire_time c cd now)))).
  { intros. rewrite <- (NOC_with_clock c (fire_time c cd now)). apply fire_challenge_no. exact H. }
  destruct (min_deadline_nmap (nmap (hs s)) None) as [[[rn ra] rd]|];
  destruct (min_deadline_ch (challenges (hs s)) None) as [[[cna cc] cd]|].
  - destruct (N.ltb rd now && (negb (N.ltb cd now) || N.leb rd cd)); [apply IH; apply FR|].
    destruct (N.ltb cd now); [apply IH; apply FC|exact H].
  - destruct (N.ltb rd now); [apply IH; apply FR|exact H].
  - destruct (N.ltb cd now); [apply IH; apply FC|exact H].
  - exact H.
Qed.

Lemma step_event_no : forall c E s0 e now, fix_d2a c = true ->
  NOC c None E (hs s0) -> NOC c None E (hs (step_event c s0 e now)).
Proof.
  intros c E s0 e now D2 H. destruct e as [ct rid body|na rid rb|na n known|from p|]; cbn [step_event].
  - pose proof (send_request_no c E s0 ct true rid body now H) as X.
    destruct (send_request c s0 ct true rid body now) as [s1 ok]. cbn [fst] in X. destruct ok; exact X.
  - apply send_response_no. exact H.
  - apply send_challenge_no. exact H.
  - destruct p.
    + apply handle_message_no. exact H.
    + apply handle_challenge_no; assumption.
    + apply handle_auth_message_no; assumption.
  - exact H.
Qed.

Theorem step_no_orphans : forall c h e now d, fix_d2a c = true -> NoOrph c h -> NoOrph c (fst (step c h e now d)).
Proof.
  intros c h e now d D2 H. rewrite step_unfold. cbn [fst]. unfold NoOrph. rewrite <- (NOC_with_clock c now).
  apply step_event_no; [exact D2|]. apply fire_due_no. exact H.
Qed.

Lemma run_no_orphans : forall c evs h, fix_d2a c = true -> NoOrph c h -> NoOrph c (fst (run c h evs)).
Proof.
  intros c. induction evs as [|[[e now] d] rest IH]; intros h D2 H; [exact H|].
  pose proof (step_no_orphans c h e now d D2 H) as X. cbn [run].
  destruct (step c h e now d) as [h1 o]. cbn [fst] in *. specialize (IH h1 D2 X).
  destruct (run c h1 rest) as [h2 os]. exact IH.
Qed.

Lemma NoOrph_init : forall c, NoOrph c init_state.
Proof. intros c. split; [constructor|split; [constructor|split; [|constructor]]]. intros na _. left. reflexivity. Qed.

(* ------------------------------------------------------------------------------------------ *)
(* the theorems *)

Theorem no_orphans : forall c evs, fix_d2a c = true ->
  let h := fst (run c init_state evs) in
  forall na l, alist_get na (pending h) = Some l ->
    (exists ch d, In (na, ch, d) (challenges h)) \/
    (alist_get na (sessions h) = None /\
     exists rs r, alist_get na (active h) = Some rs /\ In r rs /\ rc_init r = true).
Proof.
  intros c evs D2 h na l G. destruct (run_no_orphans c evs init_state D2 (NoOrph_init c)) as (_ & _ & C & _).
  fold h in C. destruct (C na) as [X|X]; [intros []|congruence|].
  destruct X as [X|[X1 [X2|X2]]]; [left| discriminate |right].
  - unfold has_challenge in X. apply existsb_exists in X. destruct X as ([[a ch] d] & Hin & E). cbn [fst] in E.
    apply naddr_eqb_spec in E. subst a. eauto.
  - split; [exact X1|]. destruct X2 as (rs & G1 & Hx). apply existsb_exists in Hx. destruct Hx as (r & Hr & Hi). eauto.
Qed.

(* every stored request: stored under the address of its contact; transmission counter in range *)
Theorem stored_requests_bounded : forall c evs, fix_d2a c = true ->
  let h := fst (run c init_state evs) in
  forall na rs r, In (na, rs) (active h) -> In r rs ->
    c_naddr (rc_contact r) = na /\ (1 <= rc_retries r)%N /\ (rc_retries r <= N.max 1 (cfg_retries c))%N.
Proof.
  intros c evs D2 h na rs r H1 H2. destruct (run_no_orphans c evs init_state D2 (NoOrph_init c)) as (A & _ & _ & _).
  fold h in A. unfold AQ in A. rewrite Forall_forall in A. specialize (A _ H1). cbn [fst snd] in A.
  rewrite Forall_forall in A. apply (A _ H2).
Qed.

(* the timeout handler: a request whose counter has reached cfg_retries is failed and nothing is
   sent; otherwise exactly one copy of the stored packet is sent and the counter is incremented *)
Definition wcount (l : list output) : nat := length (filter (fun o => match o with OWire _ _ => true | _ => false end) l).

Lemma wcount_app : forall l1 l2, wcount (l1 ++ l2) = wcount l1 + wcount l2.
Proof. intros. unfold wcount. rewrite filter_app, app_length. reflexivity. Qed.

Lemma fail_session_wires : forall c s na err rm, wcount (outs (fail_session c s na err rm)) = wcount (outs s).
Proof.
  intros c s na err rm. unfold fail_session.
  set (s1 := if rm then let s0 := remove_expired_sessions c s in with_hs s0 (sess_remove (hs s0) na) else s).
  assert (H1 : wcount (outs s1) = wcount (outs s)).
  { subst s1. destruct rm; [|reflexivity]. cbv zeta. cbn [with_hs outs].
    destruct (remove_expired_sessions_outs c s) as [X|[ks X]]; rewrite X; [reflexivity|].
    rewrite wcount_app. cbn. lia. }
  clearbody s1.
  set (s2 := match alist_get na (pending (hs s1)) with Some l => _ | None => s1 end).
  assert (H2 : wcount (outs s2) = wcount (outs s)).
  { subst s2. destruct (alist_get na (pending (hs s1))) as [l|]; [|exact H1].
    apply (fold_left_inv (fun s' => wcount (outs s') = wcount (outs s))); [|exact H1].
    intros s' q _ Hs'. destruct (pq_ext q); [|exact Hs']. cbn [emit outs]. rewrite wcount_app, Hs'. cbn. lia. }
  clearbody s2. destruct (ar_remove_requests (hs s2) na) as [h3 reqs].
  apply (fold_left_inv (fun s' => wcount (outs s') = wcount (outs s))); [|exact H2].
  intros s' r _ Hs'. cbn [remove_expected with_hs outs]. destruct (rc_ext r); [|exact Hs'].
  cbn [emit outs]. rewrite wcount_app, Hs'. cbn. lia.
Qed.

Theorem timeout_exhausted : forall c s na r now, (cfg_retries c <= rc_retries r)%N ->
  wcount (outs (handle_request_timeout c s na r now)) = wcount (outs s) /\
  (rc_ext r = true -> In (OEvent (HRequestFailed (rc_rid r) ERR_TIMEOUT)) (outs (handle_request_timeout c s na r now))).
Proof.
  intros c s na r now H. unfold handle_request_timeout. apply N.leb_le in H. rewrite H. unfold fail_request. split.
  - rewrite fail_session_wires. destruct (rc_ext r); [|reflexivity]. cbn [emit remove_expected with_hs outs].
    rewrite wcount_app. cbn. lia.
  - intros Hx. rewrite Hx.
    assert (X : forall c s0 na0 err rm o, In o (outs s0) -> In o (outs (fail_session c s0 na0 err rm))).
    { clear. intros c s0 na0 err rm o Hin. unfold fail_session.
      set (s1 := if rm then let s' := remove_expired_sessions c s0 in with_hs s' (sess_remove (hs s') na0) else s0).
      assert (H1 : In o (outs s1)).
      { subst s1. destruct rm; [|exact Hin]. cbv zeta. cbn [with_hs outs].
        destruct (remove_expired_sessions_outs c s0) as [X|[ks X]]; rewrite X; [exact Hin|].
        apply in_or_app. left. exact Hin. }
      clearbody s1.
      set (s2 := match alist_get na0 (pending (hs s1)) with Some l => _ | None => s1 end).
      assert (H2 : In o (outs s2)).
      { subst s2. destruct (alist_get na0 (pending (hs s1))) as [l|]; [|exact H1].
        apply (fold_left_inv (fun s' => In o (outs s'))); [|exact H1].
        intros s' q _ Hs'. destruct (pq_ext q); [|exact Hs']. cbn [emit outs]. apply in_or_app. left. exact Hs'. }
      clearbody s2. destruct (ar_remove_requests (hs s2) na0) as [h3 reqs].
      apply (fold_left_inv (fun s' => In o (outs s'))); [|exact H2].
      intros s' r _ Hs'. cbn [remove_expected with_hs outs]. destruct (rc_ext r); [|exact Hs'].
      cbn [emit outs]. apply in_or_app. left. exact Hs'. }
    apply X. cbn [emit outs]. apply in_or_app. right. left. reflexivity.
Qed.

Theorem timeout_rearmed : forall c s na r now, (rc_retries r < cfg_retries c)%N ->
  outs (handle_request_timeout c s na r now) = outs s ++ [OWire na (rc_pkt r)] /\
  hs (handle_request_timeout c s na r now) =
    ar_insert c (hs s) na
      {| rc_contact := rc_contact r; rc_pkt := rc_pkt r; rc_ext := rc_ext r; rc_rid := rc_rid r;
         rc_body := rc_body r; rc_hs_sent := rc_hs_sent r; rc_retries := rc_retries r + 1;
         rc_remaining := rc_remaining r; rc_init := rc_init r |} now.
Proof.
  intros c s na r now H. unfold handle_request_timeout. apply N.leb_gt in H. rewrite H. split; reflexivity.
Qed.

(* the reachable state of the D2a scenario with the repair satisfies the invariant non-trivially:
   while request 101 is queued (after the 5th event) a challenge for the peer is pending *)
Example no_orphans_example :
  let h := fst (run (ex_cfg true) init_state (firstn 5 ex_orphan_events)) in
  (exists q, alist_get (2%N, 20%N) (pending h) = Some [q]) /\ length (challenges h) = 1 /\ length (sessions h) = 1.
Proof. vm_compute. split; [eauto|split; reflexivity]. Qed.
