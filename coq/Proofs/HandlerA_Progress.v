(* C04, progress part: refutation record for the pinned behaviour (D2a), bounded retransmission by
   timeouts, and the no-orphans invariant. *)
From Coq Require Import List Arith NArith Bool Lia.
From Discv5V Require Import Model.Handler Proofs.HandlerInv Proofs.HandlerA_Ledger.
Import ListNotations.
Local Open Scope N_scope.

(* ------------------------------------------------------------------------------------------ *)
(* D2a: both sides dial each other.  We send request 100 to P (random packet); P's own random packet
   arrives and the application answers with a WHOAREYOU (challenge for P); request 101 is queued
   behind the challenge; P's WHOAREYOU for request 100 arrives and we answer with a handshake (a
   session is inserted; request 101 stays queued, the challenge is still pending); P's handshake
   answering our challenge arrives while the session exists (update branch of new_session).  On
   the pinned tree nothing releases request 101: after the answer to request 100 no timer is armed
   at all. *)
Definition ex_kd2 : key := mk_key 77 1 62 2 1 false.
Definition ex_orphan_events : list (event * N * draws) :=
  [ (EvRequest ex_peer 100 7, 0, ex_draws 50);
    (EvInbound 20 (PMsg 2 (5, 5) 0 (CJunk 0)), 10, ex_draws 55);
    (EvWhoAreYou (2, 20) (5, 5) (Some (ex_enr 2 20)), 20, ex_draws 60);
    (EvRequest ex_peer 101 8, 30, ex_draws 65);
    (EvInbound 20 (PWho (50, 51) 1 1 9), 40, ex_draws 70);
    (EvInbound 20 (PHs 2 (8, 8) 3 (Sig 2 62 77 1) 77 true None (CEnc ex_kd2 (8, 8) (MReq 500 1) 3)), 50, ex_draws 80);
    (EvInbound 20 (PMsg 2 (9, 9) 4 (CEnc ex_kd2 (9, 9) (MResp 100 (ROther 1)) 4)), 60, ex_draws 90) ].

Theorem pinned_orphan_refuted :
  exists c evs na, fix_d2a c = false /\
    let h := fst (run c init_state evs) in
    (exists q l, alist_get na (pending h) = Some (q :: l)) /\
    challenges h = [] /\ active h = [] /\ nmap h = [].
Proof.
  exists (ex_cfg false), ex_orphan_events, (2, 20). split; [reflexivity|].
  vm_compute. split; [eauto|]. repeat split.
Qed.

(* with the repair the same events release request 101 when P's handshake arrives *)
Example fixed_no_orphan :
  let h := fst (run (ex_cfg true) init_state ex_orphan_events) in
  pending h = [] /\ map rc_rid (concat (map snd (active h))) = [101].
Proof. vm_compute. split; reflexivity. Qed.
