(* The receive task composed with the handler's exemption ledger (C13, C04, C11, C18):
   in every reachable handler state, a datagram from an address this node is waiting for passes the
   receive task whatever the filter and the ban lists hold; and when nothing is outstanding the
   receive task treats every source as unsolicited.
   [sa_of] maps the handler model's interned addresses to socket addresses as the receive task sees
   them; the handler only ever learns normalised addresses (Proofs/Limiter.v
   inbound_forwards_normalised_source), which is the hypothesis on [sa_of]. *)
From Coq Require Import List Arith NArith Bool.
From Discv5V Require Import Model.Handler Proofs.HandlerInv Model.Limiter Proofs.Limiter.
Import ListNotations.

Section Compose.
  Variable sa_of : N -> saddr.
  Hypothesis sa_normal : forall x, normalise_src (sa_of x) = sa_of x.

  Definition expected_sources (h : hstate) : list saddr := map (fun x => sa_of (fst x)) (expected h).

  Lemma waiting_in_expected_sources c evs a :
    fixed_cfg c ->
    let h := fst (run c init_state evs) in
    0 < cnt_active a h + cnt_chall a h -> In (sa_of a) (expected_sources h).
  Proof.
    intros F h W. unfold expected_sources.
    assert (Hin : In a (map fst (expected h))).
    { apply (exempt_iff_waiting h a); [apply expected_exact; exact F | exact W]. }
    apply in_map_iff in Hin. destruct Hin as [x [Hx Hi]]. apply in_map_iff. exists x. split; [simpl; f_equal; exact Hx | exact Hi].
  Qed.

  Theorem awaited_answer_passes_the_receive_task c evs a f p packet now :
    fixed_cfg c ->
    let h := fst (run c init_state evs) in
    0 < cnt_active a h + cnt_chall a h ->
    recv_inbound f p (expected_sources h) (sa_of a) packet now =
    (f, p, match packet with Some _ => Deliver | None => Unrecognized end, sa_of a).
  Proof.
    intros F h W.
    pose proof (waiting_in_expected_sources c evs a F W) as Hin.
    rewrite <- (sa_normal a) in Hin at 1.
    pose proof (exempted_source_bypasses_filter f p _ (sa_of a) packet now Hin) as E.
    rewrite sa_normal in E. exact E.
  Qed.

  Theorem nothing_outstanding_everything_is_unsolicited c evs f p src packet now :
    fixed_cfg c ->
    let h := fst (run c init_state evs) in
    active h = [] -> challenges h = [] ->
    recv_inbound f p (expected_sources h) src packet now = recv_inbound f p [] src packet now.
  Proof.
    intros F h Ha Hc. unfold expected_sources.
    assert (E : expected h = []).
    { apply (all_done_no_exemption h); [apply expected_exact; exact F | exact Ha | exact Hc]. }
    rewrite E. reflexivity.
  Qed.
End Compose.
