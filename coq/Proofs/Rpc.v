(* Proofs about the RPC message codec model (Model/Rpc.v): layout, round trip, totality,
   strictness and canonicity.  The ENR codec is abstract: Section variables with the hypotheses
   of DESIGN.md section 4; once the section is closed they are explicit premises. *)
From Coq Require Import List Arith NArith Bool Lia.
From Discv5V Require Import Generated.Params Model.Rlp Model.Rpc Proofs.Rlp.
Import ListNotations.
Local Open Scope N_scope.
Local Open Scope res_scope.

Lemma two64 : 2 ^ 64 = 18446744073709551616.
Proof. reflexivity. Qed.

(* a well-formed address: 4 or 16 octets; a 16-octet address is not of a form that the decoder
   returns as IPv4 (::ffff:a.b.c.d and ::a.b.c.d other than ::1) *)
Definition wf_ip (ip : ipaddr) : Prop :=
  match ip with
  | IP4 o => length o = 4%nat /\ bytes_ok o
  | IP6 o => length o = 16%nat /\ bytes_ok o /\ (is_loopback6 o = true \/ to_ipv4 o = None)
  end.

(* the RLP integer of the wire specification: big-endian, no leading zeros, as a byte string *)
Definition rlp_uint (x : N) : bytes := encode_bytes (be_trimmed 8 x).

Lemma encode_bytes_nonempty : forall s, exists b t, encode_bytes s = b :: t.
Proof.
  intros [|b [|c s]]; cbn [encode_bytes].
  - destruct (encode_header_nonempty false (len (@nil N))) as (x & t & ->). cbn. eauto.
  - destruct (b <? 128); [eauto|]. destruct (encode_header_nonempty false 1) as (x & t & ->). cbn. eauto.
  - destruct (encode_header_nonempty false (len (b :: c :: s))) as (x & t & ->). cbn. eauto.
Qed.

Lemma len_pos_of_cons : forall (l : bytes) b t, l = b :: t -> 1 <= len l.
Proof. intros l b t ->. rewrite len_cons. lia. Qed.

Lemma encode_bytes_len_pos : forall s, 1 <= len (encode_bytes s).
Proof. intro s. destruct (encode_bytes_nonempty s) as (b & t & E). eapply len_pos_of_cons; eassumption. Qed.

Lemma encode_uint_len_pos : forall w x, 1 <= len (encode_uint w x).
Proof. intros. destruct (encode_uint_nonempty w x) as (b & t & E). eapply len_pos_of_cons; eassumption. Qed.

Lemma encode_header_len_pos : forall l pl, 1 <= len (encode_header l pl).
Proof. intros. destruct (encode_header_nonempty l pl) as (b & t & E). eapply len_pos_of_cons; eassumption. Qed.

Lemma encode_header_length_pos : forall l pl, (1 <= length (encode_header l pl))%nat.
Proof. intros. destruct (encode_header_nonempty l pl) as (b & t & ->). cbn. lia. Qed.

Lemma ip_of_bytes_wf : forall ip, wf_ip ip -> ip_of_bytes (ip_octets ip) = Ok ip.
Proof.
  intros [o|o]; cbn [wf_ip ip_octets]; unfold ip_of_bytes.
  - intros [-> _]. reflexivity.
  - intros (-> & _ & H). cbn [Nat.eqb]. destruct H as [->| ->]; [reflexivity|].
    destruct (is_loopback6 o); reflexivity.
Qed.

Section RpcProofs.
  Variable enr : Type.
  Variable enr_encode : enr -> bytes.
  Variable enr_decode : bytes -> option enr.

  Local Notation msg := (msg enr).
  Local Notation encode_msg := (encode_msg enr enr_encode).
  Local Notation encode_body := (encode_body enr enr_encode).
  Local Notation decode_msg := (decode_msg enr enr_encode enr_decode).
  Local Notation decode_body := (decode_body enr enr_encode enr_decode).
  Local Notation decode_records := (decode_records enr enr_encode enr_decode).

  (* The hypotheses on the ENR codec (DESIGN.md section 4). *)
  Definition enr_round_trip : Prop := forall e, enr_decode (enr_encode e) = Some e.
  Definition enr_canonical : Prop := forall b e, enr_decode b = Some e -> enr_encode e = b.
  Definition enr_only_lists : Prop :=
    forall b e, enr_decode b = Some e -> exists c, b = encode_header true (len c) ++ c /\ len c < 2 ^ 64.

  (* ---------------------------------------------------------------------------------------- *)
  (* layout *)

  (* the fields of the message as the wire specification lists them, each RLP-encoded *)
  Definition msg_fields (m : msg) : list bytes :=
    match m with
    | Ping id enr_seq => [encode_bytes id; encode_uint 8 enr_seq]
    | Pong id enr_seq ip port => [encode_bytes id; encode_uint 8 enr_seq; encode_bytes (ip_octets ip); encode_uint 2 port]
    | FindNode id distances => [encode_bytes id; encode_list (map (encode_uint 8) distances)]
    | Nodes id total nodes => [encode_bytes id; encode_uint 8 total; encode_list (map enr_encode nodes)]
    | TalkReq id protocol request => [encode_bytes id; encode_bytes protocol; encode_bytes request]
    | TalkResp id response => [encode_bytes id; encode_bytes response]
    end.

  Lemma encode_body_fields : forall m, encode_body m = concat (msg_fields m).
  Proof.
    intros [id s|id s ip p|id ds|id t ns|id p r|id r]; cbn [encode_body msg_fields concat];
      rewrite ?app_nil_r; try reflexivity.
    do 2 f_equal. unfold encode_list. destruct ns; reflexivity.
  Qed.

  Lemma encode_layout : forall m, encode_msg m = msg_type m :: encode_list (msg_fields m).
  Proof. intro m. unfold encode_msg, encode_list. rewrite encode_body_fields. reflexivity. Qed.

  (* the integers are the RLP integers of the specification *)
  Lemma encode_uint_is_rlp_uint : forall x, x < 2 ^ 64 -> encode_uint 8 x = rlp_uint x.
  Proof. intros. unfold rlp_uint. symmetry. apply encode_bytes_trimmed; [lia|]. rewrite pow256_8, <- two64. assumption. Qed.

  Lemma encode_u16_is_rlp_uint : forall x, x < 65536 -> encode_uint 2 x = rlp_uint x.
  Proof.
    intros x H. unfold rlp_uint.
    rewrite <- (encode_bytes_trimmed 2 x) by (try lia; rewrite pow256_2; assumption).
    f_equal. unfold be_trimmed.
    change (be_bytes 8 x) with (be_bytes 6 (x / 256 / 256) ++ [x / 256 mod 256] ++ [x mod 256]).
    replace (x / 256 / 256) with 0.
    - rewrite be_bytes_zero, drop_zeros_repeat. reflexivity.
    - symmetry. rewrite N.div_div by lia. apply N.div_small. exact H.
  Qed.

  (* ---------------------------------------------------------------------------------------- *)
  (* well-formed messages *)

  Definition wf_msg (m : msg) : Prop :=
    bytes_ok (msg_id m) /\ len (msg_id m) <= REQUEST_ID_MAX_LEN /\
    len (encode_msg m) < 2 ^ 64 /\
    match m with
    | Ping _ enr_seq => enr_seq < 2 ^ 64
    | Pong _ enr_seq ip port => enr_seq < 2 ^ 64 /\ wf_ip ip /\ 1 <= port <= 65535
    | FindNode _ distances => Forall (fun d => d <= FINDNODE_MAX_DISTANCE) distances
    | Nodes _ total _ => total < 2 ^ 64
    | TalkReq _ protocol request => bytes_ok protocol /\ bytes_ok request
    | TalkResp _ response => bytes_ok response
    end.

  Lemma encode_msg_len : forall m, len (encode_msg m) = 1 + len (encode_header true (len (encode_body m))) + len (encode_body m).
  Proof. intro m. unfold encode_msg. rewrite len_cons, len_app. lia. Qed.

  Lemma body_len_ge_2 : forall m, 2 <= len (encode_body m).
  Proof.
    intros [id s|id s ip p|id ds|id t ns|id p r|id r]; cbn [encode_body]; rewrite !len_app;
      pose proof (encode_bytes_len_pos id).
    - pose proof (encode_uint_len_pos 8 s). lia.
    - pose proof (encode_uint_len_pos 8 s). lia.
    - unfold encode_u64_list, encode_list. rewrite len_app.
      pose proof (encode_header_len_pos true (len (concat (map (encode_uint 8) ds)))). lia.
    - pose proof (encode_uint_len_pos 8 t). lia.
    - pose proof (encode_bytes_len_pos p). lia.
    - pose proof (encode_bytes_len_pos r). lia.
  Qed.

  (* ---------------------------------------------------------------------------------------- *)
  (* the frame: type byte and outer list header *)

  Lemma decode_msg_frame : forall f t body, len body < 2 ^ 64 -> 2 <= len body ->
    decode_msg f (t :: encode_header true (len body) ++ body) = decode_body f t body.
  Proof.
    intros f t body H64 H2. unfold Rpc.decode_msg.
    pose proof (encode_header_len_pos true (len body)).
    destruct (N.ltb_spec (len (t :: encode_header true (len body) ++ body)) RPC_MIN_MESSAGE_LEN) as [Hs|_].
    { unfold RPC_MIN_MESSAGE_LEN in Hs. rewrite len_cons, len_app in Hs. lia. }
    rewrite decode_header_encode_list by (assumption || lia).
    cbn [bind hlist hlen negb]. rewrite N.eqb_refl. reflexivity.
  Qed.

  Lemma request_id_ok : forall id, len id <= REQUEST_ID_MAX_LEN -> request_id_decode id = Ok id.
  Proof. intros id H. unfold request_id_decode. destruct (N.ltb_spec REQUEST_ID_MAX_LEN (len id)); [lia|reflexivity]. Qed.

  (* ---------------------------------------------------------------------------------------- *)
  (* the record loop *)

  Lemma enr_encode_shape : enr_round_trip -> enr_only_lists ->
    forall e, exists c, enr_encode e = encode_header true (len c) ++ c /\ len c < 2 ^ 64.
  Proof. intros Hr Hl e. apply (Hl (enr_encode e) e). apply Hr. Qed.

  Lemma decode_records_encode : enr_round_trip -> enr_only_lists ->
    forall es fuel, (length (concat (map enr_encode es)) <= fuel)%nat ->
    decode_records fuel (concat (map enr_encode es)) = Ok es.
  Proof.
    intros Hr Hl. induction es as [|e es IH]; intros fuel Hfuel.
    - cbn. destruct fuel; reflexivity.
    - cbn [map concat] in *. remember (concat (map enr_encode es)) as tail.
      destruct (enr_encode_shape Hr Hl e) as (c & Ee & Hc).
      assert (Hpos : 1 <= len (enr_encode e)).
      { rewrite Ee, len_app. pose proof (encode_header_len_pos true (len c)). lia. }
      rewrite app_length in Hfuel. unfold len in Hpos.
      destruct fuel as [|f]; [lia|].
      destruct (enr_encode e ++ tail) as [|b0 t0] eqn:Epl.
      { exfalso. apply (f_equal (@length N)) in Epl. rewrite app_length in Epl. cbn in Epl. lia. }
      rewrite <- Epl. cbn [Rpc.decode_records]. rewrite Epl. rewrite <- Epl.
      rewrite Ee at 1. rewrite <- app_assoc.
      rewrite decode_header_encode_list by (try assumption; rewrite len_app; lia).
      cbn [bind hlist negb]. unfold length_with_payload. cbn [hlen].
      rewrite (length_of_length_spec true).
      replace (len (encode_header true (len c)) + len c) with (len (enr_encode e))
        by (rewrite Ee, len_app; reflexivity).
      destruct (N.ltb_spec (len (enr_encode e ++ tail)) (len (enr_encode e))) as [Hlt|_];
        [rewrite len_app in Hlt; lia|].
      rewrite split_at_app. rewrite Hr. rewrite split_at_app.
      rewrite IH by lia. reflexivity.
  Qed.

  (* ---------------------------------------------------------------------------------------- *)
  (* round trip *)

  Lemma forall_le_existsb : forall ds, Forall (fun d => d <= FINDNODE_MAX_DISTANCE) ds ->
    existsb (fun d => FINDNODE_MAX_DISTANCE <? d) ds = false.
  Proof.
    induction 1 as [|d ds Hd _ IH]; [reflexivity|]. cbn [existsb]. rewrite IH.
    destruct (N.ltb_spec FINDNODE_MAX_DISTANCE d); [lia|reflexivity].
  Qed.

  Lemma encode_bytes_len_ge : forall s, len s <= len (encode_bytes s).
  Proof.
    intros [|b [|c s]]; cbn [encode_bytes]; try destruct (b <? 128); rewrite ?len_app; cbn; lia.
  Qed.

  (* the fields of a well-formed message followed by arbitrary bytes [rest] inside the outer list:
     accepted iff [rest] is empty.  (For NODES the bytes after the record list are looked at by the
     record loop; that case is [decode_body_nodes_leftover] below.) *)
  Definition wf_fields (m : msg) : Prop :=
    bytes_ok (msg_id m) /\ len (msg_id m) <= REQUEST_ID_MAX_LEN /\
    match m with
    | Ping _ enr_seq => enr_seq < 2 ^ 64
    | Pong _ enr_seq ip port => enr_seq < 2 ^ 64 /\ wf_ip ip /\ 1 <= port <= 65535
    | FindNode _ distances => Forall (fun d => d <= FINDNODE_MAX_DISTANCE) distances
    | Nodes _ total _ => total < 2 ^ 64
    | TalkReq _ protocol request => bytes_ok protocol /\ bytes_ok request
    | TalkResp _ response => bytes_ok response
    end.

  Lemma decode_body_encode_rest : enr_round_trip -> enr_only_lists ->
    forall fixed m rest, wf_fields m -> len (encode_body m) < 2 ^ 64 ->
    match m with Nodes _ _ _ => rest = [] | _ => True end ->
    decode_body fixed (msg_type m) (encode_body m ++ rest) =
    match rest with [] => Ok m | _ :: _ => Err E_not_empty end.
  Proof.
    intros Hr Hl fixed m rest (Hidok & Hid & Hm) Hb64 Hrest.
    assert (Hid64 : len (msg_id m) < 2 ^ 64) by (unfold REQUEST_ID_MAX_LEN in Hid; rewrite two64; lia).
    rewrite encode_body_fields in *. rewrite two64 in *.
    destruct m as [id s|id s ip p|id ds|id t ns|id p r|id r]; cbn [msg_id msg_type msg_fields concat] in *;
      rewrite ?app_nil_r in *; rewrite <- ?app_assoc;
      unfold Rpc.decode_body;
      rewrite decode_bytes_encode by (try rewrite two64; assumption); cbn [bind];
      rewrite request_id_ok by assumption; cbn [bind N.eqb Pos.eqb];
      rewrite !len_app in Hb64.
    - (* PING *)
      rewrite decode_uint_encode by (try lia; rewrite pow256_8; assumption). reflexivity.
    - (* PONG *)
      destruct Hm as (Hs & Hip & Hp).
      rewrite decode_uint_encode by (try lia; rewrite pow256_8; assumption). cbn [bind].
      assert (Hipb : bytes_ok (ip_octets ip) /\ len (ip_octets ip) < 18446744073709551616).
      { destruct ip as [o|o]; cbn [wf_ip ip_octets] in *; unfold len.
        - destruct Hip as [-> ?]. split; [assumption|cbn; lia].
        - destruct Hip as (-> & ? & _). split; [assumption|cbn; lia]. }
      rewrite decode_bytes_encode by (try rewrite two64; tauto). cbn [bind].
      rewrite ip_of_bytes_wf by assumption. cbn [bind].
      rewrite decode_uint_encode by (try lia; rewrite pow256_2; lia). cbn [bind].
      destruct (N.eqb_spec p 0); [lia|]. reflexivity.
    - (* FINDNODE *)
      change (encode_list (map (encode_uint 8) ds)) with (encode_u64_list ds) in *.
      unfold encode_u64_list, encode_list in Hb64. rewrite len_app in Hb64.
      rewrite decode_u64_list_encode.
      + cbn [bind]. rewrite forall_le_existsb by assumption. reflexivity.
      + eapply Forall_impl; [|exact Hm]. cbn beta. unfold FINDNODE_MAX_DISTANCE. intros; rewrite two64; lia.
      + rewrite two64. lia.
    - (* NODES *)
      subst rest. rewrite ?app_nil_r.
      rewrite decode_uint_encode by (try lia; rewrite pow256_8; assumption). cbn [bind].
      unfold encode_list in *. rewrite len_app in Hb64.
      rewrite decode_header_encode_list by (try rewrite two64; lia). cbn [bind hlist hlen negb].
      rewrite N.eqb_refl. cbn [negb]. rewrite andb_false_r.
      rewrite decode_records_encode by (assumption || lia). reflexivity.
    - (* TALKREQ *)
      destruct Hm as [Hp Hrq].
      pose proof (encode_bytes_len_ge p). pose proof (encode_bytes_len_ge r).
      rewrite decode_bytes_encode by (try rewrite two64; try assumption; lia). cbn [bind].
      rewrite decode_bytes_encode by (try rewrite two64; try assumption; lia).
      reflexivity.
    - (* TALKRESP *)
      pose proof (encode_bytes_len_ge r).
      rewrite decode_bytes_encode by (try rewrite two64; try assumption; lia).
      reflexivity.
  Qed.

  Lemma wf_msg_fields : forall m, wf_msg m -> wf_fields m /\ len (encode_body m) < 2 ^ 64.
  Proof.
    intros m (H1 & H2 & H3 & H4). rewrite encode_msg_len in H3. split; [|lia].
    split; [assumption|]. split; [assumption|]. destruct m; assumption.
  Qed.

  Theorem decode_encode_msg : enr_round_trip -> enr_only_lists ->
    forall fixed m, wf_msg m -> decode_msg fixed (encode_msg m) = Ok m.
  Proof.
    intros Hr Hl fixed m Hwf. destruct (wf_msg_fields m Hwf) as [Hf Hb64].
    unfold Rpc.encode_msg. rewrite decode_msg_frame by (try assumption; apply body_len_ge_2).
    rewrite <- (app_nil_r (encode_body m)).
    rewrite (decode_body_encode_rest Hr Hl fixed m [] Hf Hb64); [reflexivity|destruct m; auto].
  Qed.

  (* ---------------------------------------------------------------------------------------- *)
  (* totality: no panic (and the fuel of the model never runs out) *)

  Lemma length_of_length_pos : forall pl, 1 <= length_of_length pl.
  Proof. intro pl. unfold length_of_length. destruct (pl <? 56); lia. Qed.

  Lemma request_id_decode_cases : forall d, request_id_decode d = Ok d \/ request_id_decode d = Err E_invalid_id.
  Proof. intro d. unfold request_id_decode. destruct (_ <? _); auto. Qed.

  Lemma ip_of_bytes_cases : forall b, (exists ip, ip_of_bytes b = Ok ip) \/ ip_of_bytes b = Err E_ip_length.
  Proof.
    intro b. unfold ip_of_bytes. destruct (Nat.eqb (length b) 4); [eauto|].
    destruct (Nat.eqb (length b) 16); [|auto]. destruct (is_loopback6 b); [eauto|].
    destruct (to_ipv4 b); eauto.
  Qed.

  (* one iteration of the record loop, when it goes through *)
  Lemma decode_records_step : enr_canonical -> forall f b0 t0 r,
    decode_records (S f) (b0 :: t0) = r ->
    (exists e, r = Err e /\ e <> EFuel) \/
    (exists e slice rest, b0 :: t0 = slice ++ rest /\ 1 <= len slice /\ enr_decode slice = Some e /\
        (exists h r0, decode_header (b0 :: t0) = Ok (h, r0) /\ hlist h = true /\ len slice = length_with_payload h) /\
        r = bind (decode_records f rest) (fun es => Ok (e :: es))).
  Proof.
    intros Hc f b0 t0 r Hr. cbn [Rpc.decode_records] in Hr.
    destruct (decode_header (b0 :: t0)) as [[nh r0]|e|] eqn:Hh; cbn [bind] in Hr.
    - destruct (hlist nh) eqn:Hlist; cbn [negb] in Hr; [|left; eexists; split; [symmetry; exact Hr|discriminate]].
      destruct (N.ltb_spec (len (b0 :: t0)) (length_with_payload nh)) as [|Hle];
        [left; eexists; split; [symmetry; exact Hr|discriminate]|].
      destruct (split_at_le _ _ Hle) as (slice & rest & Hs). rewrite Hs in Hr.
      apply split_at_some in Hs. destruct Hs as [Epl Hlen].
      destruct (enr_decode slice) as [e|] eqn:He; [|left; eexists; split; [symmetry; exact Hr|discriminate]].
      pose proof (Hc _ _ He) as Hce. rewrite Hce in Hr.
      rewrite Epl in Hr. rewrite split_at_app in Hr.
      right. exists e, slice, rest. repeat split; try assumption.
      + rewrite Hlen. unfold length_with_payload. pose proof (length_of_length_pos (hlen nh)). lia.
      + exists nh, r0. repeat split; assumption.
      + symmetry. exact Hr.
    - left. exists e. split; [symmetry; exact Hr|]. intros ->. apply (decode_header_not_fuel _ Hh).
    - exfalso. apply (decode_header_not_panic _ Hh).
  Qed.

  Lemma decode_records_not_panic : enr_canonical -> forall fuel payload, decode_records fuel payload <> Panic.
  Proof.
    intros Hc. induction fuel; intros [|b0 t0]; try (cbn; discriminate).
    destruct (decode_records_step Hc fuel b0 t0 _ eq_refl) as [(e & -> & _)|(e & sl & rest & _ & _ & _ & _ & ->)];
      [discriminate|].
    apply bind_not_panic; [apply IHfuel|discriminate].
  Qed.

  Lemma decode_records_not_fuel : enr_canonical -> forall fuel payload,
    (length payload <= fuel)%nat -> decode_records fuel payload <> Err EFuel.
  Proof.
    intros Hc. induction fuel; intros [|b0 t0] Hf; try (cbn; discriminate).
    - cbn in Hf. lia.
    - destruct (decode_records_step Hc fuel b0 t0 _ eq_refl) as [(e & -> & He)|(e & sl & rest & Epl & Hpos & _ & _ & ->)];
        [congruence|].
      apply bind_not_fuel; [|discriminate]. apply IHfuel.
      apply (f_equal (@length N)) in Epl. rewrite app_length in Epl. unfold len in Hpos. lia.
  Qed.

  Ltac total_step lem_h lem_b lem_u lem_l lem_r :=
    repeat first
      [ discriminate
      | apply lem_h | apply lem_b | apply lem_u | apply lem_l | apply lem_r
      | match goal with
        | |- bind (request_id_decode ?d) _ <> _ =>
            destruct (request_id_decode_cases d) as [-> | ->]; cbn [bind]
        | |- bind (ip_of_bytes ?d) _ <> _ =>
            destruct (ip_of_bytes_cases d) as [[? ->] | ->]; cbn [bind]
        | |- bind _ _ <> Panic => apply bind_not_panic; [|intros [? ?] ?]
        | |- bind _ _ <> Panic => apply bind_not_panic; [|intros ? ?]
        | |- bind _ _ <> Err EFuel => apply bind_not_fuel; [|intros [? ?] ?]
        | |- bind _ _ <> Err EFuel => apply bind_not_fuel; [|intros ? ?]
        | |- (if ?c then _ else _) <> _ => destruct c
        | |- (match ?p with [] => _ | _ :: _ => _ end) <> _ => destruct p
        end ].

  Lemma decode_body_not_panic : enr_canonical -> forall f t payload, decode_body f t payload <> Panic.
  Proof.
    intros Hc f t payload. unfold Rpc.decode_body.
    total_step decode_header_not_panic decode_bytes_not_panic decode_uint_not_panic
               decode_u64_list_not_panic (decode_records_not_panic Hc).
  Qed.

  Lemma decode_body_not_fuel : enr_canonical -> forall f t payload, decode_body f t payload <> Err EFuel.
  Proof.
    intros Hc f t payload. unfold Rpc.decode_body.
    total_step decode_header_not_fuel decode_bytes_not_fuel decode_uint_not_fuel
               decode_u64_list_not_fuel (decode_records_not_fuel Hc).
    lia.
  Qed.

  Theorem decode_msg_total : enr_canonical -> forall f bs, decode_msg f bs <> Panic.
  Proof.
    intros Hc f bs. unfold Rpc.decode_msg. destruct (N.ltb_spec (len bs) RPC_MIN_MESSAGE_LEN); [discriminate|].
    destruct bs as [|t payload]; [unfold RPC_MIN_MESSAGE_LEN in *; cbn in *; lia|].
    apply bind_not_panic; [apply decode_header_not_panic|]. intros [h r] _.
    destruct (negb (hlist h)); [discriminate|]. destruct (negb _); [discriminate|].
    apply decode_body_not_panic. assumption.
  Qed.

  Theorem decode_msg_no_fuel : enr_canonical -> forall f bs, decode_msg f bs <> Err EFuel.
  Proof.
    intros Hc f bs. unfold Rpc.decode_msg. destruct (N.ltb_spec (len bs) RPC_MIN_MESSAGE_LEN); [discriminate|].
    destruct bs as [|t payload]; [discriminate|].
    apply bind_not_fuel; [apply decode_header_not_fuel|]. intros [h r] _.
    destruct (negb (hlist h)); [discriminate|]. destruct (negb _); [discriminate|].
    apply decode_body_not_fuel. assumption.
  Qed.

  (* ---------------------------------------------------------------------------------------- *)
  (* canonicity: what the repaired decoder accepts is the encoding of a message; the message it
     returns is that message, up to the IPv6 -> IPv4 collapse of PONG *)

  Definition collapse_ip (ip : ipaddr) : ipaddr :=
    match ip with
    | IP4 o => IP4 o
    | IP6 o => if is_loopback6 o then IP6 o
               else match to_ipv4 o with Some v4 => IP4 v4 | None => IP6 o end
    end.

  Definition collapse (m : msg) : msg :=
    match m with
    | Pong id s ip p => Pong id s (collapse_ip ip) p
    | _ => m
    end.

  (* what holds of every message whose encoding is accepted *)
  Definition accepted (m : msg) : Prop :=
    len (msg_id m) <= REQUEST_ID_MAX_LEN /\
    match m with
    | Ping _ s => s < 2 ^ 64
    | Pong _ s ip p =>
      s < 2 ^ 64 /\ 1 <= p <= 65535 /\
      match ip with IP4 o => length o = 4%nat | IP6 o => length o = 16%nat end
    | FindNode _ ds => Forall (fun d => d <= FINDNODE_MAX_DISTANCE) ds
    | Nodes _ t ns => t < 2 ^ 64 /\ Forall (fun e => enr_decode (enr_encode e) = Some e) ns
    | TalkReq _ _ _ => True
    | TalkResp _ _ => True
    end.

  Lemma request_id_decode_ok : forall d id, request_id_decode d = Ok id -> id = d /\ len d <= REQUEST_ID_MAX_LEN.
  Proof.
    intros d id. unfold request_id_decode. destruct (N.ltb_spec REQUEST_ID_MAX_LEN (len d)); [discriminate|].
    intro Hq; inversion Hq; subst; split; [reflexivity|assumption].
  Qed.

  Lemma ip_of_bytes_ok : forall b ip, ip_of_bytes b = Ok ip ->
    exists ip', ip_octets ip' = b /\ collapse_ip ip' = ip /\
                match ip' with IP4 o => length o = 4%nat | IP6 o => length o = 16%nat end.
  Proof.
    intros b ip. unfold ip_of_bytes.
    destruct (Nat.eqb_spec (length b) 4).
    - intro H; inversion H; subst. exists (IP4 b). auto.
    - destruct (Nat.eqb_spec (length b) 16); [|discriminate].
      intro H. exists (IP6 b). cbn [ip_octets collapse_ip]. repeat split; [|assumption].
      destruct (is_loopback6 b); [inversion H; reflexivity|].
      destruct (to_ipv4 b); inversion H; reflexivity.
  Qed.

  Lemma decode_records_canonical : enr_canonical -> forall fuel payload ns,
    decode_records fuel payload = Ok ns ->
    payload = concat (map enr_encode ns) /\ Forall (fun e => enr_decode (enr_encode e) = Some e) ns.
  Proof.
    intros Hc. induction fuel; intros [|b0 t0] ns H; try (cbn in H; inversion H; subst; split; [reflexivity|constructor]);
      try (cbn in H; discriminate).
    destruct (decode_records_step Hc fuel b0 t0 _ H) as [(e & E & _)|(e & sl & rest & Epl & _ & He & _ & E)];
      [discriminate|].
    symmetry in E. apply bind_ok in E. destruct E as (es & Hrec & E). inversion E; subst ns; clear E.
    apply IHfuel in Hrec. destruct Hrec as [-> Hes].
    pose proof (Hc _ _ He) as Hce. split.
    - cbn [map concat]. rewrite Hce. exact Epl.
    - constructor; [rewrite Hce; exact He|exact Hes].
  Qed.

  Lemma existsb_false_forall : forall ds, existsb (fun d => FINDNODE_MAX_DISTANCE <? d) ds = false ->
    Forall (fun d => d <= FINDNODE_MAX_DISTANCE) ds.
  Proof.
    induction ds as [|d ds IH]; [constructor|]. cbn [existsb]. intro H. apply orb_false_iff in H.
    destruct H as [H1 H2]. constructor; [|apply IH; exact H2].
    destruct (N.ltb_spec FINDNODE_MAX_DISTANCE d); [discriminate|assumption].
  Qed.

  Lemma payload_empty : forall A (p : bytes) (x : A) r,
    match p with _ :: _ => Err E_not_empty | [] => Ok x end = Ok r -> p = [] /\ r = x.
  Proof. intros A [|? ?] x r H; [inversion H; auto|discriminate]. Qed.

  Ltac fin := unfold accepted; cbn [msg_id]; repeat split; try assumption; try reflexivity; try lia.

  Lemma decode_body_canonical : enr_canonical -> forall t body m, bytes_ok body ->
    decode_body true t body = Ok m ->
    exists m', body = encode_body m' /\ t = msg_type m' /\ accepted m' /\ collapse m' = m.
  Proof.
    intros Hc t body m Hok H. unfold Rpc.decode_body in H.
    apply bind_ok in H. destruct H as ([idb p1] & Hid & H).
    pose proof (decode_bytes_ok_parts _ _ _ _ Hok Hid) as [_ Hok1].
    apply decode_bytes_canonical in Hid; [|assumption]. destruct Hid as [-> _].
    apply bind_ok in H. destruct H as (id & Hrid & H).
    apply request_id_decode_ok in Hrid. destruct Hrid as [-> Hidlen].
    destruct (N.eqb_spec t 1) as [->|_].
    { apply bind_ok in H. destruct H as ([s p2] & Hs & H).
      apply decode_uint_canonical in Hs; [|assumption|lia]. destruct Hs as [-> Hs]. rewrite pow256_8, <- two64 in Hs.
      apply payload_empty in H. destruct H as [-> ->].
      exists (Ping idb s). cbn [encode_body msg_type accepted collapse msg_id]. rewrite app_nil_r. fin. }
    destruct (N.eqb_spec t 2) as [->|_].
    { apply bind_ok in H. destruct H as ([s p2] & Hs & H).
      pose proof (decode_uint_rest_ok _ _ _ _ Hok1 Hs) as Hok2.
      apply decode_uint_canonical in Hs; [|assumption|lia]. destruct Hs as [-> Hs]. rewrite pow256_8, <- two64 in Hs.
      apply bind_ok in H. destruct H as ([ipb p3] & Hipb & H).
      pose proof (decode_bytes_ok_parts _ _ _ _ Hok2 Hipb) as [_ Hok3].
      apply decode_bytes_canonical in Hipb; [|assumption]. destruct Hipb as [-> _].
      apply bind_ok in H. destruct H as (ip & Hip & H).
      apply ip_of_bytes_ok in Hip. destruct Hip as (ip' & <- & <- & Hiplen).
      apply bind_ok in H. destruct H as ([port p4] & Hp & H).
      apply decode_uint_canonical in Hp; [|assumption|lia]. destruct Hp as [-> Hp]. rewrite pow256_2 in Hp.
      destruct (N.eqb_spec port 0); [discriminate|].
      apply payload_empty in H. destruct H as [-> ->].
      exists (Pong idb s ip' port). cbn [encode_body msg_type accepted collapse msg_id]. rewrite app_nil_r.
      fin. }
    destruct (N.eqb_spec t 3) as [->|_].
    { apply bind_ok in H. destruct H as ([ds p2] & Hds & H).
      apply decode_u64_list_canonical in Hds; [|assumption]. destruct Hds as [-> _].
      destruct (existsb _ ds) eqn:Hex; [discriminate|]. apply existsb_false_forall in Hex.
      apply payload_empty in H. destruct H as [-> ->].
      exists (FindNode idb ds). cbn [encode_body msg_type accepted collapse msg_id]. rewrite app_nil_r. fin. }
    destruct (N.eqb_spec t 4) as [->|_].
    { apply bind_ok in H. destruct H as ([total p2] & Hs & H).
      pose proof (decode_uint_rest_ok _ _ _ _ Hok1 Hs) as Hok2.
      apply decode_uint_canonical in Hs; [|assumption|lia]. destruct Hs as [-> Hs]. rewrite pow256_8, <- two64 in Hs.
      apply bind_ok in H. destruct H as ([h p3] & Hh & H).
      destruct (hlist h) eqn:Hlist; cbn [negb] in H; [|discriminate].
      cbn [andb] in H. destruct (N.eqb_spec (hlen h) (len p3)) as [Hexact|]; cbn [negb] in H; [|discriminate].
      apply bind_ok in H. destruct H as (ns & Hrec & H). inversion H; subst m; clear H.
      apply decode_header_canonical in Hh; [|assumption].
      destruct Hh as [(b & _ & _ & -> & _)|(-> & _ & _)]; [cbn in Hlist; discriminate|].
      apply (decode_records_canonical Hc) in Hrec. destruct Hrec as [-> Hns].
      exists (Nodes idb total ns). rewrite encode_body_fields.
      cbn [msg_fields concat msg_type accepted collapse msg_id]. rewrite app_nil_r.
      unfold encode_list. rewrite Hlist, Hexact. fin. }
    destruct (N.eqb_spec t 5) as [->|_].
    { apply bind_ok in H. destruct H as ([pr p2] & Hpr & H).
      pose proof (decode_bytes_ok_parts _ _ _ _ Hok1 Hpr) as [_ Hok2].
      apply decode_bytes_canonical in Hpr; [|assumption]. destruct Hpr as [-> _].
      apply bind_ok in H. destruct H as ([rq p3] & Hrq & H).
      apply decode_bytes_canonical in Hrq; [|assumption]. destruct Hrq as [-> _].
      apply payload_empty in H. destruct H as [-> ->].
      exists (TalkReq idb pr rq). cbn [encode_body msg_type accepted collapse msg_id]. rewrite app_nil_r. fin. }
    destruct (N.eqb_spec t 6) as [->|_]; [|discriminate].
    { apply bind_ok in H. destruct H as ([rs p2] & Hrs & H).
      apply decode_bytes_canonical in Hrs; [|assumption]. destruct Hrs as [-> _].
      apply payload_empty in H. destruct H as [-> ->].
      exists (TalkResp idb rs). cbn [encode_body msg_type accepted collapse msg_id]. rewrite app_nil_r. fin. }
  Qed.

  Lemma decode_msg_ok_frame : forall f bs m, decode_msg f bs = Ok m ->
    exists t payload h body, bs = t :: payload /\ decode_header payload = Ok (h, body) /\
      hlist h = true /\ hlen h = len body /\ decode_body f t body = Ok m.
  Proof.
    intros f bs m H. unfold Rpc.decode_msg in H. destruct (len bs <? RPC_MIN_MESSAGE_LEN); [discriminate|].
    destruct bs as [|t payload]; [discriminate|].
    apply bind_ok in H. destruct H as ([h body] & Hh & H).
    destruct (hlist h) eqn:Hl; cbn [negb] in H; [|discriminate].
    destruct (N.eqb_spec (hlen h) (len body)); cbn [negb] in H; [|discriminate].
    exists t, payload, h, body. auto.
  Qed.

  Theorem decode_msg_canonical : enr_canonical -> forall bs m, bytes_ok bs ->
    decode_msg true bs = Ok m ->
    exists m', bs = encode_msg m' /\ accepted m' /\ collapse m' = m.
  Proof.
    intros Hc bs m Hok H. apply decode_msg_ok_frame in H.
    destruct H as (t & payload & h & body & -> & Hh & Hl & Hlen & Hb).
    inversion Hok as [|? ? _ Hokp]; subst.
    assert (Hokb : bytes_ok body).
    { apply decode_header_ok in Hh. destruct Hh as [_ [(b & _ & _ & _ & ->)|(hd & -> & _)]]; [assumption|].
      apply bytes_ok_app in Hokp. tauto. }
    apply decode_header_canonical in Hh; [|assumption].
    destruct Hh as [(b & _ & _ & -> & _)|(-> & _ & _)]; [cbn in Hl; discriminate|].
    apply (decode_body_canonical Hc) in Hb; [|assumption].
    destruct Hb as (m' & -> & -> & Hacc & Hcol).
    exists m'. unfold Rpc.encode_msg. rewrite Hl, Hlen. auto.
  Qed.

  (* ---------------------------------------------------------------------------------------- *)
  (* strictness, input by input *)

  (* a message of the layout [t ‖ list(body)] *)
  Definition framed (t : N) (body : bytes) : bytes := t :: encode_header true (len body) ++ body.

  Lemma encode_msg_framed : forall m, encode_msg m = framed (msg_type m) (encode_body m).
  Proof. reflexivity. Qed.

  (* bytes after the outer list *)
  Theorem strict_trailing : forall f t body x xs, len body < 2 ^ 64 ->
    decode_msg f (framed t body ++ x :: xs) = Err E_extra_data \/
    decode_msg f (framed t body ++ x :: xs) = Err EInputTooShort.
  Proof.
    intros f t body x xs H64. unfold framed, Rpc.decode_msg. cbn [app].
    destruct (_ <? RPC_MIN_MESSAGE_LEN); [right; reflexivity|left].
    rewrite <- app_assoc. rewrite decode_header_encode_list by (try assumption; rewrite len_app; lia).
    cbn [bind hlist hlen negb].
    destruct (N.eqb_spec (len body) (len (body ++ x :: xs))) as [E|_]; [|reflexivity].
    rewrite len_app, len_cons in E. lia.
  Qed.

  Theorem strict_trailing_msg : forall f m x xs, len (encode_msg m) < 2 ^ 64 ->
    decode_msg f (encode_msg m ++ x :: xs) = Err E_extra_data.
  Proof.
    intros f m x xs H64. rewrite encode_msg_len in H64. pose proof (body_len_ge_2 m) as H2.
    unfold Rpc.encode_msg, Rpc.decode_msg. cbn [app].
    pose proof (encode_header_len_pos true (len (encode_body m))).
    destruct (N.ltb_spec (len (msg_type m :: (encode_header true (len (encode_body m)) ++ encode_body m) ++ x :: xs)) RPC_MIN_MESSAGE_LEN) as [Hs|_].
    { unfold RPC_MIN_MESSAGE_LEN in Hs. rewrite len_cons, !len_app in Hs. lia. }
    rewrite <- app_assoc. rewrite decode_header_encode_list by (try lia; rewrite len_app; lia).
    cbn [bind hlist hlen negb].
    destruct (N.eqb_spec (len (encode_body m)) (len (encode_body m ++ x :: xs))) as [E|_]; [|reflexivity].
    rewrite len_app, len_cons in E. lia.
  Qed.

  (* a prefix of a header is not a header *)
  Lemma decode_header_prefix : forall l pl j, pl < 2 ^ 64 ->
    (j < length (encode_header l pl))%nat ->
    decode_header (firstn j (encode_header l pl)) = Err EInputTooShort.
  Proof.
    intros l pl j H64 Hj. destruct j as [|j]; [reflexivity|].
    destruct (N.ltb_spec pl 56) as [Hs|Hl].
    - unfold encode_header in Hj. destruct (N.ltb_spec pl 56); [|lia]. cbn in Hj. lia.
    - destruct (encode_header_long l pl Hl H64) as (b & t & E & Hb & Hlen & Hv & Hok & Eh).
      rewrite Eh in *. cbn [firstn length] in *. unfold decode_header.
      assert (Hlen' : 1 <= len (b :: t) <= 8) by (unfold len; cbn [length] in *; lia).
      set (code := (if l then 247 else 183) + len (b :: t)).
      assert (Hcode : if l then 248 <= code <= 255 else 184 <= code <= 191) by (unfold code; destruct l; lia).
      destruct (N.ltb_spec code 128); [destruct l; lia|].
      destruct (N.ltb_spec code 184); [destruct l; lia|].
      assert (Hor : (code <? 192) || (248 <=? code) = true).
      { destruct l; [destruct (N.leb_spec 248 code); [apply orb_true_r|lia]
                    |destruct (N.ltb_spec code 192); [reflexivity|lia]]. }
      rewrite Hor.
      assert (Hl2 : (248 <=? code) = l).
      { destruct l; [destruct (N.leb_spec 248 code); [reflexivity|lia]
                    |destruct (N.leb_spec 248 code); [lia|reflexivity]]. }
      rewrite Hl2.
      replace (N.to_nat (code - (if l then 247 else 183))) with (length (b :: t))
        by (unfold code, len; destruct l; lia).
      destruct (Nat.ltb_spec (length (firstn j (b :: t))) (length (b :: t))) as [|Hge]; [reflexivity|].
      rewrite firstn_length in Hge. cbn [length] in *. lia.
  Qed.

  (* missing bytes: every proper prefix of an encoding is rejected *)
  Theorem strict_truncated : forall f t body k, len body < 2 ^ 64 ->
    (k < length (framed t body))%nat ->
    decode_msg f (firstn k (framed t body)) = Err EInputTooShort.
  Proof.
    intros f t body k H64 Hk. unfold framed in *.
    destruct k as [|k]; [reflexivity|]. cbn [firstn length] in *. unfold Rpc.decode_msg.
    destruct (_ <? RPC_MIN_MESSAGE_LEN); [reflexivity|].
    set (hdr := encode_header true (len body)) in *.
    destruct (Nat.lt_ge_cases k (length hdr)) as [Hlt|Hge].
    - rewrite firstn_app. replace (k - length hdr)%nat with O by lia. cbn [firstn]. rewrite app_nil_r.
      unfold hdr. rewrite decode_header_prefix by (assumption || exact Hlt). reflexivity.
    - rewrite firstn_app. rewrite firstn_all2 by lia.
      unfold hdr. rewrite decode_header_encode_short; [reflexivity|assumption|].
      rewrite app_length in Hk. fold hdr.
      assert (Hl : (length (firstn (k - length hdr) body) < length body)%nat) by (rewrite firstn_length; lia).
      unfold len. lia.
  Qed.

  (* the outer item is not a list *)
  Theorem strict_non_list : forall f t payload h body,
    RPC_MIN_MESSAGE_LEN <= len (t :: payload) ->
    decode_header payload = Ok (h, body) -> hlist h = false ->
    decode_msg f (t :: payload) = Err E_invalid_header.
  Proof.
    intros f t payload h body H3 Hh Hl. unfold Rpc.decode_msg.
    destruct (N.ltb_spec (len (t :: payload)) RPC_MIN_MESSAGE_LEN); [lia|].
    rewrite Hh. cbn [bind]. rewrite Hl. reflexivity.
  Qed.

  (* request id of more than 8 bytes, whatever follows it *)
  Theorem strict_long_id : forall f t id rest, bytes_ok id -> REQUEST_ID_MAX_LEN < len id ->
    len (encode_bytes id ++ rest) < 2 ^ 64 ->
    decode_msg f (framed t (encode_bytes id ++ rest)) = Err E_invalid_id.
  Proof.
    intros f t id rest Hok Hlong H64. unfold framed.
    pose proof (encode_bytes_len_ge id). rewrite len_app in H64. unfold REQUEST_ID_MAX_LEN in Hlong.
    rewrite decode_msg_frame by (rewrite ?len_app; lia).
    unfold Rpc.decode_body. rewrite decode_bytes_encode by (assumption || lia). cbn [bind].
    unfold request_id_decode. unfold REQUEST_ID_MAX_LEN.
    destruct (N.ltb_spec 8 (len id)); [reflexivity|lia].
  Qed.

  (* FINDNODE with a distance above 256 *)
  Lemma exists_gt_existsb : forall ds, Exists (fun d => FINDNODE_MAX_DISTANCE < d) ds ->
    existsb (fun d => FINDNODE_MAX_DISTANCE <? d) ds = true.
  Proof.
    induction 1 as [d ds Hd|d ds _ IH]; cbn [existsb].
    - destruct (N.ltb_spec FINDNODE_MAX_DISTANCE d); [reflexivity|lia].
    - rewrite IH. apply orb_true_r.
  Qed.

  Theorem strict_distance : forall f id ds, bytes_ok id -> len id <= REQUEST_ID_MAX_LEN ->
    Forall (fun d => d < 2 ^ 64) ds -> Exists (fun d => FINDNODE_MAX_DISTANCE < d) ds ->
    len (encode_msg (FindNode id ds)) < 2 ^ 64 ->
    decode_msg f (encode_msg (FindNode id ds)) = Err E_distance.
  Proof.
    intros f id ds Hok Hid Hds Hex H64. rewrite encode_msg_len in H64.
    pose proof (body_len_ge_2 (FindNode id ds)) as H2.
    unfold Rpc.encode_msg. rewrite decode_msg_frame by lia.
    cbn [encode_body msg_type] in *. unfold Rpc.decode_body.
    unfold REQUEST_ID_MAX_LEN in Hid.
    rewrite decode_bytes_encode by (try assumption; rewrite two64; lia). cbn [bind].
    rewrite request_id_ok by assumption. cbn [bind N.eqb Pos.eqb].
    rewrite <- (app_nil_r (encode_u64_list ds)).
    rewrite !len_app in H64. unfold encode_u64_list, encode_list in H64. rewrite !len_app in H64.
    rewrite decode_u64_list_encode by (try assumption; lia). cbn [bind].
    rewrite exists_gt_existsb by assumption. reflexivity.
  Qed.

  (* PONG: [2 ‖ list(id, enr-seq, ip, port)] with arbitrary address bytes and an arbitrary integer
     as the port *)
  Definition pong_bytes (id : bytes) (s : N) (o : bytes) (p : N) : bytes :=
    framed 2 (encode_bytes id ++ encode_uint 8 s ++ encode_bytes o ++ encode_uint 8 p).

  Lemma pong_prefix : forall f id s o p, bytes_ok id -> len id <= REQUEST_ID_MAX_LEN -> s < 2 ^ 64 ->
    bytes_ok o -> len (pong_bytes id s o p) < 2 ^ 64 ->
    decode_msg f (pong_bytes id s o p) =
    bind (ip_of_bytes o) (fun ip =>
      bind (decode_uint 2 (encode_uint 8 p)) (fun x => let '(raw_port, payload) := x in
        if raw_port =? 0 then Err E_port
        else match payload with _ :: _ => Err E_not_empty | [] => Ok (Pong id s ip raw_port) end)).
  Proof.
    intros f id s o p Hok Hid Hs Hoo H64. unfold pong_bytes, framed in *.
    rewrite len_cons, len_app in H64.
    pose proof (encode_bytes_len_pos id). pose proof (encode_uint_len_pos 8 s).
    pose proof (encode_bytes_len_ge o).
    rewrite decode_msg_frame by (rewrite ?len_app in *; lia).
    rewrite !len_app in H64. unfold Rpc.decode_body. unfold REQUEST_ID_MAX_LEN in Hid.
    rewrite decode_bytes_encode by (try assumption; rewrite two64; lia). cbn [bind].
    rewrite request_id_ok by assumption. cbn [bind N.eqb Pos.eqb].
    rewrite decode_uint_encode by (try lia; rewrite pow256_8, <- two64; assumption). cbn [bind].
    rewrite decode_bytes_encode by (try assumption; lia). cbn [bind]. reflexivity.
  Qed.

  Theorem strict_ip_length : forall f id s o p, bytes_ok id -> len id <= REQUEST_ID_MAX_LEN -> s < 2 ^ 64 ->
    bytes_ok o -> len (pong_bytes id s o p) < 2 ^ 64 ->
    length o <> 4%nat -> length o <> 16%nat ->
    decode_msg f (pong_bytes id s o p) = Err E_ip_length.
  Proof.
    intros f id s o p Hok Hid Hs Hoo H64 H4 H16. rewrite pong_prefix by assumption.
    unfold ip_of_bytes. destruct (Nat.eqb_spec (length o) 4); [contradiction|].
    destruct (Nat.eqb_spec (length o) 16); [contradiction|]. reflexivity.
  Qed.

  Theorem strict_port_zero : forall f id s o, bytes_ok id -> len id <= REQUEST_ID_MAX_LEN -> s < 2 ^ 64 ->
    bytes_ok o -> len (pong_bytes id s o 0) < 2 ^ 64 ->
    (length o = 4%nat \/ length o = 16%nat) ->
    decode_msg f (pong_bytes id s o 0) = Err E_port.
  Proof.
    intros f id s o Hok Hid Hs Hoo H64 Hlen. rewrite pong_prefix by assumption.
    destruct (ip_of_bytes_cases o) as [[ip ->]| E].
    - cbn [bind]. reflexivity.
    - exfalso. unfold ip_of_bytes in E. destruct Hlen as [Hl4|Hl16]; [rewrite Hl4 in E|rewrite Hl16 in E];
        cbn [Nat.eqb] in E; [discriminate|].
      destruct (is_loopback6 o); [discriminate|]. destruct (to_ipv4 o); discriminate.
  Qed.

  (* a port that does not fit 16 bits: u16::decode fails with Overflow *)
  Theorem strict_port_overflow : forall f id s o p, bytes_ok id -> len id <= REQUEST_ID_MAX_LEN -> s < 2 ^ 64 ->
    bytes_ok o -> len (pong_bytes id s o p) < 2 ^ 64 ->
    (length o = 4%nat \/ length o = 16%nat) -> 65536 <= p -> p < 2 ^ 64 ->
    decode_msg f (pong_bytes id s o p) = Err EOverflow.
  Proof.
    intros f id s o p Hok Hid Hs Hoo H64 Hlen Hp Hp64. rewrite pong_prefix by assumption.
    destruct (ip_of_bytes_cases o) as [[ip ->]| E].
    - cbn [bind]. unfold decode_uint.
      assert (Hp8 : p < 256 ^ N.of_nat 8) by (rewrite pow256_8, <- two64; assumption).
      rewrite <- (encode_bytes_trimmed 8 p) by (lia || assumption).
      rewrite <- (app_nil_r (encode_bytes (be_trimmed 8 p))).
      pose proof (be_trimmed_length 8 p) as L8.
      rewrite decode_bytes_encode; [|apply be_trimmed_ok|unfold len; rewrite two64; lia].
      cbn [bind]. unfold static_left_pad.
      pose proof (be_to_N_bound _ (be_trimmed_ok 8 p)) as B. rewrite (be_trimmed_value 8 p Hp8) in B.
      destruct (Nat.ltb_spec 2 (length (be_trimmed 8 p))) as [|Hle]; [reflexivity|].
      exfalso. assert (256 ^ len (be_trimmed 8 p) <= 256 ^ 2) by (apply N.pow_le_mono_r; unfold len; lia).
      change (256 ^ 2) with 65536 in *. lia.
    - exfalso. unfold ip_of_bytes in E. destruct Hlen as [Hl4|Hl16]; [rewrite Hl4 in E|rewrite Hl16 in E];
        cbn [Nat.eqb] in E; [discriminate|].
      destruct (is_loopback6 o); [discriminate|]. destruct (to_ipv4 o); discriminate.
  Qed.

  (* NODES: an item that is an RLP list but not a valid signed record, after any number of valid
     records *)
  Lemma decode_records_bad : enr_round_trip -> enr_only_lists ->
    forall good c tail fuel, len c < 2 ^ 64 -> enr_decode (encode_header true (len c) ++ c) = None ->
    (length (concat (map enr_encode good) ++ (encode_header true (len c) ++ c) ++ tail) <= fuel)%nat ->
    decode_records fuel (concat (map enr_encode good) ++ (encode_header true (len c) ++ c) ++ tail) = Err EOpaque.
  Proof.
    intros Hr Hl. induction good as [|e es IH]; intros c tail fuel Hc Hbad Hfuel.
    - cbn [map concat app] in *.
      pose proof (encode_header_length_pos true (len c)) as Hpos.
      rewrite !app_length in Hfuel. destruct fuel as [|f]; [lia|].
      destruct ((encode_header true (len c) ++ c) ++ tail) as [|b0 t0] eqn:Epl.
      { exfalso. apply (f_equal (@length N)) in Epl. rewrite !app_length in Epl. cbn in Epl. lia. }
      rewrite <- Epl. cbn [Rpc.decode_records]. rewrite Epl. rewrite <- Epl. clear Epl.
      rewrite <- app_assoc. rewrite decode_header_encode_list by (try assumption; rewrite len_app; lia).
      cbn [bind hlist negb]. unfold length_with_payload. cbn [hlen].
      rewrite (length_of_length_spec true). rewrite app_assoc.
      replace (len (encode_header true (len c)) + len c) with (len (encode_header true (len c) ++ c))
        by (rewrite len_app; reflexivity).
      destruct (N.ltb_spec (len ((encode_header true (len c) ++ c) ++ tail)) (len (encode_header true (len c) ++ c))) as [Hlt|_];
        [rewrite len_app in Hlt; lia|].
      rewrite split_at_app. rewrite Hbad. reflexivity.
    - cbn [map concat] in *. rewrite <- app_assoc in *.
      remember (concat (map enr_encode es) ++ (encode_header true (len c) ++ c) ++ tail) as rest.
      destruct (enr_encode_shape Hr Hl e) as (ce & Ee & Hce).
      assert (Hpos : 1 <= len (enr_encode e)).
      { rewrite Ee, len_app. pose proof (encode_header_len_pos true (len ce)). lia. }
      rewrite app_length in Hfuel. unfold len in Hpos.
      destruct fuel as [|f]; [lia|].
      destruct (enr_encode e ++ rest) as [|b0 t0] eqn:Epl.
      { exfalso. apply (f_equal (@length N)) in Epl. rewrite app_length in Epl. cbn in Epl. lia. }
      rewrite <- Epl. cbn [Rpc.decode_records]. rewrite Epl. rewrite <- Epl.
      rewrite Ee at 1. rewrite <- app_assoc.
      rewrite decode_header_encode_list by (try assumption; rewrite len_app; lia).
      cbn [bind hlist negb]. unfold length_with_payload. cbn [hlen].
      rewrite (length_of_length_spec true).
      replace (len (encode_header true (len ce)) + len ce) with (len (enr_encode e))
        by (rewrite Ee, len_app; reflexivity).
      destruct (N.ltb_spec (len (enr_encode e ++ rest)) (len (enr_encode e))) as [Hlt|_];
        [rewrite len_app in Hlt; lia|].
      rewrite split_at_app. rewrite Hr. rewrite split_at_app.
      subst rest. rewrite IH by (assumption || lia). reflexivity.
  Qed.

  Theorem strict_bad_record : enr_round_trip -> enr_only_lists ->
    forall f id total good c tail,
    bytes_ok id -> len id <= REQUEST_ID_MAX_LEN -> total < 2 ^ 64 -> len c < 2 ^ 64 ->
    enr_decode (encode_header true (len c) ++ c) = None ->
    let records := concat (map enr_encode good) ++ (encode_header true (len c) ++ c) ++ tail in
    let body := encode_bytes id ++ encode_uint 8 total ++ encode_header true (len records) ++ records in
    len body < 2 ^ 64 ->
    decode_msg f (framed 4 body) = Err EOpaque.
  Proof.
    intros Hr Hl f id total good c tail Hok Hid Ht Hc Hbad records body H64. unfold framed.
    pose proof (encode_bytes_len_pos id). pose proof (encode_uint_len_pos 8 total).
    subst body. rewrite !len_app in H64.
    rewrite decode_msg_frame by (rewrite ?len_app; lia).
    unfold Rpc.decode_body. unfold REQUEST_ID_MAX_LEN in Hid.
    rewrite decode_bytes_encode by (try assumption; rewrite two64; lia). cbn [bind].
    rewrite request_id_ok by assumption. cbn [bind N.eqb Pos.eqb].
    rewrite decode_uint_encode by (try lia; rewrite pow256_8, <- two64; assumption). cbn [bind].
    rewrite decode_header_encode_list by lia. cbn [bind hlist hlen negb].
    rewrite N.eqb_refl. cbn [negb]. rewrite andb_false_r.
    subst records. rewrite decode_records_bad by (assumption || lia). reflexivity.
  Qed.

  (* unknown message type *)
  Lemma decode_body_ok_type : forall f t body m, decode_body f t body = Ok m -> In t [1; 2; 3; 4; 5; 6].
  Proof.
    intros f t body m H. unfold Rpc.decode_body in H.
    apply bind_ok in H. destruct H as ([idb p1] & _ & H).
    apply bind_ok in H. destruct H as (id & _ & H).
    destruct (N.eqb_spec t 1); [subst; cbn; auto|].
    destruct (N.eqb_spec t 2); [subst; cbn; auto|].
    destruct (N.eqb_spec t 3); [subst; cbn; auto|].
    destruct (N.eqb_spec t 4); [subst; cbn; auto 6|].
    destruct (N.eqb_spec t 5); [subst; cbn; auto 7|].
    destruct (N.eqb_spec t 6); [subst; cbn; auto 8|]. discriminate.
  Qed.

  Theorem strict_unknown_type : enr_canonical -> forall f t payload, ~ In t [1; 2; 3; 4; 5; 6] ->
    exists e, decode_msg f (t :: payload) = Err e.
  Proof.
    intros Hc f t payload Ht. destruct (decode_msg f (t :: payload)) as [m|e|] eqn:E.
    - exfalso. apply decode_msg_ok_frame in E.
      destruct E as (t' & p' & h & body & Eq & _ & _ & _ & Hb). inversion Eq; subst.
      apply Ht. eapply decode_body_ok_type; eassumption.
    - eauto.
    - exfalso. eapply decode_msg_total; eassumption.
  Qed.

  (* bytes left in the outer list after the last field *)
  Theorem strict_leftover : enr_round_trip -> enr_only_lists ->
    forall f m x xs, wf_fields m -> len (encode_body m ++ x :: xs) < 2 ^ 64 ->
    match m with Nodes _ _ _ => False | _ => True end ->
    decode_msg f (framed (msg_type m) (encode_body m ++ x :: xs)) = Err E_not_empty.
  Proof.
    intros Hr Hl f m x xs Hwf H64 Hm. unfold framed.
    pose proof (body_len_ge_2 m). rewrite len_app in H64.
    rewrite decode_msg_frame by (rewrite ?len_app; lia).
    rewrite (decode_body_encode_rest Hr Hl f m (x :: xs) Hwf); [reflexivity|lia|destruct m; tauto].
  Qed.

  (* NODES, repaired decoder: bytes left in the outer list after the record list *)
  Theorem nodes_leftover_rejected : forall id total ns x xs,
    bytes_ok id -> len id <= REQUEST_ID_MAX_LEN -> total < 2 ^ 64 ->
    len (encode_body (Nodes id total ns) ++ x :: xs) < 2 ^ 64 ->
    decode_msg true (framed 4 (encode_body (Nodes id total ns) ++ x :: xs)) = Err E_extra_data.
  Proof.
    intros id total ns x xs Hok Hid Ht H64. unfold framed.
    pose proof (body_len_ge_2 (Nodes id total ns)). rewrite len_app in H64.
    rewrite decode_msg_frame by (rewrite ?len_app; lia).
    rewrite encode_body_fields in *. cbn [msg_fields concat] in *. rewrite app_nil_r in *.
    rewrite <- !app_assoc. rewrite !len_app in H64. unfold Rpc.decode_body. unfold REQUEST_ID_MAX_LEN in Hid.
    rewrite decode_bytes_encode by (try assumption; rewrite two64; lia). cbn [bind].
    rewrite request_id_ok by assumption. cbn [bind N.eqb Pos.eqb].
    rewrite decode_uint_encode by (try lia; rewrite pow256_8, <- two64; assumption). cbn [bind].
    unfold encode_list in *. rewrite len_app in H64. rewrite <- app_assoc.
    rewrite decode_header_encode_list by (try lia; rewrite len_app; lia). cbn [bind hlist hlen negb andb].
    destruct (N.eqb_spec (len (concat (map enr_encode ns))) (len (concat (map enr_encode ns) ++ x :: xs))) as [E|_];
      [|reflexivity].
    rewrite len_app, len_cons in E. lia.
  Qed.

  (* NODES, repaired decoder: the inner list header covers exactly the rest of the payload, which
     is exactly the concatenation of the records that are returned *)
  Theorem nodes_inner_list_exact : enr_canonical -> forall bs id total ns, bytes_ok bs ->
    decode_msg true bs = Ok (Nodes id total ns) ->
    bs = encode_msg (Nodes id total ns) /\
    exists pre, bs = pre ++ encode_header true (len (concat (map enr_encode ns))) ++ concat (map enr_encode ns).
  Proof.
    intros Hc bs id total ns Hok H. apply (decode_msg_canonical Hc) in H; [|assumption].
    destruct H as (m' & -> & _ & Hcol).
    assert (m' = Nodes id total ns) by (destruct m'; cbn [collapse] in Hcol; congruence). subst m'.
    split; [reflexivity|]. unfold Rpc.encode_msg. rewrite encode_body_fields. cbn [msg_fields concat msg_type].
    rewrite app_nil_r. unfold encode_list.
    exists (4 :: encode_header true (len (encode_bytes id ++ encode_uint 8 total ++
              encode_header true (len (concat (map enr_encode ns))) ++ concat (map enr_encode ns)))
            ++ encode_bytes id ++ encode_uint 8 total).
    cbn [app]. rewrite <- !app_assoc. reflexivity.
  Qed.

End RpcProofs.

(* ------------------------------------------------------------------------------------------ *)
(* A concrete ENR codec that satisfies the three hypotheses (they are not vacuous): two records,
   the RLP lists [] and [0x01]. *)
Definition toy_encode (e : bool) : bytes := if e then [193; 1] else [192].
Definition toy_decode (b : bytes) : option bool :=
  if bytes_eqb b [193; 1] then Some true else if bytes_eqb b [192] then Some false else None.

Example toy_round_trip : enr_round_trip bool toy_encode toy_decode.
Proof. intros [|]; reflexivity. Qed.

Example toy_canonical : enr_canonical bool toy_encode toy_decode.
Proof.
  intros b e. unfold toy_decode.
  destruct (bytes_eqb b [193; 1]) eqn:E1; [apply bytes_eqb_eq in E1; intro H; inversion H; subst; reflexivity|].
  destruct (bytes_eqb b [192]) eqn:E2; [apply bytes_eqb_eq in E2; intro H; inversion H; subst; reflexivity|].
  discriminate.
Qed.

Example toy_only_lists : enr_only_lists bool toy_decode.
Proof.
  intros b e. unfold toy_decode.
  destruct (bytes_eqb b [193; 1]) eqn:E1.
  - apply bytes_eqb_eq in E1. intros _. exists [1]. subst. split; [reflexivity|rewrite two64; cbn; lia].
  - destruct (bytes_eqb b [192]) eqn:E2; [|discriminate].
    apply bytes_eqb_eq in E2. intros _. exists []. subst. split; [reflexivity|rewrite two64; cbn; lia].
Qed.

(* D9 (DESIGN.md section 7): the decoder of the pinned tree does not compare the length of the
   inner list header of NODES with the remaining payload.  04 ‖ list[01, 01, c0 (the empty list),
   <record>] is accepted as Nodes{total 1, [record]} and does not re-encode to itself. *)
Lemma nodes_inner_list_exact_refuted :
  exists bs m, bytes_ok bs /\
    decode_msg bool toy_encode toy_decode false bs = Ok m /\ encode_msg bool toy_encode m <> bs.
Proof.
  exists [4; 196; 1; 1; 192; 192], (Nodes [1] 1 [false]).
  split; [repeat constructor|]. split; [vm_compute; reflexivity|vm_compute; discriminate].
Qed.

(* the repaired decoder rejects that input *)
Lemma nodes_inner_list_witness_rejected :
  decode_msg bool toy_encode toy_decode true [4; 196; 1; 1; 192; 192] = Err E_extra_data.
Proof. vm_compute. reflexivity. Qed.
