(* Proofs about Model/Talk.v (property C20). *)
From Coq Require Import List NArith Bool Lia Arith.
From Discv5V Require Import Model.Talk.
Import ListNotations.
Local Open Scope N_scope.

(* ---------------------------------------------------------------- pool lemmas *)

Lemma lookup_app : forall h p n t,
  lookup h (p ++ [(n, t)]) =
  match lookup h p with Some x => Some x | None => if N.eqb n h then Some t else None end.
Proof.
  intros h p n t. unfold lookup. induction p as [|[k v] p IH]; cbn [app find fst snd].
  - destruct (N.eqb n h); reflexivity.
  - destruct (N.eqb k h); [reflexivity | exact IH].
Qed.

Lemma lookup_remove_same : forall h p, lookup h (remove h p) = None.
Proof.
  intros h p. unfold lookup, remove. induction p as [|[k v] p IH]; cbn [filter find fst snd]; [reflexivity|].
  destruct (N.eqb k h) eqn:E; cbn [negb]; [exact IH|].
  cbn [find fst]. rewrite E. exact IH.
Qed.

Lemma lookup_remove_other : forall h h' p, h' <> h -> lookup h' (remove h p) = lookup h' p.
Proof.
  intros h h' p Hne. unfold lookup, remove. induction p as [|[k v] p IH]; cbn [filter find fst snd]; [reflexivity|].
  destruct (N.eqb k h) eqn:E; cbn [negb].
  - apply N.eqb_eq in E. subst k. destruct (N.eqb h h') eqn:E2; [apply N.eqb_eq in E2; congruence | exact IH].
  - cbn [find fst snd]. destruct (N.eqb k h'); [reflexivity | exact IH].
Qed.

Lemma msgs_of_app : forall h w l,
  filter (fun m => N.eqb (mh m) h) (inbox w ++ l) = msgs_of h w ++ filter (fun m => N.eqb (mh m) h) l.
Proof. intros. unfold msgs_of. apply filter_app. Qed.


Lemma no_msgs_fresh : forall n l, (forall m, In m l -> mh m < n) ->
  filter (fun m => N.eqb (mh m) n) l = [].
Proof.
  intros n l H. induction l as [|m l IH]; [reflexivity|]. cbn [filter].
  assert (Hm : mh m < n) by (apply H; left; reflexivity).
  destruct (N.eqb (mh m) n) eqn:E; [apply N.eqb_eq in E; lia|].
  apply IH. intros m' Hm'. apply H. right. assumption.
Qed.

Lemma NoDup_snoc : forall (A : Type) (l : list A) (x : A), NoDup l -> ~ In x l -> NoDup (l ++ [x]).
Proof.
  intros A l x Hl Hx. induction Hl as [|y l Hy Hl IH]; cbn [app].
  - constructor; [intros []|constructor].
  - constructor.
    + intros Hin. apply in_app_or in Hin. destruct Hin as [Hin|[Hin|[]]]; [contradiction|].
      subst y. apply Hx. left. reflexivity.
    + apply IH. intros Hin. apply Hx. right. assumption.
Qed.

(* ---------------------------------------------------------------- one step *)

Definition mk (h : N) (t : talk) (body : list N) : msg :=
  {| mh := h; mid := tid t; maddr := taddr t; mbody := body |}.

(* what a step does to the channel: nothing, or exactly one message of a live, unanswered object
   while the channel is open *)
Inductive effect (w : world) (o : op) (w' : world) (r : res) : Prop :=
| EDeliver id addr :
    o = ODeliver id addr -> r = RUnit ->
    inbox w' = inbox w -> open w' = open w -> next w' = next w + 1 ->
    pool w' = pool w ++ [(next w, {| tid := id; taddr := addr; tsender := Some HandlerChan |})] ->
    delivered w' = delivered w ++ [(next w, (id, addr))] -> effect w o w' r
| ENoSuch h :
    (exists p, o = ORespond h p) \/ o = ODrop h -> lookup h (pool w) = None ->
    w' = w -> r = RNoSuch -> effect w o w' r
| EAnswer h t body :
    (o = ORespond h body /\ r = ROk) \/ (o = ODrop h /\ body = [] /\ r = RUnit) ->
    lookup h (pool w) = Some t -> tsender t <> None -> open w = true ->
    inbox w' = inbox w ++ [mk h t body] -> open w' = true -> next w' = next w ->
    pool w' = remove h (pool w) -> delivered w' = delivered w -> effect w o w' r
| EClosed h t :
    (exists p, o = ORespond h p /\ r = RErr) \/ (o = ODrop h /\ r = RUnit) ->
    lookup h (pool w) = Some t -> tsender t <> None -> open w = false ->
    inbox w' = inbox w -> open w' = false -> next w' = next w ->
    pool w' = remove h (pool w) -> delivered w' = delivered w -> effect w o w' r
| ETaken h t :      (* an object whose sender is gone: excluded by the invariant *)
    (exists p, o = ORespond h p /\ r = RPanic) \/ (o = ODrop h /\ r = RUnit) ->
    lookup h (pool w) = Some t -> tsender t = None ->
    inbox w' = inbox w -> open w' = open w -> next w' = next w ->
    (pool w' = remove h (pool w) \/ pool w' = pool w) -> delivered w' = delivered w -> effect w o w' r
| EHold : o = OHold -> w' = w -> r = RUnit -> effect w o w' r
| EShutdown :
    o = OShutdown -> r = RUnit -> inbox w' = inbox w -> open w' = false -> next w' = next w ->
    pool w' = pool w -> delivered w' = delivered w -> effect w o w' r.

Lemma step_effect : forall w o w' r, step w o = (w', r) -> effect w o w' r.
Proof.
  intros w o w' r H. destruct o as [id addr | h p | h | | ]; cbn [step] in H.
  - inversion H; subst. eapply EDeliver; reflexivity.
  - destruct (lookup h (pool w)) as [t|] eqn:L.
    + unfold respond in H. destruct (tsender t) as [c|] eqn:S.
      * unfold send in H. cbn [open set_pool] in H. destruct (open w) eqn:O.
        -- cbn [drop_glue take_sender tsender] in H. inversion H; subst.
           eapply (EAnswer _ _ _ _ h t p); try reflexivity; try assumption.
           ++ left. split; reflexivity.
           ++ congruence.
        -- cbn [drop_glue take_sender tsender] in H. inversion H; subst.
           eapply (EClosed _ _ _ _ h t); try reflexivity; try assumption.
           ++ left. exists p. split; reflexivity.
           ++ congruence.
      * inversion H; subst. eapply (ETaken _ _ _ _ h t); try reflexivity; try assumption.
        -- left. exists p. split; reflexivity.
        -- left. reflexivity.
    + inversion H; subst. eapply (ENoSuch _ _ _ _ h); try reflexivity; try assumption.
      left. exists p. reflexivity.
  - destruct (lookup h (pool w)) as [t|] eqn:L.
    + unfold drop_glue in H. destruct (tsender t) as [c|] eqn:S.
      * unfold send in H. cbn [open set_pool] in H. destruct (open w) eqn:O.
        -- cbn [fst] in H. inversion H; subst.
           eapply (EAnswer _ _ _ _ h t []); try reflexivity; try assumption.
           ++ right. repeat split; reflexivity.
           ++ congruence.
        -- cbn [fst] in H. inversion H; subst.
           eapply (EClosed _ _ _ _ h t); try reflexivity; try assumption.
           ++ right. split; reflexivity.
           ++ congruence.
      * inversion H; subst. eapply (ETaken _ _ _ _ h t); try reflexivity; try assumption.
        -- right. split; reflexivity.
        -- left. reflexivity.
    + inversion H; subst. eapply (ENoSuch _ _ _ _ h); try reflexivity; try assumption.
      right. reflexivity.
  - inversion H; subst. apply EHold; reflexivity.
  - inversion H; subst. apply EShutdown; reflexivity.
Qed.

(* ---------------------------------------------------------------- the invariant *)

Record inv (w : world) : Prop := {
  inv_pool : forall h t, lookup h (pool w) = Some t ->
     h < next w /\ tsender t = Some HandlerChan /\ In (h, (tid t, taddr t)) (delivered w) /\ msgs_of h w = [];
  inv_inbox : forall m, In m (inbox w) -> In (mh m, (mid m, maddr m)) (delivered w);
  inv_once : forall h, (length (msgs_of h w) <= 1)%nat;
  inv_deliv : forall h x, In (h, x) (delivered w) -> h < next w;
  inv_nodup : NoDup (map fst (delivered w))
}.

Lemma inv_init : inv init.
Proof.
  constructor; cbn; intros; try contradiction; try discriminate; try lia. constructor.
Qed.

Lemma msgs_of_eq : forall h w w', inbox w' = inbox w -> msgs_of h w' = msgs_of h w.
Proof. intros h w w' E. unfold msgs_of. rewrite E. reflexivity. Qed.

Lemma msgs_of_snoc : forall h w w' m, inbox w' = inbox w ++ [m] ->
  msgs_of h w' = msgs_of h w ++ (if N.eqb (mh m) h then [m] else []).
Proof. intros h w w' m E. unfold msgs_of at 1. rewrite E, msgs_of_app. reflexivity. Qed.

Lemma inv_step : forall w o w' r, inv w -> step w o = (w', r) -> inv w'.
Proof.
  intros w o w' r I H. apply step_effect in H. destruct I as [IP II IO ID IN].
  destruct H as [id addr Ho Hr Hi Hop Hn Hp Hd | h Ho L Hw Hr | h t body Ho L S O Hi Hop Hn Hp Hd
               | h t Ho L S O Hi Hop Hn Hp Hd | h t Ho L S Hi Hop Hn Hp Hd | Ho Hw Hr | Ho Hr Hi Hop Hn Hp Hd].
  - (* deliver *)
    constructor.
    + intros h t L. rewrite Hp, lookup_app in L. rewrite Hn, Hd, (msgs_of_eq h w w' Hi).
      destruct (lookup h (pool w)) as [x|] eqn:Lx.
      * inversion L; subst x. destruct (IP h t Lx) as (A & B & C & D).
        repeat split; [lia | assumption | apply in_or_app; left; assumption | assumption].
      * destruct (N.eqb (next w) h) eqn:E; [|discriminate]. apply N.eqb_eq in E. inversion L; subst.
        cbn [tid taddr tsender]. repeat split; [lia | apply in_or_app; right; left; reflexivity |].
        (* no message carries a handle that has not been issued yet *)
        apply no_msgs_fresh. intros m Hm. eapply ID. apply II. exact Hm.
    + intros m Hm. rewrite Hi in Hm. rewrite Hd. apply in_or_app. left. apply II. assumption.
    + intros h. rewrite (msgs_of_eq h w w' Hi). apply IO.
    + intros h x Hx. rewrite Hd in Hx. rewrite Hn. apply in_app_or in Hx. destruct Hx as [Hx|[Hx|[]]].
      * apply ID in Hx. lia.
      * inversion Hx; subst. lia.
    + rewrite Hd, map_app. cbn [map fst]. apply NoDup_snoc; [assumption|].
      intros Hin. apply in_map_iff in Hin. destruct Hin as [[k x] [E Hx]]. cbn [fst] in E. subst k.
      apply ID in Hx. lia.
  - subst w'. constructor; assumption.
  - (* one message of object h, which had none *)
    destruct (IP h t L) as (A & B & C & D).
    constructor.
    + intros h' t' L'. rewrite Hp in L'. destruct (N.eq_dec h' h) as [E|E].
      * subst h'. rewrite lookup_remove_same in L'. discriminate.
      * rewrite lookup_remove_other in L' by assumption. destruct (IP h' t' L') as (A' & B' & C' & D').
        rewrite Hn, Hd, (msgs_of_snoc h' w w' _ Hi). cbn [mk mh].
        destruct (N.eqb h h') eqn:E2; [apply N.eqb_eq in E2; congruence|].
        rewrite app_nil_r. repeat split; assumption.
    + intros m Hm. rewrite Hi in Hm. rewrite Hd. apply in_app_or in Hm. destruct Hm as [Hm|[Hm|[]]].
      * apply II. assumption.
      * subst m. cbn [mk mh mid maddr]. assumption.
    + intros h'. rewrite (msgs_of_snoc h' w w' _ Hi). cbn [mk mh]. destruct (N.eqb h h') eqn:E2.
      * apply N.eqb_eq in E2. subst h'. rewrite D. cbn. lia.
      * rewrite app_nil_r. apply IO.
    + intros h' x Hx. rewrite Hd in Hx. rewrite Hn. eapply ID; eassumption.
    + rewrite Hd. assumption.
  - (* closed channel: the object is gone, nothing is sent *)
    constructor.
    + intros h' t' L'. rewrite Hp in L'. destruct (N.eq_dec h' h) as [E|E].
      * subst h'. rewrite lookup_remove_same in L'. discriminate.
      * rewrite lookup_remove_other in L' by assumption. rewrite Hn, Hd, (msgs_of_eq h' w w' Hi). apply IP. assumption.
    + intros m Hm. rewrite Hi in Hm. rewrite Hd. apply II. assumption.
    + intros h'. rewrite (msgs_of_eq h' w w' Hi). apply IO.
    + intros h' x Hx. rewrite Hd in Hx. rewrite Hn. eapply ID; eassumption.
    + rewrite Hd. assumption.
  - (* impossible under the invariant *)
    destruct (IP h t L) as (_ & B & _). congruence.
  - subst w'. constructor; assumption.
  - constructor.
    + intros h t L. rewrite Hp in L. rewrite Hn, Hd, (msgs_of_eq h w w' Hi). apply IP. assumption.
    + intros m Hm. rewrite Hi in Hm. rewrite Hd. apply II. assumption.
    + intros h. rewrite (msgs_of_eq h w w' Hi). apply IO.
    + intros h x Hx. rewrite Hd in Hx. rewrite Hn. eapply ID; eassumption.
    + rewrite Hd. assumption.
Qed.

(* ---------------------------------------------------------------- runs *)

Lemma run_app : forall a b w,
  run w (a ++ b) = (fst (run (fst (run w a)) b), snd (run w a) ++ snd (run (fst (run w a)) b)).
Proof.
  induction a as [|o a IH]; intros b w; cbn [app run fst snd].
  - destruct (run w b); reflexivity.
  - destruct (step w o) as [w1 r]. rewrite IH. destruct (run w1 a) as [w2 rs]. cbn [fst snd].
    destruct (run w2 b); reflexivity.
Qed.

Lemma run_cons : forall o b w,
  run w (o :: b) = (fst (run (fst (step w o)) b), snd (step w o) :: snd (run (fst (step w o)) b)).
Proof.
  intros o b w. cbn [run]. destruct (step w o) as [w1 r]. cbn [fst snd]. destruct (run w1 b); reflexivity.
Qed.

Lemma final_app_cons : forall pre o post,
  final (pre ++ o :: post) = fst (run (fst (step (final pre) o)) post).
Proof. intros. unfold final. rewrite run_app. cbn [fst]. rewrite run_cons. reflexivity. Qed.

Lemma length_results : forall ops w, length (snd (run w ops)) = length ops.
Proof.
  induction ops as [|o ops IH]; intros w; [reflexivity|]. rewrite run_cons. cbn [snd length]. rewrite IH. reflexivity.
Qed.

Lemma result_app_cons : forall pre o post,
  nth (length pre) (results (pre ++ o :: post)) RNoSuch = snd (step (final pre) o).
Proof.
  intros. unfold results, final. rewrite run_app. cbn [snd]. rewrite app_nth2; rewrite length_results; [|lia].
  rewrite Nat.sub_diag, run_cons. reflexivity.
Qed.

Lemma inv_run : forall ops w, inv w -> inv (fst (run w ops)).
Proof.
  induction ops as [|o ops IH]; intros w I; [exact I|]. rewrite run_cons. cbn [fst]. apply IH.
  destruct (step w o) as [w1 r] eqn:E. eapply inv_step; eassumption.
Qed.

Lemma inv_final : forall ops, inv (final ops).
Proof. intros. apply inv_run, inv_init. Qed.

(* an object that has been consumed never sends again, whatever happens afterwards *)
Definition dead (h : N) (w : world) : Prop := h < next w /\ lookup h (pool w) = None.

Lemma dead_step : forall h w o w' r, dead h w -> step w o = (w', r) ->
  dead h w' /\ msgs_of h w' = msgs_of h w.
Proof.
  intros h w o w' r [Hlt Hn] H. apply step_effect in H.
  destruct H as [id addr Ho Hr Hi Hop Hnx Hp Hd | h0 Ho L Hw Hr | h0 t body Ho L S O Hi Hop Hnx Hp Hd
               | h0 t Ho L S O Hi Hop Hnx Hp Hd | h0 t Ho L S Hi Hop Hnx Hp Hd | Ho Hw Hr | Ho Hr Hi Hop Hnx Hp Hd].
  - split; [split|].
    + lia.
    + rewrite Hp, lookup_app, Hn. destruct (N.eqb (next w) h) eqn:E; [apply N.eqb_eq in E; lia | reflexivity].
    + apply msgs_of_eq. assumption.
  - subst w'. split; [split|]; auto.
  - assert (h0 <> h) by (intros E; subst h0; congruence).
    split; [split|].
    + lia.
    + rewrite Hp. rewrite lookup_remove_other by congruence. assumption.
    + rewrite (msgs_of_snoc h w w' _ Hi). cbn [mk mh]. destruct (N.eqb h0 h) eqn:E; [apply N.eqb_eq in E; congruence|].
      apply app_nil_r.
  - assert (h0 <> h) by (intros E; subst h0; congruence).
    split; [split|].
    + lia.
    + rewrite Hp. rewrite lookup_remove_other by congruence. assumption.
    + apply msgs_of_eq. assumption.
  - assert (h0 <> h) by (intros E; subst h0; congruence).
    split; [split|].
    + lia.
    + destruct Hp as [Hp|Hp]; rewrite Hp; [rewrite lookup_remove_other by congruence|]; assumption.
    + apply msgs_of_eq. assumption.
  - subst w'. split; [split|]; auto.
  - split; [split|].
    + lia.
    + rewrite Hp. assumption.
    + apply msgs_of_eq. assumption.
Qed.

Lemma dead_run : forall h ops w, dead h w -> msgs_of h (fst (run w ops)) = msgs_of h w.
Proof.
  intros h. induction ops as [|o ops IH]; intros w D; [reflexivity|]. rewrite run_cons. cbn [fst].
  destruct (step w o) as [w1 r] eqn:E. destruct (dead_step h w o w1 r D E) as [D1 M1]. cbn [fst].
  rewrite IH by assumption. assumption.
Qed.

(* once closed, always closed; closed exactly after a shutdown *)
Definition is_shutdown (o : op) : bool := match o with OShutdown => true | _ => false end.

Lemma open_step : forall w o, open (fst (step w o)) = open w && negb (is_shutdown o).
Proof.
  intros w o. destruct (step w o) as [w' r] eqn:H. cbn [fst]. apply step_effect in H.
  destruct H as [id addr Ho Hr Hi Hop Hnx Hp Hd | h0 Ho L Hw Hr | h0 t body Ho L S O Hi Hop Hnx Hp Hd
               | h0 t Ho L S O Hi Hop Hnx Hp Hd | h0 t Ho L S Hi Hop Hnx Hp Hd | Ho Hw Hr | Ho Hr Hi Hop Hnx Hp Hd].
  - subst o. rewrite Hop. cbn. rewrite andb_true_r. reflexivity.
  - subst w'. destruct Ho as [[p Ho]|Ho]; subst o; cbn; rewrite andb_true_r; reflexivity.
  - rewrite Hop, O. destruct Ho as [[Ho _]|[Ho _]]; subst o; reflexivity.
  - rewrite Hop, O. reflexivity.
  - rewrite Hop. destruct Ho as [[p [Ho _]]|[Ho _]]; subst o; cbn; rewrite andb_true_r; reflexivity.
  - subst w' o. cbn. rewrite andb_true_r. reflexivity.
  - subst o. rewrite Hop. cbn. rewrite andb_false_r. reflexivity.
Qed.

Lemma open_run : forall ops w, open (fst (run w ops)) = open w && negb (existsb is_shutdown ops).
Proof.
  induction ops as [|o ops IH]; intros w; cbn [existsb].
  - cbn. rewrite andb_true_r. reflexivity.
  - rewrite run_cons. cbn [fst]. rewrite IH, open_step. destruct (open w), (is_shutdown o); reflexivity.
Qed.

Lemma open_final : forall ops, open (final ops) = negb (existsb is_shutdown ops).
Proof. intros. unfold final. rewrite open_run. reflexivity. Qed.

(* the ghost ledger is the list of deliveries, numbered from 0 *)
Definition deliveries (ops : list op) : list (N * N) :=
  flat_map (fun o => match o with ODeliver i a => [(i, a)] | _ => [] end) ops.

Lemma delivered_step : forall w o,
  delivered (fst (step w o)) = delivered w ++ map (fun x => (next w, x)) (deliveries [o]) /\
  next (fst (step w o)) = next w + N.of_nat (length (deliveries [o])).
Proof.
  intros w o. destruct (step w o) as [w' r] eqn:H. cbn [fst]. apply step_effect in H.
  destruct H as [id addr Ho Hr Hi Hop Hnx Hp Hd | h0 Ho L Hw Hr | h0 t body Ho L S O Hi Hop Hnx Hp Hd
               | h0 t Ho L S O Hi Hop Hnx Hp Hd | h0 t Ho L S Hi Hop Hnx Hp Hd | Ho Hw Hr | Ho Hr Hi Hop Hnx Hp Hd].
  - subst o. rewrite Hd, Hnx. cbn. split; [reflexivity | lia].
  - subst w'. destruct Ho as [[p Ho]|Ho]; subst o; cbn; rewrite app_nil_r; split; [reflexivity | lia | reflexivity | lia].
  - rewrite Hd, Hnx. destruct Ho as [[Ho _]|[Ho _]]; subst o; cbn; rewrite app_nil_r; split; [reflexivity | lia | reflexivity | lia].
  - rewrite Hd, Hnx. destruct Ho as [[p [Ho _]]|[Ho _]]; subst o; cbn; rewrite app_nil_r; split; [reflexivity | lia | reflexivity | lia].
  - rewrite Hd, Hnx. destruct Ho as [[p [Ho _]]|[Ho _]]; subst o; cbn; rewrite app_nil_r; split; [reflexivity | lia | reflexivity | lia].
  - subst w' o. cbn. rewrite app_nil_r. split; [reflexivity | lia].
  - subst o. rewrite Hd, Hnx. cbn. rewrite app_nil_r. split; [reflexivity | lia].
Qed.

Fixpoint number (n : N) (l : list (N * N)) : list (N * (N * N)) :=
  match l with [] => [] | x :: r => (n, x) :: number (n + 1) r end.

Lemma number_app : forall a b n, number n (a ++ b) = number n a ++ number (n + N.of_nat (length a)) b.
Proof.
  induction a as [|x a IH]; intros b n; cbn [app number length].
  - rewrite N.add_0_r. reflexivity.
  - rewrite IH. f_equal. f_equal. f_equal. lia.
Qed.

Lemma deliveries_cons : forall o ops, deliveries (o :: ops) = deliveries [o] ++ deliveries ops.
Proof. intros. unfold deliveries. cbn [flat_map]. rewrite app_nil_r. reflexivity. Qed.

Lemma delivered_run : forall ops w,
  delivered (fst (run w ops)) = delivered w ++ number (next w) (deliveries ops) /\
  next (fst (run w ops)) = next w + N.of_nat (length (deliveries ops)).
Proof.
  induction ops as [|o ops IH]; intros w.
  - cbn. rewrite app_nil_r. split; [reflexivity | lia].
  - rewrite run_cons. cbn [fst]. destruct (IH (fst (step w o))) as [A B]. destruct (delivered_step w o) as [C D].
    rewrite A, B, C, D. rewrite (deliveries_cons o ops).
    rewrite number_app, app_length, <- app_assoc. split; [|lia]. f_equal. f_equal.
    destruct o; cbn; reflexivity.
Qed.

Lemma delivered_final : forall ops, delivered (final ops) = number 0 (deliveries ops).
Proof. intros. unfold final. destruct (delivered_run ops init) as [A _]. exact A. Qed.

(* ---------------------------------------------------------------- the C20 statements *)

Lemma at_most_one : forall ops h, (length (msgs_of h (final ops)) <= 1)%nat.
Proof. intros. apply (inv_once _ (inv_final ops)). Qed.

Lemma response_matches_request : forall ops m, In m (inbox (final ops)) ->
  In (mh m, (mid m, maddr m)) (number 0 (deliveries ops)).
Proof. intros ops m H. rewrite <- delivered_final. apply (inv_inbox _ (inv_final ops)). assumption. Qed.

Lemma handles_name_one_request : forall ops h x y,
  In (h, x) (number 0 (deliveries ops)) -> In (h, y) (number 0 (deliveries ops)) -> x = y.
Proof.
  intros ops h x y. rewrite <- delivered_final. pose proof (inv_nodup _ (inv_final ops)) as ND.
  induction (delivered (final ops)) as [|[k v] l IH]; cbn [In map fst] in *; [intros []|].
  inversion ND as [|? ? Hk ND']; subst. intros [A|A] [B|B].
  - congruence.
  - inversion A; subst. exfalso. apply Hk. apply in_map_iff. exists (h, y). split; [reflexivity | assumption].
  - inversion B; subst. exfalso. apply Hk. apply in_map_iff. exists (h, x). split; [reflexivity | assumption].
  - apply IH; assumption.
Qed.

Lemma held_object_request : forall ops h t, lookup h (pool (final ops)) = Some t ->
  In (h, (tid t, taddr t)) (number 0 (deliveries ops)).
Proof.
  intros ops h t L. rewrite <- delivered_final. destruct (inv_pool _ (inv_final ops) h t L) as (_ & _ & C & _). exact C.
Qed.

Lemma held_is_silent : forall ops h t, lookup h (pool (final ops)) = Some t -> msgs_of h (final ops) = [].
Proof. intros ops h t L. destruct (inv_pool _ (inv_final ops) h t L) as (_ & _ & _ & D). exact D. Qed.

Lemma answered_running : forall pre post h t o body,
  lookup h (pool (final pre)) = Some t -> open (final pre) = true ->
  (o = ORespond h body \/ (o = ODrop h /\ body = [])) ->
  nth (length pre) (results (pre ++ o :: post)) RNoSuch = (match o with ORespond _ _ => ROk | _ => RUnit end) /\
  msgs_of h (final (pre ++ o :: post)) = [mk h t body].
Proof.
  intros pre post h t o body L O Ho. rewrite result_app_cons, final_app_cons.
  pose proof (inv_final pre) as I. destruct (inv_pool _ I h t L) as (A & B & C & D).
  destruct (step (final pre) o) as [w' r] eqn:H. cbn [fst snd]. pose proof H as H0. apply step_effect in H.
  destruct H as [id addr Ho' Hr Hi Hop Hnx Hp Hd | h0 Ho' L' Hw Hr | h0 t0 body0 Ho' L' S O' Hi Hop Hnx Hp Hd
               | h0 t0 Ho' L' S O' Hi Hop Hnx Hp Hd | h0 t0 Ho' L' S Hi Hop Hnx Hp Hd | Ho' Hw Hr | Ho' Hr Hi Hop Hnx Hp Hd].
  - destruct Ho as [Ho|[Ho _]]; congruence.
  - exfalso. destruct Ho as [Ho|[Ho _]]; destruct Ho' as [[p Ho']|Ho']; try congruence;
      rewrite Ho in Ho'; inversion Ho'; subst h0; congruence.
  - assert (E : h0 = h /\ body0 = body /\ r = match o with ORespond _ _ => ROk | _ => RUnit end).
    { destruct Ho as [Ho|[Ho Hb]]; destruct Ho' as [[Ho' Hr]|[Ho' [Hb' Hr]]]; rewrite Ho in Ho'; inversion Ho'; subst; auto. }
    destruct E as (E1 & E2 & E3). subst h0 body0. rewrite L in L'. inversion L'; subst t0.
    split; [assumption|].
    rewrite dead_run.
    + rewrite (msgs_of_snoc h _ w' _ Hi), D. cbn [mk mh]. rewrite N.eqb_refl. reflexivity.
    + split; [lia|]. rewrite Hp. apply lookup_remove_same.
  - congruence.
  - assert (h0 = h) by (destruct Ho as [Ho|[Ho _]]; destruct Ho' as [[p [Ho' _]]|[Ho' _]]; rewrite Ho in Ho'; inversion Ho'; auto).
    subst h0. congruence.
  - destruct Ho as [Ho|[Ho _]]; congruence.
  - destruct Ho as [Ho|[Ho _]]; congruence.
Qed.

Lemma answered_after_shutdown : forall pre post h t o,
  lookup h (pool (final pre)) = Some t -> open (final pre) = false ->
  ((exists body, o = ORespond h body) \/ o = ODrop h) ->
  nth (length pre) (results (pre ++ o :: post)) RNoSuch = (match o with ORespond _ _ => RErr | _ => RUnit end) /\
  msgs_of h (final (pre ++ o :: post)) = [].
Proof.
  intros pre post h t o L O Ho. rewrite result_app_cons, final_app_cons.
  pose proof (inv_final pre) as I. destruct (inv_pool _ I h t L) as (A & B & C & D).
  destruct (step (final pre) o) as [w' r] eqn:H. cbn [fst snd]. apply step_effect in H.
  destruct H as [id addr Ho' Hr Hi Hop Hnx Hp Hd | h0 Ho' L' Hw Hr | h0 t0 body0 Ho' L' S O' Hi Hop Hnx Hp Hd
               | h0 t0 Ho' L' S O' Hi Hop Hnx Hp Hd | h0 t0 Ho' L' S Hi Hop Hnx Hp Hd | Ho' Hw Hr | Ho' Hr Hi Hop Hnx Hp Hd].
  - destruct Ho as [[b Ho]|Ho]; congruence.
  - exfalso. destruct Ho as [[b Ho]|Ho]; destruct Ho' as [[p Ho']|Ho']; try congruence;
      rewrite Ho in Ho'; inversion Ho'; subst h0; congruence.
  - congruence.
  - assert (E : h0 = h /\ r = match o with ORespond _ _ => RErr | _ => RUnit end).
    { destruct Ho as [[b Ho]|Ho]; destruct Ho' as [[p [Ho' Hr]]|[Ho' Hr]]; rewrite Ho in Ho'; inversion Ho'; subst; auto. }
    destruct E as (E1 & E3). subst h0. split; [assumption|].
    rewrite dead_run.
    + rewrite (msgs_of_eq h _ w' Hi). assumption.
    + split; [lia|]. rewrite Hp. apply lookup_remove_same.
  - assert (h0 = h) by (destruct Ho as [[b Ho]|Ho]; destruct Ho' as [[p [Ho' Hr]]|[Ho' Hr]]; rewrite Ho in Ho'; inversion Ho'; auto).
    subst h0. congruence.
  - destruct Ho as [[b Ho]|Ho]; congruence.
  - destruct Ho as [[b Ho]|Ho]; congruence.
Qed.

Lemma step_no_panic : forall w o, inv w -> snd (step w o) <> RPanic.
Proof.
  intros w o I. destruct (step w o) as [w' r] eqn:H. cbn [snd]. apply step_effect in H.
  destruct H as [id addr Ho' Hr Hi Hop Hnx Hp Hd | h0 Ho' L' Hw Hr | h0 t0 body0 Ho' L' S O' Hi Hop Hnx Hp Hd
               | h0 t0 Ho' L' S O' Hi Hop Hnx Hp Hd | h0 t0 Ho' L' S Hi Hop Hnx Hp Hd | Ho' Hw Hr | Ho' Hr Hi Hop Hnx Hp Hd];
    try (subst r; discriminate).
  - destruct Ho' as [[_ Hr]|[_ [_ Hr]]]; subst r; discriminate.
  - destruct Ho' as [[p [_ Hr]]|[_ Hr]]; subst r; discriminate.
  - destruct (inv_pool _ I h0 t0 L') as (_ & B & _). congruence.
Qed.

Lemma never_panics_from : forall ops w, inv w -> ~ In RPanic (snd (run w ops)).
Proof.
  induction ops as [|o ops IH]; intros w I; [intros []|]. rewrite run_cons. cbn [snd]. intros [H|H].
  - apply (step_no_panic w o I). assumption.
  - revert H. apply IH. destruct (step w o) as [w1 r] eqn:E. cbn [fst]. eapply inv_step; eassumption.
Qed.

Lemma never_panics : forall ops, ~ In RPanic (results ops).
Proof. intros. apply never_panics_from, inv_init. Qed.
