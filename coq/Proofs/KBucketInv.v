(* C07, part 1: the bucket invariant BInv and its preservation by every bucket-level operation of
   Model/KBucket.v (b_insert, b_apply_pending, b_update_status, b_update_value, b_remove,
   b_update_pending), together with the "entries of the result are entries of the input or the
   inserted entry" facts used by the table level (KBucketTable.v) and by C16 (Subnet.v). *)
From Coq Require Import List Arith NArith Lia Bool Permutation Sorted.
From Discv5V Require Import Generated.Params Lib.ListX Lib.ListY Lib.SortedX Model.KBucket.
Import ListNotations.

(* ------------------------------------------------------------------------------------------ *)
(* Definitions *)

(* connected and incoming *)
Definition kin (n : node) : bool := nconn n && nin n.

(* the first-connected position determined by a disconnected prefix D and a connected suffix C *)
Definition fcp_of (D C : list node) : option nat :=
  match C with [] => None | _ => Some (length D) end.

(* The stamp clause of the invariant is indexed by an optional "current time":
   [None]   - no claim about stamps (the purely structural invariant, valid for arbitrary clocks);
   [Some t] - stamps are non-decreasing inside each group and no stamp is later than [t]. *)
Definition stamps_ok (T : option N) (D C : list node) : Prop :=
  match T with
  | None => True
  | Some t0 => StronglySorted N.le (map nstamp D) /\ StronglySorted N.le (map nstamp C) /\
               Forall (fun n => (nstamp n <= t0)%N) (D ++ C)
  end.

Definition Split (T : option N) (l : list node) (f : option nat) (D C : list node) : Prop :=
  l = D ++ C /\ Forall (fun n => nconn n = false) D /\ Forall (fun n => nconn n = true) C /\
  f = fcp_of D C /\ stamps_ok T D C.

Definition ent (n : node) : N * val := (nkey n, nval n).
Definition opt_list {A} (o : option A) : list A := match o with Some x => [x] | None => [] end.
(* all (key, value) pairs of a bucket, the pending slot included *)
Definition bentries (b : bucket) : list (N * val) :=
  map ent (nodes b) ++ map (fun p => ent (pn p)) (opt_list (pend b)).
Definition bkeys (b : bucket) : list N := map fst (bentries b).

Record BInv (c : config) (T : option N) (loc : N) (i : nat) (b : bucket) : Prop := {
  bi_len : length (nodes b) <= K;
  bi_idx : forall k, In k (bkeys b) -> bucket_index loc k = Some i;
  bi_nodup : NoDup (bkeys b);
  bi_split : exists D C, Split T (nodes b) (fcp b) D C;
  bi_inc : count kin (nodes b) <= max_incoming c
}.

(* relation between the time index before a step at time [now] and after it *)
Definition tm (T : option N) (now : N) (T' : option N) : Prop :=
  match T' with
  | None => True
  | Some t1 => (now <= t1)%N /\ match T with Some t0 => (t0 <= now)%N | None => False end
  end.
Definition tle (T T' : option N) : Prop :=
  match T' with
  | None => True
  | Some t1 => match T with Some t0 => (t0 <= t1)%N | None => False end
  end.

Lemma tm_tle T now T' : tm T now T' -> tle T T'.
Proof. destruct T' as [t1|], T as [t0|]; simpl; try tauto. lia. Qed.

Lemma tle_refl T : tle T T.
Proof. destruct T; simpl; auto. lia. Qed.

Lemma tm_None T now : tm T now None.
Proof. exact I. Qed.

Lemma tm_Some t0 now : (t0 <= now)%N -> tm (Some t0) now (Some now).
Proof. simpl. lia. Qed.

(* ------------------------------------------------------------------------------------------ *)
(* Keys, positions *)

Lemma bkeys_eq b : bkeys b = map nkey (nodes b) ++ map (fun p => nkey (pn p)) (opt_list (pend b)).
Proof. unfold bkeys, bentries. rewrite map_app, !map_map. reflexivity. Qed.

Lemma position_none k l : position k l = None <-> ~ In k (map nkey l).
Proof.
  unfold position. rewrite find_index_none_iff. split.
  - intros H Hin. apply in_map_iff in Hin. destruct Hin as (n & <- & Hn).
    specialize (H n Hn). rewrite N.eqb_refl in H. discriminate.
  - intros H n Hn. apply N.eqb_neq. intros E. apply H. rewrite <- E. apply in_map. exact Hn.
Qed.

Lemma position_some k l pos :
  position k l = Some pos -> exists old, nth_error l pos = Some old /\ nkey old = k.
Proof.
  intros H. apply find_index_nth_error in H. destruct H as (x & H1 & H2).
  exists x. split; [exact H1|]. apply N.eqb_eq. exact H2.
Qed.

Lemma get_position k l :
  match get k l with
  | Some n => exists pos, position k l = Some pos /\ nth_error l pos = Some n
  | None => position k l = None
  end.
Proof. apply (find_some_find_index (fun n => N.eqb (nkey n) k)). Qed.

(* ------------------------------------------------------------------------------------------ *)
(* Split lemmas *)

Lemma stamps_weaken T T' D C : stamps_ok T D C -> tle T T' -> stamps_ok T' D C.
Proof.
  destruct T' as [t1|]; [|intros; exact I]. destruct T as [t0|]; simpl; [|tauto].
  intros (H1 & H2 & H3) Hle. repeat split; auto.
  eapply Forall_impl; [|exact H3]. simpl. intros; lia.
Qed.

Lemma split_weaken T T' l f D C : Split T l f D C -> tle T T' -> Split T' l f D C.
Proof.
  intros (H1 & H2 & H3 & H4 & H5) Hle. repeat split; auto. eapply stamps_weaken; eauto.
Qed.

Lemma split_nil T : Split T [] None [] [].
Proof.
  repeat split; auto. destruct T; simpl; auto. repeat split; constructor.
Qed.

Lemma Forall_stamp_le l t0 now : Forall (fun n => (nstamp n <= t0)%N) l -> (t0 <= now)%N ->
  Forall (fun y => (y <= now)%N) (map nstamp l).
Proof.
  intros H Hle. apply Forall_forall. intros y Hy. apply in_map_iff in Hy. destruct Hy as (n & <- & Hn).
  rewrite Forall_forall in H. specialize (H n Hn). simpl in H. lia.
Qed.

Lemma split_app_conn T T' now l f D C n :
  Split T l f D C -> tm T now T' -> nconn n = true -> nstamp n = now ->
  Split T' (l ++ [n]) (match f with Some p => Some p | None => Some (length l) end) D (C ++ [n]).
Proof.
  intros (H1 & H2 & H3 & H4 & H5) Htm Hc Hs. subst l f. repeat split.
  - rewrite app_assoc. reflexivity.
  - exact H2.
  - apply Forall_app. split; [exact H3|]. repeat constructor. exact Hc.
  - destruct C as [|c0 C]; simpl; [rewrite app_nil_r|]; reflexivity.
  - destruct T' as [t1|]; [|exact I]. destruct T as [t0|]; simpl in Htm; [|tauto].
    destruct H5 as (S1 & S2 & S3). apply Forall_app in S3. destruct S3 as [S3 S4].
    repeat split.
    + exact S1.
    + rewrite map_app. apply SS_snoc; [exact S2|]. simpl. rewrite Hs.
      apply Forall_stamp_le with (t0 := t0); [exact S4|lia].
    + rewrite app_assoc. apply Forall_app. split.
      * apply Forall_app. split; (eapply Forall_impl; [|eassumption]); simpl; intros; lia.
      * repeat constructor. lia.
Qed.

Lemma split_ins_disc T T' now l f D C n :
  Split T l f D C -> tm T now T' -> nconn n = false -> nstamp n = now ->
  Split T' (match f with Some p => insert_at p n l | None => l ++ [n] end)
           (match f with Some p => Some (S p) | None => None end) (D ++ [n]) C.
Proof.
  intros (H1 & H2 & H3 & H4 & H5) Htm Hc Hs. subst l f. repeat split.
  - destruct C as [|c0 C]; simpl.
    + rewrite !app_nil_r. reflexivity.
    + rewrite insert_at_app_len, <- app_assoc. reflexivity.
  - apply Forall_app. split; [exact H2|]. repeat constructor. exact Hc.
  - exact H3.
  - destruct C as [|c0 C]; simpl; [reflexivity|]. rewrite app_length. simpl. f_equal. lia.
  - destruct T' as [t1|]; [|exact I]. destruct T as [t0|]; simpl in Htm; [|tauto].
    destruct H5 as (S1 & S2 & S3). apply Forall_app in S3. destruct S3 as [S3 S4].
    repeat split.
    + rewrite map_app. apply SS_snoc; [exact S1|]. simpl. rewrite Hs.
      apply Forall_stamp_le with (t0 := t0); [exact S3|lia].
    + exact S2.
    + apply Forall_app. split.
      * apply Forall_app. split; [eapply Forall_impl; [|exact S3]; simpl; intros; lia|].
        repeat constructor. lia.
      * eapply Forall_impl; [|exact S4]. simpl; intros; lia.
Qed.

Lemma nth_error_split_cases (D C : list node) pos old :
  nth_error (D ++ C) pos = Some old ->
  (pos < length D /\ nth_error D pos = Some old) \/
  (length D <= pos /\ nth_error C (pos - length D) = Some old).
Proof.
  intros H. destruct (Nat.lt_ge_cases pos (length D)) as [L|L].
  - left. split; [exact L|]. rewrite nth_error_app1 in H by exact L. exact H.
  - right. split; [exact L|]. rewrite nth_error_app2 in H by exact L. exact H.
Qed.

Lemma split_remove T l f D C pos old :
  Split T l f D C -> nth_error l pos = Some old ->
  exists D' C', Split T (remove_at pos l) (fcp_after_removal f pos (length (remove_at pos l))) D' C'.
Proof.
  intros (H1 & H2 & H3 & H4 & H5) Hn. subst l.
  destruct (nth_error_split_cases D C pos old Hn) as [[L Hd]|[L Hc]].
  - exists (remove_at pos D), C. rewrite remove_at_app_l by exact L. repeat split.
    + apply Forall_remove_at. exact H2.
    + exact H3.
    + subst f. unfold fcp_of, fcp_after_removal. destruct C as [|c0 C]; [reflexivity|].
      apply Nat.ltb_lt in L. rewrite L. f_equal. apply Nat.ltb_lt in L.
      rewrite remove_at_length by exact L. reflexivity.
    + destruct T as [t0|]; [|exact I]. destruct H5 as (S1 & S2 & S3).
      apply Forall_app in S3. destruct S3 as [S3 S4]. repeat split.
      * rewrite map_remove_at. apply SS_remove_at. exact S1.
      * exact S2.
      * apply Forall_app. split; [apply Forall_remove_at; exact S3|exact S4].
  - remember (pos - length D) as j eqn:Ej.
    assert (Ep : pos = length D + j) by lia. subst pos. clear Ej L.
    exists D, (remove_at j C).
    rewrite remove_at_app_r. repeat split.
    + exact H2.
    + apply Forall_remove_at. exact H3.
    + subst f. assert (Hlt : j < length C) by (apply nth_error_Some; congruence).
      unfold fcp_of, fcp_after_removal. destruct C as [|c0 C]; [simpl in Hlt; lia|].
      assert (E1 : Nat.ltb (length D + j) (length D) = false) by (apply Nat.ltb_ge; lia).
      rewrite E1. rewrite app_length, remove_at_length by exact Hlt.
      destruct (remove_at j (c0 :: C)) as [|r0 R] eqn:ER.
      * assert (length (remove_at j (c0 :: C)) = 0) as E0 by (rewrite ER; reflexivity).
        rewrite remove_at_length in E0 by exact Hlt.
        assert (E2 : Nat.ltb (length D) (length D + (length (c0 :: C) - 1)) = false)
          by (apply Nat.ltb_ge; lia).
        rewrite E2. reflexivity.
      * assert (length (remove_at j (c0 :: C)) = S (length R)) as E0 by (rewrite ER; reflexivity).
        rewrite remove_at_length in E0 by exact Hlt.
        assert (E2 : Nat.ltb (length D) (length D + (length (c0 :: C) - 1)) = true)
          by (apply Nat.ltb_lt; lia).
        rewrite E2. reflexivity.
    + destruct T as [t0|]; [|exact I]. destruct H5 as (S1 & S2 & S3).
      apply Forall_app in S3. destruct S3 as [S3 S4]. repeat split.
      * exact S1.
      * rewrite map_remove_at. apply SS_remove_at. exact S2.
      * apply Forall_app. split; [exact S3|apply Forall_remove_at; exact S4].
Qed.

(* the fcp computed by update_status after removing the old node is the one of
   update_first_connected_pos_for_removal *)
Lemma status_fcp_eq T l f D C pos old :
  Split T l f D C -> nth_error l pos = Some old ->
  (if nconn old then
     match f with
     | Some p => if Nat.eqb p pos && Nat.eqb pos (length (remove_at pos l)) then None else Some p
     | None => None
     end
   else match f with Some (S q) => Some q | _ => None end)
  = fcp_after_removal f pos (length (remove_at pos l)).
Proof.
  intros (H1 & H2 & H3 & H4 & H5) Hn. subst l.
  assert (Hpos : pos < length (D ++ C)) by (apply nth_error_Some; congruence).
  rewrite remove_at_length by exact Hpos. rewrite app_length in *.
  destruct (nth_error_split_cases D C pos old Hn) as [[L Hd]|[L Hc]].
  - rewrite Forall_forall in H2. rewrite (H2 old (nth_error_In _ _ Hd)).
    subst f. unfold fcp_of, fcp_after_removal. destruct C as [|c0 C]; [reflexivity|].
    destruct (length D) as [|q] eqn:EL; [lia|].
    assert (E1 : Nat.ltb pos (S q) = true) by (apply Nat.ltb_lt; lia). rewrite E1.
    f_equal. lia.
  - rewrite Forall_forall in H3. rewrite (H3 old (nth_error_In _ _ Hc)).
    subst f. unfold fcp_of, fcp_after_removal. destruct C as [|c0 C]; [destruct (pos - length D); discriminate|].
    assert (E1 : Nat.ltb pos (length D) = false) by (apply Nat.ltb_ge; lia). rewrite E1.
    simpl length in *.
    destruct (Nat.eqb_spec (length D) pos) as [E2|E2]; destruct (Nat.eqb_spec pos (length D + S (length C) - 1)) as [E3|E3];
      destruct (Nat.ltb_spec (length D) (length D + S (length C) - 1)) as [E4|E4]; simpl; try reflexivity; lia.
Qed.

(* ------------------------------------------------------------------------------------------ *)
(* BInv helpers *)

Lemma binv_weaken c T T' loc i b : BInv c T loc i b -> tle T T' -> BInv c T' loc i b.
Proof.
  intros [H1 H2 H3 (D & C & H4) H5] Hle. constructor; auto.
  exists D, C. eapply split_weaken; eauto.
Qed.

Lemma binv_empty c T loc i : BInv c T loc i empty_bucket.
Proof.
  constructor; simpl.
  - lia.
  - intros k [].
  - constructor.
  - exists [], []. apply split_nil.
  - unfold count. simpl. lia.
Qed.

Lemma K_pos : 0 < K.
Proof. vm_compute. lia. Qed.

(* placing a new node [n] in a bucket that is not full *)
Lemma binv_place c T T' loc i b n b' D' C' :
  BInv c T loc i b ->
  bucket_index loc (nkey n) = Some i ->
  ~ In (nkey n) (map nkey (nodes b)) ->
  length (nodes b) < K ->
  (kin n = true -> count kin (nodes b) < max_incoming c) ->
  Permutation (nodes b') (n :: nodes b) ->
  Split T' (nodes b') (fcp b') D' C' ->
  (pend b' = None \/ (pend b' = pend b /\ forall p, pend b = Some p -> nkey (pn p) <> nkey n)) ->
  BInv c T' loc i b'.
Proof.
  intros [H1 H2 H3 _ H5] Hidx Hnin Hlen Hkin Hperm Hsplit Hpend.
  assert (Hk : Permutation (map nkey (nodes b')) (nkey n :: map nkey (nodes b)))
    by (apply (Permutation_map nkey) in Hperm; exact Hperm).
  rewrite bkeys_eq in H2, H3.
  constructor.
  - rewrite (Permutation_length Hperm). simpl. lia.
  - intros k Hin. rewrite bkeys_eq in Hin. apply in_app_or in Hin. destruct Hin as [Hin|Hin].
    + apply (Permutation_in _ Hk) in Hin. destruct Hin as [<-|Hin]; [exact Hidx|].
      apply H2. apply in_or_app. left. exact Hin.
    + destruct Hpend as [E|[E _]]; rewrite E in Hin; [destruct Hin|].
      apply H2. apply in_or_app. right. exact Hin.
  - rewrite bkeys_eq.
    assert (Hn1 : NoDup (map nkey (nodes b'))).
    { eapply Permutation_NoDup; [apply Permutation_sym; exact Hk|].
      constructor; [exact Hnin|]. eapply NoDup_app_remove_r. exact H3. }
    destruct Hpend as [E|[E Hne]]; rewrite E; [simpl; rewrite app_nil_r; exact Hn1|].
    eapply Permutation_NoDup.
    { apply Permutation_app_tail. apply Permutation_sym. exact Hk. }
    simpl. constructor; [|exact H3].
    intros Hin. apply in_app_or in Hin. destruct Hin as [Hin|Hin]; [exact (Hnin Hin)|].
    destruct (pend b) as [p|]; simpl in Hin; [|exact Hin].
    destruct Hin as [Hin|[]]. exact (Hne p eq_refl Hin).
  - exists D', C'. exact Hsplit.
  - rewrite (count_perm kin _ _ Hperm), count_cons.
    destruct (kin n); [specialize (Hkin eq_refl)|]; lia.
Qed.

(* removing the node at position [pos] *)
Lemma binv_remove c T loc i b pos old b' :
  BInv c T loc i b ->
  nth_error (nodes b) pos = Some old ->
  nodes b' = remove_at pos (nodes b) ->
  fcp b' = fcp_after_removal (fcp b) pos (length (remove_at pos (nodes b))) ->
  (pend b' = None \/ pend b' = pend b) ->
  BInv c T loc i b'.
Proof.
  intros [H1 H2 H3 (D & C & H4) H5] Hn En Ef Hpend.
  pose proof (remove_at_perm _ _ _ Hn) as Hperm.
  assert (Hk : Permutation (map nkey (nodes b)) (nkey old :: map nkey (nodes b')))
    by (rewrite En; apply (Permutation_map nkey) in Hperm; exact Hperm).
  rewrite bkeys_eq in H2, H3.
  constructor.
  - rewrite En. pose proof (remove_at_length' pos (nodes b)). lia.
  - intros k Hin. rewrite bkeys_eq in Hin. apply H2. apply in_app_or in Hin. apply in_or_app.
    destruct Hin as [Hin|Hin].
    + left. apply (Permutation_in _ (Permutation_sym Hk)). right. exact Hin.
    + destruct Hpend as [E|E]; rewrite E in Hin; [destruct Hin|]. right. exact Hin.
  - rewrite bkeys_eq.
    assert (Hn2 : NoDup ((nkey old :: map nkey (nodes b')) ++ map (fun p => nkey (pn p)) (opt_list (pend b)))).
    { eapply Permutation_NoDup; [apply Permutation_app_tail; exact Hk|exact H3]. }
    simpl in Hn2. inversion Hn2; subst.
    destruct Hpend as [E|E]; rewrite E; [|assumption].
    simpl. rewrite app_nil_r. eapply NoDup_app_remove_r. eassumption.
  - destruct (split_remove _ _ _ _ _ _ _ H4 Hn) as (D' & C' & HS).
    exists D', C'. rewrite En, Ef. exact HS.
  - rewrite En. pose proof (count_remove_at_le kin pos (nodes b)). lia.
Qed.

(* changing only the pending slot *)
Lemma binv_set_pend c T loc i b b' :
  BInv c T loc i b -> nodes b' = nodes b -> fcp b' = fcp b ->
  (forall p, pend b' = Some p ->
     bucket_index loc (nkey (pn p)) = Some i /\ ~ In (nkey (pn p)) (map nkey (nodes b))) ->
  BInv c T loc i b'.
Proof.
  intros [H1 H2 H3 H4 H5] En Ef Hp. rewrite bkeys_eq in H2, H3.
  constructor; rewrite ?En, ?Ef; auto.
  - intros k Hin. rewrite bkeys_eq, En in Hin. apply in_app_or in Hin. destruct Hin as [Hin|Hin].
    + apply H2. apply in_or_app. left. exact Hin.
    + destruct (pend b') as [p|]; simpl in Hin; [|destruct Hin]. destruct Hin as [<-|[]]. apply (Hp p eq_refl).
  - rewrite bkeys_eq, En. apply NoDup_app_remove_r in H3.
    destruct (pend b') as [p|]; simpl; [|rewrite app_nil_r; exact H3].
    apply NoDup_incl_NoDup with (l := nkey (pn p) :: map nkey (nodes b)).
    + constructor; [apply (Hp p eq_refl)|exact H3].
    + rewrite app_length. simpl. lia.
    + intros x [<-|Hx]; apply in_or_app; [right; left; reflexivity|left; exact Hx].
Qed.

Lemma binv_pend_facts c T loc i b p :
  BInv c T loc i b -> pend b = Some p ->
  bucket_index loc (nkey (pn p)) = Some i /\ ~ In (nkey (pn p)) (map nkey (nodes b)).
Proof.
  intros [H1 H2 H3 H4 H5] E. rewrite bkeys_eq, E in H2, H3. simpl in *. split.
  - apply H2. apply in_or_app. right. left. reflexivity.
  - intros Hin. apply NoDup_remove_2 in H3. rewrite app_nil_r in H3. exact (H3 Hin).
Qed.

Lemma binv_same_shape c T loc i b b' :
  BInv c T loc i b -> nodes b' = nodes b -> fcp b' = fcp b -> pend b' = pend b -> BInv c T loc i b'.
Proof. destruct b, b'; simpl; intros H -> -> ->. exact H. Qed.

Lemma binv_not_full c T loc i b : BInv c T loc i b -> is_full b = false -> length (nodes b) < K.
Proof.
  intros HB H. pose proof (bi_len _ _ _ _ _ HB). unfold is_full in H. apply Nat.eqb_neq in H. lia.
Qed.

(* ------------------------------------------------------------------------------------------ *)
(* KBucket::insert *)

Lemma b_insert_inv c T T' loc i b n0 now :
  BInv c T loc i b -> tm T now T' -> bucket_index loc (nkey n0) = Some i ->
  BInv c T' loc i (fst (b_insert c b n0 now)).
Proof.
  intros HB Htm Hidx.
  assert (HW : BInv c T' loc i b) by (eapply binv_weaken; [exact HB|eapply tm_tle; exact Htm]).
  unfold b_insert. cbv zeta.
  remember (set_stamp n0 now) as n eqn:En.
  assert (Hk : nkey n = nkey n0) by (subst n; reflexivity).
  assert (Hst : nstamp n = now) by (subst n; reflexivity).
  rewrite <- Hk in Hidx. clear Hk En.
  destruct (position (nkey n) (nodes b)) eqn:Hpos; [exact HW|].
  apply position_none in Hpos.
  destruct (negb (run_filter (bfilter c) (nval n) (values (nodes b)))); [exact HW|].
  remember (match pend b with Some p => N.eqb (nkey (pn p)) (nkey n) | None => false end) as ip eqn:Eip.
  assert (Hne : ip = false -> forall p, pend b = Some p -> nkey (pn p) <> nkey n).
  { intros E p Ep. rewrite Ep, E in Eip. apply N.eqb_neq. symmetry. exact Eip. }
  clear Eip.
  destruct (bi_split _ _ _ _ _ HB) as (D & C & HS).
  destruct (nconn n) eqn:Hc.
  - destruct (nin n && is_max_incoming c b) eqn:Hmi; [exact HW|].
    destruct (is_full b) eqn:Hfull.
    + destruct (fcp b) as [[|q]|] eqn:Ef; destruct (pend b) eqn:Ep; try exact HW;
        (destruct (nodes b) as [|h tl] eqn:Enodes; [exact HW|]); simpl fst;
        (eapply binv_set_pend; [exact HW|simpl; symmetry; exact Enodes|simpl; symmetry; exact Ef|]);
        simpl; intros p' Hp'; inversion Hp'; subst p'; simpl; (split; [exact Hidx|rewrite Enodes; exact Hpos]).
    + pose proof (split_app_conn _ _ _ _ _ _ _ _ HS Htm Hc Hst) as HS'.
      destruct ip; simpl fst;
      (apply (binv_place c T T' loc i b n _ D (C ++ [n]) HB Hidx Hpos);
       [eapply binv_not_full; eassumption
       |unfold kin; rewrite Hc; simpl; intros Hi; rewrite Hi in Hmi; simpl in Hmi;
        unfold is_max_incoming in Hmi; apply Nat.leb_gt in Hmi; exact Hmi
       |simpl; apply Permutation_sym, Permutation_cons_append
       |simpl; exact HS'
       |simpl]).
      * left; reflexivity.
      * right. split; [reflexivity|apply Hne; reflexivity].
  - destruct (is_full b) eqn:Hfull; [exact HW|].
    pose proof (split_ins_disc _ _ _ _ _ _ _ _ HS Htm Hc Hst) as HS'.
    destruct (fcp b) as [p|] eqn:Ef; destruct ip; simpl fst;
      (apply (binv_place c T T' loc i b n _ (D ++ [n]) C HB Hidx Hpos);
       [eapply binv_not_full; eassumption
       |unfold kin; rewrite Hc; simpl; discriminate
       |simpl; first [apply insert_at_perm|apply Permutation_sym, Permutation_cons_append]
       |simpl; exact HS'
       |simpl; first [left; reflexivity|right; split; [reflexivity|apply Hne; reflexivity]]]).
Qed.

(* ------------------------------------------------------------------------------------------ *)
(* KBucket::apply_pending *)

Lemma split_head_disc T h rest f D C :
  Split T (h :: rest) f D C -> nconn h = false -> f <> Some 0.
Proof.
  intros (H1 & H2 & H3 & H4 & H5) Hh E. subst f. unfold fcp_of in E.
  destruct C as [|c0 C]; [discriminate|]. inversion E as [E0].
  destruct D; [|discriminate]. simpl in H1. inversion H1; subst.
  inversion H3; subst. congruence.
Qed.

Lemma fst_b_insert_match {X} c b n now (f : bucket -> bins -> X) g :
  (forall b1 r, g (f b1 r) = b1) ->
  g (let (b1, r) := b_insert c b n now in f b1 r) = fst (b_insert c b n now).
Proof. intros H. destruct (b_insert c b n now) as [b1 r]. apply H. Qed.

Lemma b_apply_pending_inv c T T' loc i b now :
  BInv c T loc i b -> tm T now T' -> BInv c T' loc i (fst (b_apply_pending c b now)).
Proof.
  intros HB Htm.
  assert (HW : BInv c T' loc i b) by (eapply binv_weaken; [exact HB|eapply tm_tle; exact Htm]).
  unfold b_apply_pending. destruct (pend b) as [p|] eqn:Ep; [|exact HW]. cbv zeta.
  destruct (binv_pend_facts _ _ _ _ _ _ HB Ep) as [Hpidx Hpnin].
  set (b0 := {| nodes := nodes b; fcp := fcp b; pend := None |}).
  assert (HB0 : BInv c T loc i b0).
  { eapply binv_set_pend; [exact HB|reflexivity|reflexivity|]. simpl. intros; discriminate. }
  assert (HW0 : BInv c T' loc i b0) by (eapply binv_weaken; [exact HB0|eapply tm_tle; exact Htm]).
  destruct (N.leb (preplace p) now); [|exact HW].
  destruct (is_full b0) eqn:Hfull.
  - change (nodes b0) with (nodes b). change (fcp b0) with (fcp b).
    destruct (nodes b) as [|h rest] eqn:Enodes; [exact HW0|].
    destruct (nconn h) eqn:Hh; [exact HW0|].
    destruct (negb (run_filter (bfilter c) (nval (pn p)) (values (h :: rest)))); [exact HW0|].
    destruct (nconn (pn p) && nin (pn p) && is_max_incoming c b0) eqn:Hmi; [exact HW0|].
    remember (set_stamp (pn p) now) as n eqn:En.
    assert (Hk : nkey n = nkey (pn p)) by (subst n; reflexivity).
    assert (Hc' : nconn n = nconn (pn p)) by (subst n; reflexivity).
    assert (Hi' : nin n = nin (pn p)) by (subst n; reflexivity).
    assert (Hst : nstamp n = now) by (subst n; reflexivity).
    clear En.
    destruct (bi_split _ _ _ _ _ HB) as (D & C & HS). rewrite Enodes in HS.
    pose proof (split_head_disc _ _ _ _ _ _ HS Hh) as Hf0.
    set (bm := {| nodes := rest; fcp := fcp_after_removal (fcp b) 0 (length rest); pend := None |}).
    assert (HBm : BInv c T loc i bm).
    { eapply binv_remove with (b := b) (pos := 0) (old := h); [exact HB|rewrite Enodes; reflexivity| | |].
      - rewrite Enodes. reflexivity.
      - rewrite Enodes. reflexivity.
      - left; reflexivity. }
    destruct (bi_split _ _ _ _ _ HBm) as (D1 & C1 & HS1). simpl in HS1.
    assert (Hidx : bucket_index loc (nkey n) = Some i) by (rewrite Hk; exact Hpidx).
    assert (Hnin : ~ In (nkey n) (map nkey (nodes bm))).
    { rewrite Hk. simpl. intros Hin. apply Hpnin. right. exact Hin. }
    assert (Hlen : length (nodes bm) < K).
    { pose proof (bi_len _ _ _ _ _ HB) as L. rewrite Enodes in L. simpl in *. lia. }
    assert (Hkin : kin n = true -> count kin (nodes bm) < max_incoming c).
    { unfold kin. rewrite Hc', Hi'. intros E. rewrite E in Hmi. simpl in Hmi.
      unfold is_max_incoming in Hmi. apply Nat.leb_gt in Hmi. simpl in Hmi.
      rewrite count_cons in Hmi. simpl. lia. }
    destruct (nconn n) eqn:Hc.
    + simpl fst.
      apply (binv_place c T T' loc i bm n _ D1 (C1 ++ [n]) HBm Hidx Hnin Hlen Hkin); simpl.
      * apply Permutation_sym, Permutation_cons_append.
      * pose proof (split_app_conn _ _ _ _ _ _ _ _ HS1 Htm Hc Hst) as HS'.
        destruct (fcp b) as [[|q]|]; [congruence| |]; simpl in HS'; rewrite ?Nat.sub_0_r in HS'; exact HS'.
      * left; reflexivity.
    + pose proof (split_ins_disc _ _ _ _ _ _ _ _ HS1 Htm Hc Hst) as HS'.
      destruct (fcp b) as [[|q]|] eqn:Ef; [congruence| |]; simpl fst; simpl in HS'; rewrite ?Nat.sub_0_r in HS';
        (apply (binv_place c T T' loc i bm n _ (D1 ++ [n]) C1 HBm Hidx Hnin Hlen Hkin); simpl;
         [first [apply insert_at_perm|apply Permutation_sym, Permutation_cons_append]|exact HS'|left; reflexivity]).
  - rewrite (fst_b_insert_match c b0 (pn p) now
       (fun b1 r => match r with BInserted => (b1, Some (nkey (pn p), None)) | _ => (b1, None) end) fst).
    + exact (b_insert_inv c T T' loc i b0 (pn p) now HB0 Htm Hpidx).
    + intros b1 r; destruct r; reflexivity.
Qed.

(* ------------------------------------------------------------------------------------------ *)
(* Buckets that differ only in the values of their nodes *)

Definition sk (n : node) : N * bool * bool * N := (nkey n, nconn n, nin n, nstamp n).

Lemma sk_map {B} (g : N * bool * bool * N -> B) (f : node -> B) :
  (forall n, f n = g (sk n)) -> forall l l', map sk l = map sk l' -> map f l = map f l'.
Proof.
  intros H l l' E. rewrite (map_ext _ _ H l), (map_ext _ _ H l'), <- !(map_map sk g), E. reflexivity.
Qed.

Lemma sk_nkey l l' : map sk l = map sk l' -> map nkey l = map nkey l'.
Proof. apply (sk_map (fun s => fst (fst (fst s)))). reflexivity. Qed.
Lemma sk_nconn l l' : map sk l = map sk l' -> map nconn l = map nconn l'.
Proof. apply (sk_map (fun s => snd (fst (fst s)))). reflexivity. Qed.
Lemma sk_kin l l' : map sk l = map sk l' -> map kin l = map kin l'.
Proof. apply (sk_map (fun s => snd (fst (fst s)) && snd (fst s))). reflexivity. Qed.
Lemma sk_nstamp l l' : map sk l = map sk l' -> map nstamp l = map nstamp l'.
Proof. apply (sk_map (fun s => snd s)). reflexivity. Qed.

Lemma firstn_app_len {A} (a b : list A) : firstn (length a) (a ++ b) = a.
Proof. induction a; simpl; [destruct b; reflexivity|]. rewrite IHa. reflexivity. Qed.
Lemma skipn_app_len {A} (a b : list A) : skipn (length a) (a ++ b) = b.
Proof. induction a; simpl; auto. Qed.

Lemma Forall_via_map {A B} (f : A -> B) (P : B -> Prop) l l' :
  map f l = map f l' -> Forall (fun x => P (f x)) l -> Forall (fun x => P (f x)) l'.
Proof. intros E H. apply Forall_map. rewrite <- E. apply Forall_map. exact H. Qed.

Lemma split_skeleton T l l' f D C :
  Split T l f D C -> map sk l' = map sk l -> exists D' C', Split T l' f D' C'.
Proof.
  intros (H1 & H2 & H3 & H4 & H5) E. subst l.
  exists (firstn (length D) l'), (skipn (length D) l').
  rewrite map_app in E.
  assert (ED : map sk D = map sk (firstn (length D) l')).
  { rewrite <- firstn_map, E. rewrite <- (map_length sk D). rewrite firstn_app_len. reflexivity. }
  assert (EC : map sk C = map sk (skipn (length D) l')).
  { rewrite <- skipn_map, E. rewrite <- (map_length sk D). rewrite skipn_app_len. reflexivity. }
  repeat split.
  - symmetry. apply firstn_skipn.
  - apply (Forall_via_map nconn (fun x => x = false) D); [apply sk_nconn; exact ED|exact H2].
  - apply (Forall_via_map nconn (fun x => x = true) C); [apply sk_nconn; exact EC|exact H3].
  - subst f. unfold fcp_of.
    assert (EL : length D = length (firstn (length D) l'))
      by (pose proof (f_equal (@length _) ED) as X; rewrite !map_length in X; exact X).
    remember (firstn (length D) l') as D' eqn:ED'. remember (skipn (length D) l') as C' eqn:EC'.
    rewrite EL. destruct C, C'; simpl in EC; try discriminate; reflexivity.
  - destruct T as [t0|]; [|exact I]. destruct H5 as (S1 & S2 & S3). repeat split.
    + rewrite <- (sk_nstamp _ _ ED). exact S1.
    + rewrite <- (sk_nstamp _ _ EC). exact S2.
    + apply (Forall_via_map nstamp (fun y => (y <= t0)%N) (D ++ C)); [|exact S3].
      rewrite !map_app, (sk_nstamp _ _ ED), (sk_nstamp _ _ EC). reflexivity.
Qed.

Lemma count_via_map {A} (f : A -> bool) l l' : map f l = map f l' -> count f l = count f l'.
Proof.
  revert l'; induction l as [|x l IH]; intros [|y l'] E; simpl in E; try discriminate; [reflexivity|].
  inversion E. rewrite !count_cons. rewrite (IH l') by assumption. rewrite H0. reflexivity.
Qed.

Lemma binv_same_skeleton c T loc i b b' :
  BInv c T loc i b -> map sk (nodes b') = map sk (nodes b) -> fcp b' = fcp b -> pend b' = pend b ->
  BInv c T loc i b'.
Proof.
  intros [H1 H2 H3 (D & C & H4) H5] En Ef Ep.
  assert (Ek : bkeys b' = bkeys b) by (rewrite !bkeys_eq, Ep, (sk_nkey _ _ En); reflexivity).
  constructor.
  - rewrite <- (map_length sk), En, map_length. exact H1.
  - rewrite Ek. exact H2.
  - rewrite Ek. exact H3.
  - rewrite Ef. eapply split_skeleton; eauto.
  - rewrite (count_via_map kin _ _ (sk_kin _ _ En)). exact H5.
Qed.

(* ------------------------------------------------------------------------------------------ *)
(* KBucket::update_status *)

Lemma in_bkeys_node b n : In n (nodes b) -> In (nkey n) (bkeys b).
Proof. intros H. rewrite bkeys_eq. apply in_or_app. left. apply in_map. exact H. Qed.

Lemma b_update_status_inv c T T' loc i b k conn dir now :
  BInv c T loc i b -> tm T now T' -> BInv c T' loc i (fst (b_update_status c b k conn dir now)).
Proof.
  intros HB Htm.
  assert (HW : BInv c T' loc i b) by (eapply binv_weaken; [exact HB|eapply tm_tle; exact Htm]).
  unfold b_update_status. destruct (position k (nodes b)) as [pos|] eqn:Hpos.
  - destruct (position_some _ _ _ Hpos) as (old & Hn & Hk). rewrite Hn. cbv zeta.
    destruct (bi_split _ _ _ _ _ HB) as (D & C & HS).
    match goal with |- context [b_insert c ?b1 ?n now] => set (bb := b1); set (nn := n) end.
    assert (HB1 : BInv c T loc i bb).
    { eapply binv_remove with (b := b) (pos := pos) (old := old); [exact HB|exact Hn|reflexivity| |].
      - simpl. eapply status_fcp_eq; eassumption.
      - simpl. destruct (Nat.eqb pos 0 && conn); [left|right]; reflexivity. }
    assert (Hidx : bucket_index loc (nkey nn) = Some i).
    { simpl. apply (bi_idx _ _ _ _ _ HB). apply in_bkeys_node. eapply nth_error_In. exact Hn. }
    pose proof (b_insert_inv c T T' loc i bb nn now HB1 Htm Hidx) as HR.
    destruct (b_insert c bb nn now) as [b2 r]. simpl in HR. destruct r; exact HR.
  - destruct (pend b) as [p|] eqn:Ep; [|exact HW].
    destruct (binv_pend_facts _ _ _ _ _ _ HW Ep) as [Hpidx Hpnin].
    destruct (N.eqb (nkey (pn p)) k); [|exact HW].
    simpl fst. eapply binv_set_pend; [exact HW|reflexivity|reflexivity|].
    simpl. intros p' Hp'. inversion Hp'; subst p'. simpl. split; assumption.
Qed.

(* ------------------------------------------------------------------------------------------ *)
(* KBucket::update_value *)

Lemma sk_upd_val l pos old v :
  nth_error l pos = Some old -> map sk (upd_at pos (fun _ => set_val old v) l) = map sk l.
Proof.
  intros Hn. apply map_upd_at_same. intros y Hy. rewrite Hn in Hy. inversion Hy; subst. reflexivity.
Qed.

Lemma b_update_value_inv c T loc i b k v :
  BInv c T loc i b -> BInv c T loc i (fst (b_update_value c b k v)).
Proof.
  intros HB. unfold b_update_value. destruct (position k (nodes b)) as [pos|] eqn:Hpos.
  - destruct (position_some _ _ _ Hpos) as (old & Hn & Hk). rewrite Hn.
    destruct (val_eqb (nval old) v); [exact HB|]. cbv zeta.
    destruct (negb (run_filter (bfilter c) v (values (remove_at pos (nodes b))))); simpl fst.
    + eapply binv_remove with (b := b) (pos := pos) (old := old); [exact HB|exact Hn|reflexivity|reflexivity|].
      right; reflexivity.
    + eapply binv_same_skeleton; [exact HB| |reflexivity|reflexivity].
      simpl. rewrite (insert_remove_upd _ _ _ _ Hn). apply sk_upd_val. exact Hn.
  - destruct (pend b) as [p|] eqn:Ep; [|exact HB].
    destruct (binv_pend_facts _ _ _ _ _ _ HB Ep) as [Hpidx Hpnin].
    destruct (N.eqb (nkey (pn p)) k); [|exact HB].
    simpl fst. eapply binv_set_pend; [exact HB|reflexivity|reflexivity|].
    simpl. intros p' Hp'. inversion Hp'; subst p'. simpl. split; assumption.
Qed.

(* ------------------------------------------------------------------------------------------ *)
(* KBucket::remove, KBucket::update_pending *)

Lemma b_remove_inv c T T' loc i b k now :
  BInv c T loc i b -> tm T now T' -> BInv c T' loc i (fst (b_remove c b k now)).
Proof.
  intros HB Htm. unfold b_remove. destruct (position k (nodes b)) as [pos|] eqn:Hpos.
  - destruct (position_some _ _ _ Hpos) as (old & Hn & Hk). cbv zeta. simpl fst.
    apply b_apply_pending_inv with (T := T); [|exact Htm].
    eapply binv_remove with (b := b) (pos := pos) (old := old); [exact HB|exact Hn|reflexivity|reflexivity|].
    right; reflexivity.
  - simpl. eapply binv_weaken; [exact HB|eapply tm_tle; exact Htm].
Qed.

Lemma b_update_pending_inv c T loc i b conn inc :
  BInv c T loc i b -> BInv c T loc i (b_update_pending b conn inc).
Proof.
  intros HB. unfold b_update_pending. destruct (pend b) as [p|] eqn:Ep; [|exact HB].
  destruct (binv_pend_facts _ _ _ _ _ _ HB Ep) as [Hpidx Hpnin].
  eapply binv_set_pend; [exact HB|reflexivity|reflexivity|].
  simpl. intros p' Hp'. inversion Hp'; subst p'. simpl. split; assumption.
Qed.
