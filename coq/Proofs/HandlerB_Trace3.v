(* C19, trace level: installing session keys, the step, the run, and the theorem
   no_nonce_reuse_partial. *)
From Coq Require Import List Arith NArith Bool Lia.
From Discv5V Require Import Model.Handler Proofs.HandlerB_Base Proofs.HandlerB_Frame Proofs.HandlerB_Session
  Proofs.HandlerB_Auth Proofs.HandlerB_Step Proofs.HandlerB_Nonce Proofs.HandlerB_Trace Proofs.HandlerB_Trace2.
Import ListNotations.
Local Open Scope N_scope.

Definition KeysFresh (G : list key) (se : session) : Prop := forall k, In k (sess_keys se) -> ~ In k G.

Lemma J_mono_G H G G' h : J H G h -> incl G G' -> J H G' h.
Proof. intros [A B K U D G1 G2] Hi. split; auto. - intros; apply Hi; eauto. - intros; apply Hi; eauto. Qed.

(* installing fresh keys: state change described by SessN *)
Lemma J_SessN H G h h' na se :
  J H G h -> SessN na se h h' -> UPres h h' -> ActSubP H h h' -> KeysFresh G se ->
  J H (G ++ sess_keys se) h'.
Proof.
  intros [A B K U D G1 G2] HN HU HA HF.
  (* where a key of a session of h' comes from *)
  assert (Horig : forall na' se' k, In (na', se') (sessions h') -> In k (sess_keys se') ->
            (exists se0, In (na', se0) (sessions h) /\ In k (sess_keys se0) /\ s_counter se0 <= s_counter se') \/
            (na' = na /\ In k (sess_keys se))).
  { intros na' se' k Hin Hk. destruct (HN _ _ Hin) as [[se0 [H1 [H2 H3]]] | [H1 [H3 _]]].
    - destruct (H3 k Hk) as [H4 | H4]; [left; eauto | right; exact H4].
    - right. split; [exact H1 | apply H3; exact Hk]. }
  split.
  - intros k cnt Hu na' se' Hin Hk. destruct (Horig _ _ _ Hin Hk) as [[se0 [H1 [H2 H3]]] | [_ H1]].
    + pose proof (A k cnt Hu na' se0 H1 H2). lia.
    + exfalso. exact (HF k H1 (G2 k cnt Hu)).
  - intros na' l r Hin Hr. destruct (HA _ _ _ Hin Hr) as [[na0 [l0 [H1 H2]]] | H1]; [exact (B _ _ _ H1 H2) | exact H1].
  - intros na1 se1 na2 se2 k H1 H2 K1 K2.
    destruct (Horig _ _ _ H1 K1) as [[sa [Ha [Ka _]]] | [Ea Ka]];
      destruct (Horig _ _ _ H2 K2) as [[sb [Hb [Kb _]]] | [Eb Kb]].
    + exact (K _ _ _ _ k Ha Hb Ka Kb).
    + exfalso. exact (HF k Kb (G1 _ _ _ Ha Ka)).
    + exfalso. exact (HF k Ka (G1 _ _ _ Hb Kb)).
    + congruence.
  - apply HU. exact U.
  - exact D.
  - intros na' se' k Hin Hk. apply in_or_app. destruct (Horig _ _ _ Hin Hk) as [[se0 [H1 [H2 _]]] | [_ H1]].
    + left. exact (G1 _ _ _ H1 H2).
    + right. exact H1.
  - intros k cnt Hu. apply in_or_app. left. exact (G2 k cnt Hu).
Qed.

(* the part of new_session after the purge of the expired sessions: store the new keys *)
Definition install (c : config) (s : st) (na : naddr) (se : session) : st :=
  let (h1, cur) := sess_get c (hs s) na in
  match cur with
  | Some cs =>
    with_hs s (sess_put h1 na {| s_enc := s_enc se; s_dec := s_dec se; s_old := Some (s_enc cs, s_dec cs);
                                 s_await := s_await se; s_counter := s_counter cs; s_used := s_used cs |})
  | None => with_hs s (sess_insert c h1 na se)
  end.

Lemma new_session_install c s na se skip now :
  new_session c s na se skip now =
  let s0 := remove_expired_sessions c s in
  match snd (sess_get c (hs s0) na) with
  | Some _ =>
    let s2 := replay_active_requests c (install c s0 na se) na skip now in
    if fix_d2a c then send_pending_requests c s2 na now else s2
  | None => send_pending_requests c (install c s0 na se) na now
  end.
Proof.
  unfold new_session, install. cbn zeta.
  destruct (sess_get c (hs (remove_expired_sessions c s)) na) as [h1 cur]. cbn [snd]. destruct cur; reflexivity.
Qed.

Lemma install_frame c s na se :
  let s' := install c s na se in
  SessN na se (hs s) (hs s') /\ UPres (hs s) (hs s') /\ active (hs s') = active (hs s) /\ outs s' = outs s.
Proof.
  cbn zeta. unfold install.
  pose proof (QH_sess_get c (hs s) na) as Hg. pose proof (sess_get_got c (hs s) na) as Hgot.
  pose proof (sess_get_stored c (hs s) na) as Hst.
  pose proof (active_sess_get c (hs s) na) as Hact.
  destruct (sess_get c (hs s) na) as [h1 cur]. cbn [fst snd] in Hg, Hgot, Hst, Hact.
  destruct Hg as [_ [Dg Ug]].
  destruct cur as [cs |].
  - split; [| split; [| split; [cbn; exact Hact | reflexivity]]].
    + destruct (Hst _ eq_refl) as [s00 [Eg [_ Et]]]. subst cs.
      intros na' se' H. cbn [hs with_hs sess_put sessions set_sessions] in H.
      apply In_alist_set in H. destruct H as [H | H].
      * inversion H; subst na' se'. left. exists s00. split; [apply alist_get_In; exact Eg |].
        split; [cbn; lia |]. intros k Hk. unfold sess_keys in Hk. cbn in Hk.
        destruct Hk as [Hk | [Hk | [Hk | [Hk | []]]]]; subst k.
        -- right. split; [reflexivity | left; reflexivity].
        -- right. split; [reflexivity | right; left; reflexivity].
        -- left. left. reflexivity.
        -- left. right. left. reflexivity.
      * left. destruct (Dg _ _ H) as [se0 [H1 [H2 H3]]].
        exists se0. split; [exact H1 | split; [exact H3 |]]. intros k Hk. left. apply H2. exact Hk.
    + intros HU. apply Ug in HU. unfold SessUniq in *.
      cbn [hs with_hs sess_put sessions set_sessions]. rewrite alist_set_keys; [exact HU |].
      apply in_map_iff. exists (na, cs). split; [reflexivity | apply Hgot; reflexivity].
  - split; [| split; [| split; [cbn; exact Hact | reflexivity]]].
    + intros na' se' H. cbn [hs with_hs sess_insert sessions set_sessions] in H.
      assert (H' : In (na', se') (alist_remove na (sessions h1) ++ [(na, touch se (cfg_clock c))])).
      { destruct (Nat.ltb _ _); [apply tl_In |]; exact H. }
      apply in_app_or in H'. destruct H' as [H' | [H' | []]].
      * apply In_alist_remove in H'. left. destruct (Dg _ _ H') as [se0 [H1 [H2 H3]]].
        exists se0. split; [exact H1 | split; [exact H3 |]]. intros k Hk. left. apply H2. exact Hk.
      * inversion H'; subst na' se'. right. split; [reflexivity | apply touch_desc].
    + intros HU. apply Ug in HU. unfold SessUniq in *.
      cbn [hs with_hs sess_insert sessions set_sessions].
      pose proof (to_back_NoDup na (touch se (cfg_clock c)) _ HU) as HN.
      destruct (Nat.ltb _ _); [| exact HN]. rewrite map_tl'. apply NoDup_tl. exact HN.
Qed.

Lemma JJ_install hist G c s na se :
  JJ hist G s -> KeysFresh G se -> JJ hist (G ++ sess_keys se) (install c s na se).
Proof.
  intros HJ HF. destruct (install_frame c s na se) as [HN [HU [HA HO]]]. unfold JJ. rewrite HO.
  eapply J_SessN; [exact HJ | exact HN | exact HU | apply ActSubP_same; exact HA | exact HF].
Qed.

(* the purge: sessions only disappear, one event *)
Lemma JP_remove_expired_sessions c s : JP s (remove_expired_sessions c s).
Proof.
  intros hist G HJ. destruct (QuietF_remove_expired c s) as [Hq Ho].
  eapply JJ_events; [exact HJ | exact Hq | | eapply OutsExt_weaken; [apply failed_out_none | exact Ho]].
  apply ActSubP_same. destruct (remove_expired_sessions_hs c s) as [E | E]; rewrite E; reflexivity.
Qed.

Lemma JJ_new_session hist G c s na se skip now :
  JJ hist G s -> KeysFresh G se -> JJ hist (G ++ sess_keys se) (new_session c s na se skip now).
Proof.
  intros HJ HF. rewrite new_session_install. cbn zeta.
  pose proof (JJ_install hist G c _ na se (JP_remove_expired_sessions c s hist G HJ) HF) as Hi.
  destruct (snd (sess_get c (hs (remove_expired_sessions c s)) na)).
  - destruct (fix_d2a c).
    + apply JP_send_pending_requests. apply JP_replay. exact Hi.
    + apply JP_replay. exact Hi.
  - apply JP_send_pending_requests. exact Hi.
Qed.

(* ------------------------------------------------------------------------------------------ *)
(* the keys a step installs *)

Definition hc_keys (c : config) (s : st) (src : addr) (n : nonce) (cd : N) : list key :=
  match nmap_get n (nmap (hs s)) with
  | None => []
  | Some _ =>
    match snd (ar_remove_by_nonce (hs s) n) with
    | None => []
    | Some (na, r) =>
      if negb (N.eqb (snd na) src) then [] else
      if rc_hs_sent r || c_ed (rc_contact r) then [] else
      let eph := snd (fst (pop_pk (dr s))) in
      let X := c_id (rc_contact r) in
      [mk_key eph X cd (cfg_local c) X false; mk_key eph X cd (cfg_local c) X true]
    end
  end.

Definition installed_keys (c : config) (s0 : st) (e : event) : list key :=
  match e with
  | EvInbound from (PHs src n aad sg eph ok rec ct) =>
    match chall_get (src, from) (challenges (hs s0)) with
    | Some ch => match establish c src ch sg eph ok rec with EstOk se _ => sess_keys se | _ => [] end
    | None => []
    end
  | EvInbound from (PWho n idn seq cd) => hc_keys c s0 from n cd
  | _ => []
  end.

Lemma JJ_G_nil hist G s : JJ hist G s -> JJ hist (G ++ []) s.
Proof. rewrite app_nil_r. auto. Qed.

Lemma JJ_handle_auth_message hist G c s na n aad sg eph eph_ok rec ct now :
  JJ hist G s ->
  let ik := match chall_get na (challenges (hs s)) with
            | Some ch => match establish c (fst na) ch sg eph eph_ok rec with EstOk se _ => sess_keys se | _ => [] end
            | None => []
            end in
  (forall k, In k ik -> ~ In k G) ->
  JJ hist (G ++ ik) (handle_auth_message c s na n aad sg eph eph_ok rec ct now).
Proof.
  intros HJ. cbn zeta. unfold handle_auth_message.
  destruct (chall_get na (challenges (hs s))) as [ch |]; [| intros _; apply JJ_G_nil; exact HJ].
  set (s1 := with_hs s (set_challenges (hs s) (chall_remove na (challenges (hs s))))).
  assert (H1 : JJ hist G s1).
  { apply JJ_with_hs; [exact HJ | apply SessD_same; reflexivity | apply UPres_same; reflexivity |
                       apply ActSubP_same; reflexivity]. }
  destruct (establish c (fst na) ch sg eph eph_ok rec) as [se e | |]; intros HF.
  - apply JP_handle_message. apply JJ_new_session; [| exact HF].
    destruct (verify_enr e na); apply JJ_emit_event; apply JJ_remove_expected; exact H1.
  - apply JJ_G_nil.
    apply JJ_with_hs; [exact H1 | apply SessD_same; reflexivity | apply UPres_same; reflexivity |
                       apply ActSubP_same; reflexivity].
  - apply JJ_G_nil. apply JP_fail_session. destruct (fix_d6 c); [apply JJ_remove_expected |]; exact H1.
Qed.

Lemma JJ_handle_challenge hist G c s src n seq cd now :
  JJ hist G s -> (forall k, In k (hc_keys c s src n cd) -> ~ In k G) ->
  JJ hist (G ++ hc_keys c s src n cd) (handle_challenge c s src n seq cd now).
Proof.
  intros HJ. unfold handle_challenge, hc_keys.
  destruct (nmap_get n (nmap (hs s))) as [na0 |]; [| intros _; apply JJ_G_nil; exact HJ].
  pose proof (QH_ar_remove_by_nonce (hs s) n) as Hq.
  pose proof (ActSubP_ar_remove_by_nonce (hist ++ outs s) (hs s) n) as Ha.
  pose proof (ar_remove_by_nonce_found (hs s) n) as Hf.
  destruct (ar_remove_by_nonce (hs s) n) as [h1 found]. cbn [fst snd] in Hq, Ha, Hf |- *.
  assert (H1 : JJ hist G (with_hs s h1)) by (apply JJ_with_hs_QH; assumption).
  destruct found as [[na r] |]; [| intros _; apply JJ_G_nil; exact H1].
  destruct (Hf na r eq_refl) as [nax [lx [Hl Hr]]].
  pose proof (J_B _ _ _ HJ _ _ _ Hl Hr) as Hpk.
  destruct (negb (N.eqb (snd na) src)).
  { intros _. apply JJ_G_nil.
    apply JJ_with_hs_QH; [exact HJ | eapply QH_trans; [exact Hq | apply QH_ar_insert] |].
    eapply ActSubP_trans; [exact Ha | apply ActSubP_ar_insert; exact Hpk]. }
  destruct (rc_hs_sent r || c_ed (rc_contact r)).
  { intros _. apply JJ_G_nil. apply JP_fail_request.
    destruct (fix_d6 c); [apply JJ_remove_expected |]; exact H1. }
  cbn zeta. set (ct := rc_contact r).
  change (dr (with_hs s h1)) with (dr s).
  destruct (pop_pk (dr s)) as [[[[cn rr] aad] eph] d']. cbn [fst snd].
  intros HF.
  set (ke := mk_key eph (c_id ct) cd (cfg_local c) (c_id ct) false).
  set (kd := mk_key eph (c_id ct) cd (cfg_local c) (c_id ct) true).
  set (auth := PHs (cfg_local c) (cn, rr) aad (Sig (cfg_local c) cd eph (c_id ct)) eph true
                 (if N.ltb seq (e_seq (cfg_enr c)) then Some (cfg_enr c) else None)
                 (CEnc ke (cn, rr) (MReq (rc_rid r) (rc_body r)) aad)).
  (* state after re-inserting the request with the handshake packet and sending it *)
  assert (H4 : forall r', rc_pkt r' = auth ->
            JJ hist G (send (with_hs {| hs := hs (with_hs s h1); dr := d'; outs := outs (with_hs s h1) |}
                               (ar_insert c (hs {| hs := hs (with_hs s h1); dr := d'; outs := outs (with_hs s h1) |})
                                  (c_naddr ct) r' now)) (c_naddr ct) auth)).
  { intros r' Er'. apply JJ_send_pkt; [| intros []].
    apply JJ_with_hs; [exact H1 | apply SessD_same; reflexivity | apply UPres_same; reflexivity |].
    apply ActSubP_ar_insert. unfold PktOK. rewrite Er'. intros []. }
  destruct (c_enr ct) as [e |].
  - assert (HFse : KeysFresh G {| s_enc := ke; s_dec := kd; s_old := None; s_await := None; s_counter := 0; s_used := 0 |}).
    { intros k Hk. apply HF. exact Hk. }
    change [ke; kd] with (sess_keys {| s_enc := ke; s_dec := kd; s_old := None; s_await := None; s_counter := 0; s_used := 0 |}).
    apply JJ_new_session; [| exact HFse].
    apply JJ_emit_event. apply H4. reflexivity.
  - destruct (pop_rid _) as [irid d''].
    match goal with |- context [send_request c ?s5 ct false irid 0 now] =>
      pose proof (JP_send_request c s5 ct false irid 0 now hist G) as H6;
      destruct (send_request c s5 ct false irid 0 now) as [s6 ok] end.
    cbn [fst] in H6.
    assert (HFse : KeysFresh G {| s_enc := ke; s_dec := kd; s_old := None; s_await := Some irid; s_counter := 0; s_used := 0 |}).
    { intros k Hk. apply HF. exact Hk. }
    change [ke; kd] with (sess_keys {| s_enc := ke; s_dec := kd; s_old := None; s_await := Some irid; s_counter := 0; s_used := 0 |}).
    apply JJ_new_session; [| exact HFse].
    apply H6. apply (JJ_dr hist G _ d''). apply H4. reflexivity.
Qed.

Lemma JJ_dispatch hist G c s0 e now :
  JJ hist G s0 -> (forall k, In k (installed_keys c s0 e) -> ~ In k G) ->
  JJ hist (G ++ installed_keys c s0 e) (dispatch c s0 e now).
Proof.
  intros HJ HF. destruct e as [ct rid body | na rid rb | na n known | from p |]; cbn [dispatch installed_keys] in *.
  - apply JJ_G_nil. pose proof (JP_send_request c s0 ct true rid body now hist G HJ) as H.
    destruct (send_request c s0 ct true rid body now) as [s1 ok]. cbn [fst] in H.
    destruct ok; [exact H | apply JJ_emit_event; exact H].
  - apply JJ_G_nil. apply JP_send_response. exact HJ.
  - apply JJ_G_nil. apply JP_send_challenge. exact HJ.
  - destruct p as [src n aad ct | n idn seq cd | src n aad sg eph eph_ok rec ct].
    + apply JJ_G_nil. apply JP_handle_message. exact HJ.
    + apply JJ_handle_challenge; assumption.
    + apply (JJ_handle_auth_message hist G c s0 (src, from)); assumption.
  - apply JJ_G_nil. exact HJ.
Qed.

Local Transparent tick.
Lemma tick_JP c h now d : JP {| hs := h; dr := d; outs := [] |} (tick c h now d).
Proof. unfold tick. apply JP_fire_due. Qed.
Global Opaque tick.

(* one step: history hist, ghost G *)
Lemma J_step c h e now d hist G :
  J hist G h ->
  let ik := installed_keys c (tick c h now d) e in
  (forall k, In k ik -> ~ In k G) ->
  J (hist ++ snd (step c h e now d)) (G ++ ik) (fst (step c h e now d)).
Proof.
  intros HJ ik HF. rewrite step_eq. cbn [fst snd].
  assert (H0 : JJ hist G (tick c h now d)).
  { apply (tick_JP c h now d hist G).
    unfold JJ. cbn [outs hs]. rewrite app_nil_r. exact HJ. }
  exact (JJ_dispatch hist G (with_clock c now) (tick c h now d) e now H0 HF).
Qed.

(* "Key terms are not installed twice": the keys each accepted handshake (a function of the peer's
   ephemeral key and of OUR challenge data, which contains the random id-nonce) and each answered
   WHOAREYOU (a function of OUR ephemeral key draw and the peer's challenge data) install have never been
   installed in a session before.  This is a consequence of the freshness of the (eph, cd) draws of
   distinct handshakes - a hypothesis on the oracle. *)
Fixpoint fresh_installs (c : config) (h : hstate) (G : list key) (evs : list (event * N * draws)) : Prop :=
  match evs with
  | [] => True
  | (e, now, d) :: rest =>
    let ik := installed_keys c (tick c h now d) e in
    (forall k, In k ik -> ~ In k G) /\ fresh_installs c (fst (step c h e now d)) (G ++ ik) rest
  end.

Lemma run_snd_cons c h e now d rest :
  snd (run c h ((e, now, d) :: rest)) = snd (step c h e now d) :: snd (run c (fst (step c h e now d)) rest).
Proof.
  cbn [run]. destruct (step c h e now d) as [h1 o]. cbn [fst snd]. destruct (run c h1 rest) as [h2 os]. reflexivity.
Qed.

Lemma J_run c evs : forall h hist G,
  J hist G h -> fresh_installs c h G evs ->
  exists G', J (hist ++ concat (snd (run c h evs))) G' (fst (run c h evs)).
Proof.
  induction evs as [| [[e now] d] rest IH]; intros h hist G HJ HF.
  - exists G. cbn [run fst snd concat]. rewrite app_nil_r. exact HJ.
  - cbn [fresh_installs] in HF. destruct HF as [HF1 HF2].
    pose proof (J_step c h e now d hist G HJ HF1) as H1. cbn zeta in H1.
    destruct (IH _ _ _ H1 HF2) as [G' H2]. exists G'.
    rewrite run_snd_cons, run_fst_cons. cbn [concat]. rewrite app_assoc. exact H2.
Qed.

(* no_nonce_reuse_partial.  In any run from the initial state in which key terms are not installed
   twice, any two datagrams emitted (in any steps) that are message packets carrying ciphertexts under
   the same key with the same 12-byte nonce are the same packet (a retransmission).
   Partial: (1) handshake packets (their message is encrypted under a raw random 12-byte nonce drawn by
   Packet::new_authheader) are not covered - that clause is a statement about the random number
   generator, like the id-nonces; (2) the freshness of installed keys is a hypothesis. *)
Theorem no_nonce_reuse_partial c evs :
  fresh_installs c init_state [] evs ->
  NoReuse (concat (snd (run c init_state evs))).
Proof.
  intros HF. destruct (J_run c evs init_state [] [] (J_init []) HF) as [G' HJ].
  exact (J_D _ _ _ HJ).
Qed.

(* the same, spelled out *)
Corollary no_nonce_reuse_packets c evs d1 d2 s1 n1 a1 s2 n2 a2 k n m m' a a' :
  fresh_installs c init_state [] evs ->
  let W := concat (snd (run c init_state evs)) in
  In (OWire d1 (PMsg s1 n1 a1 (CEnc k n m a))) W ->
  In (OWire d2 (PMsg s2 n2 a2 (CEnc k n m' a'))) W ->
  PMsg s1 n1 a1 (CEnc k n m a) = PMsg s2 n2 a2 (CEnc k n m' a').
Proof.
  intros HF W H1 H2. exact (no_nonce_reuse_partial c evs HF _ _ k n _ _ H1 H2 eq_refl eq_refl).
Qed.

(* the invariant also gives: every message ciphertext emitted under a key of a live session has a
   counter not above the session's counter *)
Corollary emitted_counters_bounded c evs k cnt na se :
  fresh_installs c init_state [] evs ->
  Used (concat (snd (run c init_state evs))) k cnt ->
  In (na, se) (sessions (fst (run c init_state evs))) -> In k (sess_keys se) ->
  cnt <= s_counter se.
Proof.
  intros HF Hu Hin Hk. destruct (J_run c evs init_state [] [] (J_init []) HF) as [G' HJ].
  exact (J_A _ _ _ HJ k cnt Hu na se Hin Hk).
Qed.
